#!/usr/bin/env python3
"""tools/mkdispatch.py: writes units/descdispatch.rs -- the descriptor dispatchers (FieldVisitor::visit_u64 / visit_str) of the typed protocol items,
each against the descriptor table of the AMQP 1.0 specification (codes and names written here from the specification, not read from the code)."""
import os
ROOT = os.path.dirname(os.path.dirname(os.path.abspath(__file__)))
V = "impl de::Visitor<'_> for FieldVisitor"
# (module, file, what, [(variant, code, name)], spec reference)
GROUPS = [
    ('performative', 'fe2o3-amqp-types/src/performatives/mod.rs', 'a performative', [
        ('Open', 0x10, 'amqp:open:list'), ('Begin', 0x11, 'amqp:begin:list'), ('Attach', 0x12, 'amqp:attach:list'), ('Flow', 0x13, 'amqp:flow:list'),
        ('Transfer', 0x14, 'amqp:transfer:list'), ('Disposition', 0x15, 'amqp:disposition:list'), ('Detach', 0x16, 'amqp:detach:list'),
        ('End', 0x17, 'amqp:end:list'), ('Close', 0x18, 'amqp:close:list')], 'AMQP 1.0 part 2, 2.7.1-2.7.9', 'C03 C05 C04'),
    ('sasl_frame', 'fe2o3-amqp/src/frames/sasl.rs', 'a SASL frame body', [
        ('Mechanisms', 0x40, 'amqp:sasl-mechanisms:list'), ('Init', 0x41, 'amqp:sasl-init:list'), ('Challenge', 0x42, 'amqp:sasl-challenge:list'),
        ('Response', 0x43, 'amqp:sasl-response:list'), ('Outcome', 0x44, 'amqp:sasl-outcome:list')], 'AMQP 1.0 part 5, 5.3.3.1-5.3.3.5', 'C03 C05 C04'),
    ('delivery_state', 'fe2o3-amqp-types/src/messaging/delivery_state/delivery_state_impl.rs', 'a delivery state', [
        ('Received', 0x23, 'amqp:received:list'), ('Accepted', 0x24, 'amqp:accepted:list'), ('Rejected', 0x25, 'amqp:rejected:list'),
        ('Released', 0x26, 'amqp:released:list'), ('Modified', 0x27, 'amqp:modified:list'), ('Declared', 0x33, 'amqp:declared:list'),
        ('TransactionalState', 0x34, 'amqp:transactional-state:list')], 'AMQP 1.0 part 3, 3.4.1-3.4.5; part 4, 4.5.5, 4.5.8', 'C03 C05 C04'),
    ('outcome', 'fe2o3-amqp-types/src/messaging/delivery_state/outcome_impl.rs', 'an outcome', [
        ('Accepted', 0x24, 'amqp:accepted:list'), ('Rejected', 0x25, 'amqp:rejected:list'), ('Released', 0x26, 'amqp:released:list'),
        ('Modified', 0x27, 'amqp:modified:list'), ('Declared', 0x33, 'amqp:declared:list')], 'AMQP 1.0 part 3, 3.4.2-3.4.5; part 4, 4.5.5', 'C03 C05 C04'),
    ('body_section', 'fe2o3-amqp-types/src/messaging/message/body.rs', 'a body section', [
        ('Data', 0x75, 'amqp:data:binary'), ('Sequence', 0x76, 'amqp:amqp-sequence:list'), ('Value', 0x77, 'amqp:amqp-value:*')], 'AMQP 1.0 part 3, 3.2.6-3.2.8', 'C03 C05 C04'),
    ('message_section', 'fe2o3-amqp-types/src/messaging/message/mod.rs', 'a message section', [
        ('Header', 0x70, 'amqp:header:list'), ('DeliveryAnnotations', 0x71, 'amqp:delivery-annotations:map'), ('MessageAnnotations', 0x72, 'amqp:message-annotations:map'),
        ('Properties', 0x73, 'amqp:properties:list'), ('ApplicationProperties', 0x74, 'amqp:application-properties:map'),
        ('Body', 0x75, 'amqp:data:binary'), ('Body', 0x76, 'amqp:amqp-sequence:list'), ('Body', 0x77, 'amqp:amqp-value:*'), ('Footer', 0x78, 'amqp:footer:map')], 'AMQP 1.0 part 3, 3.2.1-3.2.9', 'C03 C05 C04 C01'),
    ('target_archetype', 'fe2o3-amqp-types/src/messaging/target.rs', 'a target', [
        ('Target', 0x29, 'amqp:target:list'), ('Coordinator', 0x30, 'amqp:coordinator:list')], 'AMQP 1.0 part 3, 3.5.4; part 4, 4.5.1', 'C03 C05 C04'),
    ('lifetime_policy', 'fe2o3-amqp-types/src/messaging/lifetime_policy.rs', 'a lifetime policy', [
        ('Close', 0x2b, 'amqp:delete-on-close:list'), ('NoLinks', 0x2c, 'amqp:delete-on-no-links:list'), ('NoMessages', 0x2d, 'amqp:delete-on-no-messages:list'),
        ('NoLinksOrMessages', 0x2e, 'amqp:delete-on-no-links-or-messages:list')], 'AMQP 1.0 part 3, 3.5.10-3.5.13', 'C03 C05'),
    ('control_link_frame', 'fe2o3-amqp/src/transaction/control_link_frame.rs', 'a transaction control message', [
        ('Declare', 0x31, 'amqp:declare:list'), ('Discharge', 0x32, 'amqp:discharge:list')], 'AMQP 1.0 part 4, 4.5.2, 4.5.4', 'C03 C05 C18'),
]
out = []
w = out.append
w('//@@ unit DESCDISPATCH')
w('#![feature(allocator_api)]')
w('#![allow(unused_imports, unused_variables, dead_code, unused_mut, unused_parens)]')
w('use vstd::prelude::*;')
w('')
w('verus! {')
w('')
w('//@@ gsubst `serde_amqp::serde::de::Error::custom(__E1)` => `err_custom()` rule=R9')
w('//@@ gsubst `de::Error::custom(__E1)` => `err_custom()` rule=R9')
w('//@@ trusted written by tools/mkdispatch.py from a table: the descriptor codes and names of each group are taken from the AMQP 1.0 specification text (reference per group), not from the code; the error value a dispatcher builds (`de::Error::custom(..)`, with or without `format!`) is a stand-in; R39: a `match` over string-literal patterns is the chain of equality tests it denotes')
w('//@@ trusted the Field enums are extracted with every `#[cfg(feature = "transaction")]` variant present (the units describe the build with `transaction` and `acceptor` on, R12)')
w('pub struct ErrS { pub k: u8 }')
w('#[verifier::external_body]')
w('pub fn err_custom() -> (r: ErrS) { unimplemented!() }')
w('pub trait ErrInto<T>: Sized { spec fn conv(self) -> T; fn err_into(self) -> (r: T) ensures r == self.conv(); }')
w('impl ErrInto<ErrS> for ErrS { open spec fn conv(self) -> ErrS { self } fn err_into(self) -> (r: ErrS) { let e = self; assert(e == <ErrS as ErrInto<ErrS>>::conv(self)); e } }')
w('//@@ type file=serde_amqp/src/format_code.rs kind=enum name=EncodingCodes keeprepr clone')
w('//@@ end')
w('impl Copy for EncodingCodes {}')
w('/// `TryFrom<u8> for EncodingCodes` (under contract in units READERS / ANYDISPATCH: exact, and complete for every constructor of the type system); the constructors this unit speaks about')
w('pub open spec fn known_code(c: u8) -> bool { c == 0xa3 || c == 0xb3 || c == 0x80 || c == 0x53 || c == 0x44 || c == 0x98 || c == 0xa0 || c == 0xb0 || c == 0xa1 || c == 0xb1 || c == 0xe0 || c == 0xf0 }')
w('#[verifier::external_body]')
w('pub fn try_code(v: u8) -> (r: Result<EncodingCodes, ErrS>) ensures r is Ok ==> r->Ok_0 as u8 == v, known_code(v) ==> r is Ok { unimplemented!() }')
w('')
for (mod, f, what, table, ref, props) in GROUPS:
    labs = lambda s: ' '.join('[%s.%s]' % (p, s) for p in props.split())
    w('// ================================================================ %s (%s)' % (mod, f))
    w('pub mod %s {' % mod)
    w('use super::*;')
    w('//@@ type file=%s kind=enum name=Field' % f)
    w('//@@ end')
    w('//@@ strlits lemma=lemma_names_distinct `%s the descriptor names of this group are pairwise different strings` `%s`' % (labs('descriptor.names-distinct'), '|'.join(n for _, _, n in table)))
    w('pub struct FieldVisitor {}')
    w('impl FieldVisitor {')
    w('//@@ fn file=%s impl=`%s` name=visit_u64 id=%s::visit_u64' % (f, V, mod))
    w('//@@ generics')
    w('//@@ nowhere')
    w('//@@ orsplit')
    w('//@@ blockarms')
    w('//@@ ret Result<Field, ErrS>')
    w('//@@ spec')
    w('    ensures')
    for (var, code, name) in table:
        w('        v == 0x%02x ==> r == Ok::<Field, ErrS>(Field::%s),       // %s %s: descriptor code 0x00000000:0x%08x is %s -- decoded as that and as nothing else' % (code, var, labs('descriptor.by-code'), ref, code, name))
    w('//@@ end')
    w('')
    w('//@@ fn file=%s impl=`%s` name=visit_str id=%s::visit_str' % (f, V, mod))
    w('//@@ generics')
    w('//@@ nowhere')
    w('//@@ orsplit')
    w('//@@ blockarms')
    w('//@@ ret Result<Field, ErrS>')
    w('//@@ entry')
    w('    proof { lemma_names_distinct(); }')
    w('//@@ spec')
    w('    ensures')
    for (var, code, name) in table:
        w('        v@ == "%s"@ ==> r == Ok::<Field, ErrS>(Field::%s),       // %s %s: the same type announced by its symbolic descriptor decodes to the same variant as by its code' % (name, var, labs('descriptor.by-name'), ref))
    w('//@@ end')
    w('}')
    w('} // mod %s' % mod)
    w('')
CG = [
    ('descriptor', 'serde_amqp/src/descriptor.rs', V, 'Field', 'a descriptor is a symbol (sym8 / sym32) or a ulong (ulong / smallulong / ulong0), AMQP 1.0 part 1, 1.5',
        [('Name', [0xa3, 0xb3]), ('Code', [0x80, 0x53, 0x44])], None, 'C03 C05 C12'),
    ('annotation_key', 'fe2o3-amqp-types/src/messaging/format/annotations.rs', V, 'Field', 'an annotation key is a symbol or a ulong (AMQP 1.0 part 3, 3.2.10), in every width',
        [('Symbol', [0xa3, 0xb3]), ('Ulong', [0x80, 0x53, 0x44])], None, 'C03 C05'),
    ('message_id', 'fe2o3-amqp-types/src/messaging/format/message_id.rs', V, 'Field', 'a message-id is a ulong, a uuid, a binary or a string (AMQP 1.0 part 3, 3.2.11-3.2.14), in every width',
        [('Ulong', [0x80, 0x53, 0x44]), ('Uuid', [0x98]), ('Binary', [0xa0, 0xb0]), ('String', [0xa1, 0xb1])], None, 'C03 C05'),
    ('array_or_single', 'serde_amqp/src/primitives/array.rs', V, 'Field', 'a multiple field is an array (array8 / array32) of values or one bare value (AMQP 1.0 part 1, 1.4)',
        [('Multiple', [0xe0, 0xf0])], 'Single', 'C03 C05'),
]
for (mod, f, imp, en, what, table, dflt, props) in CG:
    labs = lambda s: ' '.join('[%s.%s]' % (p, s) for p in props.split())
    allc = [c for _, cs in table for c in cs]
    w('// ================================================================ %s (%s)' % (mod, f))
    w('pub mod %s {' % mod)
    w('use super::*;')
    w('//@@ type file=%s kind=enum name=%s' % (f, en))
    w('//@@ end')
    w('pub struct FieldVisitor {}')
    w('impl FieldVisitor {')
    w('//@@ fn file=%s impl=`%s` name=visit_u8 id=%s::visit_u8' % (f, imp, mod))
    w('//@@ generics')
    w('//@@ nowhere')
    w('//@@ orsplit')
    w('//@@ blockarms')
    w('//@@ qmark')
    w('//@@ ret Result<%s, ErrS>' % en)
    w('//@@ subst `v.try_into().map_err(|_v0| de::Error::custom(__E1))` => `try_code(v)` rule=R16')
    w('//@@ spec')
    w('    ensures')
    for (var, codes) in table:
        w('        %s ==> r == Ok::<%s, ErrS>(%s::%s),       // %s %s: every one of these constructors selects this variant' % (' || '.join('v == 0x%02x' % c for c in codes), en, en, var, labs('constructor.every-width-variant'), what))
    if dflt:
        w('        !(%s) && r is Ok ==> r == Ok::<%s, ErrS>(%s::%s),       // %s anything else is the other form' % (' || '.join('v == 0x%02x' % c for c in allc), en, en, dflt, labs('constructor.every-width-variant')))
    w('//@@ end')
    w('}')
    w('} // mod %s' % mod)
    w('')
w('} // verus!')
w('fn main() {}')
open(os.path.join(ROOT, 'units', 'descdispatch.rs'), 'w').write('\n'.join(out) + '\n')
print('wrote units/descdispatch.rs: %d groups, %d functions' % (len(GROUPS) + len(CG), 2 * len(GROUPS) + len(CG)))
