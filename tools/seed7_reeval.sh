#!/bin/bash
# tools/seed7_reeval.sh <seed-id> ...: re-runs every check against stored seeds (no confirmation step) from a snapshot of /verif
SNAP=${SNAP:-/tmp/verif_snap}
mkdir -p $SNAP
rsync -a --delete --exclude .git --exclude build /verif/ $SNAP/
for id in "$@"; do
  echo "=== $id"
  (cd $SNAP && python3 tools/seed_eval.py /nonexistent 0 $id --no-confirm 2>&1 | grep -E "CAUGHT|Error|error:|assert" | head -5)
  cp $SNAP/seeded/$id/meta.json /verif/seeded/$id/meta.json
done
echo ALLDONE
