#!/usr/bin/env python3
"""tools/lookalikes.py: two dev scans over the unit templates (heuristic, by function NAME).
 1. template functions written with a body (not external_body) whose name is also a function of the repository: a hand-written look-alike proves nothing about
    the repository's function -- extract it instead (unless another unit proves the contract it states);
 2. external_body stand-ins whose name is a repository function that NO unit extracts: an assumed contract that is checked nowhere."""
import re, glob, subprocess, os
ROOT = os.path.dirname(os.path.dirname(os.path.abspath(__file__)))
SRC = '/repo/fe2o3-amqp/src /repo/serde_amqp/src /repo/fe2o3-amqp-types/src'
def in_repo(n):
    r = subprocess.run("grep -rln '\\bfn %s\\b' %s | head -2" % (n, SRC), shell=True, stdout=subprocess.PIPE).stdout.decode().split()
    return [x.replace('/repo/', '') for x in r]
ext = set()
for f in glob.glob(ROOT + '/units/*.rs'):
    for l in open(f):
        if l.startswith('//@@ fn'):
            ext.update(re.findall(r'name=([A-Za-z_0-9]+)', l))
print('== 1. bodies written by hand')
names = {}
for f in glob.glob(ROOT + '/units/*.rs'):
    for l in open(f):
        if l.lstrip().startswith('//'):
            continue
        m = re.search(r'\bpub fn ([a-z_0-9]+)\b.*\{(.*)\}\s*$', l)
        if m and 'unimplemented!' not in l and 'spec fn' not in l and 'proof fn' not in l:
            names.setdefault(m.group(1), set()).add(os.path.basename(f)[:-3])
for n, us in sorted(names.items()):
    r = in_repo(n)
    if r:
        print(n, sorted(us)[:3], r[:1], '(extracted somewhere)' if n in ext else '')
print('== 2. assumed stand-ins of repository functions that no unit extracts')
cands = {}
for f in glob.glob(ROOT + '/units/*.rs'):
    L = open(f).read().split('\n')
    for i, l in enumerate(L):
        if 'external_body' in l and i + 1 < len(L):
            m = re.search(r'\bfn ([a-z_0-9]+)\b', L[i + 1])
            if m and m.group(1) not in ext:
                cands.setdefault(m.group(1), set()).add(os.path.basename(f)[:-3])
for n, us in sorted(cands.items()):
    r = in_repo(n)
    if r:
        print(n, sorted(us)[:3], r[:1])
