#!/bin/bash
# tools/seed_reeval_par.sh <workers> <seed-id> ...: re-evaluates stored seeds (no confirmation step) against a snapshot of /verif as it is now,
# <workers> at a time, each worker with its own scratch copy of /repo; the refreshed meta.json files are copied back to /verif/seeded/<id>/
W=$1; shift
SNAP=/tmp/verif_snap_re
mkdir -p $SNAP
rsync -a --delete --exclude .git --exclude build /verif/ $SNAP/
printf '%s\n' "$@" > /tmp/reeval_ids.txt
i=0
for w in $(seq 1 $W); do
  (
    n=0
    while read id; do
      n=$((n+1))
      [ $(( (n-1) % W + 1 )) -eq $w ] || continue
      p=${id%-*}; k=${id##*-}
      echo "=== $id"
      (cd $SNAP && SEED_PROPS=${SEED_PROPS:-} SEED_SCRATCH=/tmp/seedrepo_re_$w python3 tools/seed_eval.py /tmp/none $k $id --no-confirm 2>&1 | grep -E "CAUGHT|Error|error:|assert" | head -3)
      cp $SNAP/seeded/$id/meta.json /verif/seeded/$id/meta.json
    done < /tmp/reeval_ids.txt
    echo WORKERDONE
  ) > /tmp/reeval_w$w.log 2>&1 &
done
wait
echo ALLDONE
