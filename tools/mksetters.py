#!/usr/bin/env python3
"""tools/mksetters.py: writes units/setters.rs -- the builder setters that carry the numbers the properties are about (windows, handle-max, max-frame-size, channel-max,
idle-time-out, settle modes, max-message-size, initial delivery-count, credit mode, auto-accept): each stores the value given in ITS field and leaves every other field alone."""
import os
ROOT = os.path.dirname(os.path.dirname(os.path.abspath(__file__)))
out = []
w = out.append
w('//@@ unit SETTERS')
w('#![feature(allocator_api)]')
w('#![allow(unused_imports, unused_variables, dead_code, unused_mut, unused_parens)]')
w('use vstd::prelude::*;')
w('')
w('verus! {')
w('')
w('//@@ trusted written by tools/mksetters.py from a table. R11: each builder is reduced to the fields the listed setters may touch (a setter touching another field does not compile: undecided); R7: `impl Into<X>` parameters are taken at X (`.into()` of an X is the X); the type-state parameters of the builders are erased')
w('macro_rules! opaque { ($($n:ident),*) => { verus!{ $( #[verifier::external_body] pub struct $n { _p: u8 } )* } } }')
w('opaque!(SenderSettleMode, ReceiverSettleMode, CreditMode);')
w('pub struct Handle(pub u32);')
w('pub struct MaxFrameSize(pub u32);')
w('pub struct ChannelMax(pub u16);')
w('')
GROUPS = [
 ('session', 'fe2o3-amqp/src/session/builder.rs', 'impl Builder',
  'pub struct Builder { pub next_outgoing_id: u32, pub incoming_window: u32, pub outgoing_window: u32, pub handle_max: Handle, pub buffer_size: usize }',
  [('next_outgoing_id', 'value', 'u32', 'next_outgoing_id', 'value', 'C07', 'the initial next-outgoing-id announced in begin'),
   ('incoming_window', 'value', 'u32', 'incoming_window', 'value', 'C07', 'the incoming window announced in begin and re-issued in flows'),
   ('outgoing_window', 'value', 'u32', 'outgoing_window', 'value', 'C07', 'the outgoing window announced in begin'),
   ('handle_max', 'value', 'Handle', 'handle_max', 'value', 'C11', 'the handle-max announced in begin'),
   ('buffer_size', 'buffer_size', 'usize', 'buffer_size', 'buffer_size', 'C07', 'the size of the session queues')]),
 ('connection', 'fe2o3-amqp/src/connection/builder.rs', "impl<'a, Mode, Tls> Builder<'a, Mode, Tls>",
  'pub struct Builder { pub max_frame_size: MaxFrameSize, pub channel_max: ChannelMax, pub idle_time_out: Option<u32>, pub buffer_size: usize }',
  [('max_frame_size', 'max_frame_size', 'MaxFrameSize', 'max_frame_size', 'max_frame_size', 'C06', 'the max-frame-size announced in open and enforced on incoming frames'),
   ('channel_max', 'channel_max', 'ChannelMax', 'channel_max', 'channel_max', 'C17', 'the channel-max announced in open'),
   ('idle_time_out', 'idle_time_out', 'u32', 'idle_time_out', 'Some(idle_time_out)', 'C17', 'the local idle time-out (milliseconds)'),
   ('buffer_size', 'buffer_size', 'usize', 'buffer_size', 'buffer_size', 'C15', 'the size of the connection queues')]),
 ('link', 'fe2o3-amqp/src/link/builder.rs', 'impl<Role, T, NameState, SS, TS> Builder<Role, T, NameState, SS, TS>',
  'pub struct Builder { pub snd_settle_mode: SenderSettleMode, pub rcv_settle_mode: ReceiverSettleMode, pub initial_delivery_count: u32, pub max_message_size: Option<u64>, pub credit_mode: CreditMode, pub auto_accept: bool, pub verify_incoming_source: bool, pub verify_incoming_target: bool }',
  [('sender_settle_mode', 'mode', 'SenderSettleMode', 'snd_settle_mode', 'mode', 'C02', 'the snd-settle-mode announced in attach'),
   ('receiver_settle_mode', 'mode', 'ReceiverSettleMode', 'rcv_settle_mode', 'mode', 'C02', 'the rcv-settle-mode announced in attach'),
   ('max_message_size', 'max_size', 'u64', 'max_message_size', 'Some(max_size)', 'C01', 'the max-message-size announced in attach'),
   ('verify_incoming_source', 'verify', 'bool', 'verify_incoming_source', 'verify', 'C13', 'whether the peer\'s source is verified at attach'),
   ('verify_incoming_target', 'verify', 'bool', 'verify_incoming_target', 'verify', 'C13', 'whether the peer\'s target is verified at attach')]),
 ('link_sender', 'fe2o3-amqp/src/link/builder.rs', 'impl<T, NameState, SS, TS> Builder<role::SenderMarker, T, NameState, SS, TS>',
  'pub struct Builder { pub snd_settle_mode: SenderSettleMode, pub rcv_settle_mode: ReceiverSettleMode, pub initial_delivery_count: u32, pub max_message_size: Option<u64>, pub credit_mode: CreditMode, pub auto_accept: bool }',
  [('initial_delivery_count', 'count', 'u32', 'initial_delivery_count', 'count', 'C08', 'the initial-delivery-count the sender announces and starts counting from')]),
 ('link_receiver', 'fe2o3-amqp/src/link/builder.rs', 'impl<T, NameState, SS, TS> Builder<role::ReceiverMarker, T, NameState, SS, TS>',
  'pub struct Builder { pub snd_settle_mode: SenderSettleMode, pub rcv_settle_mode: ReceiverSettleMode, pub initial_delivery_count: u32, pub max_message_size: Option<u64>, pub credit_mode: CreditMode, pub auto_accept: bool }',
  [('credit_mode', 'credit_mode', 'CreditMode', 'credit_mode', 'credit_mode', 'C09', 'the credit policy of the receiver'),
   ('auto_accept', 'value', 'bool', 'auto_accept', 'value', 'C02', 'whether deliveries are accepted on receipt')]),
]
for (mod, f, imp, struct, setters) in GROUPS:
    w('// ================================================================ %s (%s)' % (mod, f))
    w('pub mod m_%s {' % mod)
    w('use super::*;')
    w(struct)
    w('impl Builder {')
    for (fn, pn, pty, field, val, prop, what) in setters:
        w('//@@ fn file=%s impl=`%s` name=%s id=%s::%s' % (f, imp, fn, mod, fn))
        w('//@@ param %s : %s' % (pn, pty))
        w('//@@ ret Builder')
        w('//@@ subst `%s.into()` => `%s` rule=optional-R7' % (pn, pn))
        w('//@@ spec')
        w('    ensures r == (Builder { %s: %s, ..self }),       // [%s.builder.%s-stored] %s: the value given is stored in the field it is named after, nothing else is touched' % (field, val, prop, fn.replace('_', '-'), what))
        w('//@@ end')
        w('')
    w('}')
    w('} // mod')
    w('')
# session_max: real arithmetic
w('pub mod m_connection_session_max {')
w('use super::*;')
w('pub struct Builder { pub max_frame_size: MaxFrameSize, pub channel_max: ChannelMax, pub idle_time_out: Option<u32>, pub buffer_size: usize }')
w('impl Builder {')
w("//@@ fn file=fe2o3-amqp/src/connection/builder.rs impl=`impl<'a, Mode, Tls> Builder<'a, Mode, Tls>` name=session_max")
w('//@@ param session_max : ChannelMax')
w('//@@ ret Builder')
w('//@@ subst `session_max.into()` => `session_max` rule=optional-R7')
w('//@@ spec')
w('    ensures r == (Builder { channel_max: ChannelMax(if session_max.0 == 0 { 0u16 } else { (session_max.0 - 1) as u16 }), ..self }),       // [C17.builder.session-max-stored] channel-max is the highest channel NUMBER: n sessions at most means channel-max n - 1 (and never below 0)')
w('//@@ end')
w('}')
w('} // mod')
w('')
w('} // verus!')
w('fn main() {}')
open(os.path.join(ROOT, 'units', 'setters.rs'), 'w').write('\n'.join(out) + '\n')
print('wrote units/setters.rs')
