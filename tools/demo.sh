#!/bin/bash
# usage: tools/demo.sh <rev> <file-to-append-test-to> <demo_test.rs> <test-name-filter> [patch-to-apply]
# builds a scratch worktree of /repo at <rev>, appends the demo test inside the last `mod tests {}` of the file, runs it
set -e
REV=$1; F=$2; DEMO=$3; FILT=$4; PATCH=$5
WT=/tmp/wt_demo_$$
git -C /repo worktree add -q --detach $WT $REV
trap "git -C /repo worktree remove --force $WT" EXIT
[ -n "$PATCH" ] && git -C $WT apply $PATCH
python3 - "$WT/$F" "$DEMO" <<'PY'
import sys
p,d=sys.argv[1:3]
s=open(p).read(); demo=open(d).read()
i=s.rindex('}')
open(p,'w').write(s[:i]+demo+'}\n')
PY
cd $WT && CARGO_TARGET_DIR=/tmp/demo_target cargo test -p fe2o3-amqp --offline --lib "$FILT" 2>&1 | grep -E "^test |panicked|left|right|test result|error(\[|:)" | head -20
