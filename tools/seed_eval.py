#!/usr/bin/env python3
"""tools/seed_eval.py <agent-worktree> <n> <seed-id> [--no-confirm]
 1. confirm in the agent's scratch worktree: tests still pass with the patch, demo fails with / passes without
 2. apply the patch to /repo, run every registered check, undo
 3. store /verif/seeded/<seed-id>/{patch.diff,demo_test.rs,meta.json}
"""
import json, os, re, subprocess, sys, shutil

ROOT = os.path.dirname(os.path.dirname(os.path.abspath(__file__)))
sys.path.insert(0, ROOT)
from vlib.props import PROPS


def sh(cmd, cwd=None, timeout=3600):
    p = subprocess.run(cmd, shell=True, cwd=cwd, stdout=subprocess.PIPE, stderr=subprocess.STDOUT, timeout=timeout)
    return p.returncode, p.stdout.decode('utf-8', 'replace')


def append_demo(wt, demo):
    lines = demo.split('\n')
    m = re.match(r'//\s*append-to:\s*(\S+)', lines[0])
    target = m.group(1)
    p = os.path.join(wt, target)
    s = open(p).read()
    i = s.rindex('}')
    open(p, 'w').write(s[:i] + demo + '\n}\n')
    m2 = re.match(r'//\s*run:\s*(.+)', lines[1])
    return target, m2.group(1).strip().split()[0]     # the test-name filter only (a remark may follow it)


def main():
    wt, n, sid = sys.argv[1], sys.argv[2], sys.argv[3]
    confirm = '--no-confirm' not in sys.argv
    out = os.path.join(wt, 'OUT', n)
    stored = os.path.join(ROOT, 'seeded', sid)
    if not os.path.isdir(out) and os.path.isdir(stored):
        out = stored
    patch = open(os.path.join(out, 'patch.diff')).read()
    demo = open(os.path.join(out, 'demo_test.rs')).read()
    meta = json.load(open(os.path.join(out, 'meta.json')))
    env = 'CARGO_TARGET_DIR=%s/target ' % wt
    mj = json.dumps(meta).lower()
    feat = ' --features "transaction acceptor"' if (('transaction' in mj or 'acceptor' in mj) and 'feature' in mj) else ''
    if 'scram' in mj and 'feature' in mj:
        feat = ' --features "acceptor scram"'
    ran = []
    res = dict(confirmed=None)
    prev = os.path.join(ROOT, 'seeded', sid, 'meta.json')
    if not confirm and os.path.exists(prev):
        pm = json.load(open(prev))
        res['confirmed'] = pm.get('confirmation')
        ran = [r for r in pm.get('ran_by_verif', []) if 'patch' in r and 'git apply failed' not in r]
    if confirm:
        sh('git checkout -- .', wt)
        rc, o = sh('git apply %s' % os.path.join(out, 'patch.diff'), wt)
        assert rc == 0, o
        rc, o = sh(env + 'cargo test -p fe2o3-amqp -p fe2o3-amqp-types -p serde_amqp --offline --lib --no-fail-fast 2>&1 | grep "test result"', wt)
        ran.append('with patch: cargo test --lib => ' + ' | '.join(o.strip().split('\n')))
        passed = re.findall(r'(\d+) passed; (\d+) failed', o)
        tests_ok = len(passed) == 3 and [int(p[1]) for p in passed] in ([1, 0, 0], [0, 0, 0]) and int(passed[0][0]) >= 44
        target, filt = append_demo(wt, demo)
        pkg = target.split('/')[0]
        if pkg == 'serde_amqp':
            feat = ' --features derive'
        rc1, o1 = sh(env + 'cargo test -p %s%s --offline --lib %s 2>&1 | grep -E "^test |test result|error" | head -20' % (pkg, feat, filt), wt)
        fails_with = 'FAILED' in o1 or 'failed' in o1 and '0 failed' not in o1
        ran.append('with patch: demo => ' + ' | '.join(o1.strip().split('\n')[:6]))
        sh('git checkout -- .', wt)
        append_demo(wt, demo)
        rc2, o2 = sh(env + 'cargo test -p %s%s --offline --lib %s 2>&1 | grep -E "^test |test result|error" | head -20' % (pkg, feat, filt), wt)
        m = re.search(r'test result: ok\. (\d+) passed; 0 failed', o2)
        passes_without = bool(m and int(m.group(1)) >= 1)
        ran.append('without patch: demo => ' + ' | '.join(o2.strip().split('\n')[:6]))
        sh('git checkout -- .', wt)
        res['confirmed'] = dict(tests_ok=tests_ok, fails_with=fails_with, passes_without=passes_without)
        print('CONFIRM', res['confirmed'])
    # run checks against a scratch copy of /repo with the patch applied (the same as `git -C /repo apply`, without
    # disturbing /repo while other work is going on)
    import tempfile
    # fixed scratch path: the Kani / replay target directories keyed by REPO path are reused incrementally across seeds
    scratch = os.environ.get('SEED_SCRATCH', '/tmp/seedrepo_work')
    os.makedirs(scratch, exist_ok=True)
    sh('rsync -a --delete --exclude target --exclude .git /repo/ %s/' % scratch)
    sh('rm -rf %s/.git' % scratch)
    sh('git init -q && git add -A >/dev/null 2>&1', scratch)
    pfile = os.path.join(out, 'patch.rebased.diff') if os.path.exists(os.path.join(out, 'patch.rebased.diff')) else os.path.join(out, 'patch.diff')
    rc, o = sh('git apply %s' % pfile, scratch)
    applied = rc == 0
    # rsync restores files with their ORIGINAL (old) mtimes: cargo would take a file patched by the previous seed and now restored for unchanged
    # and keep the stale object. Every source gets a fresh mtime, so the harness crates are rebuilt from what is really there.
    sh("find . \\( -name '*.rs' -o -name 'Cargo.toml' \\) -not -path './target/*' -exec touch {} +", scratch)
    if not applied:
        rc, o = sh('patch -p1 --fuzz=3 < %s' % pfile, scratch)
        applied = rc == 0
        ran.append('git apply failed on the current tree (moved by fix commits); patch --fuzz=3 rc=%d: %s' % (rc, o[-200:]))
    alarms = {}
    evd = tempfile.mkdtemp(prefix='seedev_', dir='/tmp')
    try:
        if applied:
            only = None
            if os.environ.get('SEED_PROPS') == 'auto' and os.path.exists(prev):
                # re-evaluation of a stored seed: only its own property and the properties that reported something last time are run again; the other results are kept
                pm0 = json.load(open(prev))
                only = set([sid.split('-')[0]]) | set(pm0.get('caught_by', [])) | set(pm0.get('undecided_in', []))
                alarms.update(pm0.get('check_results', {}))
            for pid in sorted(PROPS):
                if only is not None and pid not in only:
                    continue
                rc, o = sh('REPO=%s VERIF_PRIVATE_BUILD=1 VERIF_EVIDENCE_DIR=%s ./check %s' % (scratch, evd, pid), ROOT, timeout=3600)
                viol = [l for l in o.split('\n') if l.startswith('VIOLATION')]
                und = [l for l in o.split('\n') if l.startswith('UNDECIDED')]
                alarms[pid] = dict(rc=rc, violations=[v.replace(evd, 'evidence') for v in viol], undecided=[u[:300] for u in und])
                print(pid, rc, viol[:2], und[:1])
    finally:
        shutil.rmtree(evd, ignore_errors=True)
    dest = os.path.join(ROOT, 'seeded', sid)
    os.makedirs(dest, exist_ok=True)
    open(os.path.join(dest, 'patch.diff'), 'w').write(patch)
    open(os.path.join(dest, 'demo_test.rs'), 'w').write(demo)
    if os.path.exists(os.path.join(out, 'patch.rebased.diff')) and os.path.abspath(out) != os.path.abspath(dest):
        shutil.copy(os.path.join(out, 'patch.rebased.diff'), os.path.join(dest, 'patch.rebased.diff'))
    meta['confirmation'] = res['confirmed']
    meta['ran_by_verif'] = ran
    meta['applied_to_repo'] = applied
    meta['check_results'] = alarms
    meta['caught_by'] = sorted(p for p, a in alarms.items() if a['rc'] == 1)
    meta['undecided_in'] = sorted(p for p, a in alarms.items() if a['rc'] == 2)
    json.dump(meta, open(os.path.join(dest, 'meta.json'), 'w'), indent=1)
    print('CAUGHT BY', meta['caught_by'], 'UNDECIDED', meta['undecided_in'])


if __name__ == '__main__':
    main()
