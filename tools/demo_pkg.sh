#!/bin/bash
# usage: tools/demo_pkg.sh <pkg> <rev> <file> <demo_test.rs> <filter> [patch]
PKG=$1; REV=$2; F=$3; DEMO=$4; FILT=$5; PATCH=$6
WT=/tmp/wt_demo3_$$
git -C /repo worktree add -q --detach $WT $REV
trap "git -C /repo worktree remove --force $WT" EXIT
[ -n "$PATCH" ] && git -C $WT apply $PATCH
python3 - "$WT/$F" "$DEMO" <<'PY'
import sys
p,d=sys.argv[1:3]
s=open(p).read(); demo=open(d).read()
i=s.rindex('}')
open(p,'w').write(s[:i]+demo+'}\n')
PY
cd $WT && CARGO_TARGET_DIR=/tmp/demo_target cargo test -p $PKG --offline --lib --features derive "$FILT" 2>&1 | grep -E "^test |panicked|left|right|test result|error(\[|:)|encoded as" | head -20
