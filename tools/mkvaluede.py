#!/usr/bin/env python3
"""tools/mkvaluede.py: writes units/valuede.rs -- serde_amqp/src/value/de.rs, both halves:
  (A) the visitor that BUILDS the untyped value tree from whatever deserializer it is driven by (`ValueVisitor`: the decode side of the round trip of untyped values), and
  (B) the deserializer that READS a value tree back into a typed value (`from_value`: the tree twin of de.rs), with its sequence / map / variant access objects.
The serde visitor / seed handed to (B) is a stand-in whose answer is an uninterpreted function of the call it receives, so each entry point's contract says WHICH call the
visitor receives (and with which payload) -- the call decoding the node's bytes would make (unit DEENTRY) -- and that the visitor's answer is returned unchanged."""
import os
ROOT = os.path.dirname(os.path.dirname(os.path.abspath(__file__)))
F = 'serde_amqp/src/value/de.rs'
DE = "impl<'de> de::Deserializer<'de> for Deserializer"
VV = "impl<'de> de::Visitor<'de> for ValueVisitor"
out = []
w = out.append

w('''//@@ unit VALUEDE
//@@ gsubst `.into_iter()` => `.into_iter_s()` rule=R11
#![feature(allocator_api)]
#![allow(unused_imports, unused_variables, dead_code, unused_mut, unused_parens)]
use vstd::prelude::*;

verus! {

//@@ trusted written by tools/mkvaluede.py. The serde Visitor / DeserializeSeed handed to the value-tree deserializer (the decoded type's impl: derive-macro output or hand-written) is a stand-in whose answer is an UNINTERPRETED function res(visitor, call) / seed_res(seed, deserializer) of what it is handed: the contracts say which call it receives, with which payload, and that its answer is returned unchanged
//@@ trusted payload types (OrderedFloat, ByteBuf, String, Symbol, Timestamp, decimals, Uuid, OrderedMap) are opaque; their accessors (into_inner, milliseconds, into_vec) and constructors are uninterpreted functions of the value they are applied to; Vec<Value>::into_iter / OrderedMap::into_iter are iterators over the elements / entries in order (std, indexmap); `crate::to_vec(&value)` is a stand-in returning enc(value) (units SERENTRY / VALUETREE decide what that is)
//@@ trusted serde's EnumAccess / VariantAccess handed to ValueVisitor::visit_enum are stand-ins that RECORD what is done with them (as in unit VISITENUM): variant() reads the identifier (which ValueType it yields is decided by FieldVisitor::visit_u8 / ValueType::from: unit ANYDISPATCH), newtype_variant::<T>() decodes the content as T, consuming its octets; the MapAccess handed to visit_map yields the entries of the map on the wire in order
//@@ trusted EnumType::default() is EnumType::None (#[default] in util.rs; stated in the template)

pub enum Error { InvalidValue, Message(MsgS), Other }
#[verifier::external_body]
pub struct MsgS { _p: u8 }
pub trait ToMsg { fn to_msg(&self) -> MsgS; }
impl ToMsg for str { #[verifier::external_body] fn to_msg(&self) -> MsgS { unimplemented!() } }
pub trait ErrInto<T>: Sized { spec fn conv(self) -> T; fn err_into(self) -> (r: T) ensures r == self.conv(); }
impl ErrInto<Error> for Error { open spec fn conv(self) -> Error { self } fn err_into(self) -> (r: Error) { let e = self; assert(e == <Error as ErrInto<Error>>::conv(self)); e } }

//@@ type file=serde_amqp/src/util.rs kind=enum name=NonNativeType
//@@ end
//@@ type file=serde_amqp/src/util.rs kind=enum name=SequenceType
//@@ end
//@@ type file=serde_amqp/src/util.rs kind=enum name=EnumType
//@@ end
impl EnumType { pub fn default_s() -> (r: EnumType) ensures r is None { EnumType::None } }
//@@ strconsts file=serde_amqp/src/constants.rs names=DESCRIBED_BASIC,DESCRIBED_LIST,DESCRIBED_MAP,DESCRIPTOR,VALUE,ARRAY,DECIMAL32,DECIMAL64,DECIMAL128,SYMBOL,SYMBOL_REF,TIMESTAMP,UUID,LAZY_VALUE lemma=lemma_names_distinct label=`[C20.constants.newtype-names-distinct] the names are pairwise different strings`

macro_rules! opaque {
    ($($n:ident),*) => { verus!{ $( #[verifier::external_body] pub struct $n { _p: u8 } )* } }
}
opaque!(OF32, OF64, ByteBuf, StringS, Symbol, Timestamp, Dec32, Dec64, Dec128, Uuid, MapS, BytesV, StrV);
pub uninterp spec fn of32(v: f32) -> OF32;
pub uninterp spec fn of64(v: f64) -> OF64;
pub uninterp spec fn f32_in(v: OF32) -> f32;
pub uninterp spec fn f64_in(v: OF64) -> f64;
pub uninterp spec fn ts_ms(v: Timestamp) -> i64;
pub uninterp spec fn sym_str(v: Symbol) -> StringS;
pub uninterp spec fn bb_bytes(v: ByteBuf) -> BytesV;
pub uninterp spec fn bb_of(v: BytesV) -> ByteBuf;
pub uninterp spec fn string_of(v: StrV) -> StringS;
pub uninterp spec fn dec32_bytes(v: Dec32) -> BytesV;
pub uninterp spec fn dec64_bytes(v: Dec64) -> BytesV;
pub uninterp spec fn dec128_bytes(v: Dec128) -> BytesV;
pub uninterp spec fn uuid_bytes(v: Uuid) -> BytesV;
pub uninterp spec fn enc_of(v: Value) -> Option<BytesV>;
impl OF32 {
    #[verifier::external_body] pub fn into_inner(self) -> (r: f32) ensures r == f32_in(self) { unimplemented!() }
    #[verifier::external_body] pub fn from(v: f32) -> (r: OF32) ensures r == of32(v) { unimplemented!() }
    #[verifier::external_body] pub fn new(v: f32) -> (r: OF32) ensures r == of32(v) { unimplemented!() }
}
impl OF64 {
    #[verifier::external_body] pub fn into_inner(self) -> (r: f64) ensures r == f64_in(self) { unimplemented!() }
    #[verifier::external_body] pub fn from(v: f64) -> (r: OF64) ensures r == of64(v) { unimplemented!() }
    #[verifier::external_body] pub fn new(v: f64) -> (r: OF64) ensures r == of64(v) { unimplemented!() }
}
impl Timestamp { #[verifier::external_body] pub fn milliseconds(&self) -> (r: i64) ensures r == ts_ms(*self) { unimplemented!() } }
impl Symbol { #[verifier::external_body] pub fn into_inner(self) -> (r: StringS) ensures r == sym_str(self) { unimplemented!() } }
impl ByteBuf {
    #[verifier::external_body] pub fn into_vec(self) -> (r: BytesV) ensures r == bb_bytes(self) { unimplemented!() }
    #[verifier::external_body] pub fn from(v: BytesV) -> (r: ByteBuf) ensures r == bb_of(v) { unimplemented!() }
    #[verifier::external_body] pub fn from_ref(v: &BytesV) -> (r: ByteBuf) ensures r == bb_of(*v) { unimplemented!() }
}
impl StringS { #[verifier::external_body] pub fn from_ref(v: &StrV) -> (r: StringS) ensures r == string_of(*v) { unimplemented!() } }
impl Dec32 { #[verifier::external_body] pub fn into_inner(self) -> (r: BytesV) ensures r == dec32_bytes(self) { unimplemented!() } }
impl Dec64 { #[verifier::external_body] pub fn into_inner(self) -> (r: BytesV) ensures r == dec64_bytes(self) { unimplemented!() } }
impl Dec128 { #[verifier::external_body] pub fn into_inner(self) -> (r: BytesV) ensures r == dec128_bytes(self) { unimplemented!() } }
impl Uuid { #[verifier::external_body] pub fn into_inner(self) -> (r: BytesV) ensures r == uuid_bytes(self) { unimplemented!() } }
#[verifier::external_body]
pub fn to_vec_s(v: &Value) -> (r: Result<BytesV, Error>) ensures (match enc_of(*v) { Some(b) => r == Ok::<BytesV, Error>(b), None => r is Err }) { unimplemented!() }

//@@ type file=serde_amqp/src/descriptor.rs kind=enum name=Descriptor
//@@ end
//@@ type file=serde_amqp/src/described.rs kind=struct name=Described
//@@ end
//@@ type file=serde_amqp/src/primitives/array.rs kind=struct name=Array
//@@ end
impl<T> Array<T> {
    pub closed spec fn elems(self) -> Vec<T> { self.0 }
//@@ fn file=serde_amqp/src/primitives/array.rs impl=`impl<T> Array<T>` name=into_inner id=Array::into_inner
//@@ spec
    ensures r == self.elems(),
//@@ end
}
//@@ type file=serde_amqp/src/value/mod.rs kind=enum name=Value
//@@ subst `OrderedFloat<f32>` => `OF32` rule=R11
//@@ subst `OrderedFloat<f64>` => `OF64` rule=R11
//@@ subst `String(String)` => `String(StringS)` rule=R11
//@@ subst `Map(OrderedMap<Value, Value>)` => `Map(MapS)` rule=R11
//@@ end
impl MapS {
    pub uninterp spec fn view(&self) -> Seq<(Value, Value)>;
    #[verifier::external_body]
    pub fn new() -> (r: MapS) ensures r@ == Seq::<(Value, Value)>::empty() { unimplemented!() }
    #[verifier::external_body]
    pub fn insert(&mut self, k: Value, v: Value) -> (r: Option<Value>) ensures final(self)@ == ins(old(self)@, k, v) { unimplemented!() }
}
pub uninterp spec fn ins(m: Seq<(Value, Value)>, k: Value, v: Value) -> Seq<(Value, Value)>;
/// every entry of `es`, in order, inserted into `m`
pub open spec fn ins_all(m: Seq<(Value, Value)>, es: Seq<(Value, Value)>) -> Seq<(Value, Value)>
    decreases es.len()
{
    if es.len() == 0 { m } else { ins_all(ins(m, es[0].0, es[0].1), es.skip(1)) }
}

// ================================================================ the format-code table (AMQP 1.0 part 1, 1.6), as in unit ANYDISPATCH
//@@ type file=serde_amqp/src/format_code.rs kind=enum name=EncodingCodes keeprepr clone
//@@ end
impl Copy for EncodingCodes {}
#[verifier::external_body]
pub fn code_as_u8(c: EncodingCodes) -> (r: u8) ensures r == c as u8 { unimplemented!() }
//@@ type file=serde_amqp/src/value/de.rs kind=enum name=ValueType
//@@ end
/// the Value variant each constructor announces, read from the type table of the specification
pub open spec fn value_type_for(c: u8) -> Option<ValueType> {
    if c == 0x00 { Some(ValueType::Described) } else if c == 0x40 { Some(ValueType::Null) }
    else if c == 0x56 || c == 0x41 || c == 0x42 { Some(ValueType::Bool) }
    else if c == 0x50 { Some(ValueType::Ubyte) } else if c == 0x60 { Some(ValueType::Ushort) }
    else if c == 0x70 || c == 0x52 || c == 0x43 { Some(ValueType::Uint) } else if c == 0x80 || c == 0x53 || c == 0x44 { Some(ValueType::Ulong) }
    else if c == 0x51 { Some(ValueType::Byte) } else if c == 0x61 { Some(ValueType::Short) }
    else if c == 0x71 || c == 0x54 { Some(ValueType::Int) } else if c == 0x81 || c == 0x55 { Some(ValueType::Long) }
    else if c == 0x72 { Some(ValueType::Float) } else if c == 0x82 { Some(ValueType::Double) }
    else if c == 0x74 { Some(ValueType::Decimal32) } else if c == 0x84 { Some(ValueType::Decimal64) } else if c == 0x94 { Some(ValueType::Decimal128) }
    else if c == 0x73 { Some(ValueType::Char) } else if c == 0x83 { Some(ValueType::Timestamp) } else if c == 0x98 { Some(ValueType::Uuid) }
    else if c == 0xa0 || c == 0xb0 { Some(ValueType::Binary) } else if c == 0xa1 || c == 0xb1 { Some(ValueType::String) } else if c == 0xa3 || c == 0xb3 { Some(ValueType::Symbol) }
    else if c == 0x45 || c == 0xc0 || c == 0xd0 { Some(ValueType::List) } else if c == 0xc1 || c == 0xd1 { Some(ValueType::Map) }
    else if c == 0xe0 || c == 0xf0 { Some(ValueType::Array) }
    else { None }
}
/// which variant a node of the tree is
pub open spec fn type_of(v: Value) -> ValueType {
    match v {
        Value::Described(_) => ValueType::Described, Value::Null => ValueType::Null, Value::Bool(_) => ValueType::Bool, Value::Ubyte(_) => ValueType::Ubyte, Value::Ushort(_) => ValueType::Ushort,
        Value::Uint(_) => ValueType::Uint, Value::Ulong(_) => ValueType::Ulong, Value::Byte(_) => ValueType::Byte, Value::Short(_) => ValueType::Short, Value::Int(_) => ValueType::Int,
        Value::Long(_) => ValueType::Long, Value::Float(_) => ValueType::Float, Value::Double(_) => ValueType::Double, Value::Decimal32(_) => ValueType::Decimal32,
        Value::Decimal64(_) => ValueType::Decimal64, Value::Decimal128(_) => ValueType::Decimal128, Value::Char(_) => ValueType::Char, Value::Timestamp(_) => ValueType::Timestamp,
        Value::Uuid(_) => ValueType::Uuid, Value::Binary(_) => ValueType::Binary, Value::String(_) => ValueType::String, Value::Symbol(_) => ValueType::Symbol, Value::List(_) => ValueType::List,
        Value::Map(_) => ValueType::Map, Value::Array(_) => ValueType::Array,
    }
}
/// c is a constructor of v's own type
pub open spec fn own_code(v: Value, c: u8) -> bool { value_type_for(c) == Some(type_of(v)) }
impl Value {
//@@ fn file=serde_amqp/src/value/mod.rs impl=`impl Value` name=format_code id=Value::format_code
//@@ subst `code as u8` => `code_as_u8(code)` rule=R37
//@@ spec
    ensures own_code(*self, r),       // [C20.tree.identifier-names-own-variant] the constructor a node of the tree announces itself with (to the identifier visitor of `Value`, `Descriptor`, `Array`) is a constructor of ITS OWN type in the specification's table: read back through ValueType::from (unit ANYDISPATCH) it names the node's variant
//@@ end
}
''')

# ---------------------------------------------------------------- (A) ValueVisitor
PAYLOAD = [('Described', 'Box<Described<Value>>'), ('Null', '()'), ('Bool', 'bool'), ('Ubyte', 'u8'), ('Ushort', 'u16'), ('Uint', 'u32'), ('Ulong', 'u64'), ('Byte', 'i8'), ('Short', 'i16'),
           ('Int', 'i32'), ('Long', 'i64'), ('Float', 'f32'), ('Double', 'f64'), ('Decimal32', 'Dec32'), ('Decimal64', 'Dec64'), ('Decimal128', 'Dec128'), ('Char', 'char'),
           ('Timestamp', 'Timestamp'), ('Uuid', 'Uuid'), ('Binary', 'ByteBuf'), ('String', 'StringS'), ('Symbol', 'Symbol'), ('List', 'Vec<Value>'), ('Map', 'MapS'), ('Array', 'Array<Value>')]
w('// ================================================================ (A) the visitor that builds the tree')
w('/// what was done with the access objects: the identifier read, the content decoded as payload kind k')
w('pub enum Op { Variant, Newtype(int) }')
w('pub trait Payload: Sized { spec fn kind() -> int; }')
for k, (v, t) in enumerate(PAYLOAD):
    w('impl Payload for %s { open spec fn kind() -> int { %d } }' % (t, k))
w('''pub uninterp spec fn content<T>(src: int) -> T;
pub struct EnumAccS<'a> { pub log: &'a mut Ghost<Seq<Op>>, pub field: Ghost<ValueType>, pub src: Ghost<int> }
pub struct VariantS<'a> { pub log: &'a mut Ghost<Seq<Op>>, pub src: Ghost<int> }
impl<'a> EnumAccS<'a> {
    #[verifier::external_body]
    pub fn variant(self) -> (r: Result<(ValueType, VariantS<'a>), Error>)
        ensures r is Ok ==> r->Ok_0.0 == self.field@ && r->Ok_0.1.src == self.src && (*r->Ok_0.1.log)@ == (*old(self.log))@.push(Op::Variant) && *final(self.log) == *final(r->Ok_0.1.log),
            r is Err ==> *final(self.log) == *old(self.log),
    { unimplemented!() }
}
impl<'a> VariantS<'a> {
    #[verifier::external_body]
    pub fn newtype_variant<T: Payload>(self) -> (r: Result<T, Error>)
        ensures (*final(self.log))@ == (*old(self.log))@.push(Op::Newtype(T::kind())), r is Ok ==> r->Ok_0 == content::<T>(self.src@),
    { unimplemented!() }
}
/// the node the specification's type table assigns to a constructor of type `t` whose content decodes to content(src)
pub open spec fn node_of(t: ValueType, src: int) -> Value {
    match t {''')
for (v, t) in PAYLOAD:
    if v == 'Null':
        w('        ValueType::Null => Value::Null,')
    elif v == 'Float':
        w('        ValueType::Float => Value::Float(of32(content::<f32>(src))),')
    elif v == 'Double':
        w('        ValueType::Double => Value::Double(of64(content::<f64>(src))),')
    else:
        w('        ValueType::%s => Value::%s(content::<%s>(src)),' % (v, v, t))
w('''    }
}
pub open spec fn kind_of(t: ValueType) -> int {
    match t {''')
for k, (v, t) in enumerate(PAYLOAD):
    w('        ValueType::%s => %d,' % (v, k))
w('''    }
}
/// the map access handed to visit_map: the entries on the wire, in order; an error may end the walk
pub struct MapAccS { pub rest: Ghost<Seq<(Value, Value)>> }
impl MapAccS {
    #[verifier::external_body]
    pub fn next_entry(&mut self) -> (r: Result<Option<(Value, Value)>, Error>)
        ensures r is Ok && r->Ok_0 is Some ==> old(self).rest@.len() > 0 && r->Ok_0->Some_0 == old(self).rest@[0] && final(self).rest@ == old(self).rest@.skip(1),
            r is Ok && r->Ok_0 is None ==> old(self).rest@.len() == 0 && *final(self) == *old(self),
    { unimplemented!() }
}
pub struct ValueVisitor {}
/// the deserializer the visitor is driven by, where it is handed on (visit_some, visit_newtype_struct, Value::deserialize): records the entry point asked for
pub enum Asked { Option_, Enum(StrV) }
pub struct DriverS { pub asked: Ghost<Seq<Asked>> }
pub uninterp spec fn str_v(s: Seq<char>) -> StrV;
pub uninterp spec fn driver_res(d: DriverS, a: Asked) -> Result<Value, Error>;
impl DriverS {
    #[verifier::external_body]
    pub fn deserialize_option(self, visitor: ValueVisitor) -> (r: Result<Value, Error>) ensures r == driver_res(self, Asked::Option_) { unimplemented!() }
    #[verifier::external_body]
    pub fn deserialize_enum(self, name: &str, variants: &[&str], visitor: ValueVisitor) -> (r: Result<Value, Error>) ensures r == driver_res(self, Asked::Enum(str_v(name@))) { unimplemented!() }
}
#[verifier::external_body]
pub fn variants_s() -> (r: &'static [&'static str]) { unimplemented!() }
impl ValueVisitor {
//@@ fn file=%(F)s impl=`%(VV)s` name=visit_enum id=ValueVisitor::visit_enum dropuses
//@@ qmark
//@@ generics <'a>
//@@ nowhere
//@@ param data : EnumAccS<'a>
//@@ ret Result<Value, Error>
//@@ subst `OrderedFloat::from(val)` => `of_from(val)` rule=R16
//@@ spec
    ensures
        r is Ok ==> r->Ok_0 == node_of(data.field@, data.src@),       // [C03.value.node-of-announced-type] [C05.value.node-of-announced-type] the node built for a constructor is the variant the specification's table assigns to it, holding the decoded content unchanged
        r is Ok ==> (*final(data.log))@ == (*old(data.log))@.push(Op::Variant).push(Op::Newtype(kind_of(data.field@))),       // [C03.value.content-decoded-once-as-own-type] [C05.value.content-decoded-once-as-own-type] [C04.value.content-decoded-once-as-own-type] [C01.value.content-decoded-once-as-own-type] the content is decoded exactly once, as the payload type of THAT variant (a uint as u32, a ushort as u16, a list as a sequence of values ...): its octets are consumed once and what follows starts where the value ends
//@@ end
''' % dict(F=F, VV=VV))
LEAF = [('visit_bool', 'Bool(v)'), ('visit_i8', 'Byte(v)'), ('visit_i16', 'Short(v)'), ('visit_i32', 'Int(v)'), ('visit_i64', 'Long(v)'), ('visit_u8', 'Ubyte(v)'), ('visit_u16', 'Ushort(v)'),
        ('visit_u32', 'Uint(v)'), ('visit_u64', 'Ulong(v)'), ('visit_f32', 'Float(of32(v))'), ('visit_f64', 'Double(of64(v))'), ('visit_char', 'Char(v)'),
        ('visit_string', 'String(v)'), ('visit_byte_buf', 'Binary(bb_of(v))')]
for fn, res in LEAF:
    w('//@@ fn file=%s impl=`%s` name=%s id=ValueVisitor::%s' % (F, VV, fn, fn))
    w('//@@ generics')
    w('//@@ nowhere')
    if fn == 'visit_string':
        w('//@@ param v : StringS')
    if fn == 'visit_byte_buf':
        w('//@@ param v : BytesV')
    if fn in ('visit_f32', 'visit_f64'):
        w('//@@ subst `OrderedFloat(v)` => `of_from(v)` rule=R16')
    w('//@@ ret Result<Value, Error>')
    w('//@@ spec')
    w('    ensures r == Ok::<Value, Error>(Value::%s),       // [C03.value.scalar-node] [C05.value.scalar-node] a scalar shown to the tree builder becomes the node of its own type, with the value unchanged' % res)
    w('//@@ end')
    w('')
w('''//@@ fn file=%(F)s impl=`%(VV)s` name=visit_str id=ValueVisitor::visit_str
//@@ generics
//@@ nowhere
//@@ param v : &StrV
//@@ subst `v.into()` => `StringS::from_ref(v)` rule=R16
//@@ ret Result<Value, Error>
//@@ spec
    ensures r == Ok::<Value, Error>(Value::String(string_of(*v))),       // [C03.value.scalar-node] [C05.value.scalar-node]
//@@ end

//@@ fn file=%(F)s impl=`%(VV)s` name=visit_bytes id=ValueVisitor::visit_bytes
//@@ generics
//@@ nowhere
//@@ param v : &BytesV
//@@ subst `ByteBuf::from(v)` => `ByteBuf::from_ref(v)` rule=R16
//@@ ret Result<Value, Error>
//@@ spec
    ensures r == Ok::<Value, Error>(Value::Binary(bb_of(*v))),       // [C03.value.scalar-node] [C05.value.scalar-node]
//@@ end

//@@ fn file=%(F)s impl=`%(VV)s` name=visit_none id=ValueVisitor::visit_none
//@@ generics
//@@ nowhere
//@@ ret Result<Value, Error>
//@@ spec
    ensures r == Ok::<Value, Error>(Value::Null),       // [C03.value.null-node] [C05.value.null-node] null / none / unit is the Null node
//@@ end

//@@ fn file=%(F)s impl=`%(VV)s` name=visit_unit id=ValueVisitor::visit_unit
//@@ generics
//@@ nowhere
//@@ ret Result<Value, Error>
//@@ spec
    ensures r == Ok::<Value, Error>(Value::Null),       // [C03.value.null-node] [C05.value.null-node]
//@@ end

//@@ fn file=%(F)s impl=`%(VV)s` name=visit_some id=ValueVisitor::visit_some
//@@ generics
//@@ nowhere
//@@ param deserializer : DriverS
//@@ ret Result<Value, Error>
//@@ spec
    ensures r == driver_res(deserializer, Asked::Option_),       // [C03.value.present-value-decoded-by-its-deserializer] a present optional value is decoded by the deserializer it came with, whose answer is returned unchanged
//@@ end

//@@ fn file=%(F)s impl=`%(VV)s` name=visit_newtype_struct id=ValueVisitor::visit_newtype_struct
//@@ generics
//@@ nowhere
//@@ param deserializer : DriverS
//@@ ret Result<Value, Error>
//@@ subst `VARIANTS` => `variants_s()` rule=R11
//@@ spec
    ensures r == driver_res(deserializer, Asked::Enum(str_v(VALUE@))),       // [C03.value.decoded-as-the-value-enum] [C05.value.decoded-as-the-value-enum] [C20.value.decoded-as-the-value-enum] a value behind a newtype wrapper is asked for under the name VALUE -- the name both deserializers (de.rs: unit DEENTRY; value/de.rs: below) key their any-constructor mode on
//@@ end

//@@ fn file=%(F)s impl=`%(VV)s` name=visit_map id=ValueVisitor::visit_map
//@@ shape loops=whilelet
//@@ qmark
//@@ generics
//@@ nowhere
//@@ param map_accessor : MapAccS
//@@ ret Result<Value, Error>
//@@ subst `OrderedMap::new()` => `MapS::new()` rule=R11
//@@ loop 0
        invariant ins_all(map@, map_accessor.rest@) == ins_all(Seq::<(Value, Value)>::empty(), all),
        ensures map_accessor.rest@.len() == 0,
        decreases map_accessor.rest@.len(),
//@@ entry
    let ghost all = map_accessor.rest@;
//@@ spec
    ensures r is Ok ==> r->Ok_0 is Map && r->Ok_0->Map_0@ == ins_all(Seq::<(Value, Value)>::empty(), map_accessor.rest@),       // [C03.value.map-every-entry-in-order] [C05.value.map-every-entry-in-order] the Map node holds every entry of the map on the wire, inserted in wire order, none skipped, none twice
//@@ end
}
pub fn of_from<T: OfFrom>(v: T) -> (r: T::Out) ensures r == v.of() { v.mk() }
pub trait OfFrom: Sized { type Out; spec fn of(self) -> Self::Out; fn mk(self) -> (r: Self::Out) ensures r == self.of(); }
impl OfFrom for f32 { type Out = OF32; open spec fn of(self) -> OF32 { of32(self) } fn mk(self) -> (r: OF32) { OF32::from(self) } }
impl OfFrom for f64 { type Out = OF64; open spec fn of(self) -> OF64 { of64(self) } fn mk(self) -> (r: OF64) { OF64::from(self) } }
''' % dict(F=F, VV=VV))

# ---------------------------------------------------------------- (B) the tree deserializer
w('''// ================================================================ (B) the deserializer over a value tree (from_value)
//@@ type file=%(F)s kind=struct name=Deserializer
//@@ end
//@@ type file=%(F)s kind=enum name=SeqType
//@@ end
pub struct VecIter { pub rest: Ghost<Seq<Value>> }
impl VecIter {
    #[verifier::external_body]
    pub fn next(&mut self) -> (r: Option<Value>)
        ensures old(self).rest@.len() == 0 ==> r is None && final(self).rest@ == old(self).rest@,
            old(self).rest@.len() > 0 ==> r == Some(old(self).rest@[0]) && final(self).rest@ == old(self).rest@.skip(1),
    { unimplemented!() }
}
#[verifier::external_body]
pub fn vec_into_iter(v: Vec<Value>) -> (r: VecIter) ensures r.rest@ == v@ { unimplemented!() }
/// `x.into_iter()` on the two collections of the tree (std / indexmap: the elements resp. entries in order), whatever the expression is called
pub trait IntoIterS: Sized { type It; spec fn yields(self, r: Self::It) -> bool; fn into_iter_s(self) -> (r: Self::It) ensures self.yields(r); }
impl IntoIterS for Vec<Value> { type It = VecIter; open spec fn yields(self, r: VecIter) -> bool { r.rest@ == self@ } #[verifier::external_body] fn into_iter_s(self) -> (r: VecIter) { unimplemented!() } }
impl IntoIterS for MapS { type It = MapIter; open spec fn yields(self, r: MapIter) -> bool { r.rest@ == self@ } #[verifier::external_body] fn into_iter_s(self) -> (r: MapIter) { unimplemented!() } }
#[verifier::external_body]
pub fn vec_one_into_iter(v: Value) -> (r: VecIter) ensures r.rest@ == seq![v] { unimplemented!() }
pub struct MapIter { pub rest: Ghost<Seq<(Value, Value)>> }
impl MapIter {
    #[verifier::external_body]
    pub fn next(&mut self) -> (r: Option<(Value, Value)>)
        ensures old(self).rest@.len() == 0 ==> r is None && final(self).rest@ == old(self).rest@,
            old(self).rest@.len() > 0 ==> r == Some(old(self).rest@[0]) && final(self).rest@ == old(self).rest@.skip(1),
    { unimplemented!() }
}
#[verifier::external_body]
pub fn map_into_iter(m: MapS) -> (r: MapIter) ensures r.rest@ == m@ { unimplemented!() }
//@@ type file=%(F)s kind=struct name=SeqAccess
//@@ subst `<Vec<Value> as IntoIterator>::IntoIter` => `VecIter` rule=R11
//@@ end
//@@ type file=%(F)s kind=struct name=MapAccess
//@@ subst `<OrderedMap<Value, Value> as IntoIterator>::IntoIter` => `MapIter` rule=R11
//@@ end
//@@ type file=%(F)s kind=struct name=VariantAccess
//@@ subst `<Vec<Value> as IntoIterator>::IntoIter` => `VecIter` rule=R11
//@@ end

#[verifier::external_body]
pub struct OutS { _p: u8 }
#[verifier::external_body]
pub struct VisS { _p: u8 }
#[verifier::external_body]
pub struct SeedS { _p: u8 }
/// what a visitor can be shown
pub enum VisCall { Bool(bool), I8(i8), I16(i16), I32(i32), I64(i64), U8(u8), U16(u16), U32(u32), U64(u64), F32(f32), F64(f64), Char(char), String(StringS), ByteBuf(BytesV), Bytes(BytesV),
    Unit, Nothing, Some_(Deserializer), Newtype(Deserializer), Seq(Seq<Value>, SeqType), Map(Seq<(Value, Value)>), Enum(Seq<Value>) }
pub uninterp spec fn res(v: VisS, c: VisCall) -> Result<OutS, Error>;
pub uninterp spec fn seed_res(s: SeedS, d: Deserializer) -> Result<OutS, Error>;
impl SeedS {
    #[verifier::external_body]
    pub fn deserialize(self, de: Deserializer) -> (r: Result<OutS, Error>) ensures r == seed_res(self, de) { unimplemented!() }
}
macro_rules! visit {
    ($($f:ident : $t:ty => $v:ident),*) => { verus!{ impl VisS { $(
        #[verifier::external_body]
        pub fn $f(self, v: $t) -> (r: Result<OutS, Error>) ensures r == res(self, VisCall::$v(v)) { unimplemented!() }
    )* } } }
}
visit!(visit_bool: bool => Bool, visit_i8: i8 => I8, visit_i16: i16 => I16, visit_i32: i32 => I32, visit_i64: i64 => I64, visit_u8: u8 => U8, visit_u16: u16 => U16,
       visit_u32: u32 => U32, visit_u64: u64 => U64, visit_f32: f32 => F32, visit_f64: f64 => F64, visit_char: char => Char, visit_string: StringS => String, visit_byte_buf: BytesV => ByteBuf);
impl VisS {
    #[verifier::external_body]
    pub fn visit_bytes(self, v: &BytesV) -> (r: Result<OutS, Error>) ensures r == res(self, VisCall::Bytes(*v)) { unimplemented!() }
    #[verifier::external_body]
    pub fn visit_unit(self) -> (r: Result<OutS, Error>) ensures r == res(self, VisCall::Unit) { unimplemented!() }
    #[verifier::external_body]
    pub fn visit_none(self) -> (r: Result<OutS, Error>) ensures r == res(self, VisCall::Nothing) { unimplemented!() }
    #[verifier::external_body]
    pub fn visit_some(self, de: Deserializer) -> (r: Result<OutS, Error>) ensures r == res(self, VisCall::Some_(de)) { unimplemented!() }
    #[verifier::external_body]
    pub fn visit_newtype_struct(self, de: Deserializer) -> (r: Result<OutS, Error>) ensures r == res(self, VisCall::Newtype(de)) { unimplemented!() }
    #[verifier::external_body]
    pub fn visit_seq(self, acc: SeqAccess) -> (r: Result<OutS, Error>) ensures r == res(self, VisCall::Seq(acc.iter.rest@, acc.seq_type)) { unimplemented!() }
    #[verifier::external_body]
    pub fn visit_map(self, acc: MapAccess) -> (r: Result<OutS, Error>) ensures r == res(self, VisCall::Map(acc.iter.rest@)) { unimplemented!() }
    #[verifier::external_body]
    pub fn visit_enum(self, acc: VariantAccess) -> (r: Result<OutS, Error>) ensures r == res(self, VisCall::Enum(acc.iter.rest@)) { unimplemented!() }
}
pub open spec fn inv() -> Result<OutS, Error> { Err(Error::InvalidValue) }

// ---- what each entry point answers, as a function of the deserializer's state (the node and its markers) and of the visitor
pub open spec fn sp_scalar(cond: bool, c: VisCall, vis: VisS, r: Result<OutS, Error>) -> bool { if cond { r == res(vis, c) } else { r is Err } }
pub open spec fn sp_i64(d: Deserializer, vis: VisS, r: Result<OutS, Error>) -> bool {
    match d.non_native_type {
        None => sp_scalar(d.value is Long, VisCall::I64(d.value->Long_0), vis, r),
        Some(NonNativeType::Timestamp) => sp_scalar(d.value is Timestamp, VisCall::I64(ts_ms(d.value->Timestamp_0)), vis, r),
        _ => r is Err,
    }
}
pub open spec fn sp_string(d: Deserializer, vis: VisS, r: Result<OutS, Error>) -> bool {
    match d.non_native_type {
        None => sp_scalar(d.value is String, VisCall::String(d.value->String_0), vis, r),
        Some(NonNativeType::Symbol) => sp_scalar(d.value is Symbol, VisCall::String(sym_str(d.value->Symbol_0)), vis, r),
        _ => r is Err,
    }
}
pub open spec fn sp_byte_buf(d: Deserializer, vis: VisS, r: Result<OutS, Error>) -> bool {
    sp_scalar(d.non_native_type is None && d.value is Binary, VisCall::ByteBuf(bb_bytes(d.value->Binary_0)), vis, r)
}
pub open spec fn sp_bytes(d: Deserializer, vis: VisS, r: Result<OutS, Error>) -> bool {
    match d.non_native_type {
        Some(NonNativeType::Dec32) => sp_scalar(d.value is Decimal32, VisCall::Bytes(dec32_bytes(d.value->Decimal32_0)), vis, r),
        Some(NonNativeType::Dec64) => sp_scalar(d.value is Decimal64, VisCall::Bytes(dec64_bytes(d.value->Decimal64_0)), vis, r),
        Some(NonNativeType::Dec128) => sp_scalar(d.value is Decimal128, VisCall::Bytes(dec128_bytes(d.value->Decimal128_0)), vis, r),
        Some(NonNativeType::Uuid) => sp_scalar(d.value is Uuid, VisCall::Bytes(uuid_bytes(d.value->Uuid_0)), vis, r),
        Some(NonNativeType::LazyValue) => sp_scalar(enc_of(d.value) is Some, VisCall::ByteBuf(enc_of(d.value)->Some_0), vis, r),
        None => sp_byte_buf(d, vis, r),
        _ => r is Err,
    }
}
pub open spec fn sp_seq(d: Deserializer, vis: VisS, r: Result<OutS, Error>) -> bool {
    match d.seq_type {
        Some(SequenceType::Array) => sp_scalar(d.value is Array, VisCall::Seq(d.value->Array_0.elems()@, SeqType::Array), vis, r),
        None | Some(SequenceType::List) => sp_scalar(d.value is List, VisCall::Seq(d.value->List_0@, SeqType::List), vis, r),
        _ => r is Err,
    }
}
pub open spec fn with_nn(d: Deserializer, m: NonNativeType) -> Deserializer { Deserializer { non_native_type: Some(m), ..d } }
pub open spec fn sp_newtype(d: Deserializer, name: Seq<char>, vis: VisS, r: Result<OutS, Error>) -> bool {
    if name == SYMBOL@ { sp_string(with_nn(d, NonNativeType::Symbol), vis, r) }
    else if name == DECIMAL32@ { sp_bytes(with_nn(d, NonNativeType::Dec32), vis, r) }
    else if name == DECIMAL64@ { sp_bytes(with_nn(d, NonNativeType::Dec64), vis, r) }
    else if name == DECIMAL128@ { sp_bytes(with_nn(d, NonNativeType::Dec128), vis, r) }
    else if name == UUID@ { sp_bytes(with_nn(d, NonNativeType::Uuid), vis, r) }
    else if name == TIMESTAMP@ { sp_i64(with_nn(d, NonNativeType::Timestamp), vis, r) }
    else if name == ARRAY@ { sp_seq(Deserializer { seq_type: Some(SequenceType::Array), ..d }, vis, r) }
    else if name == LAZY_VALUE@ { sp_bytes(with_nn(d, NonNativeType::LazyValue), vis, r) }
    else { r == res(vis, VisCall::Newtype(d)) }
}
/// the call a node makes when nothing is known about the target type: the one decoding its bytes untyped makes (de.rs deserialize_any, unit ANYDISPATCH)
pub open spec fn sp_any(d: Deserializer, vis: VisS, r: Result<OutS, Error>) -> bool {
    match d.value {
        Value::Described(_) => true,
        Value::Null => r == res(vis, VisCall::Unit),
        Value::Bool(v) => r == res(vis, VisCall::Bool(v)),
        Value::Ubyte(v) => r == res(vis, VisCall::U8(v)),
        Value::Ushort(v) => r == res(vis, VisCall::U16(v)),
        Value::Uint(v) => r == res(vis, VisCall::U32(v)),
        Value::Ulong(v) => r == res(vis, VisCall::U64(v)),
        Value::Byte(v) => r == res(vis, VisCall::I8(v)),
        Value::Short(v) => r == res(vis, VisCall::I16(v)),
        Value::Int(v) => r == res(vis, VisCall::I32(v)),
        Value::Long(v) => d.non_native_type is None ==> r == res(vis, VisCall::I64(v)),
        Value::Float(v) => r == res(vis, VisCall::F32(f32_in(v))),
        Value::Double(v) => r == res(vis, VisCall::F64(f64_in(v))),
        Value::Decimal32(v) => r == res(vis, VisCall::Bytes(dec32_bytes(v))),
        Value::Decimal64(v) => r == res(vis, VisCall::Bytes(dec64_bytes(v))),
        Value::Decimal128(v) => r == res(vis, VisCall::Bytes(dec128_bytes(v))),
        Value::Char(v) => r == res(vis, VisCall::Char(v)),
        Value::Timestamp(v) => r == res(vis, VisCall::I64(ts_ms(v))),
        Value::Uuid(v) => r == res(vis, VisCall::Bytes(uuid_bytes(v))),
        Value::Binary(v) => d.non_native_type is None ==> r == res(vis, VisCall::ByteBuf(bb_bytes(v))),
        Value::String(v) => d.non_native_type is None ==> r == res(vis, VisCall::String(v)),
        Value::Symbol(v) => r == res(vis, VisCall::String(sym_str(v))),
        Value::List(v) => (d.seq_type is None || d.seq_type == Some(SequenceType::List)) ==> r == res(vis, VisCall::Seq(v@, SeqType::List)),
        Value::Map(v) => r == res(vis, VisCall::Map(v@)),
        Value::Array(v) => r == res(vis, VisCall::Seq(v.elems()@, SeqType::Array)),
    }
}
pub open spec fn fresh(v: Value) -> Deserializer { Deserializer { non_native_type: None, seq_type: None, value: v, enum_type: EnumType::None } }

impl Deserializer {
//@@ fn file=%(F)s impl=`impl Deserializer` name=new id=Deserializer::new
//@@ subst `Default::default()` => `EnumType::default_s()` rule=R16
//@@ spec
    ensures r == fresh(value),       // [C20.tree.node-read-without-markers] every node is read by a deserializer of its own that starts with no marker pending -- the tree twin of the byte deserializer's state between two values
//@@ end
''' % dict(F=F))

def fn(name, spec, extra=(), params=('visitor : VisS',), mutself=False):
    w('//@@ fn file=%s impl=`%s` name=%s id=Deserializer::%s' % (F, DE, name, name))
    w('//@@ qmark')
    w('//@@ generics')
    w('//@@ nowhere')
    for p in params:
        w('//@@ param ' + p)
    w('//@@ ret Result<OutS, Error>')
    for e in extra:
        w(e)
    w('//@@ spec')
    w(spec)
    w('//@@ end')
    w('')

SC = [('deserialize_bool', 'Bool', 'Bool', 'self.value->Bool_0'), ('deserialize_i8', 'Byte', 'I8', 'self.value->Byte_0'), ('deserialize_i16', 'Short', 'I16', 'self.value->Short_0'),
      ('deserialize_i32', 'Int', 'I32', 'self.value->Int_0'), ('deserialize_u8', 'Ubyte', 'U8', 'self.value->Ubyte_0'), ('deserialize_u16', 'Ushort', 'U16', 'self.value->Ushort_0'),
      ('deserialize_u32', 'Uint', 'U32', 'self.value->Uint_0'), ('deserialize_u64', 'Ulong', 'U64', 'self.value->Ulong_0'), ('deserialize_f32', 'Float', 'F32', 'f32_in(self.value->Float_0)'),
      ('deserialize_f64', 'Double', 'F64', 'f64_in(self.value->Double_0)'), ('deserialize_char', 'Char', 'Char', 'self.value->Char_0')]
LAB = '[C20.tree.typed-scalar-from-own-node]'
for (f, var, call, pay) in SC:
    fn(f, '    ensures sp_scalar(self.value is %s, VisCall::%s(%s), visitor, r),       // %s a typed scalar is read from a node of ITS type only (any other node is refused), and the visitor is shown that node\'s value unchanged -- what decoding the node\'s bytes shows it (unit DEENTRY, scalar-hand-over)' % (var, call, pay, LAB))
fn('deserialize_i64', '    ensures sp_i64(self, visitor, r),       // %s a long from a Long node; under the Timestamp marker the milliseconds of a Timestamp node, and of no other node' % LAB)
fn('deserialize_string', '    ensures sp_string(self, visitor, r),       // %s a string from a String node; under the Symbol marker the text of a Symbol node' % LAB)
fn('deserialize_str', '    ensures sp_string(self, visitor, r),       // %s' % LAB)
fn('deserialize_byte_buf', '    ensures sp_byte_buf(self, visitor, r),       // %s a binary from a Binary node, no marker pending' % LAB)
fn('deserialize_bytes', '    ensures sp_bytes(self, visitor, r),       // %s [C20.tree.lazy-value-is-the-nodes-encoding] decimals and uuids hand over the octets of the node of THEIR width; a LazyValue is the encoding of the node it is read from (to_vec of the node)' % LAB,
   extra=['//@@ subst `crate::to_vec(&self.value)` => `to_vec_s(&self.value)` rule=R16'])
fn('deserialize_option', '    ensures self.value is Null ==> r == res(visitor, VisCall::Nothing), !(self.value is Null) ==> r == res(visitor, VisCall::Some_(self)),       // [C20.tree.null-is-none] the Null node is an absent optional value, any other node a present one, handed on with the node untouched')
fn('deserialize_unit', '    ensures sp_scalar(self.value is Null, VisCall::Unit, visitor, r),       // %s' % LAB)
fn('deserialize_unit_struct', '    ensures sp_scalar(self.value is Null, VisCall::Unit, visitor, r),       // %s' % LAB, params=('visitor : VisS',))
fn('deserialize_newtype_struct', '    ensures sp_newtype(self, name@, visitor, r),       // [C20.tree.newtype-read-under-its-own-marker] each AMQP-specific newtype is read by the entry point that understands its marker, under that marker and no other -- the same name table as de.rs (unit DEENTRY) and the three serializers',
   extra=['//@@ entry', '    proof { lemma_names_distinct(); }'])
fn('deserialize_seq', '    ensures sp_seq(self, visitor, r),       // [C20.tree.sequence-elements-in-order] a list is read from a List node, an array (Array marker) from an Array node: the access object walks exactly the node\'s elements, in order',
   extra=[])
fn('deserialize_tuple', '    ensures sp_seq(self, visitor, r),       // [C20.tree.sequence-elements-in-order]')
fn('deserialize_tuple_struct', '    ensures sp_seq(self, visitor, r),       // [C20.tree.sequence-elements-in-order]')
fn('deserialize_struct', '    ensures sp_seq(self, visitor, r),       // [C20.tree.sequence-elements-in-order] a plain struct is the list of its fields')
fn('deserialize_map', '    ensures sp_scalar(self.value is Map, VisCall::Map(self.value->Map_0@), visitor, r),       // [C20.tree.map-entries-in-order] a map is read from a Map node: the access object walks exactly the node\'s entries, in order',
   extra=[])
fn('deserialize_any', '    ensures sp_any(self, visitor, r),       // [C20.tree.untyped-node-shown-as-its-own-type] with nothing known about the target, every node other than a described one is shown to the visitor as the type it IS -- the call decoding its bytes untyped makes (unit ANYDISPATCH); (described nodes: known finding D80, decided by the bounded probe tree_vs_bytes_described)',
   extra=['//@@ subst `&[""]` => `&[""; 1]` rule=optional-R5', '//@@ entry', '    proof { lemma_names_distinct(); }'])
fn('deserialize_enum', '''    ensures
        name@ == VALUE@ ==> sp_any(Deserializer { enum_type: EnumType::Value, ..self }, visitor, r),       // [C20.tree.value-enum-is-any-node] asked for the `Value` enum, the node is shown as whatever it is (and announces itself by its constructor: deserialize_identifier)
        name@ == DESCRIPTOR@ ==> (match self.value { Value::Symbol(s) => r == res(visitor, VisCall::String(sym_str(s))), Value::Ulong(c) => r == res(visitor, VisCall::U64(c)), _ => r is Err }),       // [C20.tree.descriptor-is-symbol-or-ulong] a descriptor is read from a Symbol or a Ulong node and from no other
        name@ == ARRAY@ ==> (match self.value { Value::Array(a) => r == res(visitor, VisCall::Seq(a.elems()@, SeqType::Array)), v => exists|c: u8| #[trigger] own_code(v, c) && r == res(visitor, VisCall::U8(c)) }),       // [C20.tree.array-enum-forms] an array is read from an Array node; any other node announces itself by its constructor (the single-value form)
        name@ != VALUE@ && name@ != DESCRIPTOR@ && name@ != ARRAY@ ==> (match self.value {
            Value::Uint(c) => r == res(visitor, VisCall::Enum(seq![Value::Uint(c)])),
            Value::List(l) => r == res(visitor, VisCall::Enum(l@)),
            Value::Symbol(s) => r == res(visitor, VisCall::Enum(seq![Value::Symbol(s)])),
            _ => r is Err }),       // [C20.tree.enum-variant-forms] a user enum is read from the forms the tree serializer writes (unit VALUETREE): a Uint / Symbol node (unit variant) or a List node whose first element is the index''',
   params=('visitor : VisS', 'name : &str', '_variants : &[&str]'),
   extra=['//@@ subst `vec![v].into_iter()` => `vec_one_into_iter(v)` rule=R11', '//@@ entry', '    proof { lemma_names_distinct(); }'])
fn('deserialize_identifier', '''    ensures
        !(self.enum_type is None) ==> exists|c: u8| #[trigger] own_code(self.value, c) && r == res(visitor, VisCall::U8(c)),       // [C20.tree.identifier-is-the-nodes-constructor] inside the `Value` / `Descriptor` / `Array` enums a node announces itself by the constructor of its own type (Value::format_code above)
        self.enum_type is None ==> (match self.value { Value::Uint(v) => r == res(visitor, VisCall::U32(v)), Value::Symbol(s) => r == res(visitor, VisCall::String(sym_str(s))), _ => r is Err }),''',
   extra=['//@@ entry', '    proof { lemma_names_distinct(); }'])
fn('deserialize_ignored_any', '    ensures r == res(visitor, VisCall::Unit),')
w('}')
w('''
impl SeqAccess {
//@@ fn file=%(F)s impl=`impl<'de> de::SeqAccess<'de> for SeqAccess` name=next_element_seed id=SeqAccess::next_element_seed
//@@ generics
//@@ nowhere
//@@ param seed : SeedS
//@@ ret Result<Option<OutS>, Error>
//@@ subst `.map(Some)` => `.map(|v: OutS| -> (o: Option<OutS>) ensures o == Some(v) { Some(v) })` rule=R18
//@@ spec
    ensures
        old(self).iter.rest@.len() == 0 ==> r == Ok::<Option<OutS>, Error>(None) && final(self).iter.rest@ == old(self).iter.rest@,
        old(self).iter.rest@.len() > 0 ==> final(self).iter.rest@ == old(self).iter.rest@.skip(1)
            && (match seed_res(seed, fresh(old(self).iter.rest@[0])) { Ok(o) => r == Ok::<Option<OutS>, Error>(Some(o)), Err(e) => r == Err::<Option<OutS>, Error>(e) }),       // [C20.tree.sequence-elements-in-order] each call yields the NEXT element, read as an ordinary value by a deserializer of its own (the elements of an array too: D79), and consumes exactly that element
//@@ end
}
impl MapAccess {
//@@ fn file=%(F)s impl=`impl<'de> de::MapAccess<'de> for MapAccess` name=next_entry_seed id=MapAccess::next_entry_seed
//@@ qmark
//@@ generics
//@@ nowhere
//@@ param kseed : SeedS
//@@ param vseed : SeedS
//@@ ret Result<Option<(OutS, OutS)>, Error>
//@@ spec
    ensures
        old(self).iter.rest@.len() == 0 ==> r == Ok::<Option<(OutS, OutS)>, Error>(None) && final(self).iter.rest@ == old(self).iter.rest@,
        old(self).iter.rest@.len() > 0 ==> final(self).iter.rest@ == old(self).iter.rest@.skip(1)
            && (match (seed_res(kseed, fresh(old(self).iter.rest@[0].0)), seed_res(vseed, fresh(old(self).iter.rest@[0].1))) {
                (Ok(k), Ok(v)) => r == Ok::<Option<(OutS, OutS)>, Error>(Some((k, v))),
                (Err(e), _) => r == Err::<Option<(OutS, OutS)>, Error>(e),
                (Ok(_), Err(e)) => r == Err::<Option<(OutS, OutS)>, Error>(e) }),       // [C20.tree.map-entries-in-order] each call yields the NEXT entry: its key read by the key seed, its value by the value seed, each from a deserializer of its own; keys and values are not swapped, no entry is skipped
//@@ end
}
impl VariantAccess {
//@@ fn file=%(F)s impl=`impl<'de> de::EnumAccess<'de> for VariantAccess` name=variant_seed id=VariantAccess::variant_seed
//@@ qmark
//@@ generics
//@@ nowhere
//@@ param seed : SeedS
//@@ ret Result<(OutS, VariantAccess), Error>
//@@ subst `.to_string()` => `.to_msg()` rule=R16
//@@ spec
    ensures
        self.iter.rest@.len() == 0 ==> r is Err,
        self.iter.rest@.len() > 0 ==> (match seed_res(seed, fresh(self.iter.rest@[0])) { Ok(o) => r is Ok && r->Ok_0.0 == o && r->Ok_0.1.iter.rest@ == self.iter.rest@.skip(1), Err(e) => r == Err::<(OutS, VariantAccess), Error>(e) }),       // [C20.tree.enum-variant-forms] the variant is identified by the FIRST node; the content is what follows it
//@@ end

//@@ fn file=%(F)s impl=`impl<'de> de::VariantAccess<'de> for VariantAccess` name=unit_variant id=VariantAccess::unit_variant
//@@ ret Result<(), Error>
//@@ spec
    ensures r is Ok,       // [C20.tree.enum-variant-forms] a unit variant has no content
//@@ end

//@@ fn file=%(F)s impl=`impl<'de> de::VariantAccess<'de> for VariantAccess` name=newtype_variant_seed id=VariantAccess::newtype_variant_seed
//@@ generics
//@@ nowhere
//@@ param seed : SeedS
//@@ ret Result<OutS, Error>
//@@ subst `.to_string()` => `.to_msg()` rule=R16
//@@ spec
    ensures
        self.iter.rest@.len() == 0 ==> r is Err,
        self.iter.rest@.len() > 0 ==> r == seed_res(seed, fresh(self.iter.rest@[0])),       // [C20.tree.enum-variant-forms] the content of a newtype variant is the node after the index, read as an ordinary value
//@@ end

//@@ fn file=%(F)s impl=`impl<'de> de::VariantAccess<'de> for VariantAccess` name=tuple_variant id=VariantAccess::tuple_variant
//@@ generics
//@@ nowhere
//@@ param visitor : VisS
//@@ ret Result<OutS, Error>
//@@ subst `.to_string()` => `.to_msg()` rule=R16
//@@ subst `de::Deserializer::deserialize_tuple(Deserializer::new(value), len, visitor)` => `Deserializer::new(value).deserialize_tuple(len, visitor)` rule=R2
//@@ spec
    ensures
        self.iter.rest@.len() == 0 ==> r is Err,
        self.iter.rest@.len() > 0 ==> sp_scalar(self.iter.rest@[0] is List, VisCall::Seq(self.iter.rest@[0]->List_0@, SeqType::List), visitor, r),       // [C20.tree.enum-variant-forms] the content of a tuple / struct variant is the List node after the index: its elements in order
//@@ end

//@@ fn file=%(F)s impl=`impl<'de> de::VariantAccess<'de> for VariantAccess` name=struct_variant id=VariantAccess::struct_variant
//@@ generics
//@@ nowhere
//@@ param visitor : VisS
//@@ param fields : &[&str]
//@@ ret Result<OutS, Error>
//@@ spec
    ensures
        self.iter.rest@.len() == 0 ==> r is Err,
        self.iter.rest@.len() > 0 ==> sp_scalar(self.iter.rest@[0] is List, VisCall::Seq(self.iter.rest@[0]->List_0@, SeqType::List), visitor, r),       // [C20.tree.enum-variant-forms]
//@@ end
}
''' % dict(F=F))
w('} // verus!')
w('fn main() {}')
open(os.path.join(ROOT, 'units', 'valuede.rs'), 'w').write('\n'.join(out) + '\n')
print('wrote units/valuede.rs')
