#!/bin/bash
# usage: tools/kani_run.sh <crate> <harness> [timeout_s]   (REPO env selects the tree)
set -u
CR=$1; H=$2; TO=${3:-900}
REPO=${REPO:-/repo}
D=/verif/kani/$CR
sed "s|@REPO@|$REPO|g" $D/Cargo.toml.tmpl > $D/Cargo.toml
cp $REPO/Cargo.lock $D/Cargo.lock 2>/dev/null || true
mkdir -p $D/.cargo; printf '[net]\noffline = true\n' > $D/.cargo/config.toml
cd $D && CARGO_NET_OFFLINE=true CARGO_TARGET_DIR=/verif/cache/kani-target-$CR timeout $TO cargo kani -Z function-contracts -Z stubbing --harness $H 2>&1
