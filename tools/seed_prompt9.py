import sys,json
pid=sys.argv[1]
prop=open('/tmp/prop_%s.txt'%pid).read()
print(f"""You are helping test a verification framework by playing the role of a developer who introduces a subtle regression.

Repository: a Rust implementation of AMQP 1.0 (fe2o3-amqp). You have your OWN scratch git worktree at /tmp/r9_{pid} . Work ONLY inside /tmp/r9_{pid} (never touch /repo or /verif, never read /verif). The machine is offline: always pass --offline to cargo and set CARGO_TARGET_DIR=/tmp/r9_{pid}/target .

Here is a semantic property that the code base is supposed to satisfy (JSON):

{prop}

TASK: produce TWO different, independent source changes (each one a small realistic edit of the library source, the kind a developer could make by mistake or as a 'simplification' / 'optimisation' / 'refactoring'), each of which BREAKS this property, while
  (a) the workspace still compiles, and
  (b) the existing test suite still passes: run `cd /tmp/r9_{pid} && CARGO_TARGET_DIR=/tmp/r9_{pid}/target cargo test -p fe2o3-amqp -p fe2o3-amqp-types -p serde_amqp --offline --lib` (the test `connection::builder::tests::test_url_name_resolution` fails at baseline because there is no network; ignore it. Doc tests need not be run.)
The changes MUST need something SPECIFIC to manifest (a particular multi-step sequence of operations, an unusual input or boundary value such as counters near 2^32 or sizes at a width boundary, a particular interleaving or cancellation point, a fault at a particular point, or two cooperating edit sites that each look fine alone) - NOT ones that ordinary use would expose at once.
Read the code first and find out through which functions the property is really implemented: besides the obvious core function, look at the less obvious places the property also depends on - helper functions, the public wrappers (Sender/Receiver/Session/Connection handles), builders and negotiation code, the listener/acceptor side (`acceptor/`), link resumption, `Drop` impls, error and shutdown paths, the transaction feature, `serde_amqp` / `fe2o3-amqp-types` serializer and deserializer plumbing (visitors, access structs, derive-macro helpers). Make BOTH changes in such less obvious places, in two DIFFERENT source files, and not in the function that a reader of the property would think of first. Good candidates are functions that merely FORWARD or WIRE things (a wrapper that forwards a call to the object it wraps, code that connects two components or hands a frame from one to the other, what is done when something STOPS, ends, re-attaches or is dropped, client-side versus listener-side twins of the same logic, conversions between two representations of the same thing). Keep each change small (1-15 lines). Do not edit tests, do not add cfg flags, do not just delete a whole function.

For EACH change provide a demonstration: a Rust unit test (to be appended inside the existing `#[cfg(test)] mod tests` of a source file of the crate, so it can reach pub(crate)/private items) or a small program, which FAILS with the change applied and PASSES on the unmodified tree. Verify both facts yourself by running it (if it needs cargo features, e.g. `--features "transaction acceptor"`, say so in meta.json "ran").

Deliverables - write them to /tmp/r9_{pid}/OUT/<n>/ for n = 1,2:
  patch.diff   : `git diff` of ONLY the library change (not the demo test), applicable with `git apply` from the repo root
  demo_test.rs : the demonstration test function(s) text, plus a first-line comment `// append-to: <path of the source file whose tests module it goes into>` and second-line comment `// run: <test name filter>`
  meta.json    : {{"property": "{pid}", "summary": "...what was changed...", "needs": "...what specific input/sequence/interleaving is needed to manifest...", "ran": ["commands you ran and their outcome"]}}
After writing each deliverable, restore the worktree with `git -C /tmp/r9_{pid} checkout -- .` before starting the next change, so that every patch.diff is relative to the original tree. Finish with the worktree clean (apart from OUT/ and target/).

In your final answer just list, per change, the one-line summary, the file/function changed, and whether you confirmed fail-with / pass-without.""")
