#!/bin/bash
# usage: tools/rf_reeval.sh <snap-dir> <scratch-dir> <rf-id>...   -- re-runs stored refactorings (refactor/<id>/patch.diff) through every check, from a snapshot of /verif
SNAP=$1; SCR=$2; shift 2
mkdir -p $SNAP; rsync -a --delete --exclude .git --exclude build --exclude cache /verif/ $SNAP/ 2>/dev/null
mkdir -p $SNAP/cache
for id in "$@"; do
  echo "=== $id"
  (cd $SNAP && RF_SCRATCH=$SCR python3 tools/rf_eval.py /verif/refactor/$id $id 2>&1 | tail -n 4)
done
echo ALLDONE
