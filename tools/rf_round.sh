#!/bin/bash
# usage: tools/rf_round.sh <snap-dir> <scratch-dir> <tag>...   -- evaluates /tmp/rf_<tag>/OUT/<n> for every n
SNAP=$1; SCR=$2; shift 2
mkdir -p $SNAP; rsync -a --delete --exclude .git --exclude build --exclude cache /verif/ $SNAP/ 2>/dev/null
mkdir -p $SNAP/cache
for t in "$@"; do
  for d in /tmp/rf_$t/OUT/*/; do
    n=$(basename $d)
    echo "=== $t-$n"
    (cd $SNAP && RF_SCRATCH=$SCR python3 tools/rf_eval.py $d rf-$t-$n 2>&1 | tail -n 8)
  done
done
echo ALLDONE
