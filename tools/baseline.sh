#!/bin/bash
# tools/baseline.sh [rev]: dev aid. Runs the repository's own test suite on a scratch worktree of /repo at <rev> (default HEAD) and checks that every
# test listed as stable_pass in /root/.vp/BASELINE.json still passes. Prints "BASELINE ok <n>" or the missing tests.
rev=${1:-HEAD}
wt=$(mktemp -d /tmp/bt.XXXX)
git -C /repo worktree add -q --detach "$wt" "$rev" || exit 2
( cd "$wt" && CARGO_NET_OFFLINE=true CARGO_TARGET_DIR=/tmp/bt_target cargo test --workspace --no-fail-fast --offline 2>&1 ) > "$wt.log"
python3 - "$wt.log" <<'PY'
import sys, json, re
want = json.load(open('/root/.vp/BASELINE.json'))['stable_pass']
ok = set(); tgt = None
for l in open(sys.argv[1], errors='replace'):
    m = re.search(r'Running (?:unittests )?(\S+) \(', l)
    if m:
        path = m.group(1)
        tgt = path[6:-3] if path.startswith('tests/') else None
        continue
    if 'Doc-tests' in l: tgt = None; continue
    m = re.match(r'test (.+?) \.\.\. ok', l)
    if m:
        ok.add(m.group(1))
        if tgt: ok.add(tgt + '::' + m.group(1))
miss = [w for w in want if w.split('::', 1)[1] not in ok]
print('BASELINE', 'ok' if not miss else 'MISSING', len(want) - len(miss), '/', len(want))
for w in miss[:40]: print('  missing', w)
PY
git -C /repo worktree remove --force "$wt"
