#!/usr/bin/env python3
"""per-property statistics of the seeded changes (from seeded/*/meta.json): how many are caught by the check of the property they break,
by any check, undecided only, or missed"""
import json, glob, os, collections
st = collections.OrderedDict()
miss = []
for d in sorted(x for x in glob.glob('/verif/seeded/*') if os.path.isdir(x)):
    m = json.load(open(os.path.join(d, 'meta.json')))
    p = m.get('property') or os.path.basename(d).split('-')[0]
    s = st.setdefault(p, dict(n=0, own=0, other=0, undecided=0, missed=0))
    s['n'] += 1
    c = m.get('caught_by', [])
    if p in c:
        s['own'] += 1
    elif c:
        s['other'] += 1
    elif m.get('undecided_in'):
        s['undecided'] += 1
        miss.append((os.path.basename(d), 'undecided in ' + ','.join(m['undecided_in'])))
    else:
        s['missed'] += 1
        miss.append((os.path.basename(d), 'missed'))
print('| property | seeds | caught by its own check | only by another check | undecided (exit 2) | missed |')
print('|---|---|---|---|---|---|')
tot = collections.Counter()
for p, s in st.items():
    print('| %s | %d | %d | %d | %d | %d |' % (p, s['n'], s['own'], s['other'], s['undecided'], s['missed']))
    tot.update(s)
print('| total | %d | %d | %d | %d | %d |' % (tot['n'], tot['own'], tot['other'], tot['undecided'], tot['missed']))
print()
for a, b in miss:
    print('* %s: %s' % (a, b))
