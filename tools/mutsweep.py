#!/usr/bin/env python3
"""tools/mutsweep.py <unit> [workers]: dev aid. For every function the unit extracts from /repo, generate small token-level mutants of that function's
source (relational operators, +/- 1, true/false, && / ||, wrapping/saturating/checked swaps), run the unit on a scratch copy of the sources with ONE mutant
applied, and report the mutants the unit still verifies ("survivors": either an equivalent mutant or a place where the contract is too weak).
Baseline failures of the unit (known findings) are subtracted: a mutant is killed when it produces a failure message set different from the baseline's."""
import os, re, sys, json, shutil, subprocess, tempfile, hashlib
from concurrent.futures import ThreadPoolExecutor
ROOT = os.path.dirname(os.path.dirname(os.path.abspath(__file__)))
sys.path.insert(0, ROOT)
from vlib import gen, extract as X
from vlib.rustlex import lex

SWAPS = [('<=', '<'), ('<', '<='), ('>=', '>'), ('>', '>='), ('==', '!='), ('!=', '=='), ('&&', '||'), ('||', '&&'),
         ('true', 'false'), ('false', 'true'), ('wrapping_add', 'saturating_add'), ('wrapping_sub', 'saturating_sub'),
         ('saturating_sub', 'wrapping_sub'), ('saturating_add', 'wrapping_add'), ('+', '-'), ('-', '+')]

def run_unit(unit, repo):
    p = subprocess.run('cd %s && VERIF_BUILD_DIR=%s/build REPO=%s python3 devgen.py %s' % (ROOT, repo if repo != '/repo' else ROOT, repo, unit), shell=True, stdout=subprocess.PIPE, stderr=subprocess.STDOUT, timeout=900)
    o = p.stdout.decode('utf-8', 'replace')
    st = re.search(r'STATUS (\w+)', o)
    fails = sorted(set(re.findall(r"^--- (.*?) \((?:semantic|tool)\)", o, re.M)) | set(re.sub(r'^\s*gen:\d+ ', '', l).split(' | ')[0] for l in o.split('\n') if l.startswith('    gen:')))
    return (st.group(1) if st else 'crash'), fails, o

def main():
    unit = sys.argv[1]
    workers = int(sys.argv[2]) if len(sys.argv) > 2 else 8
    g = gen.generate('/repo', os.path.join(ROOT, 'units', unit + '.rs'), None)
    base_st, base_f, _ = run_unit(unit, '/repo')
    print('baseline', base_st, len(base_f))
    muts = []
    for f in g['functions']:
        rel = f['file']
        src = open(os.path.join('/repo', rel)).read()
        toks = lex(src)
        # function span: the `fn` whose line is closest to the recorded one
        line = f['line']
        start = None
        best = 99
        for m in re.finditer(r'\bfn\s+[A-Za-z_][A-Za-z0-9_]*', src):
            dl = abs(src.count('\n', 0, m.start()) + 1 - line)
            if dl < best:
                best, start = dl, m.start()
        if best > 6:
            start = None
        if start is None:
            continue
        b = src.index('{', start)
        d = 0
        e = b
        while True:
            if src[e] == '{': d += 1
            elif src[e] == '}':
                d -= 1
                if d == 0: break
            e += 1
        body = src[b:e + 1]
        btoks0 = lex(body)
        # the lexer yields one-character punctuation: merge the two-character operators the swaps speak about
        class _T:
            def __init__(self, kind, text): self.kind, self.text = kind, text
        btoks = []
        k_ = 0
        while k_ < len(btoks0):
            t0 = btoks0[k_]
            if t0.kind == 'punct' and k_ + 1 < len(btoks0) and btoks0[k_ + 1].kind == 'punct' and t0.text + btoks0[k_ + 1].text in ('==', '!=', '<=', '>=', '&&', '||', '->', '=>', '+=', '-=', '<<', '>>', '::'):
                btoks.append(_T('punct', t0.text + btoks0[k_ + 1].text)); k_ += 2
            else:
                btoks.append(_T(t0.kind, t0.text)); k_ += 1
        # enum-variant swaps: `Enum::A` -> `Enum::B` for another variant of the same enum named in this function
        variants = {}
        for q in range(len(btoks) - 2):
            if btoks[q].kind == 'ident' and btoks[q + 1].text == '::' and btoks[q + 2].kind == 'ident' and btoks[q].text[:1].isupper() and btoks[q + 2].text[:1].isupper():
                variants.setdefault(btoks[q].text, [])
                if btoks[q + 2].text not in variants[btoks[q].text]:
                    variants[btoks[q].text].append(btoks[q + 2].text)
        pos = 0
        for qi, t in enumerate(btoks):
            if t.kind == 'ident' and qi >= 2 and btoks[qi - 1].text == '::' and btoks[qi - 2].text in variants and len(variants[btoks[qi - 2].text]) > 1 and t.text in variants[btoks[qi - 2].text]:
                vs = variants[btoks[qi - 2].text]
                muts.append((rel, b + pos, t.text, vs[(vs.index(t.text) + 1) % len(vs)], f['name'], src.count('\n', 0, b + pos) + 1))
            # statement deletion: `self.<...> = <...>;` / `<place> += 1;` at any depth
            if t.kind == 'ident' and t.text == 'self' and qi >= 1 and btoks[qi - 1].kind in ('ws',) and qi >= 2 and btoks[qi - 2].text in ('{', ';', '}'):
                # find the end of the statement
                q2 = qi; dd = 0; txt = ''
                while q2 < len(btoks):
                    tx = btoks[q2].text
                    if tx in '([{' and len(tx) == 1: dd += 1
                    elif tx in ')]}' and len(tx) == 1: dd -= 1
                    txt += tx
                    if dd == 0 and tx == ';': break
                    if dd < 0: txt = ''; break
                    q2 += 1
                if txt and re.match(r'self(\.[a-z_0-9]+)+\s*(=|\+=|-=)[^=]', txt) and len(txt) < 200:
                    muts.append((rel, b + pos, txt, '/*deleted*/', f['name'], src.count('\n', 0, b + pos) + 1))
            for a, bb in SWAPS:
                if t.kind in ('punct', 'ident') and t.text == a:
                    # skip generics / arrows
                    ctx = body[max(0, pos - 2):pos + len(a) + 2]
                    if a in ('<', '>') and (re.search(r'[A-Za-z_:]<', ctx) or '->' in ctx or '=>' in ctx or '>>' in ctx or '<<' in ctx):
                        continue
                    if a in ('+', '-') and ('->' in ctx or '+=' in ctx or '-=' in ctx):
                        continue
                    muts.append((rel, b + pos, a, bb, f['name'], src.count('\n', 0, b + pos) + 1))
            pos += len(t.text)
    print('mutants', len(muts))
    def one(m):
        rel, off, a, bb, fn, ln = m
        D = tempfile.mkdtemp(prefix='msw.', dir='/tmp')
        try:
            subprocess.run('rsync -a --include="*/" --include="*.rs" --exclude="*" /repo/fe2o3-amqp /repo/fe2o3-amqp-types /repo/serde_amqp %s/ --exclude target' % D, shell=True)
            p = os.path.join(D, rel)
            s = open(p).read()
            assert s[off:off + len(a)] == a, (s[off:off + 10], a)
            open(p, 'w').write(s[:off] + bb + s[off + len(a):])
            st, fails, o = run_unit(unit, D)
            return (m, st, fails)
        finally:
            shutil.rmtree(D, ignore_errors=True)
    surv = []
    lost = []
    with ThreadPoolExecutor(workers) as ex:
        for m, st, fails in ex.map(one, muts):
            killed = (st == 'fail' and fails != base_f) or (st == 'undecided')
            if st == 'crash':
                lost.append(m)
                print('LOSTANCHOR %s:%d %s -> %s in %s' % (m[0], m[5], m[2], m[3], m[4]), flush=True)
            elif not killed:
                surv.append(m)
                print('SURVIVOR %s:%d %s -> %s in %s' % (m[0], m[5], m[2], m[3], m[4]), flush=True)
    print('done: %d mutants, %d survivors, %d lost anchors (undecided)' % (len(muts), len(surv), len(lost)))

if __name__ == '__main__':
    main()
