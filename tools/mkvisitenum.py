#!/usr/bin/env python3
"""tools/mkvisitenum.py: writes units/visitenum.rs -- the hand-written `visit_enum` of the typed protocol enums (delivery state, outcome, performative, SASL frame body,
target archetype, lifetime policy, control-link message): the variant the descriptor named is decoded through `newtype_variant` -- which consumes the value's octets --
exactly once, and becomes the same-named variant of the result."""
import os
ROOT = os.path.dirname(os.path.dirname(os.path.abspath(__file__)))
T = 'fe2o3-amqp-types/src/'
VIS = "impl<'de> de::Visitor<'de> for Visitor"
GROUPS = [
    ('delivery_state', T + 'messaging/delivery_state/delivery_state_impl.rs', T + 'messaging/delivery_state/mod.rs', 'DeliveryState',
        [('Received', 'Received', 'Received'), ('Accepted', 'Accepted', 'Accepted'), ('Rejected', 'Rejected', 'Rejected'), ('Released', 'Released', 'Released'), ('Modified', 'Modified', 'Modified'),
         ('Declared', 'Declared', 'Declared'), ('TransactionalState', 'TransactionalState', 'TransactionalState')], 'C03 C05 C20 C02'),
    ('outcome', T + 'messaging/delivery_state/outcome_impl.rs', T + 'messaging/delivery_state/mod.rs', 'Outcome',
        [('Accepted', 'Accepted', 'Accepted'), ('Rejected', 'Rejected', 'Rejected'), ('Released', 'Released', 'Released'), ('Modified', 'Modified', 'Modified'), ('Declared', 'Declared', 'Declared')], 'C03 C05 C20'),
    ('performative', T + 'performatives/mod.rs', T + 'performatives/mod.rs', 'Performative',
        [(v, v, v) for v in ['Open', 'Begin', 'Attach', 'Flow', 'Transfer', 'Disposition', 'Detach', 'End', 'Close']], 'C03 C05 C20 C06'),
    ('sasl_frame', 'fe2o3-amqp/src/frames/sasl.rs', 'fe2o3-amqp/src/frames/sasl.rs', 'Frame',
        [('Mechanisms', 'Mechanisms', 'SaslMechanisms'), ('Init', 'Init', 'SaslInit'), ('Challenge', 'Challenge', 'SaslChallenge'), ('Response', 'Response', 'SaslResponse'), ('Outcome', 'Outcome', 'SaslOutcome')], 'C03 C05 C19'),
    ('target_archetype', T + 'messaging/target.rs', T + 'messaging/target.rs', 'TargetArchetype',
        [('Target', 'Target', 'Target'), ('Coordinator', 'Coordinator', 'Coordinator')], 'C03 C05 C18'),
    ('lifetime_policy', T + 'messaging/lifetime_policy.rs', T + 'messaging/lifetime_policy.rs', 'LifetimePolicy',
        [('Close', 'DeleteOnClose', 'DeleteOnClose'), ('NoLinks', 'DeleteOnNoLinks', 'DeleteOnNoLinks'), ('NoMessages', 'DeleteOnNoMessages', 'DeleteOnNoMessages'),
         ('NoLinksOrMessages', 'DeleteOnNoLinksOrMessages', 'DeleteOnNoLinksOrMessages')], 'C03 C05'),
    ('control_message', 'fe2o3-amqp/src/transaction/control_link_frame.rs', 'fe2o3-amqp/src/transaction/control_link_frame.rs', 'ControlMessageBody',
        [('Declare', 'Declare', 'Declare'), ('Discharge', 'Discharge', 'Discharge')], 'C03 C05 C18'),
]
out = []
w = out.append
w('//@@ unit VISITENUM')
w('#![feature(allocator_api)]')
w('#![allow(unused_imports, unused_variables, dead_code, unused_mut, unused_parens)]')
w('use vstd::prelude::*;')
w('')
w('verus! {')
w('')
w("//@@ trusted written by tools/mkvisitenum.py from a table. serde's EnumAccess / VariantAccess (serde_amqp::de::VariantAccess: unit DEENTRY) are stand-ins that RECORD what is done with them: `variant()` reads the identifier (which Field it yields is the peer's choice), `newtype_variant()` decodes the variant's content -- consuming its octets -- as the type asked for, `unit_variant()` consumes nothing (DEENTRY [C03.enum.unit-variant-has-no-content]); the payload types are opaque; the log lives behind the `&mut` the access objects hold (Verus' prophecy encoding)")
w('pub struct ErrS { pub k: u8 }')
w('pub trait ErrInto<T>: Sized { spec fn conv(self) -> T; fn err_into(self) -> (r: T) ensures r == self.conv(); }')
w('impl ErrInto<ErrS> for ErrS { open spec fn conv(self) -> ErrS { self } fn err_into(self) -> (r: ErrS) { let e = self; assert(e == <ErrS as ErrInto<ErrS>>::conv(self)); e } }')
w('/// what was done with the access objects: the identifier read, the content decoded as payload kind k, a unit variant taken (nothing consumed)')
w('pub enum Op { Variant, Newtype(int), Unit }')
w('pub trait Payload: Sized { spec fn kind() -> int; }')
w('')
for (mod, vf, ef, en, table, props) in GROUPS:
    lab = lambda s: ' '.join('[%s.%s]' % (p, s) for p in props.split())
    pts = list(dict.fromkeys(p for _, _, p in table))
    w('// ================================================================ %s (%s)' % (en, vf))
    w('pub mod m_%s {' % mod)
    w('use super::*;')
    for k, p in enumerate(pts):
        w('pub struct %s {}' % p)
        w('impl Payload for %s { open spec fn kind() -> int { %d } }' % (p, k))
    w('//@@ type file=%s kind=enum name=Field' % vf)
    w('//@@ end')
    w('//@@ type file=%s kind=enum name=%s' % (ef, en))
    w('//@@ end')
    w("pub struct EnumAccS<'a> { pub log: &'a mut Ghost<Seq<Op>>, pub field: Ghost<Field> }")
    w("pub struct VariantS<'a> { pub log: &'a mut Ghost<Seq<Op>> }")
    w("impl<'a> EnumAccS<'a> {")
    w('    #[verifier::external_body]')
    w("    pub fn variant(self) -> (r: Result<(Field, VariantS<'a>), ErrS>)")
    w('        ensures r is Ok ==> r->Ok_0.0 == self.field@ && (*r->Ok_0.1.log)@ == (*old(self.log))@.push(Op::Variant) && *final(self.log) == *final(r->Ok_0.1.log),')
    w('            r is Err ==> *final(self.log) == *old(self.log),')
    w('    { unimplemented!() }')
    w('}')
    w("impl<'a> VariantS<'a> {")
    w('    #[verifier::external_body]')
    w('    pub fn newtype_variant<T: Payload>(self) -> (r: Result<T, ErrS>)')
    w('        ensures (*final(self.log))@ == (*old(self.log))@.push(Op::Newtype(T::kind())),')
    w('    { unimplemented!() }')
    w('    #[verifier::external_body]')
    w('    pub fn unit_variant(self) -> (r: Result<(), ErrS>)')
    w('        ensures (*final(self.log))@ == (*old(self.log))@.push(Op::Unit),')
    w('    { unimplemented!() }')
    w('}')
    w('pub struct Visitor {}')
    w('impl Visitor {')
    w('//@@ fn file=%s impl=`%s` name=visit_enum id=%s::visit_enum' % (vf, VIS, mod))
    w('//@@ qmark')
    w("//@@ generics <'a>")
    w('//@@ nowhere')
    w("//@@ param data : EnumAccS<'a>")
    w('//@@ ret Result<%s, ErrS>' % en)
    w('//@@ spec')
    w('    ensures')
    w('        r is Ok ==> (match data.field@ {')
    for (fv, rv, pt) in table:
        w('            Field::%s => r->Ok_0 is %s && (*final(data.log))@ == (*old(data.log))@.push(Op::Variant).push(Op::Newtype(%d)),' % (fv, rv, pts.index(pt)))
    w('        }),       // %s the variant the descriptor names becomes the same-named variant of the result, and its content is decoded -- its octets consumed -- exactly once, as the type of THAT variant: what follows the value on the wire (a transfer\'s payload behind its state, the next field of a disposition) starts where the value ends' % lab('enum.variant-content-consumed-once'))
    w('//@@ end')
    w('}')
    w('} // mod')
    w('')
w('} // verus!')
w('fn main() {}')
open(os.path.join(ROOT, 'units', 'visitenum.rs'), 'w').write('\n'.join(out) + '\n')
print('wrote units/visitenum.rs: %d enums' % len(GROUPS))
