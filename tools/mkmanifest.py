#!/usr/bin/env python3
"""regenerate /verif/MANIFEST.json from vlib/props.py"""
# label-consistency: a clause labelled [Cxx.…] is only evaluated by the check of Cxx if its unit is listed for Cxx
import json, os, sys
ROOT = os.path.dirname(os.path.dirname(os.path.abspath(__file__)))
sys.path.insert(0, ROOT)
from vlib.props import PROPS, UNITS, NOT_APPLICABLE, HOOK_COMMITS

checks = []
for pid in sorted(PROPS):
    c = PROPS[pid]
    checks.append(dict(
        property_id=pid,
        quick_cmd='./check %s --tier quick' % pid,
        thorough_cmd='./check %s --tier thorough' % pid,
        evidence_file='/verif/evidence/%s.json' % pid,
        replay_cmd_template='./check %s --replay {path}' % pid,
        engine='contracts',
        level_claimed=dict(category=c.get('manifest_level', c.get('level', 'proof')), text=c['level_text'], design_ref=c.get('design_ref', 'DESIGN.md section 5 ' + pid)),
        level_note=c['level_note'],
        technique=c.get('technique', 'contract-based deductive verification (Verus on mechanically extracted functions)'),
    ))
allp = [json.loads(l)['id'] for l in open(os.path.join(ROOT, 'properties.jsonl')) if l.strip()]
na = dict(NOT_APPLICABLE)
for q in allp:
    if q not in PROPS and q not in na:
        na[q] = 'not claimed yet: the check for this property has not been built in /verif at this commit'
m = dict(
    version=1,
    setup_cmd='./setup.sh',
    hooks=dict(guard='verif-hooks', enable='cargo feature `verif-hooks` of fe2o3-amqp (only the Kani/replay crates use it; the Verus route reads source text and needs no hook)',
               baseline_off_cmd='cd /repo && cargo test --workspace --no-fail-fast --offline', source_commits=HOOK_COMMITS, add_only=True),
    engines=[dict(name='contracts', path='/verif/check', serves_properties=sorted(PROPS),
                  kind_free_text='Verus (unbounded, per-function contracts on functions extracted from /repo on every run) + Kani/CBMC (complete loop-free harnesses and bounded stand-ins on the real crates)')],
    checks=checks,
    not_applicable=[dict(property_id=k, reason=v) for k, v in sorted(na.items())],
    notes='exit 2 = undecided (lost anchor / tool limit / vacuity guard), never an alarm. known_findings.txt lists fixed defects and recorded findings.',
)
json.dump(m, open(os.path.join(ROOT, 'MANIFEST.json'), 'w'), indent=1)
print('wrote MANIFEST.json with', len(checks), 'checks')


def _label_consistency():
    import re, glob, os, sys
    here = os.path.dirname(os.path.dirname(os.path.abspath(__file__)))
    sys.path.insert(0, here)
    from vlib.props import PROPS, UNITS
    LABEL = re.compile(r'\[(C\d\d)\.[^\]]+\]')
    t2u = {v['template']: k for k, v in UNITS.items()}
    bad = []
    for path in sorted(glob.glob(os.path.join(here, 'units', '*.rs'))):
        b = os.path.basename(path)
        txt = open(path).read()
        us = [t2u[b]] if b in t2u else [u for u, v in UNITS.items() if ('//@@ include ' + b) in open(os.path.join(here, 'units', v['template'])).read()]
        for u in us:
            for p_ in sorted(set(LABEL.findall(txt))):
                if u not in PROPS[p_].get('units', []):
                    bad.append('label %s in unit %s (%s) but the unit is not listed for %s' % (p_, u, b, p_))
    if bad:
        print('\n'.join(bad)); raise SystemExit('label-consistency violated')

_label_consistency()
