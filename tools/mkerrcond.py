#!/usr/bin/env python3
"""tools/mkerrcond.py: writes units/errcond.rs -- the error-condition symbols (AMQP 1.0 part 2, 2.8.15-2.8.18; part 4, 4.5.8) in both directions and the total
decoder of `ErrorCondition`; names written here from the specification."""
import os
ROOT = os.path.dirname(os.path.dirname(os.path.abspath(__file__)))
D = 'fe2o3-amqp-types/src/definitions/'
ENUMS = [
    ('AmqpError', D + 'amqp_error.rs', 'part 2, 2.8.15', [('InternalError', 'amqp:internal-error'), ('NotFound', 'amqp:not-found'), ('UnauthorizedAccess', 'amqp:unauthorized-access'),
        ('DecodeError', 'amqp:decode-error'), ('ResourceLimitExceeded', 'amqp:resource-limit-exceeded'), ('NotAllowed', 'amqp:not-allowed'), ('InvalidField', 'amqp:invalid-field'),
        ('NotImplemented', 'amqp:not-implemented'), ('ResourceLocked', 'amqp:resource-locked'), ('PreconditionFailed', 'amqp:precondition-failed'), ('ResourceDeleted', 'amqp:resource-deleted'),
        ('IllegalState', 'amqp:illegal-state'), ('FrameSizeTooSmall', 'amqp:frame-size-too-small')]),
    ('ConnectionError', D + 'conn_error.rs', 'part 2, 2.8.16', [('ConnectionForced', 'amqp:connection:forced'), ('FramingError', 'amqp:connection:framing-error'), ('Redirect', 'amqp:connection:redirect')]),
    ('SessionError', D + 'session_error.rs', 'part 2, 2.8.17', [('WindowViolation', 'amqp:session:window-violation'), ('ErrantLink', 'amqp:session:errant-link'), ('HandleInUse', 'amqp:session:handle-in-use'),
        ('UnattachedHandle', 'amqp:session:unattached-handle')]),
    ('LinkError', D + 'link_error.rs', 'part 2, 2.8.18', [('DetachForced', 'amqp:link:detach-forced'), ('TransferLimitExceeded', 'amqp:link:transfer-limit-exceeded'),
        ('MessageSizeExceeded', 'amqp:link:message-size-exceeded'), ('Redirect', 'amqp:link:redirect'), ('Stolen', 'amqp:link:stolen')]),
    ('TransactionError', 'fe2o3-amqp-types/src/transaction/txn_error.rs', 'part 4, 4.5.8', [('UnknownId', 'amqp:transaction:unknown-id'), ('Rollback', 'amqp:transaction:rollback'), ('Timeout', 'amqp:transaction:timeout')]),
]
PROPS = 'C03 C05 C12 C13 C14'
lab = lambda s: ' '.join('[%s.%s]' % (p, s) for p in PROPS.split())
out = []
w = out.append
w('//@@ unit ERRCOND')
w('#![feature(allocator_api)]')
w('#![allow(unused_imports, unused_variables, dead_code, unused_mut, unused_parens)]')
w('use vstd::prelude::*;')
w('')
w('verus! {')
w('')
w('//@@ gsubst `de::Error::custom(__E1)` => `err_custom()` rule=R9')
w('//@@ gsubst `.starts_with(` => `.starts_with_s(` rule=R16')
w('//@@ trusted written by tools/mkerrcond.py from a table: the error-condition symbols are taken from the AMQP 1.0 specification text, not from the code; Symbol is a stand-in holding its text (Symbol::from(&str) / as_str keep it); Symbol::deserialize (serde_amqp: units READERS / DEENTRY) is a stand-in that yields ANY symbol or fails; R39 for the matches over string literals')
w('pub struct Symbol { pub text: Ghost<Seq<char>> }')
w('impl Symbol {')
w('    #[verifier::external_body]')
w('    pub fn from(v: &str) -> (r: Symbol) ensures r.text@ == v@ { unimplemented!() }')
w('    #[verifier::external_body]')
w('    pub fn as_str(&self) -> (r: &str) ensures r@ == self.text@ { unimplemented!() }')
w('    /// Symbol::deserialize(deserializer)')
w('    #[verifier::external_body]')
w('    pub fn deserialize(d: DeS) -> (r: Result<Symbol, ErrS>) ensures (r is Ok) == d.ok@, r is Ok ==> r->Ok_0.text@ == d.text@ { unimplemented!() }')
w('}')
w('/// the deserializer positioned at a symbol: whether a symbol can be read there, and its text')
w('pub struct DeS { pub ok: Ghost<bool>, pub text: Ghost<Seq<char>> }')
w('pub struct ErrS { pub k: u8 }')
w('/// str::starts_with(&str) (this vstd has no specification for it): present so that a change introducing a prefix test is decided')
w('pub trait StartsWithS { fn starts_with_s(&self, p: &str) -> (r: bool) ensures r == (p@.len() <= self.chars().len() && self.chars().subrange(0, p@.len() as int) == p@); spec fn chars(&self) -> Seq<char>; }')
w('impl StartsWithS for str { open spec fn chars(&self) -> Seq<char> { self@ } #[verifier::external_body] fn starts_with_s(&self, p: &str) -> (r: bool) { unimplemented!() } }')
w('#[verifier::external_body]')
w('pub fn err_custom() -> (r: ErrS) { unimplemented!() }')
w('')
allnames = [n for _, _, _, t in ENUMS for _, n in t]
w('//@@ strlits lemma=lemma_condition_names_distinct `%s the error-condition symbols of the specification are pairwise different strings` `%s`' % (lab('error-condition.names-distinct'), '|'.join(allnames)))
for (en, f, ref, table) in ENUMS:
    w('// ================================================================ %s (%s)' % (en, f))
    w('//@@ type file=%s kind=enum name=%s' % (f, en))
    w('//@@ end')
    w('pub open spec fn %s_name(e: %s) -> Seq<char> { match e { %s } }' % (en.lower(), en, ', '.join('%s::%s => "%s"@' % (en, v, n) for v, n in table)))
    w('impl %s {' % en)
    w("//@@ fn file=%s impl=`impl<'a> TryFrom<&'a str> for %s` name=try_from id=%s::try_from" % (f, en, en))
    w('//@@ orsplit')
    w('//@@ blockarms')
    w("//@@ generics <'a>")
    w("//@@ ret Result<%s, &'a str>" % en)
    w('//@@ entry')
    w('    proof { lemma_condition_names_distinct(); }')
    w('//@@ spec')
    w('    ensures')
    for (var, name) in table:
        w('        value@ == "%s"@ ==> r == Ok::<%s, &str>(%s::%s),       // %s AMQP 1.0 %s' % (name, en, en, var, lab('error-condition.symbol-decodes'), ref))
    w('        r is Ok ==> value@ == %s_name(r->Ok_0),       // %s only the symbol of a condition decodes as that condition' % (en.lower(), lab('error-condition.symbol-decodes')))
    w('        r is Err ==> r->Err_0@ == value@,       // %s a symbol this group does not know is handed back unchanged (to the next group, and finally kept as a custom condition)' % lab('error-condition.unknown-kept'))
    w('//@@ end')
    w('}')
    import re as _re
    _src = open(os.path.join(os.environ.get('REPO', '/repo'), f)).read()
    _m = _re.search(r'impl From<&%s> for Symbol \{\s*fn from\((\w+):' % en, _src)
    pn = _m.group(1) if _m else 'value'
    w('impl Symbol {')
    w('//@@ fn file=%s impl=`impl From<&%s> for Symbol` name=from as=from_%s' % (f, en, en.lower()))
    w('//@@ ret Symbol')
    w('//@@ spec')
    w('    ensures')
    for (var, name) in table:
        w('        *' + pn + ' == %s::%s ==> r.text@ == "%s"@,       // %s AMQP 1.0 %s: the symbol written for this condition is the one the specification gives it (and the one try_from reads back)' % (en, var, name, lab('error-condition.symbol-written'), ref))
    w('//@@ end')
    w('}')
    w('')
w('// ================================================================ ErrorCondition (%serror_cond.rs)' % D)
w('//@@ type file=%serror_cond.rs kind=enum name=ErrorCondition' % D)
w('//@@ end')
w('impl ErrorCondition {')
w("//@@ fn file=%serror_cond.rs impl=`impl<'de> de::Deserialize<'de> for ErrorCondition` name=deserialize" % D)
w('//@@ generics')
w('//@@ nowhere')
w('//@@ param deserializer : DeS')
w('//@@ ret Result<ErrorCondition, ErrS>')
w('//@@ spec')
w('    ensures')
w('        deserializer.ok@ ==> r is Ok && cond_text(r->Ok_0) == deserializer.text@,       // %s [C04.error-condition.any-symbol-decodes] whatever condition symbol the peer supplies decodes -- the ones the specification defines as the typed condition, any other as a custom condition -- and in both cases it is the peer\'s symbol that is kept: the peer\'s error is never lost to a decode error' % lab('error-condition.any-symbol-decodes'))
w('        !deserializer.ok@ ==> r is Err,')
w('//@@ end')
w('}')
w('/// the symbol a decoded condition stands for, by the specification\'s tables')
w('pub open spec fn cond_text(c: ErrorCondition) -> Seq<char> {')
w('    match c {')
for (en, f, ref, table) in ENUMS:
    w('        ErrorCondition::%s(e) => %s_name(e),' % (en, en.lower()))
w('        ErrorCondition::Custom(s) => s.text@,')
w('    }')
w('}')
w('')
w('} // verus!')
w('fn main() {}')
open(os.path.join(ROOT, 'units', 'errcond.rs'), 'w').write('\n'.join(out) + '\n')
print('wrote units/errcond.rs')
