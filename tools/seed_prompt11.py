import sys,json
pid=sys.argv[1]
prop=open('/tmp/prop_%s.txt'%pid).read()
print(f"""You are helping test a verification framework by playing the role of a developer who introduces a subtle regression.

Repository: a Rust implementation of AMQP 1.0 (fe2o3-amqp). You have your OWN scratch git worktree at /tmp/r11_{pid} . Work ONLY inside /tmp/r11_{pid} (never touch /repo or /verif, never read /verif). The machine is offline: always pass --offline to cargo and set CARGO_TARGET_DIR=/tmp/r11_{pid}/target .

Here is a semantic property that the code base is supposed to satisfy (JSON):

{prop}

TASK: produce TWO different, independent source changes (each one a small realistic edit of the library source, the kind a developer could make by mistake or as a 'simplification' / 'optimisation' / 'refactoring'), each of which BREAKS this property, while
  (a) the workspace still compiles, and
  (b) the existing test suite still passes: run `cd /tmp/r11_{pid} && CARGO_TARGET_DIR=/tmp/r11_{pid}/target cargo test -p fe2o3-amqp -p fe2o3-amqp-types -p serde_amqp --offline --lib` (the test `connection::builder::tests::test_url_name_resolution` fails at baseline because there is no network; ignore it. Doc tests need not be run.)
The changes MUST need something SPECIFIC to manifest (a particular multi-step sequence of operations, an unusual input or boundary value such as counters near 2^32 or sizes at a width boundary, a particular interleaving or cancellation point, a fault at a particular point, or two cooperating edit sites that each look fine alone) - NOT ones that ordinary use would expose at once.
Read the code first and find out through which functions the property is really implemented - follow the data all the way from the public API to the wire and back. Do NOT make the change in the core function a reader of the property would think of first, nor in its direct helpers, nor in a place where a one-line contract on that function alone would obviously expose it. Make BOTH changes in two DIFFERENT source files. Look for places where the property depends on AGREEMENT between two pieces of code that live apart: a value computed in one place and interpreted in another (units, off-by-one conventions, `Option` defaults, who increments a counter), twin implementations that must stay in step (client vs listener/acceptor side in `acceptor/*.rs`, sender vs receiver, `ser.rs` vs `size_ser.rs` vs `value/ser.rs`, `de.rs` vs `value/de.rs`, slice reader vs io reader, `Transaction` vs `OwnedTransaction`), state that is set up in one function and relied on much later (what `Receiver`/`Sender` detach, re-attach and `resume*` leave behind; what the connection / session / link acceptors copy from the peer's Open / Begin / Attach; what `Drop` impls and the engines' shutdown paths release), the hand-written `Serialize` / `Deserialize` impls of data types (in `fe2o3-amqp-types`: `Body`, `Batch`, `MessageId`, annotation keys, `SaslMechanisms`, filter sets, `Source` / `Target` builders and defaults; in `serde_amqp`: `Value`, `Described`, `Array`, `OrderedMap`, `LazyValue`, `value/de.rs`, `value/ser.rs`), the SASL profiles and SCRAM helpers (`sasl_profile/`, `auth/scram/`), `util/` (timers, producers/consumers, byte readers), and the transaction controller / acquisition / coordinator glue. Prefer changes whose two halves each look locally reasonable. Keep each change small (1-15 lines). Do not edit tests, do not add cfg flags, do not just delete a whole function.

For EACH change provide a demonstration: a Rust unit test (to be appended inside the existing `#[cfg(test)] mod tests` of a source file of the crate, so it can reach pub(crate)/private items) or a small program, which FAILS with the change applied and PASSES on the unmodified tree. Verify both facts yourself by running it (if it needs cargo features, e.g. `--features "transaction acceptor"`, say so in meta.json "ran").

Deliverables - write them to /tmp/r11_{pid}/OUT/<n>/ for n = 1,2:
  patch.diff   : `git diff` of ONLY the library change (not the demo test), applicable with `git apply` from the repo root
  demo_test.rs : the demonstration test function(s) text, plus a first-line comment `// append-to: <path of the source file whose tests module it goes into>` and second-line comment `// run: <test name filter>`
  meta.json    : {{"property": "{pid}", "summary": "...what was changed...", "needs": "...what specific input/sequence/interleaving is needed to manifest...", "ran": ["commands you ran and their outcome"]}}
After writing each deliverable, restore the worktree with `git -C /tmp/r11_{pid} checkout -- .` before starting the next change, so that every patch.diff is relative to the original tree. Finish with the worktree clean (apart from OUT/ and target/).

In your final answer just list, per change, the one-line summary, the file/function changed, and whether you confirmed fail-with / pass-without.""")
