#!/usr/bin/env python3
"""tools/roundtable.py <round>: one line per seed of a round (7, 8, ...): caught by its own check / only by another / undecided / missed"""
import json, glob, os, sys
rnd = int(sys.argv[1]) if len(sys.argv) > 1 else 8
ROOT = os.path.dirname(os.path.dirname(os.path.abspath(__file__)))
for d in sorted(glob.glob(os.path.join(ROOT, 'seeded', '*/'))):
    sid = os.path.basename(d.rstrip('/'))
    p, n = sid.split('-'); n = int(n)
    base = {'C09': 9, 'C10': 9, 'C12': 9, 'C13': 9, 'C14': 3, 'C16': 3}.get(p, 6)
    lo = base + 2 * (rnd - 7) + 1
    if not (lo <= n <= lo + 1):
        continue
    mp = d + 'meta.json'
    if not os.path.exists(mp):
        continue
    m = json.load(open(mp))
    if 'caught_by' not in m:
        continue
    own = p in m['caught_by']
    st = 'OWN' if own else ('other:' + ','.join(m['caught_by']) if m['caught_by'] else ('UNDECIDED:' + ','.join(m['undecided_in']) if m['undecided_in'] else 'MISSED'))
    c = m.get('confirmation') or {}
    ok = 'ok' if c.get('tests_ok') and c.get('fails_with') and c.get('passes_without') else 'UNCONFIRMED'
    print(sid, st, ok, '|', m['summary'][:100].replace('\n', ' '))
