#!/bin/bash
# tools/seed7_eval.sh <Cxx> ...: evaluates the round-7 seeds of the given properties (agent worktrees /tmp/r8_<Cxx>/OUT/{1,2}) from a snapshot
# of /verif (so that edits to /verif made meanwhile do not disturb the runs); results are copied to /verif/seeded/<id>/
SNAP=${SNAP:-/tmp/verif_snap}
mkdir -p $SNAP
rsync -a --delete --exclude .git --exclude build /verif/ $SNAP/
for p in "$@"; do
  last=$(ls -d /verif/seeded/$p-* 2>/dev/null | sed 's/.*-//' | sort -n | tail -1); last=${last:-0}
  for n in 1 2; do
    [ -f /tmp/${ROUND:-r8}_$p/OUT/$n/patch.diff ] || continue
    id=$p-$((last+n))
    echo "=== $id (/tmp/${ROUND:-r8}_$p OUT/$n)"
    (cd $SNAP && python3 tools/seed_eval.py /tmp/${ROUND:-r8}_$p $n $id 2>&1 | grep -E "CONFIRM|CAUGHT|Error|error:|assert" | head -5)
    mkdir -p /verif/seeded/$id && cp $SNAP/seeded/$id/* /verif/seeded/$id/
  done
done
echo ALLDONE
