#!/bin/bash
cd "$(dirname "$0")/.."
for d in seeded/*/; do
  id=$(basename $d); p=${id%-*}; n=${id##*-}
  echo "=== $id"
  python3 tools/seed_eval.py /tmp/seed_$p $n $id --no-confirm 2>&1 | grep -E "CAUGHT|Error|error:" | head -3
done
echo ALLDONE
