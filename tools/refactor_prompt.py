import sys
tag, files = sys.argv[1], sys.argv[2:]
print(f"""You are helping test a verification framework for FALSE ALARMS by playing the role of a maintainer who does ordinary, behaviour-preserving maintenance.

Repository: a Rust implementation of AMQP 1.0 (fe2o3-amqp). You have your OWN scratch git worktree at /tmp/rf_{tag} . Work ONLY inside /tmp/rf_{tag} (never touch /repo or /verif, never read /verif). The machine is offline: always pass --offline to cargo and set CARGO_TARGET_DIR=/tmp/rf_{tag}/target .

TASK: produce FOUR different, independent source changes to the library, each of which is a SEMANTICS-PRESERVING refactoring or clean-up -- the observable behaviour of every public and crate-internal function must stay exactly the same for all inputs (same results, same frames / bytes written, same state changes, same errors, same order of effects). Typical maintenance edits are wanted, for example: renaming local variables or closure parameters; reordering two independent statements; replacing an `if let .. else` by an equivalent `match` (or the reverse); replacing a combinator chain (`map`/`and_then`/`ok_or`/`unwrap_or`) by the equivalent `match` or vice versa; introducing a local variable for a sub-expression, or inlining one; extracting a few lines into a small private helper function (or inlining such a helper); replacing `x.wrapping_add(1)` by an equivalent expression only if it is equivalent for ALL inputs; changing `for` over a range into the equivalent `while`; early return instead of nested else; rewording comments / log strings. Keep each change small to medium (3-30 lines) and make it inside NON-test code of these files (one change per file where possible, otherwise different functions):
{chr(10).join('  - ' + f for f in files)}
Choose functions that contain real logic (state machines, arithmetic on counters / windows / credit, loops over buffers or maps, encoders / decoders), not trivial getters.

Requirements for EACH change: (a) the workspace compiles; (b) the existing tests still pass: `cd /tmp/rf_{tag} && CARGO_TARGET_DIR=/tmp/rf_{tag}/target cargo test -p fe2o3-amqp -p fe2o3-amqp-types -p serde_amqp --offline --lib --no-fail-fast` (the test `connection::builder::tests::test_url_name_resolution` fails at baseline because there is no network; ignore it); also run `cargo check -p fe2o3-amqp --offline --features "transaction acceptor"`; (c) you are confident, by reading the code, that behaviour is unchanged for all inputs -- if in doubt, pick another edit. Do not edit tests, do not add cfg flags or dependencies.

Deliverables - write them to /tmp/rf_{tag}/OUT/<n>/ for n = 1..4:
  patch.diff   : `git diff` of the change, applicable with `git apply` from the repo root
  meta.json    : {{"summary": "...what was changed, in which function...", "why_equivalent": "...short argument...", "ran": ["commands you ran and their outcome"]}}
After writing each deliverable, restore the worktree with `git -C /tmp/rf_{tag} checkout -- .` before starting the next change, so that every patch.diff is relative to the original tree. Finish with the worktree clean (apart from OUT/ and target/).

In your final answer list, per change, the file/function and a one-line summary.""")
