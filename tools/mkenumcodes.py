#!/usr/bin/env python3
"""tools/mkenumcodes.py: writes units/enumcodes.rs -- the restricted types of the specification that are enumerations over a primitive (settle modes, role, terminus
expiry policy, distribution mode, sasl-code, terminus durability): the value each choice has on the wire, in both directions, against the specification's tables."""
import os
ROOT = os.path.dirname(os.path.dirname(os.path.abspath(__file__)))
T = 'fe2o3-amqp-types/src/'
out = []
w = out.append
L = lambda props, s: ' '.join('[%s.%s]' % (p, s) for p in props.split())
w('//@@ unit ENUMCODES')
w('#![feature(allocator_api)]')
w('#![allow(unused_imports, unused_variables, dead_code, unused_mut, unused_parens)]')
w('use vstd::prelude::*;')
w('')
w('verus! {')
w('')
w('//@@ gsubst `de::Error::custom(__E1)` => `err_custom()` rule=R9')
w('//@@ trusted written by tools/mkenumcodes.py from a table: the wire values of each restricted type are taken from the AMQP 1.0 specification text, not from the code; Symbol is a stand-in holding its text; the error value of a refusing visitor is a stand-in; R39 for matches over string literals')
w('pub struct ErrS { pub k: u8 }')
w('#[verifier::external_body]')
w('pub fn err_custom() -> (r: ErrS) { unimplemented!() }')
w('pub struct Symbol { pub text: Ghost<Seq<char>> }')
w('impl Symbol { #[verifier::external_body] pub fn from(v: &str) -> (r: Symbol) ensures r.text@ == v@ { unimplemented!() } }')
w('')
# --- numeric enums with hand-written conversions
NUM = [
    ('SenderSettleMode', T + 'definitions/snd_settle_mode.rs', 'mode', [('Unsettled', 0), ('Settled', 1), ('Mixed', 2)], 'C02 C03 C05', 'AMQP 1.0 part 2, 2.8.2 sender-settle-mode'),
    ('ReceiverSettleMode', T + 'definitions/rcv_settle_mode.rs', 'mode', [('First', 0), ('Second', 1)], 'C02 C03 C05', 'AMQP 1.0 part 2, 2.8.3 receiver-settle-mode'),
]
for (en, f, pn, table, props, ref) in NUM:
    w('// ================================================================ %s (%s)' % (en, f))
    w('pub mod m_%s {' % en.lower())
    w('use super::*;')
    w('//@@ type file=%s kind=enum name=%s' % (f, en))
    w('//@@ end')
    w('pub open spec fn wire(e: %s) -> u8 { match e { %s } }' % (en, ', '.join('%s::%s => %d' % (en, v, c) for v, c in table)))
    for (imp, nm, deref) in [('impl From<%s> for u8' % en, 'to_u8', ''), ('impl From<&%s> for u8' % en, 'ref_to_u8', '*')]:
        w('//@@ fn file=%s impl=`%s` name=from as=%s' % (f, imp, nm))
        w('//@@ ret u8')
        w('//@@ spec')
        w('    ensures r == wire(%s%s),       // %s %s: the value written for each choice' % (deref, pn, L(props, 'restricted.value-written'), ref))
        w('//@@ end')
    w('pub struct Visitor {}')
    w('impl Visitor {')
    w("//@@ fn file=%s impl=`impl de::Visitor<'_> for Visitor` name=visit_u8 id=%s::visit_u8" % (f, en))
    w('//@@ generics')
    w('//@@ nowhere')
    w('//@@ orsplit')
    w('//@@ blockarms')
    w('//@@ ret Result<%s, ErrS>' % en)
    w('//@@ spec')
    w('    ensures')
    w('        r is Ok ==> wire(r->Ok_0) == v,       // %s %s: a value decodes as the choice that is written as that value, and as no other' % (L(props, 'restricted.value-read'), ref))
    w('        %s ==> r is Ok,       // %s every value the specification defines is accepted' % (' || '.join('v == %d' % c for _, c in table), L(props, 'restricted.every-value-accepted')))
    w('//@@ end')
    w('}')
    w('} // mod')
    w('')
# --- role
f = T + 'definitions/role.rs'
props = 'C02 C03 C05 C11'
w('// ================================================================ Role (%s)' % f)
w('pub mod m_role {')
w('use super::*;')
w('//@@ type file=%s kind=enum name=Role' % f)
w('//@@ end')
w('/// AMQP 1.0 part 2, 2.8.1 role: false = sender, true = receiver')
w('pub open spec fn wire(e: Role) -> bool { match e { Role::Sender => false, Role::Receiver => true } }')
for (imp, nm, deref) in [('impl From<Role> for bool', 'to_bool', ''), ('impl From<&Role> for bool', 'ref_to_bool', '*')]:
    w('//@@ fn file=%s impl=`%s` name=from as=%s' % (f, imp, nm))
    w('//@@ ret bool')
    w('//@@ spec')
    w('    ensures r == wire(%srole),       // %s' % (deref, L(props, 'restricted.value-written')))
    w('//@@ end')
w('impl Role {')
w('//@@ fn file=%s impl=`impl From<bool> for Role` name=from' % f)
w('//@@ ret Role')
w('//@@ spec')
w('    ensures wire(r) == b,       // %s' % L(props, 'restricted.value-read'))
w('//@@ end')
w('}')
w('} // mod')
w('')
# --- symbol enums
SYM = [
    ('TerminusExpiryPolicy', T + 'messaging/term_expiry_policy.rs', [('LinkDetach', 'link-detach'), ('SessionEnd', 'session-end'), ('ConnectionClose', 'connection-close'), ('Never', 'never')],
     [('impl From<&TerminusExpiryPolicy> for Symbol', 'ref_to_symbol', '*')], 'C03 C05', 'AMQP 1.0 part 3, 3.5.6 terminus-expiry-policy'),
    ('DistributionMode', T + 'messaging/dist_mode.rs', [('Move', 'move'), ('Copy', 'copy')],
     [('impl From<DistributionMode> for Symbol', 'to_symbol', ''), ('impl From<&DistributionMode> for Symbol', 'ref_to_symbol', '*')], 'C03 C05', 'AMQP 1.0 part 3, 3.5.7 std-dist-mode'),
]
import re
for (en, f, table, convs, props, ref) in SYM:
    src = open(os.path.join(os.environ.get('REPO', '/repo'), f)).read()
    w('// ================================================================ %s (%s)' % (en, f))
    w('pub mod m_%s {' % en.lower())
    w('use super::*;')
    w('//@@ type file=%s kind=enum name=%s' % (f, en))
    w('//@@ end')
    w('//@@ strlits lemma=lemma_names_distinct `%s the symbols of this type are pairwise different` `%s`' % (L(props, 'restricted.names-distinct'), '|'.join(n for _, n in table)))
    w('pub open spec fn wire(e: %s) -> Seq<char> { match e { %s } }' % (en, ', '.join('%s::%s => "%s"@' % (en, v, n) for v, n in table)))
    w('impl %s {' % en)
    w("//@@ fn file=%s impl=`impl<'a> TryFrom<&'a str> for %s` name=try_from" % (f, en))
    w('//@@ orsplit')
    w('//@@ blockarms')
    w("//@@ generics <'a>")
    w("//@@ ret Result<%s, &'a str>" % en)
    w('//@@ entry')
    w('    proof { lemma_names_distinct(); }')
    w('//@@ spec')
    w('    ensures')
    w('        r is Ok ==> wire(r->Ok_0) == value@,       // %s %s' % (L(props, 'restricted.value-read'), ref))
    w('        %s ==> r is Ok,       // %s' % (' || '.join('value@ == "%s"@' % n for _, n in table), L(props, 'restricted.every-value-accepted')))
    w('//@@ end')
    w('}')
    w('impl Symbol {')
    for (imp, nm, deref) in convs:
        m = re.search(re.escape(imp) + r' \{\s*fn from\((\w+):', src)
        pn = m.group(1) if m else 'value'
        w('//@@ fn file=%s impl=`%s` name=from as=%s_%s' % (f, imp, en.lower(), nm))
        w('//@@ ret Symbol')
        w('//@@ spec')
        w('    ensures r.text@ == wire(%s%s),       // %s %s' % (deref, pn, L(props, 'restricted.value-written'), ref))
        w('//@@ end')
    w('}')
    w('} // mod')
    w('')
# --- sasl code: repr(u8) discriminants
f = T + 'sasl/mod.rs'
w('// ================================================================ SaslCode (%s): #[repr(u8)] + Serialize_repr / Deserialize_repr -- the discriminant IS the wire value' % f)
w('//@@ type file=%s kind=enum name=SaslCode keeprepr clone' % f)
w('//@@ end')
w('impl Copy for SaslCode {}')
w('pub proof fn lemma_sasl_codes()')
w('    ensures SaslCode::Ok as u8 == 0, SaslCode::Auth as u8 == 1, SaslCode::Sys as u8 == 2, SaslCode::SysPerm as u8 == 3, SaslCode::SysTemp as u8 == 4,       // [C19.sasl-code.values] [C03.restricted.value-written] [C05.restricted.value-written] AMQP 1.0 part 5, 5.3.3.6 sasl-code: 0 = ok (authentication succeeded), 1 = auth, 2 = sys, 3 = sys-perm, 4 = sys-temp')
w('{}')
w('')
w('// ================================================================ defaults: what an absent (or null) field stands for -- AMQP 1.0 field tables, `default=` attributes')
DL = '[C05.default.specification-default] [C03.default.specification-default]'
w('//@@ enumorder file=%sdefinitions/snd_settle_mode.rs enum=SenderSettleMode default=mixed noorder `unsettled,settled,mixed` `%s attach.snd-settle-mode defaults to mixed (part 2, 2.7.3)`' % (T, DL))
w('//@@ enumorder file=%sdefinitions/rcv_settle_mode.rs enum=ReceiverSettleMode default=first noorder `first,second` `%s attach.rcv-settle-mode defaults to first (part 2, 2.7.3)`' % (T, DL))
w('//@@ enumorder file=%smessaging/term_expiry_policy.rs enum=TerminusExpiryPolicy default=session-end noorder `link-detach,session-end,connection-close,never` `%s source / target expiry-policy defaults to session-end (part 3, 3.5.3)`' % (T, DL))
w('pub struct Handle(pub u32);')
w('pub struct Priority(pub u8);')
w('pub struct MaxFrameSize(pub u32);')
w('pub struct ChannelMax(pub u16);')
for (ty, f, val, prop, what) in [('Handle', 'definitions/mod.rs', '0xffff_ffffu32', 'C11', 'begin.handle-max defaults to 4294967295 (part 2, 2.7.2)'),
                               ('Priority', 'messaging/format/mod.rs', '4u8', 'C01', 'header.priority defaults to 4 (part 3, 3.2.1)'),
                               ('MaxFrameSize', 'performatives/open.rs', '0xffff_ffffu32', 'C06', 'open.max-frame-size defaults to 4294967295 (part 2, 2.7.1)'),
                               ('ChannelMax', 'performatives/open.rs', '0xffffu16', 'C17', 'open.channel-max defaults to 65535 (part 2, 2.7.1)')]:
    w('impl %s {' % ty)
    w('//@@ fn file=%s%s impl=`impl Default for %s` name=default id=%s::default' % (T, f, ty, ty))
    w('//@@ ret %s' % ty)
    w('//@@ spec')
    w('    ensures r.0 == %s,       // %s [%s.default.specification-default] %s: a peer that leaves the field out means exactly this value, and this end leaves it out only for this value' % (val, DL, prop, what))
    w('//@@ end')
    w('}')
w('// ================================================================ TerminusDurability: serde derive on a fieldless enum')
w('//@@ enumorder file=%smessaging/terminus_durability.rs enum=TerminusDurability default=none `none,configuration,unsettled-state` `[C03.restricted.value-written] [C05.restricted.value-written] AMQP 1.0 part 3, 3.5.5 terminus-durability: 0 = none, 1 = configuration, 2 = unsettled-state`' % T)
w('')
w('} // verus!')
w('fn main() {}')
open(os.path.join(ROOT, 'units', 'enumcodes.rs'), 'w').write('\n'.join(out) + '\n')
print('wrote units/enumcodes.rs')
