#!/usr/bin/env python3
"""Writes the three delegation units (units/accdeleg.rs, units/txndeleg.rs, units/lconndeleg.rs) from the tables below.
A wrapper endpoint (ListenerSession, TxnSession<S>, ListenerConnection) forwards most of its trait methods to the endpoint it wraps. The wrapped endpoint is an
opaque value; each of its operations is an uninterpreted function step_<op>(state, args) -> (state', [written-through &mut args'], result). The contract of a
forwarding method: exactly that step, once, with the arguments given, result handed back unchanged, nothing else of the wrapper touched.
The templates are committed; rerun this script only to change the tables."""
import os
ROOT = os.path.dirname(os.path.dirname(os.path.abspath(__file__)))

SESSION_FNS = [
 # name, kind(ref|mut), params [(n,t)], ret, label text
 ('local_state','ref',[],'&SessionState','[C13.{w}.state-is-the-sessions] the state the wrapper reports is the state of the session it wraps'),
 ('set_session_stop_reason','mut',[('reason','SessionStopReason')],None,'[C14.{w}.stop-reason-published-in-the-sessions-cell] the stop reason is recorded in the cell of the wrapped session -- the one its handles and links read'),
 ('abandon_pending_deliveries','mut',[],None,'[C14.{w}.waiters-released-by-the-session] when the engine stops, the sends still waiting on links of the wrapped session are released by it (unit SESSION [C14.session-stop.every-sending-relay-reached])'),
 ('session_stop_reason','ref',[],'&StopArc','[C14.{w}.stop-reason-cell-is-the-sessions]'),
 ('connection_stop_reason','ref',[],'&ConnStopArc','[C14.{w}.connection-stop-cell-is-the-sessions]'),
 ('outgoing_channel','ref',[],'OutgoingChannel','[C11.{w}.channel-is-the-sessions]'),
 ('allocate_link','mut',[('link_name','String'),('LINKRELAY_OPT','Option<LinkRelayIn>')],'Result<OutputHandle, AllocLinkError>','[C11.{w}.local-link-allocated-by-the-session] a link this side initiates gets its handle from the wrapped session\'s table (fresh, within handle-max: unit SESSION)'),
 ('deallocate_link','mut',[('output_handle','OutputHandle')],None,'[C11.{w}.handle-released-by-the-session] [C13.{w}.link-released-by-the-session]'),
 ('on_incoming_begin','mut',[('channel','IncomingChannel'),('begin','Begin')],'Result<(), BeginError>','[C13.{w}.begin-handled-by-the-session] [C07.{w}.windows-initialised-by-the-session] the peer\'s begin (its windows, its next-outgoing-id) is taken over by the wrapped session, unchanged'),
 ('on_incoming_end','mut',[('channel','IncomingChannel'),('end','End')],'Result<(), EndError>','[C13.{w}.end-handled-by-the-session] [C14.{w}.peer-end-error-reported]'),
 ('send_begin','mut',[('writer','&SessTx')],'Result<(), BeginError>','[C13.{w}.begin-sent-by-the-session]'),
 ('send_end','mut',[('writer','&SessTx'),('error','Option<AmqpError>')],'Result<(), EndError>','[C13.{w}.end-sent-by-the-session]'),
 ('on_outgoing_attach','mut',[('attach','Attach')],'Result<SessionFrame, SessionInnerError>','[C11.{w}.attach-framed-by-the-session]'),
 ('on_outgoing_flow','mut',[('flow','LinkFlow')],'Result<SessionFrame, SessionInnerError>','[C07.{w}.flow-reports-the-sessions-state] [C09.{w}.link-flow-framed-by-the-session] a flow a link of this session sends carries the wrapped session\'s current window state'),
 ('maybe_outgoing_session_flow','mut',[],'Option<SessionOutgoingItem>','[C07.{w}.window-top-up-by-the-session]'),
 ('on_outgoing_transfer','mut',[('input_handle','InputHandle'),('transfer','Transfer'),('payload','Payload')],'Result<Option<SessionOutgoingItem>, SessionInnerError>','[C07.{w}.outgoing-transfer-accounted-by-the-session] [C01.{w}.outgoing-transfer-unchanged] every transfer a sender of this session emits goes through the wrapped session\'s window accounting (numbered, counted, parked when the peer\'s window is closed) exactly once, unchanged'),
 ('on_outgoing_disposition','mut',[('disposition','Disposition')],'Result<SessionFrame, SessionInnerError>','[C02.{w}.outgoing-disposition-unchanged]'),
 ('on_outgoing_detach','mut',[('detach','Detach')],'SessionFrame','[C13.{w}.detach-handled-by-the-session] [C11.{w}.handle-released-by-the-session]'),
]
LISTENER_ONLY = [
 ('on_incoming_disposition','mut',[('disposition','Disposition')],'Result<Option<Vec<Disposition>>, SessionInnerError>','[C02.{w}.disposition-handled-by-the-session] a disposition reaches the wrapped session unchanged and its settling echoes are handed on unchanged: settlement here is the settlement of unit SESSION'),
]
TXN_ONLY = [
 ('allocate_incoming_link','mut',[('link_name','String'),('link_relay','LinkRelayIn'),('input_handle','InputHandle')],'Result<OutputHandle, AllocLinkError>','[C11.{w}.incoming-link-allocated-by-the-session]'),
 ('on_incoming_flow','mut',[('flow','Flow')],'Result<Option<SessionOutgoingItem>, SessionInnerError>','[C07.{w}.flow-handled-by-the-session] [C08.{w}.flow-handled-by-the-session] a flow (session window and link credit) is applied by the wrapped session, unchanged, and its answer handed on'),
 ('on_incoming_detach','mut',[('detach','Detach')],'Result<(), SessionInnerError>','[C13.{w}.peer-detach-handled-by-the-session]'),
]
CONN_FNS = [
 ('local_state','ref',[],'&ConnectionState','[C12.{w}.state-is-the-connections] the state the listener connection reports and acts on is the state of the connection it wraps'),
 ('local_open','ref',[],'&Open','[C12.{w}.open-is-the-connections] [C17.{w}.limits-are-the-connections]'),
 ('connection_stop_reason','ref',[],'&ConnStopArc','[C14.{w}.stop-reason-cell-is-the-connections]'),
 ('set_connection_stop_reason','mut',[('reason','ConnectionStopReason')],None,'[C14.{w}.stop-reason-published-in-the-connections-cell]'),
 ('allocate_session','mut',[('tx','SessionTx')],'Result<OutgoingChannel, AllocSessionError>','[C11.{w}.channel-allocated-by-the-connection] [C17.{w}.channel-max-enforced-by-the-connection] a listener-side session gets its channel from the wrapped connection\'s table: fresh and within the agreed channel-max (unit CONN)'),
 ('deallocate_session','mut',[('outgoing_channel','OutgoingChannel')],None,'[C11.{w}.channel-released-by-the-connection]'),
 ('on_incoming_open','mut',[('channel','IncomingChannel'),('open','Open')],'Result<(), OpenError>','[C12.{w}.open-handled-by-the-connection] [C17.{w}.limits-agreed-by-the-connection] the peer\'s open (its channel-max, max-frame-size, idle time-out) is taken over by the wrapped connection'),
 ('on_incoming_end','mut',[('channel','IncomingChannel'),('end','End')],'Result<(), ConnectionInnerError>','[C11.{w}.end-unmaps-in-the-connection] [C13.{w}.end-reaches-its-session]'),
 ('on_incoming_close','mut',[('channel','IncomingChannel'),('close','Close')],'Result<(), CloseError>','[C12.{w}.close-handled-by-the-connection]'),
 ('send_open','mut',[('writer','&mut FrameSink')],'Result<(), OpenError>','[C12.{w}.open-sent-by-the-connection]'),
 ('send_close','mut',[('writer','&mut FrameSink'),('error','Option<AmqpError>')],'Result<(), CloseError>','[C12.{w}.close-sent-by-the-connection]'),
 ('on_outgoing_end','mut',[('channel','OutgoingChannel'),('end','End')],'Result<Frame, ConnectionInnerError>','[C11.{w}.end-framed-by-the-connection]'),
 ('session_tx_by_incoming_channel','mut',[('channel','IncomingChannel')],'Option<&SessionTxRef>','[C11.{w}.frames-routed-by-the-connections-table] a session frame is forwarded through the wrapped connection\'s channel table'),
]

HEAD = '''//@@ unit {unit}
#![feature(allocator_api)]
#![allow(unused_imports, unused_variables, dead_code, unused_mut, unused_parens)]
use vstd::prelude::*;

verus! {{

//@@ trusted the wrapped endpoint ({inner_doc}) is an opaque value here; each of its operations is an UNINTERPRETED function step_<op>(state, arguments) -> (state', result): the contracts of this unit say that {wrapper} performs exactly that operation, once, with the arguments it was given, hands back its result unchanged and touches nothing of its own
//@@ trusted async bodies with .await erased (R3); channel ends and sinks passed by reference are opaque values (what is written through a `&` end is part of the uninterpreted step; a `&mut` sink's new value is a component of the step's result)

macro_rules! opaque {{
    ($($n:ident),*) => {{ verus!{{ $(
        #[verifier::external_body]
        pub struct $n {{ _p: u8 }}
    )* }} }}
}}
opaque!({opaques});
'''

def emit(unit, fname, wrapper, wlabel, inner_ty, inner_field, other_fields, fns, file, impl, inner_doc, opaques, generics=False, param_renames=None, prelude=''):
    out = [HEAD.format(unit=unit, inner_doc=inner_doc, wrapper=wrapper, opaques=', '.join(opaques)) + prelude]
    out.append('impl %s {' % inner_ty)
    for name, kind, params, ret, lab in fns:
        params = [((param_renames or {}).get(n, n), t) for n, t in params]
        sig = ', '.join('%s: %s' % (n, t) for n, t in params)
        muts = [n for n, t in params if t.startswith('&mut ')]
        def bare(t): return t[5:] if t.startswith('&mut ') else t.lstrip('&')
        if kind == 'ref':
            rt = ret.lstrip('&')
            out.append('    pub uninterp spec fn get_%s(self) -> %s;' % (name, rt))
            out.append('    #[verifier::external_body]\n    pub fn %s(&self) -> (r: %s) ensures %sr == self.get_%s() { unimplemented!() }' % (name, ret, '*' if ret.startswith('&') else '', name))
        else:
            rt = ret or '()'
            rts = rt.replace('&', '')
            spec_params = ''.join(', %s: %s' % (n, bare(t)) for n, t in params)
            res_tuple = '(%s, %s%s)' % (inner_ty, ''.join(bare(t) + ', ' for n, t in params if t.startswith('&mut ')), rts)
            out.append('    pub uninterp spec fn step_%s(self%s) -> %s;' % (name, spec_params, res_tuple))
            args = ', '.join(('*old(%s)' % n if t.startswith('&mut ') else ('*' + n if t.startswith('&') else n)) for n, t in params)
            lhs = '(*final(self), %s%s)' % (''.join('*final(%s), ' % n for n in muts), ('*r' if False else 'r') if ret else '()')
            if ret and ret.startswith('Option<&'):
                lhs = '(*final(self), %s)' % 'opt_deref(r)'
            out.append('    #[verifier::external_body]\n    pub fn %s(&mut self%s)%s ensures %s == old(self).step_%s(%s) { unimplemented!() }' % (name, (', ' + sig) if sig else '', (' -> (r: %s)' % ret) if ret else '', lhs, name, args))
    out.append('}')
    if any(r and r.startswith('Option<&') for _, _, _, r, _ in fns):
        out.append('pub open spec fn opt_deref<T>(o: Option<&T>) -> Option<T> { match o { Some(x) => Some(*x), None => None } }')
    out.append('pub struct %s { pub %s: %s, %s }\n' % (wrapper, inner_field, inner_ty, ', '.join('pub %s: %s' % f for f in other_fields)))
    out.append('impl %s {' % wrapper)
    for name, kind, params, ret, lab in fns:
        params = [((param_renames or {}).get(n, n), t) for n, t in params]
        lab = lab.replace('{w}', wlabel)
        out.append('//@@ fn file=%s impl=`%s` name=%s' % (file, impl, name))
        if generics:
            out.append('//@@ generics')
            out.append('//@@ nowhere')
        for n, t in params:
            out.append('//@@ param %s : %s' % (n, t))
        if ret:
            out.append('//@@ ret %s' % ret)
        out.append('//@@ spec')
        muts = [n for n, t in params if t.startswith('&mut ')]
        args = ', '.join(('*old(%s)' % n if t.startswith('&mut ') else ('*' + n if t.startswith('&') else n)) for n, t in params)
        if kind == 'ref':
            out.append('    ensures %sr == self.%s.get_%s(),     // %s' % ('*' if ret.startswith('&') else '', inner_field, name, lab))
        else:
            rr = 'r' if ret else '()'
            if ret and ret.startswith('Option<&'):
                rr = 'opt_deref(r)'
            out.append('    ensures')
            out.append('        (final(self).%s, %s%s) == old(self).%s.step_%s(%s),     // %s' % (inner_field, ''.join('*final(%s), ' % n for n in muts), rr, inner_field, name, args, lab))
            out.append('        ' + ' && '.join('final(self).%s == old(self).%s' % (f[0], f[0]) for f in other_fields) + ',')
        out.append('//@@ end')
    out.append('}\n\n} // verus!\nfn main() {}')
    open(os.path.join(ROOT, 'units', fname), 'w').write('\n'.join(out) + '\n')

SESS_OPAQUES = ['SessionS', 'SessionState', 'SessionStopReason', 'StopArc', 'ConnStopArc', 'OutgoingChannel', 'IncomingChannel', 'LinkRelayIn', 'OutputHandle', 'AllocLinkError', 'Begin', 'End', 'BeginError', 'EndError',
                'Disposition', 'SessionInnerError', 'SessTx', 'AmqpError', 'Attach', 'LinkFlow', 'Flow', 'SessionFrame', 'SessionOutgoingItem', 'InputHandle', 'Transfer', 'Payload', 'Detach']
emit('ACCDELEG', 'accdeleg.rs', 'ListenerSession', 'listener', 'SessionS', 'session', [('link_listener', 'LinkListener'), ('pending_link_flows', 'PendingFlows')],
     SESSION_FNS + LISTENER_ONLY, 'fe2o3-amqp/src/acceptor/session.rs', 'impl endpoint::Session for ListenerSession',
     'session::Session, under contract in unit SESSION', SESS_OPAQUES + ['PendingFlows', 'LinkListener'], param_renames={'LINKRELAY_OPT': 'link_handle'})
emit('TXNDELEG', 'txndeleg.rs', 'TxnSession', 'txn-session', 'SessionS', 'session', [('control', 'SessCtl'), ('txn_manager', 'TransactionManager')],
     SESSION_FNS + TXN_ONLY, 'fe2o3-amqp/src/transaction/session.rs', '~impl<S>endpoint::SessionforTxnSession<S>where',
     'S: endpoint::Session -- session::Session on a client, ListenerSession on a listener; units SESSION, ACCSESS', [o for o in SESS_OPAQUES if o != 'Flow'] + ['SessCtl', 'TransactionManager', 'Fields', 'FlowRest'], param_renames={'LINKRELAY_OPT': 'link_relay'},
     prelude='''//@@ gsubst `super::TXN_ID_KEY` => `TXN_ID_KEY` rule=R11
/// Flow: the field a transactional session may look at (`properties`, where a `txn-id` requests transactional acquisition), the rest is one opaque field (R11)
pub struct Flow { pub properties: Option<Fields>, pub rest: FlowRest }
pub const TXN_ID_KEY: &'static str = "txn-id";
impl Fields {
    pub uninterp spec fn has_key(&self, k: &str) -> bool;
    #[verifier::external_body]
    pub fn contains_key(&self, k: &str) -> (r: bool) ensures r == self.has_key(k) { unimplemented!() }
}
''')
emit('LCONNDELEG', 'lconndeleg.rs', 'ListenerConnection', 'listener-connection', 'ConnectionS', 'connection', [('session_listener', 'SessionListener')],
     CONN_FNS, 'fe2o3-amqp/src/acceptor/connection.rs', 'impl endpoint::Connection for ListenerConnection',
     'connection::Connection, under contract in unit CONN',
     ['ConnectionS', 'ConnectionState', 'Open', 'ConnStopArc', 'ConnectionStopReason', 'SessionTx', 'OutgoingChannel', 'AllocSessionError', 'IncomingChannel', 'OpenError', 'End', 'ConnectionInnerError', 'Close', 'CloseError',
      'FrameSink', 'AmqpError', 'Frame', 'SessionTxRef', 'SessionListener'], generics=True)
