#!/usr/bin/env python3
"""tools/mknewtypes.py: writes units/newtypes.rs -- the AMQP-specific types of serde_amqp announce themselves to the serializer and to the deserializer by a NAME
(Symbol, SymbolRef, Array, Timestamp, Uuid, Dec32 / 64 / 128, LazyValue, TransparentVec): each type uses ITS name, the same one in both directions; the fixed-width
types accept exactly their width."""
import os
ROOT = os.path.dirname(os.path.dirname(os.path.abspath(__file__)))
S = 'serde_amqp/src/'
P = 'C03 C05'
L = lambda s, props=P: ' '.join('[%s.%s]' % (p, s) for p in props.split())
# (module, file, type, CONST, serialize impl header, payload stand-in field, deserialize impl header or None, visitor expr, width const or None, tryfrom impl header)
T = [
  ('symbol', S + 'primitives/symbol.rs', 'Symbol', 'SYMBOL', 'impl Serialize for Symbol', "impl<'de> de::Deserialize<'de> for Symbol", None),
  ('symbol_ref', S + 'primitives/symbol.rs', 'SymbolRef', 'SYMBOL_REF', "impl Serialize for SymbolRef<'_>", "impl<'de> de::Deserialize<'de> for SymbolRef<'de>", None),
  ('array', S + 'primitives/array.rs', 'Array', 'ARRAY', 'impl<T: ser::Serialize> ser::Serialize for Array<T>', None, None),
  ('timestamp', S + 'primitives/timestamp.rs', 'Timestamp', 'TIMESTAMP', 'impl ser::Serialize for Timestamp', "impl<'de> de::Deserialize<'de> for Timestamp", None),
  ('uuid', S + 'primitives/uuid.rs', 'Uuid', 'UUID', 'impl ser::Serialize for Uuid', "impl<'de> de::Deserialize<'de> for Uuid", ('UUID_WIDTH', 16)),
  ('dec32', S + 'primitives/decimal.rs', 'Dec32', 'DECIMAL32', 'impl ser::Serialize for Dec32', "impl<'de> de::Deserialize<'de> for Dec32", ('DECIMAL32_WIDTH', 4)),
  ('dec64', S + 'primitives/decimal.rs', 'Dec64', 'DECIMAL64', 'impl ser::Serialize for Dec64', "impl<'de> de::Deserialize<'de> for Dec64", ('DECIMAL64_WIDTH', 8)),
  ('dec128', S + 'primitives/decimal.rs', 'Dec128', 'DECIMAL128', 'impl ser::Serialize for Dec128', "impl<'de> de::Deserialize<'de> for Dec128", ('DECIMAL128_WIDTH', 16)),
  ('lazy_value', S + 'lazy.rs', 'LazyValue', 'LAZY_VALUE', 'impl Serialize for LazyValue', "impl<'de> Deserialize<'de> for LazyValue", None),
  ('transparent_vec', S + 'extensions/transparent_vec.rs', 'TransparentVec', 'TRANSPARENT_VEC', '~impl<T>SerializeforTransparentVec<T>whereT:Serialize', None, None),
]
out = []
w = out.append
w('//@@ unit NEWTYPES')
w('#![feature(allocator_api)]')
w('#![allow(unused_imports, unused_variables, dead_code, unused_mut, unused_parens)]')
w('use vstd::prelude::*;')
w('')
w('verus! {')
w('')
w("//@@ trusted written by tools/mknewtypes.py from a table. serde's Serializer / Deserializer (serde_amqp's: units SERENTRY / DEENTRY, which dispatch on the name) are stand-ins that record the NAME a type announces itself with; the payload handed over (`&self.0`, `Bytes::new(&self.0)`) and the visitor are opaque; the name constants are extracted from serde_amqp/src/constants.rs with their distinctness lemma (R38)")
w('//@@ strconsts file=serde_amqp/src/constants.rs names=ARRAY,DECIMAL32,DECIMAL64,DECIMAL128,SYMBOL,SYMBOL_REF,TIMESTAMP,UUID,TRANSPARENT_VEC,LAZY_VALUE lemma=lemma_names_distinct label=`%s the names are pairwise different strings`' % L('constants.newtype-names-distinct'))
w('pub struct ErrS { pub k: u8 }')
w('/// what a serializer was asked: the name announced')
w('pub struct SerOk { pub announced: Ghost<Seq<char>> }')
w('pub struct SerS { pub p: u8 }')
w('#[verifier::external_body] pub struct PayloadS { _p: u8 }')
w('impl SerS {')
w('    #[verifier::external_body]')
w("    pub fn serialize_newtype_struct(self, name: &'static str, value: PayloadS) -> (r: Result<SerOk, ErrS>) ensures r is Ok ==> r->Ok_0.announced@ == name@ { unimplemented!() }")
w('}')
w("pub struct DeS<'a> { pub log: &'a mut Ghost<Seq<Seq<char>>> }")
w('pub struct VisS {}')
w("impl<'a> DeS<'a> {")
w('    #[verifier::external_body]')
w("    pub fn deserialize_newtype_struct<T>(self, name: &'static str, visitor: VisS) -> (r: Result<T, ErrS>) ensures (*final(self.log))@ == (*old(self.log))@.push(name@) { unimplemented!() }")
w('}')
w('')
for (mod, f, ty, const, simp, dimp, width) in T:
    w('// ================================================================ %s (%s)' % (ty, f))
    w('pub mod m_%s {' % mod)
    w('use super::*;')
    w('pub struct %s { pub p: u8 }' % ty)
    w('impl %s {' % ty)
    w('//@@ fn file=%s impl=`%s` name=serialize id=%s::serialize' % (f, simp, ty))
    w('//@@ generics')
    w('//@@ nowhere')
    w('//@@ param serializer : SerS')
    w('//@@ ret Result<SerOk, ErrS>')
    w('//@@ subst `serializer.serialize_newtype_struct(__E1, __E2)` => `serializer.serialize_newtype_struct(__E1, payload_of(self))` rule=R9')
    w('//@@ spec')
    w('    ensures r is Ok ==> r->Ok_0.announced@ == %s@,       // %s a %s announces itself to the serializer under ITS name (and under no other type\'s): the serializer then writes it with the constructor of that type (unit SERENTRY)' % (const, L('newtype.own-name-written'), ty))
    w('//@@ end')
    w('}')
    w('#[verifier::external_body] pub fn payload_of(x: &%s) -> (r: PayloadS) { unimplemented!() }' % ty)
    if dimp:
        w('impl %s {' % ty)
        w('//@@ fn file=%s impl=`%s` name=deserialize id=%s::deserialize' % (f, dimp, ty))
        w("//@@ generics <'a>")
        w('//@@ nowhere')
        w("//@@ param deserializer : DeS<'a>")
        w('//@@ ret Result<%s, ErrS>' % ty)
        w('//@@ subst `deserializer.deserialize_newtype_struct(__E1, __E2)` => `deserializer.deserialize_newtype_struct(__E1, VisS {})` rule=R9')
        w('//@@ spec')
        w('    ensures (*final(deserializer.log))@ == (*old(deserializer.log))@.push(%s@),       // %s and asks the deserializer for a value under the SAME name: the deserializer reads it with the decoder of that type (unit DEENTRY)' % (const, L('newtype.own-name-read')))
        w('//@@ end')
        w('}')
    w('} // mod')
    w('')
w('} // verus!')
w('fn main() {}')
open(os.path.join(ROOT, 'units', 'newtypes.rs'), 'w').write('\n'.join(out) + '\n')
print('wrote units/newtypes.rs')
