#!/usr/bin/env python3
"""False-alarm test: run every check against a scratch copy of /repo with a SEMANTICS-PRESERVING patch applied.
usage: tools/rf_eval.py <patch-dir (contains patch.diff, meta.json)> <id>     env RF_SCRATCH (scratch copy path), run from a snapshot of /verif
Any exit 1 is a false alarm (to be corrected in the machinery); exit 2 (lost anchor, construct outside the subset) is acceptable.
Result: /verif/refactor/<id>/{patch.diff,meta.json}"""
import sys, os, json, subprocess, shutil, tempfile
ROOT = os.path.dirname(os.path.dirname(os.path.abspath(__file__)))
sys.path.insert(0, ROOT)
from vlib.props import PROPS

def sh(cmd, cwd=None, timeout=3600):
    p = subprocess.run(cmd, shell=True, cwd=cwd, stdout=subprocess.PIPE, stderr=subprocess.STDOUT, text=True, timeout=timeout)
    return p.returncode, p.stdout

def main():
    out, rid = sys.argv[1], sys.argv[2]
    meta = json.load(open(os.path.join(out, 'meta.json'))) if os.path.exists(os.path.join(out, 'meta.json')) else {}
    scratch = os.environ.get('RF_SCRATCH', '/tmp/rfrepo_work')
    os.makedirs(scratch, exist_ok=True)
    sh('rsync -a --delete --exclude target --exclude .git /repo/ %s/' % scratch)
    sh('rm -rf %s/.git' % scratch)
    sh('git init -q && git add -A >/dev/null 2>&1', scratch)
    rc, o = sh('git apply %s' % os.path.join(out, 'patch.diff'), scratch)
    if rc != 0:
        print('PATCH DOES NOT APPLY', o[-300:]); sys.exit(3)
    sh("find . \\( -name '*.rs' -o -name 'Cargo.toml' \\) -not -path './target/*' -exec touch {} +", scratch)
    res = {}
    evd = tempfile.mkdtemp(prefix='rfev_', dir='/tmp')
    try:
        for pid in sorted(PROPS):
            rc, o = sh('REPO=%s VERIF_PRIVATE_BUILD=1 VERIF_EVIDENCE_DIR=%s ./check %s' % (scratch, evd, pid), ROOT)
            viol = [l for l in o.split('\n') if l.startswith('VIOLATION')]
            und = [l for l in o.split('\n') if l.startswith('UNDECIDED')]
            res[pid] = dict(rc=rc, violations=[v.replace(evd, 'evidence') for v in viol], undecided=[u[:300] for u in und])
            if rc != 0: print(pid, rc, viol[:2], und[:1])
    finally:
        shutil.rmtree(evd, ignore_errors=True)
    dest = os.path.join('/verif', 'refactor', rid)
    os.makedirs(dest, exist_ok=True)
    if os.path.abspath(os.path.join(out, 'patch.diff')) != os.path.abspath(os.path.join(dest, 'patch.diff')):
        shutil.copy(os.path.join(out, 'patch.diff'), os.path.join(dest, 'patch.diff'))
    meta['check_results'] = res
    meta['false_alarms'] = sorted(p for p, a in res.items() if a['rc'] == 1)
    meta['undecided_in'] = sorted(p for p, a in res.items() if a['rc'] == 2)
    json.dump(meta, open(os.path.join(dest, 'meta.json'), 'w'), indent=1)
    print('FALSE ALARMS', meta['false_alarms'], 'UNDECIDED', meta['undecided_in'])

if __name__ == '__main__':
    main()
