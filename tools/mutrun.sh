#!/bin/bash
# usage: tools/mutrun.sh <unit> <file-rel> <python-regex-from> <to>   -- dev only: text-level mutation on a scratch copy of the sources
set -e
U=$1; F=$2; FROM=$3; TO=$4
D=$(mktemp -d /tmp/mutsrc.XXXX)
SRC=${REPO:-/repo}; rsync -a --include="*/" --include="*.rs" --exclude="*" $SRC/fe2o3-amqp $SRC/fe2o3-amqp-types $SRC/serde_amqp $D/ --exclude target
python3 - "$D/$F" "$FROM" "$TO" <<'PY'
import sys,re
p,f,t=sys.argv[1:4]
s=open(p).read()
n=len(re.findall(f,s))
if n!=1: print("MUTATION PATTERN MATCHES",n); sys.exit(3)
open(p,'w').write(re.sub(f,t,s))
PY
REPO=$D python3 devgen.py $U || true
rm -rf $D
