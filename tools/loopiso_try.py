#!/usr/bin/env python3
"""For every extracted function with a loop and no loop_isolation attribute: try `#[verifier::loop_isolation(false)]` (facts about locals the loop does not modify
hold inside it without being restated in the invariant -- robustness against expressions hoisted into locals). Keep the attribute where the unit's result is
unchanged (same failing functions) and the function does not get slower than 3x / 5 s; revert otherwise. usage: tools/loopiso_try.py [unit ...]"""
import sys, os, glob, re, json
ROOT = os.path.dirname(os.path.dirname(os.path.abspath(__file__)))
sys.path.insert(0, ROOT)
from vlib import gen, verus
repo = '/repo'
bdir = '/tmp/loopiso_build'
os.makedirs(bdir, exist_ok=True)

def run(path, unit):
    g = gen.generate(repo, path, None)
    out = os.path.join(bdir, unit + '.rs')
    open(out, 'w').write(g['text'])
    r = verus.run(out)
    st, errs = verus.classify(r)
    fails = sorted(b['function'] for b in verus.breakdown(r) if not b['success'])
    times = {b['function']: (b['time_us'] or 0) for b in verus.breakdown(r)}
    return g, st, fails, times, len(errs)

units = sys.argv[1:] or [os.path.basename(p)[:-3] for p in sorted(glob.glob(os.path.join(ROOT, 'units', '*.rs')))]
for unit in units:
    path = os.path.join(ROOT, 'units', unit + '.rs')
    txt = open(path).read()
    if '//@@ unit' not in txt:
        continue
    try:
        g, st0, fails0, times0, ne0 = run(path, unit)
    except Exception as e:
        print('SKIP', unit, e); continue
    if st0 == 'undecided':
        print('SKIP', unit, 'undecided on baseline'); continue
    cands = [f for f in g['functions'] if f.get('nloops') and f.get('tline')]
    for f in cands:
        lines = open(path).read().split('\n')
        tl = f['tline']
        if not lines[tl - 1].startswith('//@@ fn') or ('name=%s' % f['name'] not in lines[tl - 1] and 'as=%s' % f['name'] not in lines[tl - 1]):
            continue
        # already has it?
        k = tl
        has = False
        while k < len(lines) and lines[k].startswith('//@@') and not lines[k].startswith('//@@ spec'):
            if 'loop_isolation' in lines[k]:
                has = True
            k += 1
        if has:
            continue
        new = lines[:tl] + ['//@@ attr #[verifier::loop_isolation(false)]'] + lines[tl:]
        open(path, 'w').write('\n'.join(new))
        try:
            g1, st1, fails1, times1, ne1 = run(path, unit)
        except Exception as e:
            st1 = 'error'
        ok = st1 == st0 and fails1 == fails0 and ne1 == ne0
        if ok:
            for fn, t in times1.items():
                if fn.endswith('::' + f['name']) and t > max(3 * times0.get(fn, 0), 5_000_000):
                    ok = False
        if ok:
            print('KEEP', unit, f['name'])
            # template lines shifted by one: regenerate candidates' tlines
            for c in cands:
                if c['tline'] > tl:
                    c['tline'] += 1
        else:
            print('REVERT', unit, f['name'], st1)
            open(path, 'w').write('\n'.join(lines))
