#!/usr/bin/env python3
import json,glob,os
rows=[]
for d in sorted(x for x in glob.glob('/verif/seeded/*') if os.path.isdir(x)):
    m=json.load(open(os.path.join(d,'meta.json')))
    c=m.get('confirmation') or {}
    rows.append((os.path.basename(d), m.get('property'), (m.get('summary') or '')[:110].replace('|','/').replace('\n',' '), 'yes' if c.get('fails_with') and c.get('passes_without') and c.get('tests_ok') else 'NO', ','.join(m.get('caught_by',[])) or '-', ','.join(m.get('undecided_in',[])) or '-', 'yes' if m.get('applied_to_repo') else 'no'))
print('| seed | breaks | change | confirmed | caught by (exit 1) | undecided (exit 2) | applies |')
print('|---|---|---|---|---|---|---|')
for r in rows: print('| '+' | '.join(r)+' |')
