#!/bin/bash
# tools/all_thorough.sh: runs every registered check in the thorough tier, one after the other (dev aid; used with `vp run`)
cd "$(dirname "$0")/.."
for c in C01 C02 C03 C04 C05 C06 C07 C08 C09 C10 C11 C12 C13 C14 C15 C16 C17 C18 C19 C20; do
  ./check $c --tier thorough 2>&1 | tail -1
  echo "  rc=$?"
done
echo ALLDONE
