#!/bin/bash
# append a whole module (not inside mod tests) to a file
REV=$1; F=$2; DEMO=$3; FILT=$4; PATCH=$5
WT=/tmp/wt_demo2_$$
git -C /repo worktree add -q --detach $WT $REV
trap "git -C /repo worktree remove --force $WT" EXIT
[ -n "$PATCH" ] && git -C $WT apply $PATCH
cat $DEMO >> $WT/$F
cd $WT && CARGO_TARGET_DIR=/tmp/demo_target cargo test -p fe2o3-amqp --offline --lib "$FILT" 2>&1 | grep -E "^test |panicked|left|right|test result|error(\[|:)|^  -->" | head -20
