#!/usr/bin/env python3
"""tools/mklayout.py: writes units/wirelayout.rs -- for every composite type whose (de)serialization is written by the derive macro, the wire layout read from
its declaration (rule R40) against the field table, descriptor and form the AMQP 1.0 specification gives (written here from the specification text)."""
import os
ROOT = os.path.dirname(os.path.dirname(os.path.abspath(__file__)))
T = 'fe2o3-amqp-types/src/'
# (file, struct, code, name, fields in specification order, properties, reference)
TABLE = [
    (T + 'performatives/open.rs', 'Open', 0x10, 'amqp:open:list', 'container-id,hostname,max-frame-size,channel-max,idle-time-out,outgoing-locales,incoming-locales,offered-capabilities,desired-capabilities,properties', 'C03 C05 C06 C12 C17', 'part 2, 2.7.1'),
    (T + 'performatives/begin.rs', 'Begin', 0x11, 'amqp:begin:list', 'remote-channel,next-outgoing-id,incoming-window,outgoing-window,handle-max,offered-capabilities,desired-capabilities,properties', 'C03 C05 C07 C11', 'part 2, 2.7.2'),
    (T + 'performatives/attach.rs', 'Attach', 0x12, 'amqp:attach:list', 'name,handle,role,snd-settle-mode,rcv-settle-mode,source,target,unsettled,incomplete-unsettled,initial-delivery-count,max-message-size,offered-capabilities,desired-capabilities,properties', 'C03 C05 C02 C09 C11 C13', 'part 2, 2.7.3'),
    (T + 'performatives/flow.rs', 'Flow', 0x13, 'amqp:flow:list', 'next-incoming-id,incoming-window,next-outgoing-id,outgoing-window,handle,delivery-count,link-credit,available,drain,echo,properties', 'C03 C05 C07 C08 C09', 'part 2, 2.7.4'),
    (T + 'performatives/transfer.rs', 'Transfer', 0x14, 'amqp:transfer:list', 'handle,delivery-id,delivery-tag,message-format,settled,more,rcv-settle-mode,state,resume,aborted,batchable', 'C03 C05 C01 C02 C10 C11', 'part 2, 2.7.5'),
    (T + 'performatives/disposition.rs', 'Disposition', 0x15, 'amqp:disposition:list', 'role,first,last,settled,state,batchable', 'C03 C05 C02', 'part 2, 2.7.6'),
    (T + 'performatives/detach.rs', 'Detach', 0x16, 'amqp:detach:list', 'handle,closed,error', 'C03 C05 C13 C14', 'part 2, 2.7.7'),
    (T + 'performatives/end.rs', 'End', 0x17, 'amqp:end:list', 'error', 'C03 C05 C13 C14', 'part 2, 2.7.8'),
    (T + 'performatives/close.rs', 'Close', 0x18, 'amqp:close:list', 'error', 'C03 C05 C12 C14', 'part 2, 2.7.9'),
    (T + 'definitions/error.rs', 'Error', 0x1d, 'amqp:error:list', 'condition,description,info', 'C03 C05 C12 C13 C14', 'part 2, 2.8.14'),
    (T + 'sasl/mod.rs', 'SaslInit', 0x41, 'amqp:sasl-init:list', 'mechanism,initial-response,hostname', 'C03 C05 C19', 'part 5, 5.3.3.2'),
    (T + 'sasl/mod.rs', 'SaslChallenge', 0x42, 'amqp:sasl-challenge:list', 'challenge', 'C03 C05 C19', 'part 5, 5.3.3.3'),
    (T + 'sasl/mod.rs', 'SaslResponse', 0x43, 'amqp:sasl-response:list', 'response', 'C03 C05 C19', 'part 5, 5.3.3.4'),
    (T + 'sasl/mod.rs', 'SaslOutcome', 0x44, 'amqp:sasl-outcome:list', 'code,additional-data', 'C03 C05 C19', 'part 5, 5.3.3.5'),
    (T + 'messaging/delivery_state/mod.rs', 'Received', 0x23, 'amqp:received:list', 'section-number,section-offset', 'C03 C05 C02', 'part 3, 3.4.1'),
    (T + 'messaging/delivery_state/mod.rs', 'Accepted', 0x24, 'amqp:accepted:list', '', 'C03 C05 C02', 'part 3, 3.4.2'),
    (T + 'messaging/delivery_state/mod.rs', 'Rejected', 0x25, 'amqp:rejected:list', 'error', 'C03 C05 C02', 'part 3, 3.4.3'),
    (T + 'messaging/delivery_state/mod.rs', 'Released', 0x26, 'amqp:released:list', '', 'C03 C05 C02', 'part 3, 3.4.4'),
    (T + 'messaging/delivery_state/mod.rs', 'Modified', 0x27, 'amqp:modified:list', 'delivery-failed,undeliverable-here,message-annotations', 'C03 C05 C02', 'part 3, 3.4.5'),
    (T + 'messaging/source.rs', 'Source', 0x28, 'amqp:source:list', 'address,durable,expiry-policy,timeout,dynamic,dynamic-node-properties,distribution-mode,filter,default-outcome,outcomes,capabilities', 'C03 C05', 'part 3, 3.5.3'),
    (T + 'messaging/target.rs', 'Target', 0x29, 'amqp:target:list', 'address,durable,expiry-policy,timeout,dynamic,dynamic-node-properties,capabilities', 'C03 C05', 'part 3, 3.5.4'),
    (T + 'messaging/format/header.rs', 'Header', 0x70, 'amqp:header:list', 'durable,priority,ttl,first-acquirer,delivery-count', 'C03 C05 C01', 'part 3, 3.2.1'),
    (T + 'messaging/format/properties.rs', 'Properties', 0x73, 'amqp:properties:list', 'message-id,user-id,to,subject,reply-to,correlation-id,content-type,content-encoding,absolute-expiry-time,creation-time,group-id,group-sequence,reply-to-group-id', 'C03 C05 C01', 'part 3, 3.2.4'),
    (T + 'transaction/mod.rs', 'Coordinator', 0x30, 'amqp:coordinator:list', 'capabilities', 'C03 C05 C18', 'part 4, 4.5.1'),
    (T + 'transaction/mod.rs', 'Declare', 0x31, 'amqp:declare:list', 'global-id', 'C03 C05 C18', 'part 4, 4.5.2'),
    (T + 'transaction/mod.rs', 'Discharge', 0x32, 'amqp:discharge:list', 'txn-id,fail', 'C03 C05 C18', 'part 4, 4.5.4'),
    (T + 'transaction/mod.rs', 'Declared', 0x33, 'amqp:declared:list', 'txn-id', 'C03 C05 C18', 'part 4, 4.5.5'),
    (T + 'transaction/mod.rs', 'TransactionalState', 0x34, 'amqp:transactional-state:list', 'txn-id,outcome', 'C03 C05 C18', 'part 4, 4.5.8'),
]
out = []
w = out.append
w('//@@ unit WIRELAYOUT')
w('#![feature(allocator_api)]')
w('#![allow(unused_imports, unused_variables, dead_code, unused_mut, unused_parens)]')
w('use vstd::prelude::*;')
w('')
w('verus! {')
w('')
w('//@@ trusted written by tools/mklayout.py from a table: field order, descriptor code / name and composite form of each type are taken from the AMQP 1.0 specification text (reference per type), not from the code. R40: the declaration of a composite type IS its wire layout -- the derive macro (serde_amqp_derive: SerializeComposite / DeserializeComposite) writes and reads the fields in declaration order as the items of a described list and takes descriptor and form from #[amqp_contract(..)]; that the macro does so is decided by the bounded probes of C03 / C05 (composite_width_variants), not here')
w('')
for (f, st, code, name, fields, props, ref) in TABLE:
    lab = ' '.join('[%s.wire.%s-layout]' % (p, name.split(':')[1]) for p in props.split())
    w('//@@ composite file=%s struct=%s code=0x%x `%s` `%s` `%s AMQP 1.0 %s: the peer reads each field of %s at the position, and the type under the descriptor, the specification gives it`' % (f, st, code, fields, name, lab, ref, name.split(':')[1]))
w('')
w('} // verus!')
w('fn main() {}')
open(os.path.join(ROOT, 'units', 'wirelayout.rs'), 'w').write('\n'.join(out) + '\n')
print('wrote units/wirelayout.rs: %d composite types' % len(TABLE))
