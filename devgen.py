#!/usr/bin/env python3
"""dev helper: generate a unit and run verus, print errors mapped to origin"""
import sys, os, json
sys.path.insert(0, os.path.dirname(__file__))
from vlib import gen, verus, extract
unit = sys.argv[1]
mode = sys.argv[2] if len(sys.argv) > 2 else None
repo = os.environ.get('REPO', '/repo')
g = gen.generate(repo, 'units/%s.rs' % unit, mode)
bdir = os.environ.get('VERIF_BUILD_DIR', 'build')
os.makedirs(bdir, exist_ok=True)
path = os.path.abspath(os.path.join(bdir, '%s.rs' % unit))
open(path, 'w').write(g['text'])
r = verus.run(path)
st, errs = verus.classify(r)
print('STATUS', st, 'wall %.1fs' % r['wall_s'])
for e in errs:
    print('---', e['message'], '(semantic)' if e['semantic'] else '(tool)')
    for ln, lab, prim in e['lines']:
        if ln and ln-1 < len(g['origin']):
            o = g['origin'][ln-1]
            print('    gen:%d %s %s | %s' % (ln, lab, o, g['text'].split('\n')[ln-1].strip()[:120]))
    if not e['lines'] or not e['semantic']:
        print(e.get('rendered','')[:1500])
if st=='undecided' and not errs:
    print(r['stderr'][-3000:])
for b in verus.breakdown(r):
    if not b['success'] or (b['time_us'] or 0) > 2000000: print('  fn', b)
