//@@ unit SETTERS
#![feature(allocator_api)]
#![allow(unused_imports, unused_variables, dead_code, unused_mut, unused_parens)]
use vstd::prelude::*;

verus! {

//@@ trusted written by tools/mksetters.py from a table. R11: each builder is reduced to the fields the listed setters may touch (a setter touching another field does not compile: undecided); R7: `impl Into<X>` parameters are taken at X (`.into()` of an X is the X); the type-state parameters of the builders are erased
macro_rules! opaque { ($($n:ident),*) => { verus!{ $( #[verifier::external_body] pub struct $n { _p: u8 } )* } } }
opaque!(SenderSettleMode, ReceiverSettleMode, CreditMode);
pub struct Handle(pub u32);
pub struct MaxFrameSize(pub u32);
pub struct ChannelMax(pub u16);

// ================================================================ session (fe2o3-amqp/src/session/builder.rs)
pub mod m_session {
use super::*;
pub struct Builder { pub next_outgoing_id: u32, pub incoming_window: u32, pub outgoing_window: u32, pub handle_max: Handle, pub buffer_size: usize }
impl Builder {
//@@ fn file=fe2o3-amqp/src/session/builder.rs impl=`impl Builder` name=next_outgoing_id id=session::next_outgoing_id
//@@ param value : u32
//@@ ret Builder
//@@ subst `value.into()` => `value` rule=optional-R7
//@@ spec
    ensures r == (Builder { next_outgoing_id: value, ..self }),       // [C07.builder.next-outgoing-id-stored] the initial next-outgoing-id announced in begin: the value given is stored in the field it is named after, nothing else is touched
//@@ end

//@@ fn file=fe2o3-amqp/src/session/builder.rs impl=`impl Builder` name=incoming_window id=session::incoming_window
//@@ param value : u32
//@@ ret Builder
//@@ subst `value.into()` => `value` rule=optional-R7
//@@ spec
    ensures r == (Builder { incoming_window: value, ..self }),       // [C07.builder.incoming-window-stored] the incoming window announced in begin and re-issued in flows: the value given is stored in the field it is named after, nothing else is touched
//@@ end

//@@ fn file=fe2o3-amqp/src/session/builder.rs impl=`impl Builder` name=outgoing_window id=session::outgoing_window
//@@ param value : u32
//@@ ret Builder
//@@ subst `value.into()` => `value` rule=optional-R7
//@@ spec
    ensures r == (Builder { outgoing_window: value, ..self }),       // [C07.builder.outgoing-window-stored] the outgoing window announced in begin: the value given is stored in the field it is named after, nothing else is touched
//@@ end

//@@ fn file=fe2o3-amqp/src/session/builder.rs impl=`impl Builder` name=handle_max id=session::handle_max
//@@ param value : Handle
//@@ ret Builder
//@@ subst `value.into()` => `value` rule=optional-R7
//@@ spec
    ensures r == (Builder { handle_max: value, ..self }),       // [C11.builder.handle-max-stored] the handle-max announced in begin: the value given is stored in the field it is named after, nothing else is touched
//@@ end

//@@ fn file=fe2o3-amqp/src/session/builder.rs impl=`impl Builder` name=buffer_size id=session::buffer_size
//@@ param buffer_size : usize
//@@ ret Builder
//@@ subst `buffer_size.into()` => `buffer_size` rule=optional-R7
//@@ spec
    ensures r == (Builder { buffer_size: buffer_size, ..self }),       // [C07.builder.buffer-size-stored] the size of the session queues: the value given is stored in the field it is named after, nothing else is touched
//@@ end

}
} // mod

// ================================================================ connection (fe2o3-amqp/src/connection/builder.rs)
pub mod m_connection {
use super::*;
pub struct Builder { pub max_frame_size: MaxFrameSize, pub channel_max: ChannelMax, pub idle_time_out: Option<u32>, pub buffer_size: usize }
impl Builder {
//@@ fn file=fe2o3-amqp/src/connection/builder.rs impl=`impl<'a, Mode, Tls> Builder<'a, Mode, Tls>` name=max_frame_size id=connection::max_frame_size
//@@ param max_frame_size : MaxFrameSize
//@@ ret Builder
//@@ subst `max_frame_size.into()` => `max_frame_size` rule=optional-R7
//@@ spec
    ensures r == (Builder { max_frame_size: max_frame_size, ..self }),       // [C06.builder.max-frame-size-stored] the max-frame-size announced in open and enforced on incoming frames: the value given is stored in the field it is named after, nothing else is touched
//@@ end

//@@ fn file=fe2o3-amqp/src/connection/builder.rs impl=`impl<'a, Mode, Tls> Builder<'a, Mode, Tls>` name=channel_max id=connection::channel_max
//@@ param channel_max : ChannelMax
//@@ ret Builder
//@@ subst `channel_max.into()` => `channel_max` rule=optional-R7
//@@ spec
    ensures r == (Builder { channel_max: channel_max, ..self }),       // [C17.builder.channel-max-stored] the channel-max announced in open: the value given is stored in the field it is named after, nothing else is touched
//@@ end

//@@ fn file=fe2o3-amqp/src/connection/builder.rs impl=`impl<'a, Mode, Tls> Builder<'a, Mode, Tls>` name=idle_time_out id=connection::idle_time_out
//@@ param idle_time_out : u32
//@@ ret Builder
//@@ subst `idle_time_out.into()` => `idle_time_out` rule=optional-R7
//@@ spec
    ensures r == (Builder { idle_time_out: Some(idle_time_out), ..self }),       // [C17.builder.idle-time-out-stored] the local idle time-out (milliseconds): the value given is stored in the field it is named after, nothing else is touched
//@@ end

//@@ fn file=fe2o3-amqp/src/connection/builder.rs impl=`impl<'a, Mode, Tls> Builder<'a, Mode, Tls>` name=buffer_size id=connection::buffer_size
//@@ param buffer_size : usize
//@@ ret Builder
//@@ subst `buffer_size.into()` => `buffer_size` rule=optional-R7
//@@ spec
    ensures r == (Builder { buffer_size: buffer_size, ..self }),       // [C15.builder.buffer-size-stored] the size of the connection queues: the value given is stored in the field it is named after, nothing else is touched
//@@ end

}
} // mod

// ================================================================ link (fe2o3-amqp/src/link/builder.rs)
pub mod m_link {
use super::*;
pub struct Builder { pub snd_settle_mode: SenderSettleMode, pub rcv_settle_mode: ReceiverSettleMode, pub initial_delivery_count: u32, pub max_message_size: Option<u64>, pub credit_mode: CreditMode, pub auto_accept: bool, pub verify_incoming_source: bool, pub verify_incoming_target: bool }
impl Builder {
//@@ fn file=fe2o3-amqp/src/link/builder.rs impl=`impl<Role, T, NameState, SS, TS> Builder<Role, T, NameState, SS, TS>` name=sender_settle_mode id=link::sender_settle_mode
//@@ param mode : SenderSettleMode
//@@ ret Builder
//@@ subst `mode.into()` => `mode` rule=optional-R7
//@@ spec
    ensures r == (Builder { snd_settle_mode: mode, ..self }),       // [C02.builder.sender-settle-mode-stored] the snd-settle-mode announced in attach: the value given is stored in the field it is named after, nothing else is touched
//@@ end

//@@ fn file=fe2o3-amqp/src/link/builder.rs impl=`impl<Role, T, NameState, SS, TS> Builder<Role, T, NameState, SS, TS>` name=receiver_settle_mode id=link::receiver_settle_mode
//@@ param mode : ReceiverSettleMode
//@@ ret Builder
//@@ subst `mode.into()` => `mode` rule=optional-R7
//@@ spec
    ensures r == (Builder { rcv_settle_mode: mode, ..self }),       // [C02.builder.receiver-settle-mode-stored] the rcv-settle-mode announced in attach: the value given is stored in the field it is named after, nothing else is touched
//@@ end

//@@ fn file=fe2o3-amqp/src/link/builder.rs impl=`impl<Role, T, NameState, SS, TS> Builder<Role, T, NameState, SS, TS>` name=max_message_size id=link::max_message_size
//@@ param max_size : u64
//@@ ret Builder
//@@ subst `max_size.into()` => `max_size` rule=optional-R7
//@@ spec
    ensures r == (Builder { max_message_size: Some(max_size), ..self }),       // [C01.builder.max-message-size-stored] the max-message-size announced in attach: the value given is stored in the field it is named after, nothing else is touched
//@@ end

//@@ fn file=fe2o3-amqp/src/link/builder.rs impl=`impl<Role, T, NameState, SS, TS> Builder<Role, T, NameState, SS, TS>` name=verify_incoming_source id=link::verify_incoming_source
//@@ param verify : bool
//@@ ret Builder
//@@ subst `verify.into()` => `verify` rule=optional-R7
//@@ spec
    ensures r == (Builder { verify_incoming_source: verify, ..self }),       // [C13.builder.verify-incoming-source-stored] whether the peer's source is verified at attach: the value given is stored in the field it is named after, nothing else is touched
//@@ end

//@@ fn file=fe2o3-amqp/src/link/builder.rs impl=`impl<Role, T, NameState, SS, TS> Builder<Role, T, NameState, SS, TS>` name=verify_incoming_target id=link::verify_incoming_target
//@@ param verify : bool
//@@ ret Builder
//@@ subst `verify.into()` => `verify` rule=optional-R7
//@@ spec
    ensures r == (Builder { verify_incoming_target: verify, ..self }),       // [C13.builder.verify-incoming-target-stored] whether the peer's target is verified at attach: the value given is stored in the field it is named after, nothing else is touched
//@@ end

}
} // mod

// ================================================================ link_sender (fe2o3-amqp/src/link/builder.rs)
pub mod m_link_sender {
use super::*;
pub struct Builder { pub snd_settle_mode: SenderSettleMode, pub rcv_settle_mode: ReceiverSettleMode, pub initial_delivery_count: u32, pub max_message_size: Option<u64>, pub credit_mode: CreditMode, pub auto_accept: bool }
impl Builder {
//@@ fn file=fe2o3-amqp/src/link/builder.rs impl=`impl<T, NameState, SS, TS> Builder<role::SenderMarker, T, NameState, SS, TS>` name=initial_delivery_count id=link_sender::initial_delivery_count
//@@ param count : u32
//@@ ret Builder
//@@ subst `count.into()` => `count` rule=optional-R7
//@@ spec
    ensures r == (Builder { initial_delivery_count: count, ..self }),       // [C08.builder.initial-delivery-count-stored] the initial-delivery-count the sender announces and starts counting from: the value given is stored in the field it is named after, nothing else is touched
//@@ end

}
} // mod

// ================================================================ link_receiver (fe2o3-amqp/src/link/builder.rs)
pub mod m_link_receiver {
use super::*;
pub struct Builder { pub snd_settle_mode: SenderSettleMode, pub rcv_settle_mode: ReceiverSettleMode, pub initial_delivery_count: u32, pub max_message_size: Option<u64>, pub credit_mode: CreditMode, pub auto_accept: bool }
impl Builder {
//@@ fn file=fe2o3-amqp/src/link/builder.rs impl=`impl<T, NameState, SS, TS> Builder<role::ReceiverMarker, T, NameState, SS, TS>` name=credit_mode id=link_receiver::credit_mode
//@@ param credit_mode : CreditMode
//@@ ret Builder
//@@ subst `credit_mode.into()` => `credit_mode` rule=optional-R7
//@@ spec
    ensures r == (Builder { credit_mode: credit_mode, ..self }),       // [C09.builder.credit-mode-stored] the credit policy of the receiver: the value given is stored in the field it is named after, nothing else is touched
//@@ end

//@@ fn file=fe2o3-amqp/src/link/builder.rs impl=`impl<T, NameState, SS, TS> Builder<role::ReceiverMarker, T, NameState, SS, TS>` name=auto_accept id=link_receiver::auto_accept
//@@ param value : bool
//@@ ret Builder
//@@ subst `value.into()` => `value` rule=optional-R7
//@@ spec
    ensures r == (Builder { auto_accept: value, ..self }),       // [C02.builder.auto-accept-stored] whether deliveries are accepted on receipt: the value given is stored in the field it is named after, nothing else is touched
//@@ end

}
} // mod

pub mod m_connection_session_max {
use super::*;
pub struct Builder { pub max_frame_size: MaxFrameSize, pub channel_max: ChannelMax, pub idle_time_out: Option<u32>, pub buffer_size: usize }
impl Builder {
//@@ fn file=fe2o3-amqp/src/connection/builder.rs impl=`impl<'a, Mode, Tls> Builder<'a, Mode, Tls>` name=session_max
//@@ param session_max : ChannelMax
//@@ ret Builder
//@@ subst `session_max.into()` => `session_max` rule=optional-R7
//@@ spec
    ensures r == (Builder { channel_max: ChannelMax(if session_max.0 == 0 { 0u16 } else { (session_max.0 - 1) as u16 }), ..self }),       // [C17.builder.session-max-stored] channel-max is the highest channel NUMBER: n sessions at most means channel-max n - 1 (and never below 0)
//@@ end
}
} // mod

} // verus!
fn main() {}
