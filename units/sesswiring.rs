//@@ unit SESSWIRING
#![feature(allocator_api)]
#![allow(unused_imports, unused_variables, dead_code, unused_mut, unused_parens)]
use vstd::prelude::*;

verus! {

//@@ trusted sharing is modelled by IDENTITY (R8b): every channel end and reference-counted cell is a stand-in with a ghost identity; `mpsc::channel` returns two ends with the same identity, `.clone()` keeps it
//@@ trusted ConnectionHandle::allocate_session (unit HANDLES; Connection::allocate_session, unit CONN) is a stand-in: on Ok, `registered_session(channel)` is the sending end it was given; SessionBuilder::into_session / into_txn_session (unit SESSION) are stand-ins that keep the channel, the connection's stop-reason cell and the channel ends they are given (the session's own stop-reason cell is whatever they create); SessionEngine::begin_client_session (unit SESSENG) keeps the ends it is given; `spawn` / `spawn_on_local_set` hand back a join handle and the receiving end of the outcome channel of THAT engine (ghost `engine_of`)
//@@ trusted statement-level `#[cfg(..)]` is evaluated for the features the units are generated with (R12b: transaction + acceptor)

macro_rules! shared {
    ($($n:ident),*) => { verus!{ $(
        #[verifier::external_body]
        pub struct $n { _p: u8 }
        impl $n { pub uninterp spec fn id(&self) -> int; }
        impl Clone for $n { #[verifier::external_body] fn clone(&self) -> (r: Self) ensures r.id() == self.id() { unimplemented!() } }
    )* } }
}
macro_rules! opaque {
    ($($n:ident),*) => { verus!{ $(
        #[verifier::external_body]
        pub struct $n { _p: u8 }
    )* } }
}
shared!(StopArc, ConnStopArc, ConnCtlTx, ConnOutTx);
opaque!(SessionControl, SessionIncomingItem, LinkFrame, LocalSet, ControlLinkAcceptor, BuilderRest);
/// mpsc::Sender<T> / mpsc::Receiver<T>: the two ends of one channel share an identity
#[verifier::external_body]
#[verifier::reject_recursive_types(T)]
pub struct Tx<T> { _p: core::marker::PhantomData<T> }
impl<T> Tx<T> { pub uninterp spec fn id(&self) -> int; }
impl<T> Clone for Tx<T> { #[verifier::external_body] fn clone(&self) -> (r: Self) ensures r.id() == self.id() { unimplemented!() } }
#[verifier::external_body]
#[verifier::reject_recursive_types(T)]
pub struct Rx<T> { _p: core::marker::PhantomData<T> }
impl<T> Rx<T> { pub uninterp spec fn id(&self) -> int; }
pub mod mpsc {
    use super::*;
    #[verifier::external_body]
    pub fn channel<T>(n: usize) -> (r: (Tx<T>, Rx<T>)) ensures r.0.id() == r.1.id() { unimplemented!() }
}
pub const DEFAULT_SESSION_CONTROL_BUFFER_SIZE: usize = 128;
#[derive(Clone, Copy)]
pub struct OutgoingChannel(pub u16);
pub enum SessionState { Unmapped, BeginSent, BeginReceived, Mapped, EndSent, EndReceived, Discarding }
pub enum AllocSessionError { ConnectionNotOpened, ConnectionStopped(ConnStopReason), ChannelMaxReached }
opaque!(ConnStopReason, AmqpError);
pub enum BeginError { IllegalState, ConnectionStopped(ConnStopReason), ConnectionNotOpened, RemoteEnded, RemoteEndedWithError(AmqpError), LocalChannelMaxReached }
pub trait ErrInto<T>: Sized { spec fn conv(self) -> T; fn err_into(self) -> (r: T) ensures r == self.conv(); }
impl ErrInto<BeginError> for BeginError { open spec fn conv(self) -> BeginError { self } fn err_into(self) -> (r: BeginError) { let e = self; assert(e == <BeginError as ErrInto<BeginError>>::conv(self)); e } }
pub uninterp spec fn alloc_to_begin(e: AllocSessionError) -> BeginError;
impl AllocSessionError { #[verifier::external_body] pub fn into(self) -> (r: BeginError) ensures r == alloc_to_begin(self) { unimplemented!() } }

/// the relay (sending end towards a session's engine) the connection engine registered under an outgoing channel
pub uninterp spec fn registered_session(ch: OutgoingChannel) -> Tx<SessionIncomingItem>;
pub struct ConnectionHandle { pub control: ConnCtlTx, pub outgoing: ConnOutTx, pub connection_stop_reason: ConnStopArc }
impl ConnectionHandle {
    #[verifier::external_body]
    pub fn allocate_session(&mut self, tx: Tx<SessionIncomingItem>) -> (r: Result<OutgoingChannel, AllocSessionError>)
        ensures r is Ok ==> registered_session(r->Ok_0).id() == tx.id(), *final(self) == *old(self),
    { unimplemented!() }
}
/// session::Session / TxnSession<Session> as far as the wiring goes
pub struct SessionS { pub outgoing_channel: OutgoingChannel, pub session_stop_reason: StopArc, pub connection_stop_reason: ConnStopArc, pub txn_control: Option<Tx<SessionControl>>, pub txn_outgoing: Option<Tx<LinkFrame>> }
impl SessionS { pub fn session_stop_reason(&self) -> (r: &StopArc) ensures *r == self.session_stop_reason { &self.session_stop_reason } }
pub struct SessionBuilder { pub buffer_size: usize, pub control_link_acceptor: Option<ControlLinkAcceptor>, pub rest: BuilderRest }
impl SessionBuilder {
    #[verifier::external_body]
    pub fn into_session(self, outgoing_channel: OutgoingChannel, local_state: SessionState, connection_stop_reason: ConnStopArc) -> (r: SessionS)
        ensures r.outgoing_channel == outgoing_channel, r.connection_stop_reason.id() == connection_stop_reason.id(), r.txn_control is None, r.txn_outgoing is None,
    { unimplemented!() }
    #[verifier::external_body]
    pub fn into_txn_session(self, control: Tx<SessionControl>, outgoing: Tx<LinkFrame>, outgoing_channel: OutgoingChannel, control_link_acceptor: ControlLinkAcceptor, local_state: SessionState, connection_stop_reason: ConnStopArc) -> (r: SessionS)
        ensures r.outgoing_channel == outgoing_channel, r.connection_stop_reason.id() == connection_stop_reason.id(),
            r.txn_control is Some && r.txn_control->Some_0.id() == control.id(), r.txn_outgoing is Some && r.txn_outgoing->Some_0.id() == outgoing.id(),
    { unimplemented!() }
}
pub struct SessionEngine { pub conn_control: ConnCtlTx, pub session: SessionS, pub control: Rx<SessionControl>, pub incoming: Rx<SessionIncomingItem>, pub outgoing: ConnOutTx, pub outgoing_link_frames: Rx<LinkFrame> }
shared!(JoinHandle, OutcomeRx);
impl JoinHandle { pub uninterp spec fn engine_of(&self) -> SessionEngine; }
impl OutcomeRx { pub uninterp spec fn engine_of(&self) -> SessionEngine; }
impl SessionEngine {
    /// SessionEngine::begin_client_session (unit SESSENG): the engine that comes up holds exactly the ends and the session it was given
    #[verifier::external_body]
    pub fn begin_client_session(conn_control: ConnCtlTx, session: SessionS, control: Rx<SessionControl>, incoming: Rx<SessionIncomingItem>, outgoing: ConnOutTx, outgoing_link_frames: Rx<LinkFrame>) -> (r: Result<SessionEngine, BeginError>)
        ensures r is Ok ==> r->Ok_0.conn_control.id() == conn_control.id() && r->Ok_0.session.outgoing_channel == session.outgoing_channel
            && r->Ok_0.session.session_stop_reason.id() == session.session_stop_reason.id() && r->Ok_0.session.connection_stop_reason.id() == session.connection_stop_reason.id()
            && r->Ok_0.session.txn_control == session.txn_control && r->Ok_0.session.txn_outgoing == session.txn_outgoing
            && r->Ok_0.control.id() == control.id() && r->Ok_0.incoming.id() == incoming.id() && r->Ok_0.outgoing.id() == outgoing.id() && r->Ok_0.outgoing_link_frames.id() == outgoing_link_frames.id(),
    { unimplemented!() }
    #[verifier::external_body]
    pub fn spawn(self) -> (r: (JoinHandle, OutcomeRx)) ensures r.0.engine_of() == self, r.1.engine_of() == self { unimplemented!() }
    #[verifier::external_body]
    pub fn spawn_on_local_set(self, local_set: &LocalSet) -> (r: (JoinHandle, OutcomeRx)) ensures r.0.engine_of() == self, r.1.engine_of() == self { unimplemented!() }
}
pub struct SessionHandle { pub is_ended: bool, pub control: Tx<SessionControl>, pub engine_handle: JoinHandle, pub outcome: OutcomeRx, pub outgoing: Tx<LinkFrame>, pub session_stop_reason: StopArc, pub link_listener: () }

/// what `begin` must have wired up when it returns a handle
pub open spec fn wired(h: SessionHandle, c: ConnectionHandle) -> bool {
    let e = h.outcome.engine_of();
    &&& h.engine_handle.engine_of() == e                                          // the task the handle joins and the outcome it reads belong to one engine
    &&& registered_session(e.session.outgoing_channel).id() == e.incoming.id()    // [C11.session-wiring.connection-feeds-this-engine]
    &&& h.control.id() == e.control.id()                                          // [C13.session-wiring.handle-controls-this-engine]
    &&& h.outgoing.id() == e.outgoing_link_frames.id()                            // [C01.session-wiring.links-write-to-this-engine]
    &&& h.session_stop_reason.id() == e.session.session_stop_reason.id()          // [C14.session-wiring.handle-reads-the-engines-stop-reason]
    &&& e.session.connection_stop_reason.id() == c.connection_stop_reason.id()    // [C14.session-wiring.session-reads-the-connections-stop-reason]
    &&& e.conn_control.id() == c.control.id() && e.outgoing.id() == c.outgoing.id()   // [C12.session-wiring.engine-writes-to-its-connection]
    &&& !h.is_ended
}

impl SessionBuilder {
//@@ fn file=fe2o3-amqp/src/session/builder.rs impl=`impl Builder` name=begin_on_local_set
//@@ qmark
//@@ param connection : &mut ConnectionHandle
//@@ param local_set : &LocalSet
//@@ ret Result<SessionHandle, BeginError>
//@@ subst `mpsc::channel(self.buffer_size)` => `mpsc::channel(self.buffer_size)` rule=optional-S
//@@ spec
    ensures
        r is Ok ==> wired(r->Ok_0, *old(connection)),     // [C11.session-wiring.connection-feeds-this-engine] [C13.session-wiring.handle-controls-this-engine] [C01.session-wiring.links-write-to-this-engine] [C14.session-wiring.handle-reads-the-engines-stop-reason] [C14.session-wiring.session-reads-the-connections-stop-reason] [C12.session-wiring.engine-writes-to-its-connection] the session that comes up is wired to ITSELF and to its connection: the relay the connection registered under the session's channel feeds the engine the handle controls, the links' frames go to that engine, and the stop-reason cells the engine publishes into are the ones the handle and the links read
        *final(connection) == *old(connection),
//@@ end

//@@ fn file=fe2o3-amqp/src/session/builder.rs impl=`impl Builder` name=begin
//@@ qmark
//@@ param connection : &mut ConnectionHandle
//@@ ret Result<SessionHandle, BeginError>
//@@ spec
    ensures
        r is Ok ==> wired(r->Ok_0, *old(connection)),     // [C11.session-wiring.connection-feeds-this-engine] [C13.session-wiring.handle-controls-this-engine] [C01.session-wiring.links-write-to-this-engine] [C14.session-wiring.handle-reads-the-engines-stop-reason] [C14.session-wiring.session-reads-the-connections-stop-reason] [C12.session-wiring.engine-writes-to-its-connection]
        r is Ok && self.control_link_acceptor is Some ==> ({
            let e = r->Ok_0.outcome.engine_of();
            e.session.txn_control is Some && e.session.txn_control->Some_0.id() == r->Ok_0.control.id()
            && e.session.txn_outgoing is Some && e.session.txn_outgoing->Some_0.id() == r->Ok_0.outgoing.id()        // [C18.session-wiring.txn-session-writes-to-its-own-engine] a session that accepts control links posts transactional work to ITS OWN engine's queues
        }),
        *final(connection) == *old(connection),
//@@ end
}

} // verus!
fn main() {}
