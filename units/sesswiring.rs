//@@ unit SESSWIRING
#![feature(allocator_api)]
#![allow(unused_imports, unused_variables, dead_code, unused_mut, unused_parens)]
use vstd::prelude::*;

verus! {

//@@ trusted sharing is modelled by IDENTITY (R8b): every channel end and reference-counted cell is a stand-in with a ghost identity; `mpsc::channel` returns two ends with the same identity, `.clone()` keeps it
//@@ trusted ConnectionHandle::allocate_session (unit HANDLES; Connection::allocate_session, unit CONN) is a stand-in: on Ok, `registered_session(channel)` is the sending end it was given; SessionBuilder::into_session / into_txn_session (unit SESSION) are stand-ins that keep the channel, the connection's stop-reason cell and the channel ends they are given (the session's own stop-reason cell is whatever they create); SessionEngine::begin_client_session (unit SESSENG) keeps the ends it is given; `spawn` / `spawn_on_local_set` hand back a join handle and the receiving end of the outcome channel of THAT engine (ghost `engine_of`)
//@@ trusted statement-level `#[cfg(..)]` is evaluated for the features the units are generated with (R12b: transaction + acceptor)

macro_rules! shared {
    ($($n:ident),*) => { verus!{ $(
        #[verifier::external_body]
        pub struct $n { _p: u8 }
        impl $n { pub uninterp spec fn id(&self) -> int; }
        impl Clone for $n { #[verifier::external_body] fn clone(&self) -> (r: Self) ensures r.id() == self.id() { unimplemented!() } }
    )* } }
}
macro_rules! opaque {
    ($($n:ident),*) => { verus!{ $(
        #[verifier::external_body]
        pub struct $n { _p: u8 }
    )* } }
}
shared!(StopArc, ConnStopArc, ConnCtlTx, ConnOutTx);
opaque!(SessionControl, SessionIncomingItem, LinkFrame, LocalSet, ControlLinkAcceptor, BuilderRest);
/// mpsc::Sender<T> / mpsc::Receiver<T>: the two ends of one channel share an identity
#[verifier::external_body]
#[verifier::reject_recursive_types(T)]
pub struct Tx<T> { _p: core::marker::PhantomData<T> }
impl<T> Tx<T> { pub uninterp spec fn id(&self) -> int; }
impl<T> Clone for Tx<T> { #[verifier::external_body] fn clone(&self) -> (r: Self) ensures r.id() == self.id() { unimplemented!() } }
#[verifier::external_body]
#[verifier::reject_recursive_types(T)]
pub struct Rx<T> { _p: core::marker::PhantomData<T> }
impl<T> Rx<T> { pub uninterp spec fn id(&self) -> int; }
pub mod mpsc {
    use super::*;
    #[verifier::external_body]
    pub fn channel<T>(n: usize) -> (r: (Tx<T>, Rx<T>)) ensures r.0.id() == r.1.id() { unimplemented!() }
}
pub const DEFAULT_SESSION_CONTROL_BUFFER_SIZE: usize = 128;
#[derive(Clone, Copy)]
pub struct OutgoingChannel(pub u16);
pub enum SessionState { Unmapped, BeginSent, BeginReceived, Mapped, EndSent, EndReceived, Discarding }
pub enum AllocSessionError { ConnectionNotOpened, ConnectionStopped(ConnStopReason), ChannelMaxReached }
opaque!(ConnStopReason, AmqpError);
pub enum BeginError { IllegalState, ConnectionStopped(ConnStopReason), ConnectionNotOpened, RemoteEnded, RemoteEndedWithError(AmqpError), LocalChannelMaxReached }
pub trait ErrInto<T>: Sized { spec fn conv(self) -> T; fn err_into(self) -> (r: T) ensures r == self.conv(); }
impl ErrInto<BeginError> for BeginError { open spec fn conv(self) -> BeginError { self } fn err_into(self) -> (r: BeginError) { let e = self; assert(e == <BeginError as ErrInto<BeginError>>::conv(self)); e } }
pub uninterp spec fn alloc_to_begin(e: AllocSessionError) -> BeginError;
impl AllocSessionError { #[verifier::external_body] pub fn into(self) -> (r: BeginError) ensures r == alloc_to_begin(self) { unimplemented!() } }

/// the relay (sending end towards a session's engine) the connection engine registered under an outgoing channel
pub uninterp spec fn registered_session(ch: OutgoingChannel) -> Tx<SessionIncomingItem>;
pub struct ConnectionHandle { pub control: ConnCtlTx, pub outgoing: ConnOutTx, pub connection_stop_reason: ConnStopArc }
impl ConnectionHandle {
    #[verifier::external_body]
    pub fn allocate_session(&mut self, tx: Tx<SessionIncomingItem>) -> (r: Result<OutgoingChannel, AllocSessionError>)
        ensures r is Ok ==> registered_session(r->Ok_0).id() == tx.id(), *final(self) == *old(self),
    { unimplemented!() }
}
/// session::Session / TxnSession<Session> as far as the wiring goes
pub struct SessionS { pub outgoing_channel: OutgoingChannel, pub session_stop_reason: StopArc, pub connection_stop_reason: ConnStopArc, pub txn_control: Option<Tx<SessionControl>>, pub txn_outgoing: Option<Tx<LinkFrame>> }
impl SessionS { pub fn session_stop_reason(&self) -> (r: &StopArc) ensures *r == self.session_stop_reason { &self.session_stop_reason } }
pub struct SessionBuilder { pub buffer_size: usize, pub control_link_acceptor: Option<ControlLinkAcceptor>, pub rest: BuilderRest }
impl SessionBuilder {
    #[verifier::external_body]
    pub fn into_session(self, outgoing_channel: OutgoingChannel, local_state: SessionState, connection_stop_reason: ConnStopArc) -> (r: SessionS)
        ensures r.outgoing_channel == outgoing_channel, r.connection_stop_reason.id() == connection_stop_reason.id(), r.txn_control is None, r.txn_outgoing is None,
    { unimplemented!() }
    #[verifier::external_body]
    pub fn into_txn_session(self, control: Tx<SessionControl>, outgoing: Tx<LinkFrame>, outgoing_channel: OutgoingChannel, control_link_acceptor: ControlLinkAcceptor, local_state: SessionState, connection_stop_reason: ConnStopArc) -> (r: SessionS)
        ensures r.outgoing_channel == outgoing_channel, r.connection_stop_reason.id() == connection_stop_reason.id(),
            r.txn_control is Some && r.txn_control->Some_0.id() == control.id(), r.txn_outgoing is Some && r.txn_outgoing->Some_0.id() == outgoing.id(),
    { unimplemented!() }
}
pub struct SessionEngine { pub conn_control: ConnCtlTx, pub session: SessionS, pub control: Rx<SessionControl>, pub incoming: Rx<SessionIncomingItem>, pub outgoing: ConnOutTx, pub outgoing_link_frames: Rx<LinkFrame> }
shared!(JoinHandle, OutcomeRx);
impl JoinHandle { pub uninterp spec fn engine_of(&self) -> SessionEngine; }
impl OutcomeRx { pub uninterp spec fn engine_of(&self) -> SessionEngine; }
impl SessionEngine {
    /// SessionEngine::begin_client_session (unit SESSENG): the engine that comes up holds exactly the ends and the session it was given
    #[verifier::external_body]
    pub fn begin_client_session(conn_control: ConnCtlTx, session: SessionS, control: Rx<SessionControl>, incoming: Rx<SessionIncomingItem>, outgoing: ConnOutTx, outgoing_link_frames: Rx<LinkFrame>) -> (r: Result<SessionEngine, BeginError>)
        ensures r is Ok ==> r->Ok_0.conn_control.id() == conn_control.id() && r->Ok_0.session.outgoing_channel == session.outgoing_channel
            && r->Ok_0.session.session_stop_reason.id() == session.session_stop_reason.id() && r->Ok_0.session.connection_stop_reason.id() == session.connection_stop_reason.id()
            && r->Ok_0.session.txn_control == session.txn_control && r->Ok_0.session.txn_outgoing == session.txn_outgoing
            && r->Ok_0.control.id() == control.id() && r->Ok_0.incoming.id() == incoming.id() && r->Ok_0.outgoing.id() == outgoing.id() && r->Ok_0.outgoing_link_frames.id() == outgoing_link_frames.id(),
    { unimplemented!() }
    #[verifier::external_body]
    pub fn spawn(self) -> (r: (JoinHandle, OutcomeRx)) ensures r.0.engine_of() == self, r.1.engine_of() == self { unimplemented!() }
    #[verifier::external_body]
    pub fn spawn_on_local_set(self, local_set: &LocalSet) -> (r: (JoinHandle, OutcomeRx)) ensures r.0.engine_of() == self, r.1.engine_of() == self { unimplemented!() }
}
pub struct SessionHandle { pub is_ended: bool, pub control: Tx<SessionControl>, pub engine_handle: JoinHandle, pub outcome: OutcomeRx, pub outgoing: Tx<LinkFrame>, pub session_stop_reason: StopArc, pub link_listener: () }

/// what `begin` must have wired up when it returns a handle
pub open spec fn wired(h: SessionHandle, c: ConnectionHandle) -> bool {
    let e = h.outcome.engine_of();
    &&& h.engine_handle.engine_of() == e                                          // the task the handle joins and the outcome it reads belong to one engine
    &&& registered_session(e.session.outgoing_channel).id() == e.incoming.id()    // [C11.session-wiring.connection-feeds-this-engine]
    &&& h.control.id() == e.control.id()                                          // [C13.session-wiring.handle-controls-this-engine]
    &&& h.outgoing.id() == e.outgoing_link_frames.id()                            // [C01.session-wiring.links-write-to-this-engine]
    &&& h.session_stop_reason.id() == e.session.session_stop_reason.id()          // [C14.session-wiring.handle-reads-the-engines-stop-reason]
    &&& e.session.connection_stop_reason.id() == c.connection_stop_reason.id()    // [C14.session-wiring.session-reads-the-connections-stop-reason]
    &&& e.conn_control.id() == c.control.id() && e.outgoing.id() == c.outgoing.id()   // [C12.session-wiring.engine-writes-to-its-connection]
    &&& !h.is_ended
}

impl SessionBuilder {
//@@ fn file=fe2o3-amqp/src/session/builder.rs impl=`impl Builder` name=begin_on_local_set
//@@ qmark
//@@ param connection : &mut ConnectionHandle
//@@ param local_set : &LocalSet
//@@ ret Result<SessionHandle, BeginError>
//@@ subst `mpsc::channel(self.buffer_size)` => `mpsc::channel(self.buffer_size)` rule=optional-S
//@@ spec
    ensures
        r is Ok ==> wired(r->Ok_0, *old(connection)),     // [C11.session-wiring.connection-feeds-this-engine] [C13.session-wiring.handle-controls-this-engine] [C01.session-wiring.links-write-to-this-engine] [C14.session-wiring.handle-reads-the-engines-stop-reason] [C14.session-wiring.session-reads-the-connections-stop-reason] [C12.session-wiring.engine-writes-to-its-connection] the session that comes up is wired to ITSELF and to its connection: the relay the connection registered under the session's channel feeds the engine the handle controls, the links' frames go to that engine, and the stop-reason cells the engine publishes into are the ones the handle and the links read
        *final(connection) == *old(connection),
//@@ end

//@@ fn file=fe2o3-amqp/src/session/builder.rs impl=`impl Builder` name=begin
//@@ qmark
//@@ param connection : &mut ConnectionHandle
//@@ ret Result<SessionHandle, BeginError>
//@@ spec
    ensures
        r is Ok ==> wired(r->Ok_0, *old(connection)),     // [C11.session-wiring.connection-feeds-this-engine] [C13.session-wiring.handle-controls-this-engine] [C01.session-wiring.links-write-to-this-engine] [C14.session-wiring.handle-reads-the-engines-stop-reason] [C14.session-wiring.session-reads-the-connections-stop-reason] [C12.session-wiring.engine-writes-to-its-connection]
        r is Ok && self.control_link_acceptor is Some ==> ({
            let e = r->Ok_0.outcome.engine_of();
            e.session.txn_control is Some && e.session.txn_control->Some_0.id() == r->Ok_0.control.id()
            && e.session.txn_outgoing is Some && e.session.txn_outgoing->Some_0.id() == r->Ok_0.outgoing.id()        // [C18.session-wiring.txn-session-writes-to-its-own-engine] a session that accepts control links posts transactional work to ITS OWN engine's queues
        }),
        *final(connection) == *old(connection),
//@@ end
}

// ---------------------------------------------------------------------------------------------------------------
// the listener side (acceptor/session.rs): SessionAcceptor::accept_incoming_session, launch_listener_session_engine, SessionEngine::begin_listener_session
//@@ trusted (listener) IncomingSession comes from ListenerConnection::on_incoming_begin (unit CONN): when it carries a pre-allocated receiving end and channel, that end is the one whose sending half the connection registered under that channel; ListenerSession / TxnSession<ListenerSession> are reduced to the fields the wiring gives them; Session::on_incoming_begin (unit SESSION) is a stand-in that records what it was given; HashMap::new(), TransactionManager::new, definitions::Error::new are opaque constructors
opaque!(Attach, Begin, PendingFlows, ConnectionControl, ConnErrKind, SessErr);
#[derive(Clone, Copy)]
pub struct IncomingChannel(pub u16);
pub struct IncomingSession { pub channel: u16, pub begin: Begin, pub incoming_rx: Option<Rx<SessionIncomingItem>>, pub outgoing_channel: Option<OutgoingChannel> }
pub struct HashMap {}
impl HashMap { #[verifier::external_body] pub fn new() -> (r: PendingFlows) { unimplemented!() } }
pub mod definitions { use super::*; pub struct Error {} impl Error { #[verifier::external_body] pub fn new(c: ConnErrKindTag, d: String, i: Option<u8>) -> (r: AmqpError) { unimplemented!() } } }
pub struct ConnectionError {}
impl ConnectionError { pub const FramingError: ConnErrKindTag = ConnErrKindTag {}; }
pub struct ConnErrKindTag {}
pub enum SessionStateError { IllegalState, ConnectionStopped(ConnStopReason), RemoteEnded, RemoteEndedWithError(AmqpError) }
pub uninterp spec fn state_to_begin(e: SessionStateError) -> BeginError;
impl ErrInto<BeginError> for SessionStateError { open spec fn conv(self) -> BeginError { state_to_begin(self) } #[verifier::external_body] fn err_into(self) -> (r: BeginError) { unimplemented!() } }
impl SessionS {
    pub uninterp spec fn begun_with(&self) -> Option<(IncomingChannel, Begin)>;
    /// Session::on_incoming_begin (unit SESSION)
    #[verifier::external_body]
    pub fn on_incoming_begin(&mut self, channel: IncomingChannel, begin: Begin) -> (r: Result<(), SessionStateError>)
        ensures final(self).outgoing_channel == old(self).outgoing_channel, final(self).session_stop_reason == old(self).session_stop_reason, final(self).connection_stop_reason == old(self).connection_stop_reason,
            final(self).txn_control == old(self).txn_control, final(self).txn_outgoing == old(self).txn_outgoing, final(self).begun_with() == Some((channel, begin)),
    { unimplemented!() }
}
impl Clone for SessionBuilder { #[verifier::external_body] fn clone(&self) -> (r: Self) ensures r == *self { unimplemented!() } }
impl Clone for ControlLinkAcceptor { #[verifier::external_body] fn clone(&self) -> (r: Self) { unimplemented!() } }
pub struct TransactionManager { pub outgoing: Tx<LinkFrame> }
impl TransactionManager { pub fn new(outgoing: Tx<LinkFrame>, a: ControlLinkAcceptor) -> (r: Self) ensures r.outgoing == outgoing { TransactionManager { outgoing } } }
pub struct ListenerSession { pub session: SessionS, pub link_listener: Tx<Attach>, pub pending_link_flows: PendingFlows }
pub struct TxnSession { pub control: Tx<SessionControl>, pub session: ListenerSession, pub txn_manager: TransactionManager }
/// what a listener-side engine is built around
pub trait SessLike: Sized {
    spec fn core(self) -> SessionS;
    spec fn listener_tx(self) -> Tx<Attach>;
    spec fn txn(self) -> Option<(Tx<SessionControl>, Tx<LinkFrame>)>;
    /// S::send_begin (units SESSION / ACCDELEG / TXNDELEG): only the session's state changes
    fn send_begin(&mut self, writer: &ConnOutTx) -> (r: Result<(), SessionStateError>)
        ensures final(self).core().outgoing_channel == old(self).core().outgoing_channel, final(self).core().session_stop_reason == old(self).core().session_stop_reason,
            final(self).core().connection_stop_reason == old(self).core().connection_stop_reason, final(self).core().begun_with() == old(self).core().begun_with(),
            final(self).listener_tx() == old(self).listener_tx(), final(self).txn() == old(self).txn();
}
impl SessLike for ListenerSession {
    open spec fn core(self) -> SessionS { self.session }
    open spec fn listener_tx(self) -> Tx<Attach> { self.link_listener }
    open spec fn txn(self) -> Option<(Tx<SessionControl>, Tx<LinkFrame>)> { None }
    #[verifier::external_body] fn send_begin(&mut self, writer: &ConnOutTx) -> (r: Result<(), SessionStateError>) { unimplemented!() }
}
impl SessLike for TxnSession {
    open spec fn core(self) -> SessionS { self.session.session }
    open spec fn listener_tx(self) -> Tx<Attach> { self.session.link_listener }
    open spec fn txn(self) -> Option<(Tx<SessionControl>, Tx<LinkFrame>)> { Some((self.control, self.txn_manager.outgoing)) }
    #[verifier::external_body] fn send_begin(&mut self, writer: &ConnOutTx) -> (r: Result<(), SessionStateError>) { unimplemented!() }
}
#[verifier::reject_recursive_types(S)]
pub struct LEngine<S> { pub conn_control: ConnCtlTx, pub session: S, pub control: Rx<SessionControl>, pub incoming: Rx<SessionIncomingItem>, pub outgoing: ConnOutTx, pub outgoing_link_frames: Rx<LinkFrame> }
/// the engine a listener session handle belongs to, flattened
pub struct LEngineView { pub core: SessionS, pub listener_tx: Tx<Attach>, pub txn: Option<(Tx<SessionControl>, Tx<LinkFrame>)>, pub conn_control: ConnCtlTx, pub control: Rx<SessionControl>, pub incoming: Rx<SessionIncomingItem>, pub outgoing: ConnOutTx, pub outgoing_link_frames: Rx<LinkFrame> }
impl<S: SessLike> LEngine<S> {
    pub open spec fn view(self) -> LEngineView { LEngineView { core: self.session.core(), listener_tx: self.session.listener_tx(), txn: self.session.txn(), conn_control: self.conn_control, control: self.control, incoming: self.incoming, outgoing: self.outgoing, outgoing_link_frames: self.outgoing_link_frames } }
    #[verifier::external_body]
    pub fn spawn(self) -> (r: (LJoinHandle, LOutcomeRx)) ensures r.0.engine_of() == self.view(), r.1.engine_of() == self.view() { unimplemented!() }
}
shared!(LJoinHandle, LOutcomeRx);
impl LJoinHandle { pub uninterp spec fn engine_of(&self) -> LEngineView; }
impl LOutcomeRx { pub uninterp spec fn engine_of(&self) -> LEngineView; }
pub struct ListenerSessionHandle { pub is_ended: bool, pub control: Tx<SessionControl>, pub engine_handle: LJoinHandle, pub outcome: LOutcomeRx, pub outgoing: Tx<LinkFrame>, pub session_stop_reason: StopArc, pub link_listener: Rx<Attach> }
pub struct ListenerConnectionHandle { pub control: ConnCtlTx, pub outgoing: ConnOutTx, pub connection_stop_reason: ConnStopArc }
impl ListenerConnectionHandle {
    #[verifier::external_body]
    pub fn allocate_session(&mut self, tx: Tx<SessionIncomingItem>) -> (r: Result<OutgoingChannel, AllocSessionError>)
        ensures r is Ok ==> registered_session(r->Ok_0).id() == tx.id(), *final(self) == *old(self),
    { unimplemented!() }
}
impl ConnCtlTx { #[verifier::external_body] pub fn send(&self, c: ConnectionControl) -> (r: Result<(), u8>) { unimplemented!() } }
#[verifier::external_body]
pub fn close_control(e: Option<AmqpError>) -> (r: ConnectionControl) { unimplemented!() }
#[verifier::external_body]
pub fn connection_stop_reason_or_closed(c: &ConnStopArc) -> (r: ConnStopReason) { unimplemented!() }

impl<S: SessLike> LEngine<S> {
//@@ fn file=fe2o3-amqp/src/acceptor/session.rs impl=`~impl<S>SessionEngine<S>where` name=begin_listener_session
//@@ qmark
//@@ param conn_control : ConnCtlTx
//@@ param control : Rx<SessionControl>
//@@ param incoming : Rx<SessionIncomingItem>
//@@ param outgoing : ConnOutTx
//@@ param outgoing_link_frames : Rx<LinkFrame>
//@@ ret Result<LEngine<S>, BeginError>
//@@ subst `Self {` => `LEngine {` rule=R7
//@@ spec
    ensures
        r is Ok ==> r->Ok_0.conn_control == conn_control && r->Ok_0.control == control && r->Ok_0.incoming == incoming && r->Ok_0.outgoing == outgoing && r->Ok_0.outgoing_link_frames == outgoing_link_frames
            && r->Ok_0.session.core().outgoing_channel == session.core().outgoing_channel && r->Ok_0.session.core().session_stop_reason == session.core().session_stop_reason
            && r->Ok_0.session.core().connection_stop_reason == session.core().connection_stop_reason && r->Ok_0.session.core().begun_with() == session.core().begun_with()
            && r->Ok_0.session.listener_tx() == session.listener_tx() && r->Ok_0.session.txn() == session.txn(),      // [C13.listener-wiring.engine-keeps-its-ends] the listener-side engine that comes up reads and writes exactly the ends it was given, around the session it was given
//@@ end
}

pub struct SessionAcceptor(pub SessionBuilder);
pub open spec fn wired_l(h: ListenerSessionHandle, c: ListenerConnectionHandle, inc: IncomingSession) -> bool {
    let e = h.outcome.engine_of();
    &&& h.engine_handle.engine_of() == e
    &&& (inc.incoming_rx is Some && inc.outgoing_channel is Some ==> e.incoming == inc.incoming_rx->Some_0 && e.core.outgoing_channel == inc.outgoing_channel->Some_0)   // [C11.listener-wiring.pre-allocated-relay-feeds-this-engine] the queue in which the connection has been keeping the frames the peer pipelined behind its begin IS the queue the accepted session's engine reads
    &&& (!(inc.incoming_rx is Some && inc.outgoing_channel is Some) ==> registered_session(e.core.outgoing_channel).id() == e.incoming.id())                                  // [C11.session-wiring.connection-feeds-this-engine]
    &&& e.core.begun_with() == Some((IncomingChannel(inc.channel), inc.begin))                // [C11.listener-wiring.peers-channel-and-begin-taken-over] [C07.listener-wiring.peers-begin-taken-over]
    &&& h.control.id() == e.control.id()                                                      // [C13.session-wiring.handle-controls-this-engine]
    &&& h.outgoing.id() == e.outgoing_link_frames.id()                                        // [C01.session-wiring.links-write-to-this-engine]
    &&& h.link_listener.id() == e.listener_tx.id()                                            // [C13.listener-wiring.attaches-reach-this-handles-link-acceptor]
    &&& h.session_stop_reason.id() == e.core.session_stop_reason.id()                         // [C14.session-wiring.handle-reads-the-engines-stop-reason]
    &&& e.core.connection_stop_reason.id() == c.connection_stop_reason.id()                   // [C14.session-wiring.session-reads-the-connections-stop-reason]
    &&& e.conn_control.id() == c.control.id() && e.outgoing.id() == c.outgoing.id()           // [C12.session-wiring.engine-writes-to-its-connection]
    &&& (e.txn is Some ==> e.txn->Some_0.0.id() == h.control.id() && e.txn->Some_0.1.id() == h.outgoing.id())   // [C18.session-wiring.txn-session-writes-to-its-own-engine]
    &&& !h.is_ended
}
impl SessionAcceptor {
//@@ fn file=fe2o3-amqp/src/acceptor/session.rs impl=`impl SessionAcceptor` name=launch_listener_session_engine id=launch_txn
//@@ qmark
//@@ generics
//@@ nowhere
//@@ param connection : &ListenerConnectionHandle
//@@ param control_link_outgoing : &Tx<LinkFrame>
//@@ param session_control_tx : &Tx<SessionControl>
//@@ param session_control_rx : Rx<SessionControl>
//@@ param incoming : Rx<SessionIncomingItem>
//@@ param outgoing_link_frames : Rx<LinkFrame>
//@@ ret Result<(LJoinHandle, LOutcomeRx), BeginError>
//@@ subst `SessionEngine::begin_listener_session(` => `LEngine::begin_listener_session(` rule=R7
//@@ spec
    ensures
        r is Ok ==> ({
            let e = r->Ok_0.1.engine_of();
            &&& r->Ok_0.0.engine_of() == e
            &&& e.core.outgoing_channel == listener_session.session.outgoing_channel && e.core.session_stop_reason == listener_session.session.session_stop_reason
                && e.core.connection_stop_reason == listener_session.session.connection_stop_reason && e.core.begun_with() == listener_session.session.begun_with()
            &&& e.listener_tx == listener_session.link_listener
            &&& e.conn_control.id() == connection.control.id() && e.outgoing.id() == connection.outgoing.id()
            &&& e.control == session_control_rx && e.incoming == incoming && e.outgoing_link_frames == outgoing_link_frames
            &&& (e.txn is Some ==> e.txn->Some_0.0.id() == session_control_tx.id() && e.txn->Some_0.1.id() == control_link_outgoing.id())     // [C18.session-wiring.txn-session-writes-to-its-own-engine] (listener)
            &&& (self.0.control_link_acceptor is Some ==> e.txn is Some)                                                                     // [C18.listener-wiring.control-links-accepted-when-configured]
        }),
//@@ end

//@@ fn file=fe2o3-amqp/src/acceptor/session.rs impl=`impl SessionAcceptor` name=accept_incoming_session
//@@ qmark
//@@ ret Result<ListenerSessionHandle, BeginError>
//@@ subst `ConnectionControl::Close(Some(error))` => `close_control(Some(error))` rule=R11
//@@ subst `.map_err(|_v0| { __E1 })` => `.map_err(|_v0: u8| -> (o: BeginError) { __E1 })` rule=R18 unless `map_err`
//@@ subst `"Exceeding channel-max".to_string()` => `String::new()` rule=optional-R11
//@@ subst `SessionHandle {` => `ListenerSessionHandle {` rule=R7
//@@ spec
    ensures
        r is Ok ==> wired_l(r->Ok_0, *old(connection), incoming_session),     // [C11.listener-wiring.pre-allocated-relay-feeds-this-engine] [C11.session-wiring.connection-feeds-this-engine] [C11.listener-wiring.peers-channel-and-begin-taken-over] [C07.listener-wiring.peers-begin-taken-over] [C13.session-wiring.handle-controls-this-engine] [C01.session-wiring.links-write-to-this-engine] [C13.listener-wiring.attaches-reach-this-handles-link-acceptor] [C14.session-wiring.handle-reads-the-engines-stop-reason] [C14.session-wiring.session-reads-the-connections-stop-reason] [C12.session-wiring.engine-writes-to-its-connection] [C18.session-wiring.txn-session-writes-to-its-own-engine]
        *final(connection) == *old(connection),
//@@ end
}

} // verus!
fn main() {}
