//@@ unit RECVAPI
#![feature(allocator_api)]
#![allow(unused_imports, unused_variables, dead_code, unused_mut, unused_parens)]
use vstd::prelude::*;

verus! {

//@@ trusted ReceiverInner::dispose / dispose_all (under contract in units LINKFLOW and LINK) are stand-ins that record the call: which delivery, which `settled` argument, which delivery state; `impl Into<DeliveryInfo>` / `impl IntoIterator<Item = impl Into<DeliveryInfo>>` parameters are taken as DeliveryInfo / Vec<DeliveryInfo> already converted (R7: the conversions read a Delivery's id, tag and settle mode)
//@@ trusted the bodies of Rejected's error, Modified and DeliveryInfo are opaque values

macro_rules! opaque {
    ($($n:ident),*) => { verus!{ $(
        #[verifier::external_body]
        pub struct $n { _p: u8 }
        impl Clone for $n { #[verifier::external_body] fn clone(&self) -> (r: Self) ensures r == *self { unimplemented!() } }
    )* } }
}
opaque!(Modified, DeliveryInfo, AmqpError, DispositionError, Declared, TransactionalState, Received);
pub mod definitions { pub type Error = super::AmqpError; }
pub struct Accepted {}
pub struct Released {}
pub struct Rejected { pub error: Option<AmqpError> }
pub fn opt_error_into(e: Option<AmqpError>) -> (r: Option<AmqpError>) ensures r == e { e }

//@@ type file=fe2o3-amqp-types/src/messaging/delivery_state/mod.rs kind=enum name=DeliveryState
//@@ end
//@@ type file=fe2o3-amqp/src/link/receiver.rs kind=enum name=TerminalDeliveryState
//@@ end

//@@ fn file=fe2o3-amqp/src/link/receiver.rs impl=`impl From<TerminalDeliveryState> for DeliveryState` name=from as=delivery_state_from_terminal
//@@ ret DeliveryState
//@@ subst `Self::` => `DeliveryState::` rule=R2
//@@ spec
    ensures r == spec_from_terminal(value),        // [C02.outcome.terminal-state-as-chosen] the outcome the application chose is the delivery state that goes into the disposition, with its fields
//@@ end
pub open spec fn spec_from_terminal(v: TerminalDeliveryState) -> DeliveryState {
    match v {
        TerminalDeliveryState::Accepted(x) => DeliveryState::Accepted(x),
        TerminalDeliveryState::Rejected(x) => DeliveryState::Rejected(x),
        TerminalDeliveryState::Released(x) => DeliveryState::Released(x),
        TerminalDeliveryState::Modified(x) => DeliveryState::Modified(x),
    }
}
pub fn terminal_identity(s: TerminalDeliveryState) -> (r: TerminalDeliveryState) ensures r == s { s }

pub struct InnerS { pub disposed: Ghost<Seq<(DeliveryInfo, Option<bool>, DeliveryState)>>, pub disposed_all: Ghost<Seq<(Seq<DeliveryInfo>, Option<bool>, DeliveryState)>> }
impl InnerS {
    #[verifier::external_body]
    pub fn dispose(&mut self, info: DeliveryInfo, settled: Option<bool>, state: DeliveryState) -> (r: Result<(), DispositionError>)
        ensures final(self).disposed@ == old(self).disposed@.push((info, settled, state)), final(self).disposed_all == old(self).disposed_all,
    { unimplemented!() }
    #[verifier::external_body]
    pub fn dispose_all(&mut self, infos: Vec<DeliveryInfo>, settled: Option<bool>, state: DeliveryState) -> (r: Result<(), DispositionError>)
        ensures final(self).disposed_all@ == old(self).disposed_all@.push((infos@, settled, state)), final(self).disposed == old(self).disposed,
    { unimplemented!() }
}
pub struct Receiver { pub inner: InnerS }
/// one single disposal was requested, for this delivery, leaving the settle decision to the link's settle mode, with this state
pub open spec fn one_disposal(o: Receiver, n: Receiver, info: DeliveryInfo, state: DeliveryState) -> bool {
    n.inner.disposed@ == o.inner.disposed@.push((info, None::<bool>, state)) && n.inner.disposed_all == o.inner.disposed_all
}
pub open spec fn one_batch(o: Receiver, n: Receiver, infos: Seq<DeliveryInfo>, state: DeliveryState) -> bool {
    n.inner.disposed_all@ == o.inner.disposed_all@.push((infos, None::<bool>, state)) && n.inner.disposed == o.inner.disposed
}

impl Receiver {
//@@ fn file=fe2o3-amqp/src/link/receiver.rs impl=`impl Receiver` name=dispose
//@@ selfmut
//@@ param delivery_info : DeliveryInfo
//@@ param state : TerminalDeliveryState
//@@ subst `let state: TerminalDeliveryState = state.into();` => `let state: TerminalDeliveryState = terminal_identity(state);` rule=R16
//@@ subst `state.into()` => `delivery_state_from_terminal(state)` rule=R16
//@@ spec
    ensures one_disposal(*old(self), *final(self), delivery_info, spec_from_terminal(state)),     // [C02.receiver-api.dispose] the delivery named and the outcome given are what the link is asked to dispose of -- one delivery, one outcome
//@@ end

//@@ fn file=fe2o3-amqp/src/link/receiver.rs impl=`impl Receiver` name=accept
//@@ selfmut
//@@ param delivery_info : DeliveryInfo
//@@ spec
    ensures one_disposal(*old(self), *final(self), delivery_info, DeliveryState::Accepted(Accepted {})),       // [C02.receiver-api.accept] accept applies `accepted` to that delivery
//@@ end

//@@ fn file=fe2o3-amqp/src/link/receiver.rs impl=`impl Receiver` name=reject
//@@ selfmut
//@@ param delivery_info : DeliveryInfo
//@@ param error : Option<AmqpError>
//@@ subst `error.into()` => `opt_error_into(error)` rule=R16
//@@ spec
    ensures one_disposal(*old(self), *final(self), delivery_info, DeliveryState::Rejected(Rejected { error })),   // [C02.receiver-api.reject] reject applies `rejected` WITH the error the application gave
//@@ end

//@@ fn file=fe2o3-amqp/src/link/receiver.rs impl=`impl Receiver` name=release
//@@ selfmut
//@@ param delivery_info : DeliveryInfo
//@@ spec
    ensures one_disposal(*old(self), *final(self), delivery_info, DeliveryState::Released(Released {})),       // [C02.receiver-api.release]
//@@ end

//@@ fn file=fe2o3-amqp/src/link/receiver.rs impl=`impl Receiver` name=modify
//@@ selfmut
//@@ param delivery_info : DeliveryInfo
//@@ spec
    ensures one_disposal(*old(self), *final(self), delivery_info, DeliveryState::Modified(modified)),          // [C02.receiver-api.modify] modify applies `modified` with the flags / annotations the application gave
//@@ end

//@@ fn file=fe2o3-amqp/src/link/receiver.rs impl=`impl Receiver` name=dispose_all
//@@ selfmut
//@@ param deliveries : Vec<DeliveryInfo>
//@@ param state : TerminalDeliveryState
//@@ subst `let state: TerminalDeliveryState = state.into();` => `let state: TerminalDeliveryState = terminal_identity(state);` rule=R16
//@@ subst `let delivery_infos = deliveries.into_iter().map(|d| d.into()).collect();` => `let delivery_infos = deliveries;` rule=R7
//@@ subst `state.into()` => `delivery_state_from_terminal(state)` rule=R16
//@@ spec
    ensures one_batch(*old(self), *final(self), deliveries@, spec_from_terminal(state)),          // [C02.receiver-api.dispose-all] all the deliveries named, and only those, with the one outcome given
//@@ end

//@@ fn file=fe2o3-amqp/src/link/receiver.rs impl=`impl Receiver` name=accept_all
//@@ selfmut
//@@ param deliveries : Vec<DeliveryInfo>
//@@ spec
    ensures one_batch(*old(self), *final(self), deliveries@, DeliveryState::Accepted(Accepted {})),
//@@ end

//@@ fn file=fe2o3-amqp/src/link/receiver.rs impl=`impl Receiver` name=reject_all
//@@ selfmut
//@@ param deliveries : Vec<DeliveryInfo>
//@@ param error : Option<AmqpError>
//@@ subst `error.into()` => `opt_error_into(error)` rule=R16
//@@ spec
    ensures one_batch(*old(self), *final(self), deliveries@, DeliveryState::Rejected(Rejected { error })),
//@@ end

//@@ fn file=fe2o3-amqp/src/link/receiver.rs impl=`impl Receiver` name=release_all
//@@ selfmut
//@@ param deliveries : Vec<DeliveryInfo>
//@@ spec
    ensures one_batch(*old(self), *final(self), deliveries@, DeliveryState::Released(Released {})),
//@@ end

//@@ fn file=fe2o3-amqp/src/link/receiver.rs impl=`impl Receiver` name=modify_all
//@@ selfmut
//@@ param deliveries : Vec<DeliveryInfo>
//@@ spec
    ensures one_batch(*old(self), *final(self), deliveries@, DeliveryState::Modified(modified)),
//@@ end
}

} // verus!
fn main() {}
