//@@ unit LINKDETACH
//@@ gsubst `definitions::Error` => `AmqpError` rule=R11
#![feature(allocator_api)]
#![allow(unused_imports, unused_variables, dead_code, unused_mut, unused_parens)]
use vstd::prelude::*;

verus! {

//@@ include common.rs
//@@ trusted the link endpoint (`Self: LinkEndpointInner`, i.e. SenderInner / ReceiverInner) is a stand-in: `send_detach(closed, error)` carries the contract of Link::send_detach proved in unit LINK (a detach is queued only from Attached / DetachReceived(non-closing) / CloseReceived(closing), carrying the caller's closed flag and error; the state moves as in the table), `link_mut().on_incoming_detach` the one of Link::on_incoming_detach
//@@ trusted recv_remote_detach (waits on the incoming channel) returns an arbitrary detach or an error and sends nothing; reattach_and_then_close (re-attach handshake) is unconstrained
//@@ trusted leaf stand-ins: AmqpError, SessionStopReason opaque

macro_rules! opaque {
    ($($n:ident),*) => { verus!{ $(
        #[verifier::external_body]
        pub struct $n { _p: u8 }
        impl Clone for $n { #[verifier::external_body] fn clone(&self) -> (r: Self) ensures r == *self { unimplemented!() } }
    )* } }
}
opaque!(AmqpError, SessionStopReason);
pub struct Handle(pub u32);
pub type Boolean = bool;

//@@ type file=fe2o3-amqp-types/src/performatives/detach.rs kind=struct name=Detach
//@@ subst `Option<Error>` => `Option<AmqpError>` rule=optional
//@@ end
//@@ type file=fe2o3-amqp/src/link/state.rs kind=enum name=LinkState
//@@ end
//@@ type file=fe2o3-amqp/src/link/error.rs kind=enum name=DetachError
//@@ end

/// what was queued towards the session by this endpoint: (closed flag, error) of each detach
pub struct LinkS { pub st: LinkState }
impl LinkS {
    pub fn local_state(&self) -> (r: &LinkState) ensures *r == self.st { &self.st }
    #[verifier::external_body]
    pub fn on_incoming_detach(&mut self, detach: Detach) -> (r: Result<(), DetachError>) { unimplemented!() }
}
pub struct EndS { pub link: LinkS, pub sent: Ghost<Seq<(bool, Option<AmqpError>)>>, pub has_handle: Ghost<bool>, pub failures: Ghost<nat> }

pub open spec fn send_legal(st: LinkState, closed: bool) -> bool {
    match (st, closed) {
        (LinkState::Attached, _) => true,
        (LinkState::DetachReceived, false) => true,
        (LinkState::CloseReceived, true) => true,
        _ => false,
    }
}
impl EndS {
    pub fn link(&self) -> (r: &LinkS) ensures *r == self.link { &self.link }
    #[verifier::external_body]
    pub fn link_mut(&mut self) -> (r: &mut LinkS)
        ensures *r == old(self).link, final(self).link == *final(r), final(self).sent == old(self).sent, final(self).failures == old(self).failures,
    { unimplemented!() }
    /// contracts [C13.link.one-detach] / [C13.link.detach-frame] / [C13.link.close-answered-by-close] of unit LINK
    #[verifier::external_body]
    pub fn send_detach(&mut self, closed: bool, error: Option<AmqpError>) -> (r: Result<(), DetachError>)
        ensures
            !send_legal(old(self).link.st, closed) ==> r is Err && final(self).sent@ == old(self).sent@ && final(self).link.st == old(self).link.st,
            old(self).link.st is CloseReceived && !closed ==> r == Err::<(), DetachError>(DetachError::ClosedByRemote),
            send_legal(old(self).link.st, closed) ==> final(self).link.st == (match (old(self).link.st, closed) {
                    (LinkState::Attached, false) => LinkState::DetachSent,
                    (LinkState::DetachReceived, false) => LinkState::Detached,
                    (LinkState::Attached, true) => LinkState::CloseSent,
                    _ => LinkState::Closed,
                }),
            r is Ok ==> final(self).sent@ == old(self).sent@.push((closed, error)) && final(self).failures@ == old(self).failures@,
            r is Err ==> final(self).sent@ == old(self).sent@,
            final(self).failures@ >= old(self).failures@,
            // with a handle and in a legal state the only way to fail is the channel to the session
            send_legal(old(self).link.st, closed) && old(self).has_handle@ && r is Err ==> final(self).failures@ > old(self).failures@,
    { unimplemented!() }
}
#[verifier::external_body]
pub fn recv_remote_detach(e: &mut EndS) -> (r: Result<Detach, DetachError>)
    ensures final(e).sent == old(e).sent, final(e).link.st == old(e).link.st, final(e).failures == old(e).failures,
{ unimplemented!() }
#[verifier::external_body]
pub fn reattach_and_then_close(e: &mut EndS) -> (r: Result<(), DetachError>) { unimplemented!() }
#[verifier::external_body]
pub fn detach_error_from_stop_reason(e: &EndS) -> (r: DetachError) { unimplemented!() }

impl EndS {
//@@ fn file=fe2o3-amqp/src/link/shared_inner.rs impl=`~impl<T>LinkEndpointInnerDetachforT` name=detach_with_error
//@@ ret Result<(), DetachError>
//@@ spec
    ensures
        old(self).link.st is CloseReceived ==> ({
            &&& r is Err
            &&& (final(self).sent@ == old(self).sent@.push((true, error)) || final(self).sent@ == old(self).sent@)     // [C13.link.close-answered-in-kind] a peer's CLOSING detach is answered with a closing detach carrying the application's error -- never with a non-closing one, never twice
            &&& (old(self).has_handle@ && final(self).failures@ == old(self).failures@ ==> final(self).sent@ == old(self).sent@.push((true, error)))   // [C13.link.close-always-answered] ... and it IS sent unless the session channel is gone
            &&& (final(self).sent@.len() == old(self).sent@.len() + 1 ==> final(self).link.st is Closed && r == Err::<(), DetachError>(DetachError::ClosedByRemote))   // [C13.link.close-answer-reported] once the closing answer is out the link is Closed and the caller learns the peer closed it
        }),
        old(self).link.st is DetachReceived ==> ({
            &&& (r is Ok ==> final(self).sent@ == old(self).sent@.push((false, error)) && final(self).link.st is Detached)   // [C13.link.detach-answered-in-kind] a peer's non-closing detach is answered with a non-closing detach
            &&& (r is Err ==> final(self).sent@ == old(self).sent@)
            &&& (old(self).has_handle@ && final(self).failures@ == old(self).failures@ ==> r is Ok)                      // [C13.link.detach-always-answered]
        }),
        old(self).link.st is Detached ==> r is Ok && final(self).sent@ == old(self).sent@,                            // [C13.link.no-second-detach] an already detached link sends nothing more
        old(self).link.st is Closed ==> r is Err && final(self).sent@ == old(self).sent@,
//@@ end

//@@ fn file=fe2o3-amqp/src/link/shared_inner.rs impl=`~impl<T>LinkEndpointInnerDetachforT` name=close_with_error
//@@ ret Result<(), DetachError>
//@@ subst `|_v0|` => `|_v0: DetachError|` rule=optional-R5
//@@ subst `|_v1|` => `|_v1: DetachError|` rule=optional-R5
//@@ subst `|_v2|` => `|_v2: DetachError|` rule=optional-R5
//@@ spec
    ensures
        (old(self).link.st is CloseReceived || old(self).link.st is DetachReceived) ==> ({
            &&& (r is Ok ==> final(self).sent@ == old(self).sent@.push((true, error)))                                 // [C13.link.close-sends-closing-detach] closing a link whose peer already detached/closed sends exactly one CLOSING detach with the caller's error
            &&& (r is Err ==> final(self).sent@ == old(self).sent@)
        }),
        old(self).link.st is CloseReceived && r is Ok ==> final(self).link.st is Closed,
        old(self).link.st is Closed ==> r is Ok && final(self).sent@ == old(self).sent@,                              // [C13.link.no-detach-after-closed]
//@@ end
}

} // verus!
fn main() {}
