//@@ unit LINKDETACH
//@@ gsubst `definitions::Error` => `AmqpError` rule=R11
#![feature(allocator_api)]
#![allow(unused_imports, unused_variables, dead_code, unused_mut, unused_parens)]
use vstd::prelude::*;

verus! {

//@@ include common.rs
//@@ trusted the link endpoint (`Self: LinkEndpointInner`, i.e. SenderInner / ReceiverInner) is a stand-in: `send_detach(closed, error)` carries the contract of Link::send_detach proved in unit LINK (a detach is queued only from Attached / DetachReceived(non-closing) / CloseReceived(closing), carrying the caller's closed flag and error; the state moves as in the table), `link_mut().on_incoming_detach` the one of Link::on_incoming_detach
//@@ trusted the endpoint's incoming channel (mpsc::Receiver<LinkFrame>, reader_mut()) yields arbitrary frames of the peer, or None when the session is gone; what was taken from it is recorded. reattach_inner (new handle + attach exchange, units SESSION / LINK) is a stand-in: on Ok the link is Attached with a handle again, nothing but attaches was queued
//@@ trusted leaf stand-ins: AmqpError, SessionStopReason opaque

macro_rules! opaque {
    ($($n:ident),*) => { verus!{ $(
        #[verifier::external_body]
        pub struct $n { _p: u8 }
        impl Clone for $n { #[verifier::external_body] fn clone(&self) -> (r: Self) ensures r == *self { unimplemented!() } }
    )* } }
}
opaque!(AmqpError, SessionStopReason);
pub struct Handle(pub u32);
pub type Boolean = bool;

//@@ type file=fe2o3-amqp-types/src/performatives/detach.rs kind=struct name=Detach
//@@ subst `Option<Error>` => `Option<AmqpError>` rule=optional
//@@ end
//@@ type file=fe2o3-amqp/src/link/state.rs kind=enum name=LinkState
//@@ end
//@@ type file=fe2o3-amqp/src/link/error.rs kind=enum name=DetachError
//@@ end

/// what was queued towards the session by this endpoint: (closed flag, error) of each detach
pub struct LinkS { pub st: LinkState }
impl LinkS {
    pub fn local_state(&self) -> (r: &LinkState) ensures *r == self.st { &self.st }
    /// contract of Link::on_incoming_detach (unit LINK: [C13.link.peer-close], [C13.link.peer-detach], [C13.link.peer-detach-error])
    #[verifier::external_body]
    pub fn on_incoming_detach(&mut self, detach: Detach) -> (r: Result<(), DetachError>)
        ensures
            detach.closed && old(self).st is CloseSent ==> final(self).st is Closed && (detach.error is Some ==> r is Err) && (detach.error is None ==> r is Ok),
            !detach.closed && old(self).st is DetachSent ==> final(self).st is Detached && (detach.error is Some ==> r is Err) && (detach.error is None ==> r is Ok),
            !detach.closed && !(old(self).st is Attached || old(self).st is DetachSent) ==> r is Err && final(self).st == old(self).st,
            detach.error is Some ==> r is Err && !(r->Err_0 is ClosedByRemote) && !(r->Err_0 is DetachedByRemote),   // [C13.link.peer-detach-error-reported] of unit LINK
            r is Err && r->Err_0 is ClosedByRemote ==> old(self).st is DetachSent && detach.closed && detach.error is None,
    { unimplemented!() }
}
opaque!(Attach, LinkFlow, Disposition, Transfer, Payload, AcqMarker, InputHandle, AttachErrorS, AttachExchangeS);
pub enum LinkFrame { Attach(Attach), Flow(LinkFlow), Transfer { input_handle: InputHandle, performative: Transfer, payload: Payload }, Disposition(Disposition), Detach(Detach), Acquisition(AcqMarker) }
/// `errs`: how many of the detaches taken from the channel so far carried an error
/// `closed_seen`: the last recv() found the queue closed and empty (the session dropped the relay)
pub struct Rx { pub got: Ghost<Seq<LinkFrame>>, pub errs: Ghost<nat>, pub closed_seen: Ghost<bool> }
pub open spec fn detach_err(f: LinkFrame) -> nat { if f is Detach && f->Detach_0.error is Some { 1 } else { 0 } }
impl Rx {
    #[verifier::external_body]
    pub fn recv(&mut self) -> (r: Option<LinkFrame>)
        ensures (match r { Some(f) => final(self).got@ == old(self).got@.push(f) && final(self).errs@ == old(self).errs@ + detach_err(f), None => final(self).got@ == old(self).got@ && final(self).errs@ == old(self).errs@ && final(self).closed_seen@ }),
            r is Some ==> !final(self).closed_seen@,
    { unimplemented!() }
}
/// `attaches` (ghost): how many attach frames this endpoint has queued; `plain_attaches`: how many of them were built with is_reattaching = false (no unsettled map: the attach of a NEW link)
/// Arc<OnceLock<SessionStopReason>>: what the session published when it stopped (None: still running, or nothing recorded)
pub struct StopCell { pub v: Option<SessionStopReason> }
impl StopCell {
    pub fn get(&self) -> (r: Option<&SessionStopReason>) ensures (match (r, self.v) { (Some(a), Some(b)) => *a == b, (None, None) => true, _ => false }) { match &self.v { Some(x) => Some(x), None => None } }
}
pub struct EndS { pub link: LinkS, pub sent: Ghost<Seq<(bool, Option<AmqpError>)>>, pub has_handle: Ghost<bool>, pub failures: Ghost<nat>, pub incoming: Rx, pub attaches: Ghost<nat>, pub stop: StopCell, pub plain_attaches: Ghost<nat> }

pub open spec fn send_legal(st: LinkState, closed: bool) -> bool {
    match (st, closed) {
        (LinkState::Attached, _) => true,
        (LinkState::DetachReceived, false) => true,
        (LinkState::CloseReceived, true) => true,
        _ => false,
    }
}
impl EndS {
    pub fn link(&self) -> (r: &LinkS) ensures *r == self.link { &self.link }
    pub fn session_stop_reason(&self) -> (r: &StopCell) ensures *r == self.stop { &self.stop }
    #[verifier::external_body]
    pub fn link_mut(&mut self) -> (r: &mut LinkS)
        ensures *r == old(self).link, final(self).link == *final(r), final(self).sent == old(self).sent, final(self).failures == old(self).failures, final(self).incoming == old(self).incoming, final(self).has_handle == old(self).has_handle,
    { unimplemented!() }
    #[verifier::external_body]
    pub fn reader_mut(&mut self) -> (r: &mut Rx)
        ensures *r == old(self).incoming, final(self).incoming == *final(r), final(self).sent == old(self).sent, final(self).failures == old(self).failures, final(self).link == old(self).link, final(self).has_handle == old(self).has_handle, final(self).stop == old(self).stop,
    { unimplemented!() }
    /// LinkEndpointInner::reallocate_output_handle: a fresh relay and a fresh output handle from the session (session::allocate_link, unit SESSION); the handle is stored in the link
    #[verifier::external_body]
    pub fn reallocate_output_handle(&mut self) -> (r: Result<(), AttachErrorS>)
        ensures
            final(self).sent == old(self).sent, final(self).link == old(self).link, final(self).attaches == old(self).attaches, final(self).failures@ >= old(self).failures@, final(self).plain_attaches == old(self).plain_attaches,
            final(self).incoming.errs == old(self).incoming.errs, final(self).incoming.got@.len() >= old(self).incoming.got@.len(),
            r is Ok ==> final(self).has_handle@, r is Err ==> final(self).has_handle == old(self).has_handle,
    { unimplemented!() }
    /// exchange_attach(is_reattaching): Link::send_attach (unit LINK, [C13.link.attach-only-when-unattached]: an attach is written only from Unattached / Detached / DetachSent / AttachReceived and with a handle) and then
    /// the wait for the peer's attach. About the wait (under contract in unit LINKEXCH: exchange_attach of both link ends): it takes one frame off the channel, the peer's attach; any other frame fails the exchange
    #[verifier::external_body]
    pub fn exchange_attach(&mut self, is_reattaching: bool) -> (r: Result<AttachExchangeS, AttachErrorS>)
        ensures
            final(self).sent == old(self).sent, final(self).has_handle == old(self).has_handle, final(self).failures@ >= old(self).failures@,
            final(self).incoming.got@.len() >= old(self).incoming.got@.len(),
            !(old(self).link.st is Unattached || old(self).link.st is Detached || old(self).link.st is DetachSent || old(self).link.st is AttachReceived) || !old(self).has_handle@
                ==> r is Err && final(self).attaches == old(self).attaches && final(self).link == old(self).link && final(self).incoming == old(self).incoming,
            final(self).attaches@ == old(self).attaches@ || final(self).attaches@ == old(self).attaches@ + 1,
            r is Ok ==> final(self).attaches@ == old(self).attaches@ + 1 && final(self).incoming.errs@ == old(self).incoming.errs@,
            final(self).plain_attaches@ == old(self).plain_attaches@ + (if final(self).attaches@ > old(self).attaches@ && !is_reattaching { 1nat } else { 0nat }),
    { unimplemented!() }
    /// Link::handle_attach_error: may answer a refused attach with a detach of its own; returns the error to report (under contract in unit LINKEXCH: at most one detach, a closing one, is written; errors that mean the session or the peer went away are kept as they are)
    #[verifier::external_body]
    pub fn handle_attach_error(&mut self, e: AttachErrorS) -> (r: AttachErrorS)
        ensures final(self).attaches == old(self).attaches, final(self).incoming.got@.len() >= old(self).incoming.got@.len(), final(self).failures@ >= old(self).failures@,
            final(self).sent == old(self).sent, final(self).has_handle == old(self).has_handle, final(self).plain_attaches == old(self).plain_attaches,
    { unimplemented!() }
    /// handle_reattach_outcome (sender / receiver): Complete => Ok, anything else => IllegalState
    #[verifier::external_body]
    pub fn handle_reattach_outcome(&mut self, o: AttachExchangeS) -> (r: Result<(), AttachErrorS>)
        ensures *final(self) == *old(self), r is Ok ==> final(self).link.st is Attached,
    { unimplemented!() }

//@@ fn file=fe2o3-amqp/src/link/shared_inner.rs impl=`~LinkEndpointInnerReattach` name=reattach_inner
//@@ qmark
//@@ ret Result<(), AttachErrorS>
//@@ spec
    ensures
        final(self).sent == old(self).sent, final(self).failures@ >= old(self).failures@, final(self).incoming.got@.len() >= old(self).incoming.got@.len(),
        r is Ok ==> final(self).link.st is Attached && final(self).has_handle@,
        r is Ok ==> final(self).incoming.errs@ == old(self).incoming.errs@,
        final(self).plain_attaches == old(self).plain_attaches,       // [C02.reattach.attach-announces-the-unsettled-deliveries] the attach written when a link re-attaches (the peer answered a detach with a closing one; a resume) is built as a RE-attach: it carries the unsettled map (unit ATTACHBUILD: get_unsettled_map lists the deliveries only then), so the deliveries still in doubt are announced to the peer, not silently dropped
        final(self).has_handle@ && !old(self).has_handle@ ==> final(self).attaches@ > old(self).attaches@,      // [C13.link.no-handle-without-attach] a handle taken for a re-attach is kept only if the attach for it was actually written: a handle left behind by a re-attach that failed before its attach went out is detached once more by Drop (`detach{closed}` for a handle that was never attached: the second detach for one attach)
//@@ end

    /// contracts [C13.link.one-detach] / [C13.link.detach-frame] / [C13.link.close-answered-by-close] of unit LINK
    #[verifier::external_body]
    pub fn send_detach(&mut self, closed: bool, error: Option<AmqpError>) -> (r: Result<(), DetachError>)
        ensures
            !send_legal(old(self).link.st, closed) ==> r is Err && final(self).sent@ == old(self).sent@ && final(self).link.st == old(self).link.st,
            old(self).link.st is CloseReceived && !closed ==> r == Err::<(), DetachError>(DetachError::ClosedByRemote),
            r is Err && r->Err_0 is ClosedByRemote ==> old(self).link.st is CloseReceived && !closed,
            send_legal(old(self).link.st, closed) ==> final(self).link.st == (match (old(self).link.st, closed) {
                    (LinkState::Attached, false) => LinkState::DetachSent,
                    (LinkState::DetachReceived, false) => LinkState::Detached,
                    (LinkState::Attached, true) => LinkState::CloseSent,
                    _ => LinkState::Closed,
                }),
            r is Ok ==> final(self).sent@ == old(self).sent@.push((closed, error)) && final(self).failures@ == old(self).failures@,
            r is Err ==> final(self).sent@ == old(self).sent@,
            final(self).failures@ >= old(self).failures@, final(self).incoming == old(self).incoming,
            send_legal(old(self).link.st, closed) ==> !final(self).has_handle@,
            !send_legal(old(self).link.st, closed) ==> final(self).has_handle == old(self).has_handle,
            // with a handle and in a legal state the only way to fail is the channel to the session
            send_legal(old(self).link.st, closed) && old(self).has_handle@ && r is Err ==> final(self).failures@ > old(self).failures@,
    { unimplemented!() }
}
//@@ fn file=fe2o3-amqp/src/link/shared_inner.rs name=detach_error_from_stop_reason
//@@ generics
//@@ nowhere
//@@ param inner : &EndS
//@@ spec
    ensures (match inner.stop.v {
        Some(reason) => r == DetachError::SessionStopped(reason),       // [C14.link.closed-channel-reports-stop-reason] a detach / close that finds the session gone reports the reason the session published (the peer's end error, the connection's close error, an engine failure) ...
        None => r is IllegalState,                                       // ... and a link-local error when nothing was recorded
    }),
//@@ end
pub trait ErrInto<T>: Sized { spec fn conv(self) -> T; fn err_into(self) -> (r: T) ensures r == self.conv(); }
impl ErrInto<AttachErrorS> for AttachErrorS { open spec fn conv(self) -> AttachErrorS { self } fn err_into(self) -> (r: AttachErrorS) { let e = self; assert(e == <AttachErrorS as ErrInto<AttachErrorS>>::conv(self)); e } }
impl ErrInto<DetachError> for DetachError { open spec fn conv(self) -> DetachError { self } fn err_into(self) -> (r: DetachError) { let e = self; assert(e == <DetachError as ErrInto<DetachError>>::conv(self)); e } }

//@@ fn file=fe2o3-amqp/src/link/shared_inner.rs name=recv_remote_detach
//@@ attr #[verifier::loop_isolation(false)]
//@@ shape loops=loop
//@@ generics
//@@ nowhere
//@@ attr #[verifier::exec_allows_no_decreases_clause]
//@@ param link_inner : &mut EndS
//@@ subst `match link_inner .reader_mut() .recv() .ok_or_else(|| detach_error_from_stop_reason(link_inner))?` => `match (match link_inner.reader_mut().recv() { Some(f) => f, None => return Err(detach_error_from_stop_reason(link_inner)) })` rule=R19 unless `ok_or_else`
//@@ spec
    ensures
        final(link_inner).sent == old(link_inner).sent, final(link_inner).link == old(link_inner).link, final(link_inner).failures == old(link_inner).failures, final(link_inner).has_handle == old(link_inner).has_handle,   // [C13.link.nothing-sent-while-waiting] waiting for the peer's detach queues nothing
        final(link_inner).incoming.got@.len() >= old(link_inner).incoming.got@.len(),
        r is Ok ==> final(link_inner).incoming.got@.len() > old(link_inner).incoming.got@.len()
            && final(link_inner).incoming.got@.last() == LinkFrame::Detach(r->Ok_0),                                   // [C13.link.detach-returns-after-peer-answer] it returns Ok only with a detach actually received from the peer (other frames still in flight are skipped)
        r is Err ==> !(r->Err_0 is ClosedByRemote),
        final(link_inner).stop == old(link_inner).stop,
        r is Err ==> (match old(link_inner).stop.v { Some(reason) => r->Err_0 == DetachError::SessionStopped(reason), None => r->Err_0 is IllegalState }),       // [C14.link.closed-channel-reports-stop-reason] [C13.link.definite-failure-names-the-stop-reason] the wait for the peer's detach fails with the session's published stop reason
        r is Err ==> final(link_inner).incoming.closed_seen@,                                                          // [C13.link.frames-in-flight-do-not-fail-the-detach] the wait for the peer's detach fails only when the link's queue is closed (the session is gone): a transfer, flow or disposition still in flight in front of the peer's detach is skipped, it is not an error -- `close()` / `detach()` with a delivery in flight still complete the handshake and report the peer's answer
        r is Ok ==> final(link_inner).incoming.errs@ == old(link_inner).incoming.errs@ + (if r->Ok_0.error is Some { 1nat } else { 0nat }),   // the first detach that arrives is the one returned
//@@ loop 0 optional
        invariant
            link_inner.sent == old(link_inner).sent, link_inner.link == old(link_inner).link, link_inner.failures == old(link_inner).failures, link_inner.has_handle == old(link_inner).has_handle,
            link_inner.incoming.got@.len() >= old(link_inner).incoming.got@.len(),
            link_inner.incoming.errs@ == old(link_inner).incoming.errs@, link_inner.stop == old(link_inner).stop,
//@@ end

//@@ fn file=fe2o3-amqp/src/link/shared_inner.rs name=reattach_and_then_close
//@@ generics
//@@ nowhere
//@@ qmark
//@@ param link_inner : &mut EndS
//@@ subst `link_inner .reattach_inner() .map_err(|_v0| DetachError::DetachedByRemote)?` => `(match link_inner.reattach_inner() { Ok(v) => v, Err(_e) => return Err(DetachError::DetachedByRemote) })` rule=R19 unless `\.map_err\(`
//@@ spec
    ensures
        final(link_inner).sent@ == old(link_inner).sent@ || final(link_inner).sent@ == old(link_inner).sent@.push((true, None::<AmqpError>)),   // [C13.link.reattach-then-one-closing-detach] after the re-attach exactly one closing detach (without an error of our own) is sent, or none if the re-attach failed
        r is Ok ==> final(link_inner).sent@ == old(link_inner).sent@.push((true, None::<AmqpError>)) && final(link_inner).link.st is Closed
            && final(link_inner).incoming.got@.len() > old(link_inner).incoming.got@.len() && final(link_inner).incoming.got@.last() is Detach,   // [C13.link.detach-returns-after-peer-answer] Ok only after the peer's closing detach came back
        r is Ok ==> final(link_inner).incoming.errs@ == old(link_inner).incoming.errs@,   // [C13.link.peer-detach-error-reported] an error carried by the peer's answer fails the call (it is what the caller gets)
        r is Err ==> !(r->Err_0 is ClosedByRemote),
//@@ end

impl EndS {
//@@ fn file=fe2o3-amqp/src/link/shared_inner.rs impl=`~impl<T>LinkEndpointInnerDetachforT` name=detach_with_error
//@@ ret Result<(), DetachError>
//@@ spec
    ensures
        old(self).link.st is CloseReceived ==> ({
            &&& r is Err
            &&& (final(self).sent@ == old(self).sent@.push((true, error)) || final(self).sent@ == old(self).sent@)     // [C13.link.close-answered-in-kind] a peer's CLOSING detach is answered with a closing detach carrying the application's error -- never with a non-closing one, never twice
            &&& (old(self).has_handle@ && final(self).failures@ == old(self).failures@ ==> final(self).sent@ == old(self).sent@.push((true, error)))   // [C13.link.close-always-answered] ... and it IS sent unless the session channel is gone
            &&& (final(self).sent@.len() == old(self).sent@.len() + 1 ==> final(self).link.st is Closed && r == Err::<(), DetachError>(DetachError::ClosedByRemote))   // [C13.link.close-answer-reported] once the closing answer is out the link is Closed and the caller learns the peer closed it
        }),
        old(self).link.st is DetachReceived ==> ({
            &&& (r is Ok ==> final(self).sent@ == old(self).sent@.push((false, error)) && final(self).link.st is Detached)   // [C13.link.detach-answered-in-kind] a peer's non-closing detach is answered with a non-closing detach
            &&& (r is Err ==> final(self).sent@ == old(self).sent@)
            &&& (old(self).has_handle@ && final(self).failures@ == old(self).failures@ ==> r is Ok)                      // [C13.link.detach-always-answered]
        }),
        // local-initiated detach of an attached link
        old(self).link.st is Attached ==> ({
            &&& (final(self).sent@.len() > old(self).sent@.len() ==> final(self).sent@[old(self).sent@.len() as int] == (false, error))       // [C13.link.local-detach-frame] the first thing queued is ONE non-closing detach carrying the application's error
            &&& final(self).sent@.len() <= old(self).sent@.len() + 2                                                                      // (a second, closing one only in answer to a peer that closed: after the re-attach)
            &&& (final(self).sent@.len() == old(self).sent@.len() + 2 ==> final(self).sent@.last() == (true, None::<AmqpError>))
            &&& (r is Ok ==> final(self).incoming.got@.len() > old(self).incoming.got@.len() && final(self).link.st is Detached
                    && final(self).sent@ == old(self).sent@.push((false, error)))                                                         // [C13.link.detach-returns-after-peer-answer] detach() returns Ok only after the peer's (non-closing, error-free) detach has arrived; then the link is Detached and exactly one detach was sent
        }),
        (old(self).link.st is Attached || old(self).link.st is DetachSent) && (r is Ok || r == Err::<(), DetachError>(DetachError::ClosedByRemote))
            ==> final(self).incoming.errs@ == old(self).incoming.errs@,   // [C13.link.peer-detach-error-reported] an error carried by the peer's detach -- closing or not -- is what the caller gets: detach() reports plain ClosedByRemote (or Ok) only if no detach of the peer taken during the call carried an error
        old(self).link.st is DetachSent ==> final(self).sent@.len() <= old(self).sent@.len() + 1
            && (final(self).sent@.len() == old(self).sent@.len() + 1 ==> final(self).sent@.last() == (true, None::<AmqpError>)),          // [C13.link.one-detach] no second non-closing detach
        old(self).link.st is Detached ==> r is Ok && final(self).sent@ == old(self).sent@,                            // [C13.link.no-second-detach] an already detached link sends nothing more
        old(self).link.st is Closed ==> r is Err && final(self).sent@ == old(self).sent@,
//@@ end

//@@ fn file=fe2o3-amqp/src/link/shared_inner.rs impl=`~impl<T>LinkEndpointInnerDetachforT` name=close_with_error
//@@ ret Result<(), DetachError>
//@@ subst `|_v0|` => `|_v0: DetachError|` rule=optional-R5
//@@ subst `|_v1|` => `|_v1: DetachError|` rule=optional-R5
//@@ subst `|_v2|` => `|_v2: DetachError|` rule=optional-R5
//@@ spec
    ensures
        (old(self).link.st is CloseReceived || old(self).link.st is DetachReceived) ==> ({
            &&& (r is Ok ==> final(self).sent@ == old(self).sent@.push((true, error)))                                 // [C13.link.close-sends-closing-detach] closing a link whose peer already detached/closed sends exactly one CLOSING detach with the caller's error
            &&& (r is Err ==> final(self).sent@ == old(self).sent@)
        }),
        old(self).link.st is CloseReceived && r is Ok ==> final(self).link.st is Closed,
        old(self).link.st is CloseReceived && old(self).has_handle@ && final(self).failures@ == old(self).failures@ ==> r is Ok,           // [C13.link.close-always-answered] a peer's closing detach IS answered by close() unless the channel to the session is gone
        // local-initiated close of an attached link
        old(self).link.st is Attached ==> ({
            &&& (final(self).sent@.len() > old(self).sent@.len() ==> final(self).sent@[old(self).sent@.len() as int] == (true, error))        // [C13.link.local-close-frame] the first thing queued is ONE closing detach carrying the application's error
            &&& final(self).sent@.len() <= old(self).sent@.len() + 2
            &&& (r is Ok ==> final(self).incoming.got@.len() > old(self).incoming.got@.len() && final(self).link.st is Closed)             // [C13.link.detach-returns-after-peer-answer] close() returns Ok only after the peer's closing detach has arrived
        }),
        old(self).link.st is CloseSent ==> final(self).sent@.len() <= old(self).sent@.len() + 1,                                           // [C13.link.one-detach]
        old(self).link.st is Closed ==> r is Ok && final(self).sent@ == old(self).sent@,                              // [C13.link.no-detach-after-closed]
//@@ end
}

} // verus!
fn main() {}
