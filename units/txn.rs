//@@ unit TXN
//@@ gsubst `definitions::Error` => `AmqpError` rule=R11
#![feature(allocator_api)]
#![allow(unused_imports, unused_variables, dead_code, unused_mut, unused_parens)]
use vstd::prelude::*;

verus! {

//@@ include common.rs
//@@ trusted OrderedMap<K,V> (indexmap) stand-in: Map<K,V> with insert / swap_remove / get_mut / contains_key
//@@ trusted the wrapped plain session S (endpoint::Session) is a stand-in: on_incoming_transfer appends (transfer, payload) to the ghost sequence `delivered` (what reaches the receiving links), on_incoming_disposition appends to `disposed`; either may fail leaving the log unchanged
//@@ trusted Uuid::new_v4 is an arbitrary id source (fresh_txn_id); mpsc::Sender<SessionControl> ghost trace (R9)
//@@ trusted leaf stand-ins: TransactionId, Payload, Accepted, Rejected, Released, Modified, Received, Declared, AmqpError, Handle opaque
//@@ trusted built with features transaction + acceptor, non-wasm (R12): cfg attributes on variants/items are dropped accordingly

pub type DeliveryNumber = u32;
pub type MessageFormat = u32;
pub type Boolean = bool;

macro_rules! opaque {
    ($($n:ident),*) => { verus!{ $(
        #[verifier::external_body]
        pub struct $n { _p: u8 }
        impl Clone for $n { #[verifier::external_body] fn clone(&self) -> (r: Self) ensures r == *self { unimplemented!() } }
    )* } }
}
opaque!(TransactionId, Payload, Rejected, Released, Modified, Received, Declared, AmqpError, DeliveryTag, ChanSendError);
// bytes::Bytes as far as these functions may look at it: its length (R11)
impl Payload {
    pub uninterp spec fn spec_len(&self) -> nat;
    #[verifier::external_body]
    pub fn len(&self) -> (r: usize) ensures r == self.spec_len() { unimplemented!() }
    #[verifier::external_body]
    pub fn is_empty(&self) -> (r: bool) ensures r == (self.spec_len() == 0) { unimplemented!() }
}
pub struct Accepted {}
pub struct Handle(pub u32);

//@@ type file=fe2o3-amqp-types/src/definitions/role.rs kind=enum name=Role clone
//@@ end
//@@ type file=fe2o3-amqp-types/src/definitions/rcv_settle_mode.rs kind=enum name=ReceiverSettleMode clone
//@@ end
//@@ type file=fe2o3-amqp-types/src/messaging/delivery_state/mod.rs kind=enum name=Outcome
//@@ end
//@@ type file=fe2o3-amqp-types/src/transaction/mod.rs kind=struct name=TransactionalState
//@@ subst `crate::messaging::Outcome` => `Outcome` rule=R11
//@@ end
//@@ type file=fe2o3-amqp-types/src/messaging/delivery_state/mod.rs kind=enum name=DeliveryState
//@@ end
//@@ type file=fe2o3-amqp-types/src/transaction/txn_error.rs kind=enum name=TransactionError
//@@ end
//@@ type file=fe2o3-amqp-types/src/performatives/transfer.rs kind=struct name=Transfer
//@@ end
//@@ type file=fe2o3-amqp-types/src/performatives/disposition.rs kind=struct name=Disposition
//@@ end
//@@ type file=fe2o3-amqp/src/transaction/frame.rs kind=enum name=TxnWorkFrame
//@@ end
//@@ type file=fe2o3-amqp/src/transaction/manager.rs kind=struct name=ResourceTransaction
//@@ end

pub enum SessionInnerError { IllegalState, UnknownTxnId, Other }
pub enum AllocTxnIdError { NotImplemented, InvalidSessionState }
pub enum SessionControl { Disposition(Disposition), Other }

/// `impl From<Outcome> for DeliveryState` (fe2o3-amqp-types): variant-wise
pub open spec fn outcome_to_state(o: Outcome) -> DeliveryState {
    match o {
        Outcome::Accepted(v) => DeliveryState::Accepted(v),
        Outcome::Rejected(v) => DeliveryState::Rejected(v),
        Outcome::Released(v) => DeliveryState::Released(v),
        Outcome::Modified(v) => DeliveryState::Modified(v),
        Outcome::Declared(v) => DeliveryState::Declared(v),
    }
}
pub fn outcome_into_state(o: Outcome) -> (d: DeliveryState) ensures d == outcome_to_state(o) {
    match o {
        Outcome::Accepted(v) => DeliveryState::Accepted(v),
        Outcome::Rejected(v) => DeliveryState::Rejected(v),
        Outcome::Released(v) => DeliveryState::Released(v),
        Outcome::Modified(v) => DeliveryState::Modified(v),
        Outcome::Declared(v) => DeliveryState::Declared(v),
    }
}

#[verifier::external_body]
#[verifier::reject_recursive_types(K)]
#[verifier::reject_recursive_types(V)]
pub struct OrderedMap<K, V> { m: Vec<(K, V)> }
impl<K, V> View for OrderedMap<K, V> { type V = Map<K, V>; uninterp spec fn view(&self) -> Map<K, V>; }
impl<K, V> OrderedMap<K, V> {
    #[verifier::external_body]
    pub fn contains_key(&self, k: &K) -> (r: bool) ensures r == self@.contains_key(*k) { unimplemented!() }
    #[verifier::external_body]
    pub fn insert(&mut self, k: K, v: V) -> (r: Option<V>) ensures final(self)@ == old(self)@.insert(k, v) { unimplemented!() }
    #[verifier::external_body]
    pub fn swap_remove(&mut self, k: &K) -> (r: Option<V>)
        ensures
            final(self)@ == old(self)@.remove(*k),
            match r { Some(v) => old(self)@.contains_key(*k) && v == old(self)@[*k], None => !old(self)@.contains_key(*k) },
    { unimplemented!() }
    #[verifier::external_body]
    pub fn get_mut(&mut self, k: &K) -> (r: Option<&mut V>)
        ensures
            match r {
                Some(v) => old(self)@.contains_key(*k) && *v == old(self)@[*k] && final(self)@ == old(self)@.insert(*k, *final(v)),
                None => !old(self)@.contains_key(*k) && final(self)@ == old(self)@,
            },
    { unimplemented!() }
}

pub struct ChanSender<T> { pub sent: Ghost<Seq<T>> }
impl<T> ChanSender<T> {
    #[verifier::external_body]
    pub fn send(&mut self, v: T) -> (r: Result<(), ChanSendError>)
        ensures
            r is Ok ==> final(self).sent@ == old(self).sent@.push(v),
            r is Err ==> final(self).sent@ == old(self).sent@,
    { unimplemented!() }
}
#[verifier::external_body]
pub fn fresh_txn_id() -> (r: TransactionId) { unimplemented!() }

/// the wrapped plain session: what it is handed is what the receiving application's links get
/// `handed`: the transfers handed to the inner session; `delivered`: those of them that reached the receiving link they were posted on
/// `open`: the input handles on which a multi-frame delivery is in progress (a frame with more=true was handed on, its last frame not yet)
/// `counted`: transfer frames the inner session has counted in next-incoming-id / remote-outgoing-window / need-flow-count (Session::on_incoming_transfer, unit SESSION [C07.recv.next-incoming-id])
pub struct InnerS { pub counted: Ghost<nat>, pub handed: Ghost<Seq<(Transfer, Payload)>>, pub delivered: Ghost<Seq<(Transfer, Payload)>>, pub disposed: Ghost<Seq<Disposition>>, pub open: Ghost<Set<u32>> }
impl InnerS {
    /// S::on_incoming_transfer. On the listener S = ListenerSession, whose on_incoming_transfer (unit ACCSESS, [C15.listener.unattached-not-fatal]) answers Ok(None) WITHOUT delivering anything
    /// when the transfer's handle is not attached at the time of the call, and otherwise routes by whatever link holds that handle number now (unit SESSION, [C11.route.transfer])
    #[verifier::external_body]
    pub fn on_incoming_transfer(&mut self, transfer: Transfer, payload: Payload) -> (r: Result<Option<Disposition>, SessionInnerError>)
        ensures
            r is Ok ==> final(self).handed@ == old(self).handed@.push((transfer, payload)),
            r is Ok ==> final(self).delivered@ == old(self).delivered@.push((transfer, payload)) || final(self).delivered@ == old(self).delivered@,
            r is Err ==> final(self).delivered@ == old(self).delivered@ && final(self).handed@ == old(self).handed@,
            final(self).disposed == old(self).disposed,
            final(self).counted@ == old(self).counted@ + 1,
            r is Ok ==> final(self).open@ == (if transfer.more { old(self).open@.insert(transfer.handle.0) } else { old(self).open@.remove(transfer.handle.0) }),
    { unimplemented!() }
    #[verifier::external_body]
    pub fn on_incoming_disposition(&mut self, disposition: Disposition) -> (r: Result<Option<Vec<Disposition>>, SessionInnerError>)
        ensures
            r is Ok ==> final(self).disposed@ == old(self).disposed@.push(disposition),
            r is Err ==> final(self).disposed@ == old(self).disposed@,
            final(self).delivered == old(self).delivered, final(self).handed == old(self).handed, final(self).open == old(self).open, final(self).counted == old(self).counted,
    { unimplemented!() }
}

// TransactionManager: only the transaction table (R11: channel ends elided)
pub struct TransactionManager { pub txns: OrderedMap<TransactionId, ResourceTransaction> }
/// `discharging` (ghost): the ids whose Discharge has ALREADY ARRIVED on the control link (it was relayed to the coordinator task, whose CommitTransaction / RollbackTransaction request has not come back through the control queue yet)
pub struct TxnSession { pub control: ChanSender<SessionControl>, pub session: InnerS, pub txn_manager: TransactionManager, pub discharging: Ghost<Set<TransactionId>> }

// ---- specification vocabulary -----------------------------------------------------------------
/// the transfer as replayed on commit: a transactional state is replaced by the outcome it carries
pub open spec fn committed(t: Transfer) -> Transfer {
    match t.state {
        Some(DeliveryState::TransactionalState(ts)) => Transfer { state: (match ts.outcome { Some(o) => Some(outcome_to_state(o)), None => None }), ..t },
        _ => t,
    }
}
/// the posts among the work frames, in posting order
pub open spec fn posts(fs: Seq<TxnWorkFrame>) -> Seq<(Transfer, Payload)>
    decreases fs.len()
{
    if fs.len() == 0 { Seq::empty() } else {
        match fs.last() {
            TxnWorkFrame::Post { transfer, payload } => posts(fs.drop_last()).push((committed(transfer), payload)),
            TxnWorkFrame::Retire(_) => posts(fs.drop_last()),
        }
    }
}

/// the retirement as applied on commit: the transactional state is replaced by its outcome and the delivery is settled
pub open spec fn retired(d: Disposition) -> Disposition {
    match d.state {
        Some(DeliveryState::TransactionalState(ts)) => Disposition { state: (match ts.outcome { Some(o) => Some(outcome_to_state(o)), None => None }), settled: true, ..d },
        _ => Disposition { settled: true, ..d },
    }
}
/// the retirements among the work frames, in order
pub open spec fn retires(fs: Seq<TxnWorkFrame>) -> Seq<Disposition>
    decreases fs.len()
{
    if fs.len() == 0 { Seq::empty() } else {
        match fs.last() {
            TxnWorkFrame::Retire(d) => retires(fs.drop_last()).push(retired(d)),
            TxnWorkFrame::Post { .. } => retires(fs.drop_last()),
        }
    }
}

impl ResourceTransaction {
//@@ fn file=fe2o3-amqp/src/transaction/manager.rs impl=`impl ResourceTransaction` name=new
//@@ spec
    ensures r.frames@ == Seq::<TxnWorkFrame>::empty(),        // [C18.declare.empty] a declared transaction starts with no work
//@@ end

//@@ fn file=fe2o3-amqp/src/transaction/manager.rs impl=`impl ResourceTransaction` name=on_incoming_post
//@@ subst `transfer.delivery_id.map(|delivery_id| {` => `transfer.delivery_id.map(|delivery_id: u32| -> (o: Disposition) ensures o.role == Role::Receiver && o.first == delivery_id && o.last is None && o.state is Some && o.state->Some_0 is TransactionalState && o.state->Some_0->TransactionalState_0.txn_id == txn_id && o.state->Some_0->TransactionalState_0.outcome is Some {` rule=optional-R18
//@@ spec
    ensures
        final(self).frames@ == old(self).frames@.push(TxnWorkFrame::Post { transfer, payload }),   // [C18.post.buffered] a transactional post is appended to the transaction's work, unchanged, after everything posted before
        (transfer.settled == Some(true) || transfer.delivery_id is None) ==> r is None,
        !(transfer.settled == Some(true)) && transfer.delivery_id is Some ==> r is Some && r->Some_0.role == Role::Receiver && r->Some_0.first == transfer.delivery_id->Some_0 && r->Some_0.last is None
            && r->Some_0.state is Some && r->Some_0.state->Some_0 is TransactionalState && r->Some_0.state->Some_0->TransactionalState_0.txn_id == txn_id
            && r->Some_0.state->Some_0->TransactionalState_0.outcome is Some,                                // [C18.post.provisional-outcome] an unsettled post is answered with a disposition that covers exactly that delivery and carries a transactional state naming ITS transaction together with the presumptive terminal outcome (AMQP 4.4.2)
//@@ end
}

impl TxnSession {
    pub open spec fn txns(&self) -> Map<TransactionId, ResourceTransaction> { self.txn_manager.txns@ }

//@@ fn file=fe2o3-amqp/src/transaction/session.rs impl=`~HandleDeclareforTxnSession<S>` name=allocate_transaction_id
//@@ attr #[verifier::loop_isolation(false)]
//@@ shape loops=while
//@@ attr #[verifier::exec_allows_no_decreases_clause]
//@@ subst `TransactionId::from(Uuid::new_v4().into_bytes())` => `fresh_txn_id()` rule=R16
//@@ spec
    ensures
        r is Ok,
        !old(self).txns().contains_key(r->Ok_0),                                                      // [C18.declare.fresh] every declare yields an id that no live transaction has
        final(self).txns().dom() =~= old(self).txns().dom().insert(r->Ok_0)
            && final(self).txns()[r->Ok_0].frames@ == Seq::<TxnWorkFrame>::empty()
            && (forall|k: TransactionId| old(self).txns().contains_key(k) ==> #[trigger] final(self).txns()[k] == old(self).txns()[k]),   // [C18.declare.others-untouched]
        final(self).session == old(self).session,                                                     // [C18.declare.nothing-delivered]
//@@ loop 0
        invariant self.txn_manager.txns == old(self).txn_manager.txns, self.session == old(self).session, self.control == old(self).control,
//@@ end

//@@ fn file=fe2o3-amqp/src/transaction/session.rs impl=`~HandleDischargeforTxnSession<S>` name=rollback_transaction
//@@ ret Result<Result<Accepted, TransactionError>, SessionInnerError>
//@@ spec
    ensures
        final(self).session == old(self).session,                                                     // [C18.rollback.nothing-delivered] after a rollback none of the posted messages ever reaches the application
        old(self).txns().contains_key(txn_id) ==> r is Ok && r->Ok_0 is Ok && final(self).txns() == old(self).txns().remove(txn_id),   // [C18.discharge.once-rollback] the id is discharged: gone from the table, so it cannot be discharged or posted to again
        !old(self).txns().contains_key(txn_id) ==> r is Ok && r->Ok_0 == Err::<Accepted, TransactionError>(TransactionError::UnknownId)
            && final(self).txns() == old(self).txns(),                                                // [C18.discharge.unknown-rollback] unknown or finished id: refused with the transaction error, nothing applied
//@@ end

//@@ fn file=fe2o3-amqp/src/transaction/session.rs impl=`~HandleDischargeforTxnSession<S>` name=commit_transaction
//@@ attr #[verifier::loop_isolation(false)]
//@@ shape loops=for,for;stmt-1=Ok (
//@@ ret Result<Result<Accepted, TransactionError>, SessionInnerError>
//@@ subst `transfer.state = txn_state.outcome.map(Into::into);` => `transfer.state = txn_state.outcome.map(|o: Outcome| -> (d: DeliveryState) ensures d == outcome_to_state(o) { outcome_into_state(o) });` rule=R17 unless `\.map\(`
//@@ subst `disposition.state = txn_state.outcome.map(Into::into)` => `disposition.state = txn_state.outcome.map(|o: Outcome| -> (d: DeliveryState) ensures d == outcome_to_state(o) { outcome_into_state(o) })` rule=R17 unless `\.map\(`
//@@ subst `|_v0| Self::Error::IllegalState` => `|_v0: ChanSendError| SessionInnerError::IllegalState` rule=optional-R5
//@@ subst `|_v1| Self::Error::IllegalState` => `|_v1: ChanSendError| SessionInnerError::IllegalState` rule=optional-R5
//@@ spec
    ensures
        !old(self).txns().contains_key(txn_id) ==> r is Ok && r->Ok_0 == Err::<Accepted, TransactionError>(TransactionError::UnknownId)
            && final(self).txns() == old(self).txns() && final(self).session == old(self).session,   // [C18.discharge.unknown-commit] unknown or finished id: refused with the transaction error, nothing applied
        old(self).txns().contains_key(txn_id) ==> final(self).txns() == old(self).txns().remove(txn_id),   // [C18.discharge.once-commit] the id is consumed by the discharge whatever the outcome: a second discharge finds it unknown
        old(self).txns().contains_key(txn_id) && r is Ok ==> r->Ok_0 is Ok
            && final(self).session.handed@ =~= old(self).session.handed@ + posts(old(self).txns()[txn_id].frames@),   // [C18.commit.all-handed-in-order] after a successful commit ALL posted messages have been handed to the session, in posting order, with the transactional state replaced by its outcome
        old(self).txns().contains_key(txn_id) && r is Ok ==> final(self).session.disposed@ =~= old(self).session.disposed@ + retires(old(self).txns()[txn_id].frames@),   // [C18.commit.retirements-applied] ... and every retirement made under the transaction is applied, in order, as a SETTLED disposition carrying the outcome named in its transactional state
        old(self).txns().contains_key(txn_id) && r is Ok ==> final(self).session.delivered@ =~= old(self).session.delivered@ + posts(old(self).txns()[txn_id].frames@),   // [C18.commit.all-in-order] ... and every one of them is DELIVERED, to the link it was posted on: a commit answered Accepted must not have dropped or re-routed a post (the replay goes by the handle NUMBER as attached at commit time)
        old(self).txns().contains_key(txn_id) && r is Ok ==> forall|i: int| 0 <= i < old(self).txns()[txn_id].frames@.len() && (#[trigger] old(self).txns()[txn_id].frames@[i]) is Post
            ==> !old(self).session.open@.contains(old(self).txns()[txn_id].frames@[i]->Post_transfer.handle.0),       // [C18.commit.replay-not-inside-a-delivery] the posts of a committed transaction are not replayed into the middle of another delivery of the same link: while a plain multi-frame delivery is in progress on the link (more=true seen, last frame not yet) the replayed frames would be spliced into it -- the link fails with InconsistentFieldInMultiFrameDelivery and both messages are lost although the commit is answered Accepted
//@@ entry
        let ghost fs0 = if self.txn_manager.txns@.contains_key(txn_id) { self.txn_manager.txns@[txn_id].frames@ } else { Seq::empty() };
        let ghost d0 = self.session.handed@;
        let ghost dd0 = self.session.disposed@;
//@@ loop 0
        invariant
            __it0.seq() == fs0,
            old(self).txn_manager.txns@.contains_key(txn_id),
            self.txn_manager.txns@ == old(self).txn_manager.txns@.remove(txn_id),
            self.session.handed@ =~= d0 + posts(fs0.take(__it0.index@)),
            self.session.disposed@ =~= dd0 + retires(fs0.take(__it0.index@)),
//@@ loop 1
        invariant
            old(self).txn_manager.txns@.contains_key(txn_id),
            self.txn_manager.txns@ == old(self).txn_manager.txns@.remove(txn_id),
            self.session.handed@ =~= d0 + posts(fs0.take(__it0.index@ + 1)),
            self.session.disposed@ =~= dd0 + retires(fs0.take(__it0.index@ + 1)),
//@@ loopstart 0
            proof {
                let i = __it0.index@;
                assert(fs0.take(i + 1).drop_last() =~= fs0.take(i));
                assert(fs0.take(i + 1).last() == fs0[i]);
            }
//@@ stmt -1
        proof { assert(fs0.take(fs0.len() as int) =~= fs0); }
//@@ end

//@@ fn file=fe2o3-amqp/src/transaction/session.rs impl=`~endpoint::SessionforTxnSession<S>` name=on_incoming_transfer
//@@ ret Result<Option<Disposition>, SessionInnerError>
//@@ subst `self.txn_manager .txns .get_mut(txn_id) .map(|txn| (txn, txn_id.clone())) .ok_or(S::Error::UnknownTxnId)?` => `match self.txn_manager.txns.get_mut(txn_id) { Some(txn) => (txn, txn_id.clone()), None => return Err(SessionInnerError::UnknownTxnId) }` rule=optional-R19
//@@ subst `S::Error::UnknownTxnId` => `SessionInnerError::UnknownTxnId` rule=optional-R2
//@@ spec
    ensures
        transfer.state is Some && transfer.state->Some_0 is TransactionalState ==> ({
            let id = transfer.state->Some_0->TransactionalState_0.txn_id;
            &&& final(self).session == old(self).session                                               // [C18.post.withheld] a post under a transaction is NOT handed to the application (until commit)
            &&& old(self).txns().contains_key(id) ==> r is Ok
                    && final(self).txns().dom() =~= old(self).txns().dom()
                    && final(self).txns()[id].frames@ == old(self).txns()[id].frames@.push(TxnWorkFrame::Post { transfer, payload })   // [C18.post.appended] it is appended to ITS transaction's work, in posting order
                    && (forall|k: TransactionId| k != id && old(self).txns().contains_key(k) ==> #[trigger] final(self).txns()[k] == old(self).txns()[k])   // [C18.post.isolated] other transactions are untouched
            &&& !old(self).txns().contains_key(id) ==> r is Err && r->Err_0 is UnknownTxnId && final(self).txns() == old(self).txns()   // [C18.post.unknown] posting to an unknown or finished id is refused, nothing applied
        }),
        transfer.state is Some && transfer.state->Some_0 is TransactionalState && old(self).discharging@.contains(transfer.state->Some_0->TransactionalState_0.txn_id) ==> r is Err && r->Err_0 is UnknownTxnId && final(self).txns() == old(self).txns(),   // [C18.post.after-discharge-refused] a post that arrives after its transaction's discharge (in wire order) is refused with the transaction error, it is not added to the transaction: a discharge takes effect when its frame arrives, not when the coordinator task's request has made its way back through the session's control queue
        final(self).session.counted@ == old(self).session.counted@ + 1,      // [C07.recv.posted-frames-counted] EVERY transfer frame received is counted in next-incoming-id (and remote-outgoing-window, need-flow-count) when it arrives -- also one that is set aside as a transactional post: the endpoint's flow frames report what it has received, and the peer's view of its outgoing window depends on it (a rolled back post is never counted at all, a committed one only at commit)
        !(transfer.state is Some && transfer.state->Some_0 is TransactionalState) ==> final(self).txns() == old(self).txns()
            && (r is Ok ==> final(self).session.handed@ == old(self).session.handed@.push((transfer, payload))),   // [C18.post.non-transactional-passthrough] a non-transactional transfer goes straight through
//@@ end

//@@ fn file=fe2o3-amqp/src/transaction/session.rs impl=`~endpoint::SessionforTxnSession<S>` name=on_incoming_disposition
//@@ ret Result<Option<Vec<Disposition>>, SessionInnerError>
//@@ subst `S::Error::UnknownTxnId` => `SessionInnerError::UnknownTxnId` rule=R2
//@@ spec
    ensures
        disposition.state is Some && disposition.state->Some_0 is TransactionalState ==> ({
            let id = disposition.state->Some_0->TransactionalState_0.txn_id;
            &&& final(self).session == old(self).session                                               // [C18.retire.withheld] a transactional retirement is not applied until commit
            &&& old(self).txns().contains_key(id) ==> r is Ok && r->Ok_0 is None
                    && final(self).txns().dom() =~= old(self).txns().dom()
                    && final(self).txns()[id].frames@ == old(self).txns()[id].frames@.push(TxnWorkFrame::Retire(disposition))
                    && (forall|k: TransactionId| k != id && old(self).txns().contains_key(k) ==> #[trigger] final(self).txns()[k] == old(self).txns()[k])   // [C18.retire.appended]
            &&& !old(self).txns().contains_key(id) ==> r is Err && r->Err_0 is UnknownTxnId && final(self).txns() == old(self).txns()   // [C18.retire.unknown]
        }),
        !(disposition.state is Some && disposition.state->Some_0 is TransactionalState) ==> final(self).txns() == old(self).txns(),
//@@ end
}

} // verus!
fn main() {}
