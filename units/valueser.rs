//@@ unit VALUESER
#![feature(allocator_api)]
#![allow(unused_imports, unused_variables, dead_code, unused_mut, unused_parens)]
use vstd::prelude::*;

verus! {

//@@ trusted the serde Serializer handed to Value::serialize is a stand-in that answers each serialize_* call with a record of WHICH method was called with WHICH value (or fails); the composite variants (described, decimals, timestamp, uuid, symbol, list, map, array) delegate to the Serialize impl of their payload type: recorded as a delegation to that payload, not followed
//@@ trusted OrderedFloat / ByteBuf / String payloads are opaque values with an uninterpreted identity; f32 / f64 are passed through unexamined

/// one call on a serde Serializer
pub enum Call {
    Unit, Bool(bool), U8(u8), U16(u16), U32(u32), U64(u64), I8(i8), I16(i16), I32(i32), I64(i64), F32(int), F64(int), Char(char), Bytes(int), Str(int),
    /// `payload.serialize(serializer)`: which kind of payload (0 described, 1 dec32, 2 dec64, 3 dec128, 4 timestamp, 5 uuid, 6 symbol, 7 list, 8 map, 9 array) and its identity
    Delegated(int, int),
}
#[verifier::external_body]
pub struct SerError { _p: u8 }
pub struct SerializerS { pub g: Ghost<int> }
macro_rules! ser_method {
    ($($m:ident($t:ty) => $c:ident),*) => { verus!{ impl SerializerS { $(
        #[verifier::external_body]
        pub fn $m(self, v: $t) -> (r: Result<Call, SerError>) ensures r is Ok ==> r->Ok_0 == Call::$c(v) { unimplemented!() }
    )* } } }
}
ser_method!(serialize_bool(bool) => Bool, serialize_u8(u8) => U8, serialize_u16(u16) => U16, serialize_u32(u32) => U32, serialize_u64(u64) => U64,
            serialize_i8(i8) => I8, serialize_i16(i16) => I16, serialize_i32(i32) => I32, serialize_i64(i64) => I64, serialize_char(char) => Char);
impl SerializerS {
    #[verifier::external_body]
    pub fn serialize_unit(self) -> (r: Result<Call, SerError>) ensures r is Ok ==> r->Ok_0 == Call::Unit { unimplemented!() }
    #[verifier::external_body]
    pub fn serialize_f32(self, v: F32V) -> (r: Result<Call, SerError>) ensures r is Ok ==> r->Ok_0 == Call::F32(v.id()) { unimplemented!() }
    #[verifier::external_body]
    pub fn serialize_f64(self, v: F64V) -> (r: Result<Call, SerError>) ensures r is Ok ==> r->Ok_0 == Call::F64(v.id()) { unimplemented!() }
    #[verifier::external_body]
    pub fn serialize_bytes(self, v: &BytesV) -> (r: Result<Call, SerError>) ensures r is Ok ==> r->Ok_0 == Call::Bytes(v.id()) { unimplemented!() }
    #[verifier::external_body]
    pub fn serialize_str(self, v: &StrV) -> (r: Result<Call, SerError>) ensures r is Ok ==> r->Ok_0 == Call::Str(v.id()) { unimplemented!() }
}
macro_rules! opaque_id {
    ($($n:ident),*) => { verus!{ $(
        #[verifier::external_body]
        pub struct $n { _p: u8 }
        impl $n { pub uninterp spec fn id(&self) -> int; }
    )* } }
}
opaque_id!(F32V, F64V, BytesV, StrV, OF32, OF64, ByteBuf, StringS);
impl OF32 { #[verifier::external_body] pub fn into_inner(&self) -> (r: F32V) ensures r.id() == self.id() { unimplemented!() } }
impl OF64 { #[verifier::external_body] pub fn into_inner(&self) -> (r: F64V) ensures r.id() == self.id() { unimplemented!() } }
impl ByteBuf { #[verifier::external_body] pub fn as_slice(&self) -> (r: &BytesV) ensures r.id() == self.id() { unimplemented!() } }
/// `&String` passed where serialize_str takes `&str`
#[verifier::external_body]
pub fn as_str(s: &StringS) -> (r: &StrV) ensures r.id() == s.id() { unimplemented!() }
macro_rules! payload {
    ($($n:ident = $k:expr),*) => { verus!{ $(
        #[verifier::external_body]
        pub struct $n { _p: u8 }
        impl $n {
            pub uninterp spec fn id(&self) -> int;
            #[verifier::external_body]
            pub fn serialize(&self, serializer: SerializerS) -> (r: Result<Call, SerError>) ensures r is Ok ==> r->Ok_0 == Call::Delegated($k, self.id()) { unimplemented!() }
        }
    )* } }
}
macro_rules! opaque_nn { ($($n:ident),*) => { verus!{ $( #[verifier::external_body] pub struct $n { _p: u8 } )* } } }
payload!(DescribedS = 0, Dec32 = 1, Dec64 = 2, Dec128 = 3, Timestamp = 4, Uuid = 5, Symbol = 6, ListS = 7, MapS = 8, ArrayS = 9);

//@@ type file=serde_amqp/src/value/mod.rs kind=enum name=Value
//@@ subst `Box<Described<Value>>` => `DescribedS` rule=R8
//@@ subst `OrderedFloat<f32>` => `OF32` rule=R11
//@@ subst `OrderedFloat<f64>` => `OF64` rule=R11
//@@ subst `String(String)` => `String(StringS)` rule=R11
//@@ subst `List(Vec<Value>)` => `List(ListS)` rule=R11
//@@ subst `Map(OrderedMap<Value, Value>)` => `Map(MapS)` rule=R11
//@@ subst `Array(Array<Value>)` => `Array(ArrayS)` rule=R11
//@@ end

/// AMQP 1.0 part 1, 1.6: which serde data-model call stands for which AMQP primitive type (the byte encoder's serialize_* functions are under contract in SERFIX / SERSTR)
pub open spec fn call_of(v: Value) -> Call {
    match v {
        Value::Described(d) => Call::Delegated(0, d.id()), Value::Null => Call::Unit, Value::Bool(b) => Call::Bool(b),
        Value::Ubyte(x) => Call::U8(x), Value::Ushort(x) => Call::U16(x), Value::Uint(x) => Call::U32(x), Value::Ulong(x) => Call::U64(x),
        Value::Byte(x) => Call::I8(x), Value::Short(x) => Call::I16(x), Value::Int(x) => Call::I32(x), Value::Long(x) => Call::I64(x),
        Value::Float(x) => Call::F32(x.id()), Value::Double(x) => Call::F64(x.id()),
        Value::Decimal32(x) => Call::Delegated(1, x.id()), Value::Decimal64(x) => Call::Delegated(2, x.id()), Value::Decimal128(x) => Call::Delegated(3, x.id()),
        Value::Char(c) => Call::Char(c), Value::Timestamp(x) => Call::Delegated(4, x.id()), Value::Uuid(x) => Call::Delegated(5, x.id()),
        Value::Binary(x) => Call::Bytes(x.id()), Value::String(x) => Call::Str(x.id()), Value::Symbol(x) => Call::Delegated(6, x.id()),
        Value::List(x) => Call::Delegated(7, x.id()), Value::Map(x) => Call::Delegated(8, x.id()), Value::Array(x) => Call::Delegated(9, x.id()),
    }
}

impl Value {
//@@ fn file=serde_amqp/src/value/ser.rs impl=`impl ser::Serialize for Value` name=serialize
//@@ generics
//@@ nowhere
//@@ param serializer : SerializerS
//@@ ret Result<Call, SerError>
//@@ subst `serializer.serialize_str(v)` => `serializer.serialize_str(as_str(v))` rule=R16
//@@ spec
    ensures r is Ok ==> r->Ok_0 == call_of(*self),             // [C03.value.serialize-dispatch] every variant of the untyped value tree is written through the serializer call of ITS AMQP type with ITS payload (ubyte through serialize_u8, ushort through serialize_u16, ..., long through serialize_i64; composites through their payload's own Serialize impl) [C20.value.same-call-as-typed] -- the same call a typed Rust value of that type makes, so going through the value tree or straight to bytes writes the same encoding
//@@ end
}

// ---- value::ser::SeqSerializer::end: which tree node a finished sequence becomes, and what happens to the array marker ----
//@@ type file=serde_amqp/src/util.rs kind=enum name=SequenceType
//@@ end
opaque_nn!(NonNativeType);
/// value::ser::Serializer: the two one-shot markers
pub struct VSer { pub non_native_type: Option<NonNativeType>, pub seq_type: Option<SequenceType> }
pub uninterp spec fn list_of(v: Seq<Value>) -> ListS;
pub uninterp spec fn array_of(v: Seq<Value>) -> ArrayS;
#[verifier::external_body]
pub fn list_from_vec(v: Vec<Value>) -> (r: ListS) ensures r == list_of(v@) { unimplemented!() }
#[verifier::external_body]
pub fn array_from_vec(v: Vec<Value>) -> (r: ArrayS) ensures r == array_of(v@) { unimplemented!() }
//@@ fn file=serde_amqp/src/value/ser.rs impl=`impl ser::SerializeSeq for SeqSerializer<'_>` name=end as=seq_serializer_end
//@@ ret Result<Value, Error>
//@@ subst `(self)` => `(se: &mut VSer, vec: Vec<Value>)` rule=R2
//@@ subst `self.se.seq_type` => `se.seq_type` rule=R2
//@@ subst `Value::List(self.vec)` => `Value::List(list_from_vec(vec))` rule=R11
//@@ subst `Value::Array(Array::from(self.vec))` => `Value::Array(array_from_vec(vec))` rule=R11
//@@ spec
    ensures
        final(se).seq_type is None,                                                                         // [C20.value-ser.sequence-marker-is-one-shot] [C03.value-ser.sequence-marker-is-one-shot] the array marker applies to the sequence that ends here and to no later one: a map entry's key and value go through ONE serializer, and a marker left behind by an array key would turn the entry's list value into an array -- the value tree would then differ from what the bytes decode to
        final(se).non_native_type == old(se).non_native_type,
        old(se).seq_type is None || old(se).seq_type == Some(SequenceType::List) ==> r == Ok::<Value, Error>(Value::List(list_of(vec@))),      // [C20.value-ser.plain-sequence-is-a-list] [C05.value-ser.plain-sequence-is-a-list]
        old(se).seq_type == Some(SequenceType::Array) ==> r == Ok::<Value, Error>(Value::Array(array_of(vec@))),                                // [C20.value-ser.marked-sequence-is-an-array] [C05.value-ser.marked-sequence-is-an-array]
//@@ end

// ---- the other direction: a typed value serialized into the value tree (value::ser::Serializer) ----
pub struct VSerializer { pub g: Ghost<int> }
impl VSerializer {
//@@ fn file=serde_amqp/src/value/ser.rs impl=`~ser::Serializer for &'a mut Serializer` name=serialize_bool as=vser_bool
//@@ selfmut
//@@ ret Result<Value, SerError>
//@@ spec
    ensures r is Ok && r->Ok_0 == Value::Bool(v),            // [C20.value.to-value-bool] a typed bool becomes the value-tree variant of the same AMQP type with the same payload
//@@ end

//@@ fn file=serde_amqp/src/value/ser.rs impl=`~ser::Serializer for &'a mut Serializer` name=serialize_i8 as=vser_i8
//@@ selfmut
//@@ ret Result<Value, SerError>
//@@ spec
    ensures r is Ok && r->Ok_0 == Value::Byte(v),            // [C20.value.to-value-i8] a typed i8 becomes the value-tree variant of the same AMQP type with the same payload
//@@ end

//@@ fn file=serde_amqp/src/value/ser.rs impl=`~ser::Serializer for &'a mut Serializer` name=serialize_i16 as=vser_i16
//@@ selfmut
//@@ ret Result<Value, SerError>
//@@ spec
    ensures r is Ok && r->Ok_0 == Value::Short(v),            // [C20.value.to-value-i16] a typed i16 becomes the value-tree variant of the same AMQP type with the same payload
//@@ end

//@@ fn file=serde_amqp/src/value/ser.rs impl=`~ser::Serializer for &'a mut Serializer` name=serialize_i32 as=vser_i32
//@@ selfmut
//@@ ret Result<Value, SerError>
//@@ spec
    ensures r is Ok && r->Ok_0 == Value::Int(v),            // [C20.value.to-value-i32] a typed i32 becomes the value-tree variant of the same AMQP type with the same payload
//@@ end

//@@ fn file=serde_amqp/src/value/ser.rs impl=`~ser::Serializer for &'a mut Serializer` name=serialize_u8 as=vser_u8
//@@ selfmut
//@@ ret Result<Value, SerError>
//@@ spec
    ensures r is Ok && r->Ok_0 == Value::Ubyte(v),            // [C20.value.to-value-u8] a typed u8 becomes the value-tree variant of the same AMQP type with the same payload
//@@ end

//@@ fn file=serde_amqp/src/value/ser.rs impl=`~ser::Serializer for &'a mut Serializer` name=serialize_u16 as=vser_u16
//@@ selfmut
//@@ ret Result<Value, SerError>
//@@ spec
    ensures r is Ok && r->Ok_0 == Value::Ushort(v),            // [C20.value.to-value-u16] a typed u16 becomes the value-tree variant of the same AMQP type with the same payload
//@@ end

//@@ fn file=serde_amqp/src/value/ser.rs impl=`~ser::Serializer for &'a mut Serializer` name=serialize_u32 as=vser_u32
//@@ selfmut
//@@ ret Result<Value, SerError>
//@@ spec
    ensures r is Ok && r->Ok_0 == Value::Uint(v),            // [C20.value.to-value-u32] a typed u32 becomes the value-tree variant of the same AMQP type with the same payload
//@@ end

//@@ fn file=serde_amqp/src/value/ser.rs impl=`~ser::Serializer for &'a mut Serializer` name=serialize_u64 as=vser_u64
//@@ selfmut
//@@ ret Result<Value, SerError>
//@@ spec
    ensures r is Ok && r->Ok_0 == Value::Ulong(v),            // [C20.value.to-value-u64] a typed u64 becomes the value-tree variant of the same AMQP type with the same payload
//@@ end

//@@ fn file=serde_amqp/src/value/ser.rs impl=`~ser::Serializer for &'a mut Serializer` name=serialize_char as=vser_char
//@@ selfmut
//@@ ret Result<Value, SerError>
//@@ spec
    ensures r is Ok && r->Ok_0 == Value::Char(v),            // [C20.value.to-value-char] a typed char becomes the value-tree variant of the same AMQP type with the same payload
//@@ end

}
/// [C20.value.tree-equals-bytes] for the primitive types: serializing a typed value into the value tree and then the tree to a serializer makes the very call the typed
/// value makes directly (so the bytes are the same: the byte encoder's methods are functions of the call, SERFIX / SERSTR)
pub proof fn lemma_tree_equals_direct(x8: u8, x16: u16, x32: u32, x64: u64, i8_: i8, i16_: i16, i32_: i32, b: bool, c: char)
    ensures
        call_of(Value::Ubyte(x8)) == Call::U8(x8), call_of(Value::Ushort(x16)) == Call::U16(x16), call_of(Value::Uint(x32)) == Call::U32(x32), call_of(Value::Ulong(x64)) == Call::U64(x64),
        call_of(Value::Byte(i8_)) == Call::I8(i8_), call_of(Value::Short(i16_)) == Call::I16(i16_), call_of(Value::Int(i32_)) == Call::I32(i32_),
        call_of(Value::Bool(b)) == Call::Bool(b), call_of(Value::Char(c)) == Call::Char(c),
{}

// ---- the decoding side: which AMQP constructor yields which variant of the value tree (value/de.rs) ----
//@@ type file=serde_amqp/src/format_code.rs kind=enum name=EncodingCodes keeprepr clone
//@@ end
impl Copy for EncodingCodes {}
//@@ type file=serde_amqp/src/value/de.rs kind=enum name=ValueType
//@@ end
/// AMQP 1.0 part 1, 1.6 (the primitive type table): the type each constructor octet denotes
pub open spec fn type_of_ctor(c: u8) -> ValueType {
    if c == 0x00 { ValueType::Described } else if c == 0x40 { ValueType::Null } else if c == 0x56 || c == 0x41 || c == 0x42 { ValueType::Bool }
    else if c == 0x50 { ValueType::Ubyte } else if c == 0x60 { ValueType::Ushort } else if c == 0x70 || c == 0x52 || c == 0x43 { ValueType::Uint }
    else if c == 0x80 || c == 0x53 || c == 0x44 { ValueType::Ulong } else if c == 0x51 { ValueType::Byte } else if c == 0x61 { ValueType::Short }
    else if c == 0x71 || c == 0x54 { ValueType::Int } else if c == 0x81 || c == 0x55 { ValueType::Long } else if c == 0x72 { ValueType::Float }
    else if c == 0x82 { ValueType::Double } else if c == 0x74 { ValueType::Decimal32 } else if c == 0x84 { ValueType::Decimal64 } else if c == 0x94 { ValueType::Decimal128 }
    else if c == 0x73 { ValueType::Char } else if c == 0x83 { ValueType::Timestamp } else if c == 0x98 { ValueType::Uuid }
    else if c == 0xa0 || c == 0xb0 { ValueType::Binary } else if c == 0xa1 || c == 0xb1 { ValueType::String } else if c == 0xa3 || c == 0xb3 { ValueType::Symbol }
    else if c == 0x45 || c == 0xc0 || c == 0xd0 { ValueType::List } else if c == 0xc1 || c == 0xd1 { ValueType::Map } else { ValueType::Array }
}
impl ValueType {
//@@ fn file=serde_amqp/src/value/de.rs impl=`impl From<EncodingCodes> for ValueType` name=from as=value_type_from
//@@ spec
    ensures r == type_of_ctor(code as u8),          // [C05.value.ctor-to-type] every constructor of the AMQP type system -- all width variants (uint0 / smalluint / uint, list0 / list8 / list32, ...) -- is decoded into the value-tree variant of ITS type [C03.value.ctor-to-type]
//@@ end
}

pub struct ValueVisitor {}
impl ValueVisitor {
//@@ fn file=serde_amqp/src/value/de.rs impl=`impl<'de> de::Visitor<'de> for ValueVisitor` name=visit_bool
//@@ generics
//@@ nowhere
//@@ ret Result<Value, SerError>
//@@ spec
    ensures r == Ok::<Value, SerError>(Value::Bool(v)),          // [C03.value.visit-bool] what the decoder hands over as a bool becomes the value-tree variant of that AMQP type, payload unchanged
//@@ end

//@@ fn file=serde_amqp/src/value/de.rs impl=`impl<'de> de::Visitor<'de> for ValueVisitor` name=visit_i8
//@@ generics
//@@ nowhere
//@@ ret Result<Value, SerError>
//@@ spec
    ensures r == Ok::<Value, SerError>(Value::Byte(v)),          // [C03.value.visit-i8] what the decoder hands over as a i8 becomes the value-tree variant of that AMQP type, payload unchanged
//@@ end

//@@ fn file=serde_amqp/src/value/de.rs impl=`impl<'de> de::Visitor<'de> for ValueVisitor` name=visit_i16
//@@ generics
//@@ nowhere
//@@ ret Result<Value, SerError>
//@@ spec
    ensures r == Ok::<Value, SerError>(Value::Short(v)),          // [C03.value.visit-i16] what the decoder hands over as a i16 becomes the value-tree variant of that AMQP type, payload unchanged
//@@ end

//@@ fn file=serde_amqp/src/value/de.rs impl=`impl<'de> de::Visitor<'de> for ValueVisitor` name=visit_i32
//@@ generics
//@@ nowhere
//@@ ret Result<Value, SerError>
//@@ spec
    ensures r == Ok::<Value, SerError>(Value::Int(v)),          // [C03.value.visit-i32] what the decoder hands over as a i32 becomes the value-tree variant of that AMQP type, payload unchanged
//@@ end

//@@ fn file=serde_amqp/src/value/de.rs impl=`impl<'de> de::Visitor<'de> for ValueVisitor` name=visit_i64
//@@ generics
//@@ nowhere
//@@ ret Result<Value, SerError>
//@@ spec
    ensures r == Ok::<Value, SerError>(Value::Long(v)),          // [C03.value.visit-i64] what the decoder hands over as a i64 becomes the value-tree variant of that AMQP type, payload unchanged
//@@ end

//@@ fn file=serde_amqp/src/value/de.rs impl=`impl<'de> de::Visitor<'de> for ValueVisitor` name=visit_u8
//@@ generics
//@@ nowhere
//@@ ret Result<Value, SerError>
//@@ spec
    ensures r == Ok::<Value, SerError>(Value::Ubyte(v)),          // [C03.value.visit-u8] what the decoder hands over as a u8 becomes the value-tree variant of that AMQP type, payload unchanged
//@@ end

//@@ fn file=serde_amqp/src/value/de.rs impl=`impl<'de> de::Visitor<'de> for ValueVisitor` name=visit_u16
//@@ generics
//@@ nowhere
//@@ ret Result<Value, SerError>
//@@ spec
    ensures r == Ok::<Value, SerError>(Value::Ushort(v)),          // [C03.value.visit-u16] what the decoder hands over as a u16 becomes the value-tree variant of that AMQP type, payload unchanged
//@@ end

//@@ fn file=serde_amqp/src/value/de.rs impl=`impl<'de> de::Visitor<'de> for ValueVisitor` name=visit_u32
//@@ generics
//@@ nowhere
//@@ ret Result<Value, SerError>
//@@ spec
    ensures r == Ok::<Value, SerError>(Value::Uint(v)),          // [C03.value.visit-u32] what the decoder hands over as a u32 becomes the value-tree variant of that AMQP type, payload unchanged
//@@ end

//@@ fn file=serde_amqp/src/value/de.rs impl=`impl<'de> de::Visitor<'de> for ValueVisitor` name=visit_u64
//@@ generics
//@@ nowhere
//@@ ret Result<Value, SerError>
//@@ spec
    ensures r == Ok::<Value, SerError>(Value::Ulong(v)),          // [C03.value.visit-u64] what the decoder hands over as a u64 becomes the value-tree variant of that AMQP type, payload unchanged
//@@ end

//@@ fn file=serde_amqp/src/value/de.rs impl=`impl<'de> de::Visitor<'de> for ValueVisitor` name=visit_char
//@@ generics
//@@ nowhere
//@@ ret Result<Value, SerError>
//@@ spec
    ensures r == Ok::<Value, SerError>(Value::Char(v)),          // [C03.value.visit-char] what the decoder hands over as a char becomes the value-tree variant of that AMQP type, payload unchanged
//@@ end

}

// ---- the way back: a typed value read out of the value tree (value::de::Deserializer) ----
/// what the visitor of the target type is handed
pub enum Visited { Bool(bool), I8(i8), I16(i16), I32(i32), U8(u8), U16(u16), U32(u32), U64(u64), Char(char) }
pub enum Error { InvalidValue, Other }
pub struct VisitorS { pub g: Ghost<int> }
macro_rules! visit_method {
    ($($m:ident($t:ty) => $c:ident),*) => { verus!{ impl VisitorS { $(
        #[verifier::external_body]
        pub fn $m(self, v: $t) -> (r: Result<Visited, Error>) ensures r is Ok ==> r->Ok_0 == Visited::$c(v) { unimplemented!() }
    )* } } }
}
visit_method!(visit_bool(bool) => Bool, visit_i8(i8) => I8, visit_i16(i16) => I16, visit_i32(i32) => I32, visit_u8(u8) => U8, visit_u16(u16) => U16, visit_u32(u32) => U32, visit_u64(u64) => U64, visit_char(char) => Char);
pub struct VDeserializer { pub value: Value }
impl VDeserializer {
//@@ fn file=serde_amqp/src/value/de.rs impl=`impl<'de> de::Deserializer<'de> for Deserializer` name=deserialize_bool as=vde_bool
//@@ generics
//@@ nowhere
//@@ param visitor : VisitorS
//@@ ret Result<Visited, Error>
//@@ spec
    ensures
        r is Ok ==> self.value is Bool && r->Ok_0 == Visited::Bool(self.value->Bool_0),      // [C20.value.from-value-bool] a bool is read out of the value tree only from the variant of that AMQP type, payload unchanged (no silent conversion from a neighbouring type)
        !(self.value is Bool) ==> r is Err,
//@@ end

//@@ fn file=serde_amqp/src/value/de.rs impl=`impl<'de> de::Deserializer<'de> for Deserializer` name=deserialize_i8 as=vde_i8
//@@ generics
//@@ nowhere
//@@ param visitor : VisitorS
//@@ ret Result<Visited, Error>
//@@ spec
    ensures
        r is Ok ==> self.value is Byte && r->Ok_0 == Visited::I8(self.value->Byte_0),      // [C20.value.from-value-i8] a i8 is read out of the value tree only from the variant of that AMQP type, payload unchanged (no silent conversion from a neighbouring type)
        !(self.value is Byte) ==> r is Err,
//@@ end

//@@ fn file=serde_amqp/src/value/de.rs impl=`impl<'de> de::Deserializer<'de> for Deserializer` name=deserialize_i16 as=vde_i16
//@@ generics
//@@ nowhere
//@@ param visitor : VisitorS
//@@ ret Result<Visited, Error>
//@@ spec
    ensures
        r is Ok ==> self.value is Short && r->Ok_0 == Visited::I16(self.value->Short_0),      // [C20.value.from-value-i16] a i16 is read out of the value tree only from the variant of that AMQP type, payload unchanged (no silent conversion from a neighbouring type)
        !(self.value is Short) ==> r is Err,
//@@ end

//@@ fn file=serde_amqp/src/value/de.rs impl=`impl<'de> de::Deserializer<'de> for Deserializer` name=deserialize_i32 as=vde_i32
//@@ generics
//@@ nowhere
//@@ param visitor : VisitorS
//@@ ret Result<Visited, Error>
//@@ spec
    ensures
        r is Ok ==> self.value is Int && r->Ok_0 == Visited::I32(self.value->Int_0),      // [C20.value.from-value-i32] a i32 is read out of the value tree only from the variant of that AMQP type, payload unchanged (no silent conversion from a neighbouring type)
        !(self.value is Int) ==> r is Err,
//@@ end

//@@ fn file=serde_amqp/src/value/de.rs impl=`impl<'de> de::Deserializer<'de> for Deserializer` name=deserialize_u8 as=vde_u8
//@@ generics
//@@ nowhere
//@@ param visitor : VisitorS
//@@ ret Result<Visited, Error>
//@@ spec
    ensures
        r is Ok ==> self.value is Ubyte && r->Ok_0 == Visited::U8(self.value->Ubyte_0),      // [C20.value.from-value-u8] a u8 is read out of the value tree only from the variant of that AMQP type, payload unchanged (no silent conversion from a neighbouring type)
        !(self.value is Ubyte) ==> r is Err,
//@@ end

//@@ fn file=serde_amqp/src/value/de.rs impl=`impl<'de> de::Deserializer<'de> for Deserializer` name=deserialize_u16 as=vde_u16
//@@ generics
//@@ nowhere
//@@ param visitor : VisitorS
//@@ ret Result<Visited, Error>
//@@ spec
    ensures
        r is Ok ==> self.value is Ushort && r->Ok_0 == Visited::U16(self.value->Ushort_0),      // [C20.value.from-value-u16] a u16 is read out of the value tree only from the variant of that AMQP type, payload unchanged (no silent conversion from a neighbouring type)
        !(self.value is Ushort) ==> r is Err,
//@@ end

//@@ fn file=serde_amqp/src/value/de.rs impl=`impl<'de> de::Deserializer<'de> for Deserializer` name=deserialize_u32 as=vde_u32
//@@ generics
//@@ nowhere
//@@ param visitor : VisitorS
//@@ ret Result<Visited, Error>
//@@ spec
    ensures
        r is Ok ==> self.value is Uint && r->Ok_0 == Visited::U32(self.value->Uint_0),      // [C20.value.from-value-u32] a u32 is read out of the value tree only from the variant of that AMQP type, payload unchanged (no silent conversion from a neighbouring type)
        !(self.value is Uint) ==> r is Err,
//@@ end

//@@ fn file=serde_amqp/src/value/de.rs impl=`impl<'de> de::Deserializer<'de> for Deserializer` name=deserialize_u64 as=vde_u64
//@@ generics
//@@ nowhere
//@@ param visitor : VisitorS
//@@ ret Result<Visited, Error>
//@@ spec
    ensures
        r is Ok ==> self.value is Ulong && r->Ok_0 == Visited::U64(self.value->Ulong_0),      // [C20.value.from-value-u64] a u64 is read out of the value tree only from the variant of that AMQP type, payload unchanged (no silent conversion from a neighbouring type)
        !(self.value is Ulong) ==> r is Err,
//@@ end

//@@ fn file=serde_amqp/src/value/de.rs impl=`impl<'de> de::Deserializer<'de> for Deserializer` name=deserialize_char as=vde_char
//@@ generics
//@@ nowhere
//@@ param visitor : VisitorS
//@@ ret Result<Visited, Error>
//@@ spec
    ensures
        r is Ok ==> self.value is Char && r->Ok_0 == Visited::Char(self.value->Char_0),      // [C20.value.from-value-char] a char is read out of the value tree only from the variant of that AMQP type, payload unchanged (no silent conversion from a neighbouring type)
        !(self.value is Char) ==> r is Err,
//@@ end

}

} // verus!
fn main() {}
