//@@ unit RESUMESPLIT
#![feature(allocator_api)]
#![allow(unused_imports, unused_variables, dead_code, unused_mut, unused_parens)]
use vstd::prelude::*;

verus! {

//@@ trusted Payload (bytes::Bytes) is a byte sequence: len, indexing (what the `iter()` / `skip(n)` / `zip` / `enumerate` chain yields: rule R34, as for count_number_of_sections_and_offset in unit REASM) and `slice(i..)` with Bytes' own precondition (it panics when i exceeds the length); is_section_header (under contract in unit REASM against the section descriptors of the specification) is a stand-in with that contract

pub struct Payload { pub b: Vec<u8> }
impl View for Payload { type V = Seq<u8>; open spec fn view(&self) -> Seq<u8> { self.b@ } }
impl Payload {
    pub fn len(&self) -> (r: usize) ensures r == self@.len() { self.b.len() }
    pub fn byte_at(&self, i: usize) -> (r: u8) requires i < self@.len() ensures r == self@[i as int] { self.b[i] }
    /// Bytes::slice(i..)
    #[verifier::external_body]
    pub fn slice_from(&self, i: usize) -> (r: Payload)
        requires i <= self@.len(),      // [C15.resume.peer-offsets-no-panic] bytes::Bytes::slice panics when the start lies behind the end of the buffer
        ensures r@ == self@.skip(i as int),
    { unimplemented!() }
}
pub open spec fn spec_is_section_header(b0: u8, b1: u8, b2: u8) -> bool { b0 == 0x00 && (b1 == 0x53 || b1 == 0x80) && 0x70 <= b2 <= 0x78 }
#[verifier::external_body]
pub fn is_section_header(b0: u8, b1: u8, b2: u8) -> (r: bool) ensures r == spec_is_section_header(b0, b1, b2) { unimplemented!() }

pub open spec fn hdr_at(s: Seq<u8>, i: int) -> bool { 0 <= i && i + 2 < s.len() && spec_is_section_header(s[i], s[i + 1], s[i + 2]) }
/// the number of section headers that start before position n, and where the last of them starts (0 if there is none)
pub open spec fn hdr_count(s: Seq<u8>, n: int) -> int decreases n { if n <= 0 { 0 } else { hdr_count(s, n - 1) + (if hdr_at(s, n - 1) { 1int } else { 0int }) } }
pub open spec fn hdr_last(s: Seq<u8>, n: int) -> int decreases n { if n <= 0 { 0 } else if hdr_at(s, n - 1) { n - 1 } else { hdr_last(s, n - 1) } }
pub proof fn lemma_hdr_bounds(s: Seq<u8>, n: int)
    requires 0 <= n,
    ensures 0 <= hdr_count(s, n) <= n, 0 <= hdr_last(s, n) <= n, n > 0 ==> hdr_last(s, n) < n,
    decreases n,
{ if n > 0 { lemma_hdr_bounds(s, n - 1); } }
/// position i is where the octet (section, offset) of the payload lies: the (section+1)-th section header starts at or before i, no further one up to i, and i is `offset` octets behind it
pub open spec fn at_position(s: Seq<u8>, i: int, section: int, offset: int) -> bool {
    hdr_count(s, i + 1) == section + 1 && i - hdr_last(s, i + 1) == offset
}
//@@ fn file=fe2o3-amqp/src/link/resumption.rs name=split_off_at_section_and_offset
//@@ shape loops=for
//@@ blockarms
//@@ subst `let b0 = payload.iter(); let b1 = payload.iter().skip(1); let b2 = payload.iter().skip(2); let zip = b0.zip(b1.zip(b2));` => `let len = payload.len(); let __n: usize = if len >= 2 { len - 2 } else { 0 };` rule=R34
//@@ subst `for (i, (&b0, (&b1, &b2))) in __it0: zip.enumerate() {` => `for i in __it0: 0..__n { let b0 = payload.byte_at(i); let b1 = payload.byte_at(i + 1); let b2 = payload.byte_at(i + 2);` rule=R34
//@@ subst `payload.slice(__E1..)` => `payload.slice_from(__E1)` rule=R22 unless `\.slice\(`
//@@ subst `let mut section_counter = None;` => `let mut section_counter: Option<usize> = None;` rule=optional-R5
//@@ subst `let mut last_section_index = 0;` => `let mut last_section_index: usize = 0;` rule=optional-R5
//@@ spec
    ensures
        ({ let n = if payload@.len() >= 2 { payload@.len() - 2 } else { 0 };
           &&& r is Some ==> ({ let i = payload@.len() - r->Some_0@.len();
                    0 <= i < n && at_position(payload@, i, section as int, offset as int) && r->Some_0@ == payload@.skip(i)
                    && (forall|j: int| 0 <= j < i ==> !#[trigger] at_position(payload@, j, section as int, offset as int)) })       // [C01.resume.resent-part-starts-where-the-receiver-stopped] [C02.resume.resent-part-starts-where-the-receiver-stopped] the tail sent again starts at THE octet the peer's `received` state names: `offset` octets into section number `section` (sections counted from 0 by their headers), the first such position -- not one section earlier or later, not anywhere else
           &&& r is None ==> forall|j: int| 0 <= j < n ==> !#[trigger] at_position(payload@, j, section as int, offset as int) }),       // [C02.resume.no-position-no-tail] and only when the payload has no such position is nothing found
        r is Some ==> exists|i: int| 0 <= i <= payload@.len() && r->Some_0@ == payload@.skip(i),       // [C01.resume.resent-part-is-a-suffix] [C02.resume.resent-part-is-a-suffix] what is sent again of a partially received delivery is a tail of the delivery's own payload -- for ANY section number and offset the peer's `received` state names (out of range: nothing, the whole payload is sent again); no panic, no overflow [C15.resume.peer-offsets-no-panic]
//@@ loop 0
        invariant
            len == payload@.len(), __n == (if len >= 2 { len - 2 } else { 0 }), i <= __n,
            last_section_index <= i,      //@if last_section_index
            section_counter is Some ==> section_counter->Some_0 <= i,
            hdr_count(payload@, i as int) == (match section_counter { Some(v) => v as int + 1, None => 0 }),
            last_section_index as int == hdr_last(payload@, i as int),      //@if last_section_index
            forall|j: int| 0 <= j < i ==> !#[trigger] at_position(payload@, j, section as int, offset as int),
//@@ loopstart 0
            proof {
                lemma_hdr_bounds(payload@, i as int); lemma_hdr_bounds(payload@, i as int + 1);
                assert(hdr_count(payload@, i as int + 1) == hdr_count(payload@, i as int) + (if hdr_at(payload@, i as int) { 1int } else { 0int }));
                assert(hdr_last(payload@, i as int + 1) == (if hdr_at(payload@, i as int) { i as int } else { hdr_last(payload@, i as int) }));
            }
//@@ end

} // verus!
fn main() {}
