//@@ unit LINKBUILDER
#![feature(allocator_api)]
#![allow(unused_imports, unused_variables, dead_code, unused_mut, unused_parens)]
use vstd::prelude::*;
use std::marker::PhantomData;

verus! {

//@@ trusted the field types of the link builder are opaque (R11: Source, Target, Coordinator, Symbol, Fields, the settle modes and the credit mode are never looked into by the functions below); R7: `impl Into<X>` parameters are taken as X (`x.into()` is the identity then). The builder's `Default` impl and the two `new()` (which go through `Default::default()` of every field type) are NOT extracted.
macro_rules! opaque { ($($n:ident),*) => { verus!{ $( #[verifier::external_body] pub struct $n { _p: u8 } )* } } }
opaque!(SenderSettleMode, ReceiverSettleMode, CreditMode, Source, Target, Coordinator, Symbol, Fields);
pub type SequenceNo = u32;
pub type Ulong = u64;
pub struct WithName; pub struct WithoutName; pub struct WithSource; pub struct WithoutSource; pub struct WithTarget; pub struct WithoutTarget;
pub mod role { pub struct SenderMarker; pub struct ReceiverMarker; }

//@@ type file=fe2o3-amqp/src/link/builder.rs kind=struct name=Builder
//@@ end

/// everything a type-state transition has to carry over -- the link's name apart, which `name()` sets: the settle modes, the initial delivery-count, the max-message-size, the capabilities and properties,
/// the queue size, the credit mode, auto-accept and the two verification switches
pub open spec fn carried<R1, T1, N1, S1, X1, R2, T2, N2, S2, X2>(a: Builder<R1, T1, N1, S1, X1>, b: Builder<R2, T2, N2, S2, X2>) -> bool {
    &&& b.snd_settle_mode == a.snd_settle_mode
    &&& b.rcv_settle_mode == a.rcv_settle_mode
    &&& b.initial_delivery_count == a.initial_delivery_count
    &&& b.max_message_size == a.max_message_size
    &&& b.offered_capabilities == a.offered_capabilities
    &&& b.desired_capabilities == a.desired_capabilities
    &&& b.properties == a.properties
    &&& b.buffer_size == a.buffer_size
    &&& b.credit_mode == a.credit_mode
    &&& b.auto_accept == a.auto_accept
    &&& b.verify_incoming_source == a.verify_incoming_source
    &&& b.verify_incoming_target == a.verify_incoming_target
}

impl<Role, T, NameState, SS, TS> Builder<Role, T, NameState, SS, TS> {
//@@ fn file=fe2o3-amqp/src/link/builder.rs impl=`impl<Role, T, NameState, SS, TS> Builder<Role, T, NameState, SS, TS>` name=name
//@@ param name : String
//@@ subst `name.into()` => `name` rule=optional-R7
//@@ spec
    ensures
        carried(self, r),       // [C02.builder.typestate-keeps-what-was-configured] [C08.builder.typestate-keeps-what-was-configured] [C01.builder.typestate-keeps-what-was-configured] naming the link keeps every setting made before: the settle modes, the initial delivery-count, max-message-size, the credit mode, auto-accept -- a builder is used in any order
        r.name == name, r.source == self.source, r.target == self.target,
//@@ end

//@@ fn file=fe2o3-amqp/src/link/builder.rs impl=`impl<Role, T, NameState, SS, TS> Builder<Role, T, NameState, SS, TS>` name=sender
//@@ spec
    ensures
        carried(self, r),       // [C02.builder.typestate-keeps-what-was-configured] [C08.builder.typestate-keeps-what-was-configured] [C01.builder.typestate-keeps-what-was-configured]
        r.name == self.name, r.source == self.source, r.target == self.target,
//@@ end

//@@ fn file=fe2o3-amqp/src/link/builder.rs impl=`impl<Role, T, NameState, SS, TS> Builder<Role, T, NameState, SS, TS>` name=receiver
//@@ spec
    ensures
        carried(self, r),       // [C02.builder.typestate-keeps-what-was-configured] [C08.builder.typestate-keeps-what-was-configured] [C01.builder.typestate-keeps-what-was-configured]
        r.name == self.name, r.source == self.source, r.target == self.target,
//@@ end

//@@ fn file=fe2o3-amqp/src/link/builder.rs impl=`impl<Role, T, NameState, SS, TS> Builder<Role, T, NameState, SS, TS>` name=source
//@@ param source : Source
//@@ subst `source.into()` => `source` rule=optional-R7
//@@ spec
    ensures
        carried(self, r),       // [C02.builder.typestate-keeps-what-was-configured] [C08.builder.typestate-keeps-what-was-configured] [C01.builder.typestate-keeps-what-was-configured]
        r.name == self.name, r.source == Some(source), r.target == self.target,
//@@ end

//@@ fn file=fe2o3-amqp/src/link/builder.rs impl=`impl<Role, T, NameState, SS, TS> Builder<Role, T, NameState, SS, TS>` name=target
//@@ param target : Target
//@@ subst `target.into()` => `target` rule=optional-R7
//@@ spec
    ensures
        carried(self, r),       // [C02.builder.typestate-keeps-what-was-configured] [C08.builder.typestate-keeps-what-was-configured] [C01.builder.typestate-keeps-what-was-configured]
        r.name == self.name, r.source == self.source, r.target == Some(target),
//@@ end

//@@ fn file=fe2o3-amqp/src/link/builder.rs impl=`impl<Role, T, NameState, SS, TS> Builder<Role, T, NameState, SS, TS>` name=coordinator
//@@ spec
    ensures
        carried(self, r),       // [C02.builder.typestate-keeps-what-was-configured] [C08.builder.typestate-keeps-what-was-configured] [C01.builder.typestate-keeps-what-was-configured] [C18.builder.control-link-keeps-what-was-configured]
        r.name == self.name, r.source == self.source, r.target == Some(coordinator),
//@@ end
}

// ---------------------------------------------------------------- Sender::attach / Receiver::attach: the one-call attach (link/sender.rs, link/receiver.rs)
opaque!(Address, SessionHandleS, SenderAttachError, ReceiverAttachError);
/// `Address -> Target` / `Address -> Source` (fe2o3-amqp-types: a terminus with that address and every other field at its default)
pub uninterp spec fn target_of(a: Address) -> Target;
pub uninterp spec fn source_of(a: Address) -> Source;
#[verifier::external_body]
pub fn addr_into_target(a: Address) -> (r: Target) ensures r == target_of(a) { unimplemented!() }
#[verifier::external_body]
pub fn addr_into_source(a: Address) -> (r: Source) ensures r == source_of(a) { unimplemented!() }
/// the settings a freshly created builder starts from (`Builder::new()`: `Default` plus the role's own terminus; not extracted, see the trusted note)
pub uninterp spec fn fresh_sender() -> Builder<role::SenderMarker, Target, WithoutName, WithSource, WithoutTarget>;
pub uninterp spec fn fresh_receiver() -> Builder<role::ReceiverMarker, Target, WithoutName, WithoutSource, WithTarget>;
pub struct SenderS { pub from: Ghost<Builder<role::SenderMarker, Target, WithName, WithSource, WithTarget>> }
pub struct ReceiverS { pub from: Ghost<Builder<role::ReceiverMarker, Target, WithName, WithSource, WithTarget>> }
impl Builder<role::SenderMarker, Target, WithName, WithSource, WithTarget> {
    /// Builder::attach -> attach_inner (unit WIRING): the link is created from the builder's fields
    #[verifier::external_body]
    pub fn attach(self, session: &mut SessionHandleS) -> (r: Result<SenderS, SenderAttachError>) ensures r is Ok ==> r->Ok_0.from@ == self { unimplemented!() }
}
impl Builder<role::ReceiverMarker, Target, WithName, WithSource, WithTarget> {
    #[verifier::external_body]
    pub fn attach(self, session: &mut SessionHandleS) -> (r: Result<ReceiverS, ReceiverAttachError>) ensures r is Ok ==> r->Ok_0.from@ == self { unimplemented!() }
}
impl SenderS {
    #[verifier::external_body]
    pub fn builder() -> (r: Builder<role::SenderMarker, Target, WithoutName, WithSource, WithoutTarget>) ensures r == fresh_sender() { unimplemented!() }
//@@ fn file=fe2o3-amqp/src/link/sender.rs impl=`impl Sender` name=attach as=sender_attach
//@@ generics
//@@ nowhere
//@@ param session : &mut SessionHandleS
//@@ param name : String
//@@ param addr : Address
//@@ ret Result<SenderS, SenderAttachError>
//@@ subst `.target(addr)` => `.target(addr_into_target(addr))` rule=R16
//@@ spec
    ensures
        r is Ok ==> r->Ok_0.from@.name == name && r->Ok_0.from@.target == Some(target_of(addr)) && r->Ok_0.from@.source == fresh_sender().source,       // [C01.attach.one-call-sender-targets-the-address] `Sender::attach(session, name, addr)` attaches a link of that name whose TARGET is the address given (its source is the builder's own): what is sent on it goes to that node
        r is Ok ==> carried(fresh_sender(), r->Ok_0.from@),       // [C02.builder.typestate-keeps-what-was-configured] [C08.builder.typestate-keeps-what-was-configured] and with every other setting at the builder's default
//@@ end
}
impl ReceiverS {
    #[verifier::external_body]
    pub fn builder() -> (r: Builder<role::ReceiverMarker, Target, WithoutName, WithoutSource, WithTarget>) ensures r == fresh_receiver() { unimplemented!() }
//@@ fn file=fe2o3-amqp/src/link/receiver.rs impl=`impl Receiver` name=attach as=receiver_attach
//@@ generics
//@@ nowhere
//@@ param session : &mut SessionHandleS
//@@ param name : String
//@@ param addr : Address
//@@ ret Result<ReceiverS, ReceiverAttachError>
//@@ subst `.source(addr)` => `.source(addr_into_source(addr))` rule=R16
//@@ spec
    ensures
        r is Ok ==> r->Ok_0.from@.name == name && r->Ok_0.from@.source == Some(source_of(addr)) && r->Ok_0.from@.target == fresh_receiver().target,       // [C01.attach.one-call-receiver-reads-the-address] `Receiver::attach(session, name, addr)` attaches a link whose SOURCE is the address given: what arrives on it comes from that node
        r is Ok ==> carried(fresh_receiver(), r->Ok_0.from@),       // [C02.builder.typestate-keeps-what-was-configured] [C09.builder.typestate-keeps-what-was-configured]
//@@ end
}

} // verus!
fn main() {}
