//@@ unit SIMPLEVALUE
#![feature(allocator_api)]
#![allow(unused_imports, unused_variables, dead_code, unused_mut, unused_parens)]
use vstd::prelude::*;

verus! {

//@@ trusted the serde Serializer handed to SimpleValue::serialize is the recording stand-in of unit VALUESER: it answers each serialize_* call with a record of WHICH method was called with WHICH value (or fails); variants whose payload has its own Serialize impl (described, decimals, timestamp, uuid, symbol) delegate to it: recorded as a delegation to that payload, not followed
//@@ trusted OrderedFloat / ByteBuf / String payloads are opaque values with an uninterpreted identity; f32 / f64 are passed through unexamined
//@@ trusted SimpleValue::deserialize is `Value::deserialize(..)?.try_into()`: the first half is the Value visitor (bounded probes, unit VALUESER for the primitives), the second half is under contract here

/// one call on a serde Serializer (as in unit VALUESER)
pub enum Call {
    Unit, Bool(bool), U8(u8), U16(u16), U32(u32), U64(u64), I8(i8), I16(i16), I32(i32), I64(i64), F32(int), F64(int), Char(char), Bytes(int), Str(int),
    /// `payload.serialize(serializer)`: which kind of payload (0 described, 1 dec32, 2 dec64, 3 dec128, 4 timestamp, 5 uuid, 6 symbol, 7 list, 8 map, 9 array) and its identity
    Delegated(int, int),
}
#[verifier::external_body]
pub struct SerError { _p: u8 }
pub struct SerializerS { pub g: Ghost<int> }
macro_rules! ser_method {
    ($($m:ident($t:ty) => $c:ident),*) => { verus!{ impl SerializerS { $(
        #[verifier::external_body]
        pub fn $m(self, v: $t) -> (r: Result<Call, SerError>) ensures r is Ok ==> r->Ok_0 == Call::$c(v) { unimplemented!() }
    )* } } }
}
ser_method!(serialize_bool(bool) => Bool, serialize_u8(u8) => U8, serialize_u16(u16) => U16, serialize_u32(u32) => U32, serialize_u64(u64) => U64,
            serialize_i8(i8) => I8, serialize_i16(i16) => I16, serialize_i32(i32) => I32, serialize_i64(i64) => I64, serialize_char(char) => Char);
impl SerializerS {
    #[verifier::external_body]
    pub fn serialize_unit(self) -> (r: Result<Call, SerError>) ensures r is Ok ==> r->Ok_0 == Call::Unit { unimplemented!() }
    #[verifier::external_body]
    pub fn serialize_f32(self, v: F32V) -> (r: Result<Call, SerError>) ensures r is Ok ==> r->Ok_0 == Call::F32(v.id()) { unimplemented!() }
    #[verifier::external_body]
    pub fn serialize_f64(self, v: F64V) -> (r: Result<Call, SerError>) ensures r is Ok ==> r->Ok_0 == Call::F64(v.id()) { unimplemented!() }
    #[verifier::external_body]
    pub fn serialize_bytes(self, v: &BytesV) -> (r: Result<Call, SerError>) ensures r is Ok ==> r->Ok_0 == Call::Bytes(v.id()) { unimplemented!() }
    #[verifier::external_body]
    pub fn serialize_str(self, v: &StrV) -> (r: Result<Call, SerError>) ensures r is Ok ==> r->Ok_0 == Call::Str(v.id()) { unimplemented!() }
}
macro_rules! opaque_id {
    ($($n:ident),*) => { verus!{ $(
        #[verifier::external_body]
        pub struct $n { _p: u8 }
        impl $n { pub uninterp spec fn id(&self) -> int; }
    )* } }
}
opaque_id!(F32V, F64V, BytesV, StrV, OF32, OF64, ByteBuf, StringS);
impl OF32 { #[verifier::external_body] pub fn into_inner(&self) -> (r: F32V) ensures r.id() == self.id() { unimplemented!() } }
impl OF64 { #[verifier::external_body] pub fn into_inner(&self) -> (r: F64V) ensures r.id() == self.id() { unimplemented!() } }
impl ByteBuf { #[verifier::external_body] pub fn as_slice(&self) -> (r: &BytesV) ensures r.id() == self.id() { unimplemented!() } }
/// `&String` passed where serialize_str takes `&str`
#[verifier::external_body]
pub fn as_str(s: &StringS) -> (r: &StrV) ensures r.id() == s.id() { unimplemented!() }
macro_rules! payload {
    ($($n:ident = $k:expr),*) => { verus!{ $(
        #[verifier::external_body]
        pub struct $n { _p: u8 }
        impl $n {
            pub uninterp spec fn id(&self) -> int;
            #[verifier::external_body]
            pub fn serialize(&self, serializer: SerializerS) -> (r: Result<Call, SerError>) ensures r is Ok ==> r->Ok_0 == Call::Delegated($k, self.id()) { unimplemented!() }
        }
    )* } }
}
payload!(Dec32 = 1, Dec64 = 2, Dec128 = 3, Timestamp = 4, Uuid = 5, Symbol = 6, ListS = 7, MapS = 8, ArrayS = 9);
pub enum Error { InvalidValue, Other }

//@@ type file=serde_amqp/src/descriptor.rs kind=enum name=Descriptor
//@@ end
//@@ type file=serde_amqp/src/described.rs kind=struct name=Described
//@@ end
pub uninterp spec fn described_id(d: Described<Value>) -> int;
impl Described<Value> {
    #[verifier::external_body]
    pub fn serialize(&self, serializer: SerializerS) -> (r: Result<Call, SerError>) ensures r is Ok ==> r->Ok_0 == Call::Delegated(0, described_id(*self)) { unimplemented!() }
}
//@@ type file=serde_amqp/src/value/mod.rs kind=enum name=Value
//@@ subst `OrderedFloat<f32>` => `OF32` rule=R11
//@@ subst `OrderedFloat<f64>` => `OF64` rule=R11
//@@ subst `String(String)` => `String(StringS)` rule=R11
//@@ subst `List(Vec<Value>)` => `List(ListS)` rule=R11
//@@ subst `Map(OrderedMap<Value, Value>)` => `Map(MapS)` rule=R11
//@@ subst `Array(Array<Value>)` => `Array(ArrayS)` rule=R11
//@@ end

//@@ type file=serde_amqp/src/primitives/mod.rs kind=type name=Boolean
//@@ end
//@@ type file=serde_amqp/src/primitives/mod.rs kind=type name=Ubyte
//@@ end
//@@ type file=serde_amqp/src/primitives/mod.rs kind=type name=Ushort
//@@ end
//@@ type file=serde_amqp/src/primitives/mod.rs kind=type name=Uint
//@@ end
//@@ type file=serde_amqp/src/primitives/mod.rs kind=type name=Ulong
//@@ end
//@@ type file=serde_amqp/src/primitives/mod.rs kind=type name=Byte
//@@ end
//@@ type file=serde_amqp/src/primitives/mod.rs kind=type name=Short
//@@ end
//@@ type file=serde_amqp/src/primitives/mod.rs kind=type name=Int
//@@ end
//@@ type file=serde_amqp/src/primitives/mod.rs kind=type name=Long
//@@ end
//@@ type file=serde_amqp/src/primitives/mod.rs kind=type name=Float
//@@ end
//@@ type file=serde_amqp/src/primitives/mod.rs kind=type name=Double
//@@ end
//@@ type file=serde_amqp/src/primitives/mod.rs kind=type name=Char
//@@ end
//@@ type file=fe2o3-amqp-types/src/primitives/simple_value.rs kind=enum name=SimpleValue
//@@ subst `OrderedFloat<Float>` => `OF32` rule=R11
//@@ subst `OrderedFloat<Double>` => `OF64` rule=R11
//@@ subst `String(String)` => `String(StringS)` rule=R11
//@@ end

/// AMQP 1.0 part 1, 1.6: which serde data-model call stands for which AMQP primitive type (as in unit VALUESER, whose Value::serialize is proved to make exactly this call)
pub open spec fn call_of(v: Value) -> Call {
    match v {
        Value::Described(d) => Call::Delegated(0, described_id(*d)), Value::Null => Call::Unit, Value::Bool(b) => Call::Bool(b),
        Value::Ubyte(x) => Call::U8(x), Value::Ushort(x) => Call::U16(x), Value::Uint(x) => Call::U32(x), Value::Ulong(x) => Call::U64(x),
        Value::Byte(x) => Call::I8(x), Value::Short(x) => Call::I16(x), Value::Int(x) => Call::I32(x), Value::Long(x) => Call::I64(x),
        Value::Float(x) => Call::F32(x.id()), Value::Double(x) => Call::F64(x.id()),
        Value::Decimal32(x) => Call::Delegated(1, x.id()), Value::Decimal64(x) => Call::Delegated(2, x.id()), Value::Decimal128(x) => Call::Delegated(3, x.id()),
        Value::Char(c) => Call::Char(c), Value::Timestamp(x) => Call::Delegated(4, x.id()), Value::Uuid(x) => Call::Delegated(5, x.id()),
        Value::Binary(x) => Call::Bytes(x.id()), Value::String(x) => Call::Str(x.id()), Value::Symbol(x) => Call::Delegated(6, x.id()),
        Value::List(x) => Call::Delegated(7, x.id()), Value::Map(x) => Call::Delegated(8, x.id()), Value::Array(x) => Call::Delegated(9, x.id()),
    }
}
/// AMQP 1.0 part 3, 3.2.x (application-properties, message-annotations ...): a simple value IS the value of the same primitive type with the same content -- every type but list, map and array
pub open spec fn value_of(s: SimpleValue) -> Value {
    match s {
        SimpleValue::Null => Value::Null, SimpleValue::Bool(v) => Value::Bool(v), SimpleValue::Ubyte(v) => Value::Ubyte(v), SimpleValue::Ushort(v) => Value::Ushort(v),
        SimpleValue::Uint(v) => Value::Uint(v), SimpleValue::Ulong(v) => Value::Ulong(v), SimpleValue::Byte(v) => Value::Byte(v), SimpleValue::Short(v) => Value::Short(v),
        SimpleValue::Int(v) => Value::Int(v), SimpleValue::Long(v) => Value::Long(v), SimpleValue::Float(v) => Value::Float(v), SimpleValue::Double(v) => Value::Double(v),
        SimpleValue::Decimal32(v) => Value::Decimal32(v), SimpleValue::Decimal64(v) => Value::Decimal64(v), SimpleValue::Decimal128(v) => Value::Decimal128(v),
        SimpleValue::Char(v) => Value::Char(v), SimpleValue::Timestamp(v) => Value::Timestamp(v), SimpleValue::Uuid(v) => Value::Uuid(v), SimpleValue::Binary(v) => Value::Binary(v),
        SimpleValue::String(v) => Value::String(v), SimpleValue::Symbol(v) => Value::Symbol(v), SimpleValue::Described(v) => Value::Described(v),
    }
}
pub open spec fn is_compound(v: Value) -> bool { v is List || v is Map || v is Array }

impl SimpleValue {
//@@ fn file=fe2o3-amqp-types/src/primitives/simple_value.rs impl=`impl ser::Serialize for SimpleValue` name=serialize
//@@ generics
//@@ nowhere
//@@ param serializer : SerializerS
//@@ ret Result<Call, SerError>
//@@ subst `serializer.serialize_str(v)` => `serializer.serialize_str(as_str(v))` rule=R16
//@@ spec
    ensures r is Ok ==> r->Ok_0 == call_of(value_of(*self)),       // [C03.simple-value.same-call-as-value] [C05.simple-value.same-call-as-value] a simple value is written through the serializer call of ITS AMQP type with ITS payload -- the call the same-typed Value makes (unit VALUESER), so it is encoded as that value and decodes (through Value) back to itself
//@@ end

//@@ fn file=fe2o3-amqp-types/src/primitives/simple_value.rs impl=`impl TryFrom<Value> for SimpleValue` name=try_from
//@@ orsplit
//@@ blockarms
//@@ ret Result<Self, Error>
//@@ subst `serde_amqp::error::Error::InvalidValue` => `Error::InvalidValue` rule=R11
//@@ spec
    ensures
        is_compound(value) ==> r is Err,       // [C05.simple-value.compounds-refused] list, map and array are not simple values
        !is_compound(value) ==> r is Ok && value_of(r->Ok_0) == value,       // [C03.simple-value.every-other-value-is-kept] [C05.simple-value.every-other-value-is-kept] every other value -- whatever a described value wraps -- is accepted and kept as it is: what the encoder wrote (serialize, above) is what the decoder gives back
//@@ end
}

impl Value {
//@@ fn file=fe2o3-amqp-types/src/primitives/simple_value.rs impl=`impl From<SimpleValue> for Value` name=from as=into_value
//@@ spec
    ensures r == value_of(value),       // [C03.simple-value.into-value-keeps-type-and-content] [C20.simple-value.into-value-keeps-type-and-content]
//@@ end
}

} // verus!
fn main() {}
