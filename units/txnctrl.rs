//@@ unit TXNCTRL
#![feature(allocator_api)]
#![allow(unused_imports, unused_variables, dead_code, unused_mut, unused_parens)]
use vstd::prelude::*;

verus! {

//@@ trusted the control link (SenderInner<ControlLink>) and the sender of a transactional post are stand-ins: send_with_state(sendable, state, batchable) appends what it was given to a ghost trace and returns a settlement or an error; the outcome channel yields an arbitrary delivery state, nothing, or a receive error
//@@ trusted Message::builder().value(x).build() / Sendable::builder().message(m).settled(false).build() are stand-ins that keep the body and the settled flag; generic body types are the two bodies used here (Declare, Discharge)
//@@ trusted `controller.inner.lock().await` (tokio Mutex) erased: Transaction owns its controller stand-in (R4/R8); the error chosen when the outcome channel is dropped (session stop reason) is not modelled
//@@ trusted built as with feature transaction

macro_rules! opaque {
    ($($n:ident),*) => { verus!{ $(
        #[verifier::external_body]
        pub struct $n { _p: u8 }
        impl Clone for $n { #[verifier::external_body] fn clone(&self) -> (r: Self) ensures r == *self { unimplemented!() } }
    )* } }
}
opaque!(TransactionId, AmqpErrorS, DeliveryTag, RecvError, SendError, DetachError, UserBody, SessionStopReason);
//@@ type file=fe2o3-amqp/src/link/error.rs kind=enum name=LinkStateError
//@@ subst `definitions::Error` => `AmqpErrorS` rule=R11
//@@ end
/// Arc<OnceLock<SessionStopReason>>: what the session published when it stopped
pub struct StopCell { pub v: Option<SessionStopReason> }
impl StopCell {
    pub fn get(&self) -> (r: Option<&SessionStopReason>) ensures (match (r, self.v) { (Some(a), Some(b)) => *a == b, (None, None) => true, _ => false }) { match &self.v { Some(x) => Some(x), None => None } }
}
pub struct CtlLinkS { pub session_stop_reason: StopCell }
pub struct Rejected { pub error: Option<AmqpErrorS> }
pub struct Accepted {}

//@@ type file=fe2o3-amqp-types/src/transaction/mod.rs kind=struct name=Declare
//@@ end
//@@ type file=fe2o3-amqp-types/src/transaction/mod.rs kind=struct name=Discharge
//@@ end
//@@ type file=fe2o3-amqp-types/src/transaction/mod.rs kind=struct name=Declared
//@@ end
//@@ type file=fe2o3-amqp-types/src/transaction/mod.rs kind=struct name=TransactionalState
//@@ subst `crate::messaging::Outcome` => `Outcome` rule=R11
//@@ end
pub struct Released {}
#[verifier::external_body]
pub struct Modified { _p: u8 }
pub enum Outcome { Accepted(Accepted), Rejected(Rejected), Released(Released), Modified(Modified), Other }
/// DeliveryState with the variants that matter here (R11)
pub enum DeliveryState { Accepted(Accepted), Rejected(Rejected), Declared(Declared), TransactionalState(TransactionalState), Other }
pub enum ControllerSendError { LinkStateError(LinkStateError), Detached(DetachError), Rejected(Rejected), NonTerminalDeliveryState, IllegalDeliveryState, MessageEncodeError, Send(SendError) }

pub trait ErrInto<T>: Sized { spec fn conv(self) -> T; fn err_into(self) -> (r: T) ensures r == self.conv(); }
impl ErrInto<ControllerSendError> for ControllerSendError { open spec fn conv(self) -> ControllerSendError { self } fn err_into(self) -> (r: ControllerSendError) { let e = self; assert(e == <ControllerSendError as ErrInto<ControllerSendError>>::conv(self)); e } }
impl ErrInto<ControllerSendError> for SendError { open spec fn conv(self) -> ControllerSendError { ControllerSendError::Send(self) } fn err_into(self) -> (r: ControllerSendError) { ControllerSendError::Send(self) } }
impl ErrInto<ControllerSendError> for LinkStateError { open spec fn conv(self) -> ControllerSendError { ControllerSendError::LinkStateError(self) } fn err_into(self) -> (r: ControllerSendError) { ControllerSendError::LinkStateError(self) } }
impl ErrInto<SendError> for SendError { open spec fn conv(self) -> SendError { self } fn err_into(self) -> (r: SendError) { let e = self; assert(e == <SendError as ErrInto<SendError>>::conv(self)); e } }
#[verifier::external_body]
pub fn illegal_delivery_state() -> (r: SendError) { unimplemented!() }

impl DeliveryState {
//@@ fn file=fe2o3-amqp-types/src/messaging/delivery_state/mod.rs impl=`impl DeliveryState` name=accepted_or_else
//@@ generics <F: FnOnce(DeliveryState) -> ControllerSendError>
//@@ nowhere
//@@ ret Result<Accepted, ControllerSendError>
//@@ spec
    requires forall|s: DeliveryState| op.requires((s,)),
    ensures
        self is Accepted ==> r is Ok,
        !(self is Accepted) ==> r is Err && op.ensures((self,), r->Err_0),
//@@ end

//@@ fn file=fe2o3-amqp-types/src/messaging/delivery_state/mod.rs impl=`impl DeliveryState` name=declared_or_else
//@@ generics <F: FnOnce(DeliveryState) -> ControllerSendError>
//@@ nowhere
//@@ ret Result<Declared, ControllerSendError>
//@@ spec
    requires forall|s: DeliveryState| op.requires((s,)),
    ensures
        self is Declared ==> r == Ok::<Declared, ControllerSendError>(self->Declared_0),
        !(self is Declared) ==> r is Err && op.ensures((self,), r->Err_0),
//@@ end
}

/// what travels on a link: body, settled flag, delivery state, batchable flag
pub enum Body { Declare(Declare), Discharge(Discharge), User(UserBody) }
pub struct Sent { pub body: Body, pub settled: bool, pub state: Option<DeliveryState>, pub batchable: bool }
pub struct Message { pub body: Body }
pub struct Sendable { pub message: Message, pub settled: bool }
/// Message::builder().value(x).build() and Sendable::builder().message(m).settled(b).build(): the builders keep what they are given
pub trait IntoBody: Sized { spec fn body(self) -> Body; fn into_body(self) -> (r: Body) ensures r == self.body(); }
impl IntoBody for Declare { open spec fn body(self) -> Body { Body::Declare(self) } fn into_body(self) -> (r: Body) { Body::Declare(self) } }
impl IntoBody for Discharge { open spec fn body(self) -> Body { Body::Discharge(self) } fn into_body(self) -> (r: Body) { Body::Discharge(self) } }
pub struct MessageBuilder {}
pub struct MessageBuilderV { pub body: Body }
impl Message { pub fn builder() -> (r: MessageBuilder) { MessageBuilder {} } }
impl MessageBuilder { pub fn value<T: IntoBody>(self, v: T) -> (r: MessageBuilderV) ensures r.body == v.body() { MessageBuilderV { body: v.into_body() } } }
impl MessageBuilderV { pub fn build(self) -> (r: Message) ensures r.body == self.body { Message { body: self.body } } }
pub struct SendableBuilder {}
pub struct SendableBuilderM { pub message: Message, pub settled: bool }
impl Sendable { pub fn builder() -> (r: SendableBuilder) { SendableBuilder {} } }
/// (a Sendable built without `.settled(..)` leaves the decision to the link's settle mode; the control link is attached sender-settle-mode=unsettled)
impl SendableBuilder { pub fn message(self, m: Message) -> (r: SendableBuilderM) ensures r.message == m, r.settled == false { SendableBuilderM { message: m, settled: false } } }
impl SendableBuilderM {
    pub fn settled(self, b: bool) -> (r: SendableBuilderM) ensures r.message == self.message, r.settled == b { SendableBuilderM { message: self.message, settled: b } }
    pub fn build(self) -> (r: Sendable) ensures r.message == self.message, r.settled == self.settled { Sendable { message: self.message, settled: self.settled } }
}
/// oneshot::Receiver<Option<DeliveryState>>
pub struct OutcomeRx { pub v: Ghost<Option<Option<DeliveryState>>> }
impl OutcomeRx {
    #[verifier::external_body]
    pub fn recv(self) -> (r: Result<Option<DeliveryState>, RecvError>)
        ensures (match r { Ok(x) => self.v@ == Some(x), Err(_) => self.v@ is None }),
    { unimplemented!() }
}
//@@ type file=fe2o3-amqp/src/endpoint/mod.rs kind=enum name=Settlement
//@@ subst `oneshot::Receiver<Option<DeliveryState>>` => `OutcomeRx` rule=R9
//@@ end
/// what comes back for the delivery that was sent last in `log`: None = the channel is dropped without an answer (link or session gone), Some(None) = settled without a state, Some(Some(s)) = the peer's delivery state
pub uninterp spec fn reply_to(log: Seq<Sent>) -> Option<Option<DeliveryState>>;
pub struct SenderInnerS { pub sent: Ghost<Seq<Sent>>, pub closes: Ghost<Seq<Option<AmqpErrorS>>>, pub link: CtlLinkS }
impl SenderInnerS {
    #[verifier::external_body]
    pub fn send_with_state(&mut self, sendable: Sendable, state: Option<DeliveryState>, batchable: bool) -> (r: Result<Settlement, SendError>)
        ensures
            r is Ok ==> final(self).sent@ == old(self).sent@.push(Sent { body: sendable.message.body, settled: sendable.settled, state, batchable }),
            r is Err ==> final(self).sent@ == old(self).sent@,
            final(self).closes == old(self).closes, final(self).link == old(self).link,
            r is Ok && r->Ok_0 is Unsettled ==> r->Ok_0->Unsettled_outcome.v@ == reply_to(final(self).sent@),       // (the channel handed back is the one on which the peer's outcome for THIS delivery arrives)
    { unimplemented!() }
    /// the closing handshake of the control link (unit LINKDETACH)
    #[verifier::external_body]
    pub fn close_with_error(&mut self, error: Option<AmqpErrorS>) -> (r: Result<(), DetachError>)
        ensures final(self).sent == old(self).sent, final(self).closes@ == old(self).closes@.push(error), final(self).link == old(self).link,
    { unimplemented!() }
}
impl ErrInto<ControllerSendError> for DetachError { open spec fn conv(self) -> ControllerSendError { ControllerSendError::Detached(self) } fn err_into(self) -> (r: ControllerSendError) { ControllerSendError::Detached(self) } }

//@@ fn file=fe2o3-amqp/src/transaction/controller.rs name=send_on_control_link
//@@ qmark
//@@ generics
//@@ nowhere
//@@ param sender : &mut SenderInnerS
//@@ param sendable : Sendable
//@@ ret Result<OutcomeRx, SendError>
//@@ subst `.send_with_state::<T, link::SendError>(` => `.send_with_state(` rule=R7
//@@ subst `SendError::IllegalDeliveryState` => `illegal_delivery_state()` rule=R11
//@@ spec
    ensures
        final(sender).closes == old(sender).closes, final(sender).link == old(sender).link,       // (the control link is not closed by an exchange on it)
        r is Ok ==> final(sender).sent@ == old(sender).sent@.push(Sent { body: sendable.message.body, settled: sendable.settled, state: None, batchable: false }),   // [C18.controller.control-message] a control message goes out exactly once, with no delivery state, as given
        r is Err ==> final(sender).sent@.len() <= old(sender).sent@.len() + 1,
        r is Ok ==> r->Ok_0.v@ == reply_to(final(sender).sent@),       // [C18.controller.outcome-is-this-message's] the outcome that will be awaited is the coordinator's answer to THIS control message
//@@ end

//@@ fn file=fe2o3-amqp/src/transaction/controller.rs name=discharge_on_link
//@@ qmark
//@@ generics
//@@ nowhere
//@@ param inner : &mut SenderInnerS
//@@ param fail : bool
//@@ subst `fail.into()` => `Some(fail)` rule=R16 unless `fail\.into\(\)`
//@@ subst `send_on_control_link(inner, sendable) ? .map_err(|_v0| match inner.link.session_stop_reason.get() { __E1 })` => `(match send_on_control_link(inner, sendable)?.recv() { Ok(__v) => Ok(__v), Err(_v0) => Err(match inner.link.session_stop_reason.get() { __E1 }) })` rule=R3,R19
//@@ subst `|state| { __E1 }` => `|state: DeliveryState| -> (o: ControllerSendError) ensures (match state { DeliveryState::Rejected(rj) => o == ControllerSendError::Rejected(rj), _ => o is IllegalDeliveryState }) { __E1 }` rule=R18
//@@ spec
    ensures
        final(inner).closes == old(inner).closes,       // (the control link is not closed by an exchange on it)
        final(inner).link == old(inner).link,
        (r is Err && r->Err_0 is LinkStateError) ==> (match old(inner).link.session_stop_reason.v {
            Some(reason) => r->Err_0->LinkStateError_0 == LinkStateError::SessionStopped(reason),       // [C14.controller.stop-reason-reported] when the outcome never comes because the session stopped, the declare / discharge fails with the reason the session published (the cell is read where the code reads it -- after the failed wait; in this model the cell does not change during the call, so WHEN it is read is not decided here: a read moved before the wait loses the anchor and is undecided, seed C14-15)
            None => r->Err_0->LinkStateError_0 is IllegalState,
        }),
        r is Ok ==> final(inner).sent@ == old(inner).sent@.push(Sent { body: Body::Discharge(Discharge { txn_id, fail: Some(fail) }), settled: false, state: None, batchable: false }),   // [C18.controller.discharge-on-wire] commit/rollback put exactly this transaction's id and the fail flag on the control link, unsettled
        final(inner).sent@.len() <= old(inner).sent@.len() + 1,                                                                                                                          // [C18.controller.discharge-once] at most one discharge message per call
        r is Ok ==> reply_to(final(inner).sent@) == Some(Some(DeliveryState::Accepted(r->Ok_0))),       // [C18.controller.outcome-reported] a discharge reports success exactly when the coordinator ACCEPTED this discharge message ...
        (r is Err && r->Err_0 is Rejected) ==> reply_to(final(inner).sent@) == Some(Some(DeliveryState::Rejected(r->Err_0->Rejected_0))),       // ... and the coordinator's rejection, with its error, when it rejected it
        final(inner).sent@.len() == old(inner).sent@.len() + 1 && reply_to(final(inner).sent@) is Some && reply_to(final(inner).sent@)->Some_0 is Some && !(reply_to(final(inner).sent@)->Some_0->Some_0 is Accepted) ==> r is Err,       // anything but `accepted` is a failure of the discharge: a commit is never reported done on a released / modified / declared / received outcome
        (r is Err && r->Err_0 is Rejected) ==> final(inner).sent@.len() == old(inner).sent@.len() + 1,                                                                                   // [C18.controller.outcome-reported] the coordinator's rejection is reported as such (only after the message went out)
//@@ end

//@@ fn file=fe2o3-amqp/src/transaction/controller.rs name=declare_on_link
//@@ qmark
//@@ generics
//@@ nowhere
//@@ param inner : &mut SenderInnerS
//@@ subst `send_on_control_link(inner, sendable) ? .map_err(|_v0| match inner.link.session_stop_reason.get() { __E1 })` => `(match send_on_control_link(inner, sendable)?.recv() { Ok(__v) => Ok(__v), Err(_v0) => Err(match inner.link.session_stop_reason.get() { __E1 }) })` rule=R3,R19
//@@ subst `|state| { __E1 }` => `|state: DeliveryState| -> (o: ControllerSendError) ensures (match state { DeliveryState::Rejected(rj) => o == ControllerSendError::Rejected(rj), _ => o is IllegalDeliveryState }) { __E1 }` rule=R18
//@@ spec
    ensures
        final(inner).closes == old(inner).closes,       // (the control link is not closed by an exchange on it)
        final(inner).link == old(inner).link,
        (r is Err && r->Err_0 is LinkStateError) ==> (match old(inner).link.session_stop_reason.v {
            Some(reason) => r->Err_0->LinkStateError_0 == LinkStateError::SessionStopped(reason),       // [C14.controller.stop-reason-reported] when the outcome never comes because the session stopped, the declare / discharge fails with the reason the session published (the cell is read where the code reads it -- after the failed wait; in this model the cell does not change during the call, so WHEN it is read is not decided here: a read moved before the wait loses the anchor and is undecided, seed C14-15)
            None => r->Err_0->LinkStateError_0 is IllegalState,
        }),
        r is Ok ==> final(inner).sent@ == old(inner).sent@.push(Sent { body: Body::Declare(Declare { global_id }), settled: false, state: None, batchable: false }),   // [C18.controller.declare-on-wire]
        final(inner).sent@.len() <= old(inner).sent@.len() + 1,
        r is Ok ==> reply_to(final(inner).sent@) == Some(Some(DeliveryState::Declared(r->Ok_0))),       // [C18.controller.declared-id-is-the-coordinator's] the transaction id a declare hands to the application is the one the coordinator put into its `declared` outcome for THIS declare -- every later post and the discharge name it
        (r is Err && r->Err_0 is Rejected) ==> reply_to(final(inner).sent@) == Some(Some(DeliveryState::Rejected(r->Err_0->Rejected_0))),       // [C18.controller.outcome-reported]
//@@ end

// ---------------------------------------------------------------- Transaction / OwnedTransaction: the discharged flag
pub struct ControllerS { pub inner: SenderInnerS }
pub struct Transaction { pub controller: ControllerS, pub declared: Declared, pub is_discharged: bool, pub rollback_on_drop_trials: u32 }
pub struct OwnedTransaction { pub inner: SenderInnerS, pub declared: Declared, pub is_discharged: bool, pub rollback_on_drop_trials: u32 }

/// waiting for the shared controller's lock (and then for the coordinator's outcome) is where a `commit()` / `rollback()` future can be dropped: a cancellation point
pub fn await_point_in_discharge(marked_discharged: bool)
    requires !marked_discharged,       // [C18.controller.not-marked-discharged-before-the-outcome] [C16.controller.not-marked-discharged-before-the-outcome] while the discharge can still be cancelled (or fail) the transaction is NOT marked as discharged: a retried commit() sends the discharge, and Drop still rolls back -- a mark set early would make both silently do nothing
{}
impl Transaction {
//@@ fn file=fe2o3-amqp/src/transaction/mod.rs impl=`impl<'t> TransactionDischarge for Transaction<'t>` name=discharge
//@@ qmark
//@@ ret Result<(), ControllerSendError>
//@@ subst `let mut inner = self.controller.inner.lock();` => `await_point_in_discharge(self.is_discharged); let mut inner = (&mut self.controller.inner);` rule=R4,R3b
//@@ subst `&mut inner` => `inner` rule=R4
//@@ spec
    ensures
        final(self).declared == old(self).declared,
        old(self).is_discharged ==> r is Ok && final(self).controller.inner.sent@ == old(self).controller.inner.sent@ && final(self).is_discharged,     // [C18.controller.discharge-once] an already discharged transaction sends nothing more
        !old(self).is_discharged && r is Ok ==> final(self).is_discharged
            && final(self).controller.inner.sent@ == old(self).controller.inner.sent@.push(Sent { body: Body::Discharge(Discharge { txn_id: old(self).declared.txn_id, fail: Some(fail) }), settled: false, state: None, batchable: false }),   // [C18.controller.discharge-on-wire] with the id this transaction was declared with
        r is Err ==> !final(self).is_discharged,                                                                                                          // [C18.controller.failed-discharge-not-recorded] a discharge whose outcome is an error is NOT recorded as done: the application (or Drop) can still roll back
        !old(self).is_discharged && r is Ok ==> reply_to(final(self).controller.inner.sent@) is Some && reply_to(final(self).controller.inner.sent@)->Some_0 is Some && reply_to(final(self).controller.inner.sent@)->Some_0->Some_0 is Accepted,       // [C18.controller.outcome-reported] the discharge is reported done only when the coordinator ACCEPTED it
//@@ end
}
impl Transaction {
//@@ fn file=fe2o3-amqp/src/transaction/mod.rs impl=`~TransactionDischarge:Sized` name=commit
//@@ nowhere
//@@ ret Result<(), ControllerSendError>
//@@ subst `(mut self)` => `(&mut self)` rule=R32
//@@ subst `async move {` => `{` rule=R3
//@@ spec
    ensures
        !old(self).is_discharged && r is Ok ==> final(self).controller.inner.sent@ == old(self).controller.inner.sent@.push(Sent { body: Body::Discharge(Discharge { txn_id: old(self).declared.txn_id, fail: Some(false) }), settled: false, state: None, batchable: false }),   // [C18.controller.commit-is-discharge-without-fail] commit puts a discharge for THIS transaction's id with fail=false on the wire
        !old(self).is_discharged && r is Ok ==> reply_to(final(self).controller.inner.sent@) is Some && reply_to(final(self).controller.inner.sent@)->Some_0 is Some && reply_to(final(self).controller.inner.sent@)->Some_0->Some_0 is Accepted,       // [C18.controller.commit-ok-means-accepted] commit() returns Ok only on the coordinator's `accepted` for that discharge
//@@ end
//@@ fn file=fe2o3-amqp/src/transaction/mod.rs impl=`~TransactionDischarge:Sized` name=rollback
//@@ nowhere
//@@ ret Result<(), ControllerSendError>
//@@ subst `(mut self)` => `(&mut self)` rule=R32
//@@ subst `async move {` => `{` rule=R3
//@@ spec
    ensures
        !old(self).is_discharged && r is Ok ==> final(self).controller.inner.sent@ == old(self).controller.inner.sent@.push(Sent { body: Body::Discharge(Discharge { txn_id: old(self).declared.txn_id, fail: Some(true) }), settled: false, state: None, batchable: false }),    // [C18.controller.rollback-is-discharge-with-fail] rollback puts a discharge for this transaction's id with fail=true on the wire
        !old(self).is_discharged && r is Ok ==> reply_to(final(self).controller.inner.sent@) is Some && reply_to(final(self).controller.inner.sent@)->Some_0 is Some && reply_to(final(self).controller.inner.sent@)->Some_0->Some_0 is Accepted,
//@@ end
}
impl OwnedTransaction {
//@@ fn file=fe2o3-amqp/src/transaction/owned.rs impl=`impl TransactionDischarge for OwnedTransaction` name=discharge as=owned_discharge
//@@ qmark
//@@ ret Result<(), ControllerSendError>
//@@ subst `discharge_on_link(&mut self.inner, __E1)` => `({ await_point_in_discharge(self.is_discharged); discharge_on_link(&mut self.inner, __E1) })` rule=R3b
//@@ spec
    ensures
        final(self).declared == old(self).declared, final(self).inner.closes == old(self).inner.closes,
        old(self).is_discharged ==> r is Ok && final(self).inner.sent@ == old(self).inner.sent@ && final(self).is_discharged,
        !old(self).is_discharged && r is Ok ==> final(self).is_discharged
            && final(self).inner.sent@ == old(self).inner.sent@.push(Sent { body: Body::Discharge(Discharge { txn_id: old(self).declared.txn_id, fail: Some(fail) }), settled: false, state: None, batchable: false }),   // [C18.controller.discharge-on-wire]
        r is Err ==> !final(self).is_discharged,                                                                                                          // [C18.controller.failed-discharge-not-recorded]
        !old(self).is_discharged && r is Ok ==> reply_to(final(self).inner.sent@) is Some && reply_to(final(self).inner.sent@)->Some_0 is Some && reply_to(final(self).inner.sent@)->Some_0->Some_0 is Accepted,       // [C18.controller.outcome-reported]
//@@ end

//@@ fn file=fe2o3-amqp/src/transaction/owned.rs impl=`impl TransactionDischarge for OwnedTransaction` name=commit as=owned_commit id=OwnedTransaction::commit
//@@ qmark
//@@ ret Result<(), ControllerSendError>
//@@ subst `(mut self)` => `(&mut self)` rule=R32
//@@ subst `self.discharge(` => `self.owned_discharge(` rule=R2
//@@ spec
    ensures
        !old(self).is_discharged && r is Ok ==> final(self).inner.sent@ == old(self).inner.sent@.push(Sent { body: Body::Discharge(Discharge { txn_id: old(self).declared.txn_id, fail: Some(false) }), settled: false, state: None, batchable: false }),   // [C18.controller.commit-is-discharge-without-fail] committing a transaction that owns its control link: the discharge of ITS id with fail = false
        r is Ok ==> final(self).inner.closes@ == old(self).inner.closes@.push(None::<AmqpErrorS>),       // [C13.txn.owned-control-link-closed-after-the-discharge] [C18.txn.owned-control-link-closed-after-the-discharge] ... and only after the coordinator's answer to it has come back is the transaction's own control link closed (a close before the discharge would abandon -- roll back -- the transaction at the coordinator)
        final(self).inner.closes@.len() > old(self).inner.closes@.len() ==> final(self).is_discharged,
//@@ end

//@@ fn file=fe2o3-amqp/src/transaction/owned.rs impl=`impl TransactionDischarge for OwnedTransaction` name=rollback as=owned_rollback id=OwnedTransaction::rollback
//@@ qmark
//@@ ret Result<(), ControllerSendError>
//@@ subst `(mut self)` => `(&mut self)` rule=R32
//@@ subst `self.discharge(` => `self.owned_discharge(` rule=R2
//@@ spec
    ensures
        !old(self).is_discharged && r is Ok ==> final(self).inner.sent@ == old(self).inner.sent@.push(Sent { body: Body::Discharge(Discharge { txn_id: old(self).declared.txn_id, fail: Some(true) }), settled: false, state: None, batchable: false }),   // [C18.controller.rollback-is-discharge-with-fail]
        r is Ok ==> final(self).inner.closes@ == old(self).inner.closes@.push(None::<AmqpErrorS>),       // [C13.txn.owned-control-link-closed-after-the-discharge]
        final(self).inner.closes@.len() > old(self).inner.closes@.len() ==> final(self).is_discharged,
//@@ end
}

//@@ type file=fe2o3-amqp/src/transaction/mod.rs kind=const name=DEFAULT_ROLLBACK_ON_DROP_TRIALS
//@@ end
impl ControllerS { pub fn into_inner(self) -> (r: SenderInnerS) ensures r == self.inner { self.inner } }
pub fn global_id_into(g: Option<TransactionId>) -> (r: Option<TransactionId>) ensures r == g { g }
impl OwnedTransaction {
//@@ fn file=fe2o3-amqp/src/transaction/owned.rs impl=`impl OwnedTransaction` name=declare_with_controller id=OwnedTransaction::declare_with_controller
//@@ qmark
//@@ generics
//@@ nowhere
//@@ param controller : ControllerS
//@@ param global_id : Option<TransactionId>
//@@ ret Result<OwnedTransaction, ControllerSendError>
//@@ subst `global_id.into()` => `global_id_into(global_id)` rule=R16
//@@ spec
    ensures
        r is Ok ==> !r->Ok_0.is_discharged,       // [C18.controller.fresh-transaction-not-discharged] a transaction that has just been declared is not discharged: commit / rollback / Drop will still put its discharge on the wire
        r is Ok ==> r->Ok_0.inner.sent@ == controller.inner.sent@.push(Sent { body: Body::Declare(Declare { global_id }), settled: false, state: None, batchable: false }) && r->Ok_0.inner.closes == controller.inner.closes,       // [C18.controller.declare-on-wire] the declare goes out on the control link the transaction then owns -- the link its discharge will use
        r is Ok ==> r->Ok_0.rollback_on_drop_trials == DEFAULT_ROLLBACK_ON_DROP_TRIALS,
        r is Ok ==> reply_to(r->Ok_0.inner.sent@) == Some(Some(DeliveryState::Declared(r->Ok_0.declared))),       // [C18.controller.declared-id-is-the-coordinator's]
//@@ end
}

impl Transaction {
//@@ fn file=fe2o3-amqp/src/transaction/mod.rs impl=`impl<'t> Transaction<'t>` name=declare id=Transaction::declare
//@@ qmark
//@@ generics
//@@ nowhere
//@@ param controller : ControllerS
//@@ param global_id : Option<TransactionId>
//@@ ret Result<Transaction, ControllerSendError>
//@@ subst `global_id.into()` => `global_id_into(global_id)` rule=R16
//@@ subst `let mut inner = controller.inner.lock();` => `let mut controller = controller; let inner = (&mut controller.inner);` rule=R4
//@@ subst `&mut inner` => `inner` rule=R4
//@@ spec
    ensures
        r is Ok ==> !r->Ok_0.is_discharged,       // [C18.controller.fresh-transaction-not-discharged] a transaction that has just been declared over a shared controller is not discharged either
        r is Ok ==> r->Ok_0.controller.inner.sent@ == controller.inner.sent@.push(Sent { body: Body::Declare(Declare { global_id }), settled: false, state: None, batchable: false }) && r->Ok_0.controller.inner.closes == controller.inner.closes,       // [C18.controller.declare-on-wire] the declare goes out on the controller the transaction keeps -- the one its posts name and its discharge will use
        r is Ok ==> r->Ok_0.rollback_on_drop_trials == DEFAULT_ROLLBACK_ON_DROP_TRIALS,
        r is Ok ==> reply_to(r->Ok_0.controller.inner.sent@) == Some(Some(DeliveryState::Declared(r->Ok_0.declared))),       // [C18.controller.declared-id-is-the-coordinator's] the handle keeps the id the coordinator declared for THIS declare
//@@ end
}

// ---------------------------------------------------------------- the controller: how its control link is attached and closed (transaction/controller.rs)
opaque!(Coordinator, SenderAttachError, SessionHandleS);
//@@ type file=fe2o3-amqp-types/src/definitions/snd_settle_mode.rs kind=enum name=SenderSettleMode
//@@ end
/// link::builder::Builder<SenderMarker, Coordinator, ..> reduced to what the controller sets (the setters and the type-state transitions are under contract in units SETTERS and LINKBUILDER:
/// each stores its argument and keeps everything else); `Controller::builder()` = `Builder::new()` starts with the defaults: no name, no target, snd-settle-mode mixed
pub struct CtlBuilder { pub name: Option<String>, pub target: Option<Coordinator>, pub snd_settle_mode: SenderSettleMode }
/// the builder the control link of `c` was attached from
pub uninterp spec fn built_from(c: ControllerS) -> CtlBuilder;
pub uninterp spec fn default_coordinator() -> Coordinator;
impl Coordinator { #[verifier::external_body] pub fn default() -> (r: Coordinator) ensures r == default_coordinator() { unimplemented!() } }
impl CtlBuilder {
    pub fn name(self, name: String) -> (r: CtlBuilder) ensures r == (CtlBuilder { name: Some(name), ..self }) { CtlBuilder { name: Some(name), ..self } }
    pub fn coordinator(self, coordinator: Coordinator) -> (r: CtlBuilder) ensures r == (CtlBuilder { target: Some(coordinator), ..self }) { CtlBuilder { target: Some(coordinator), ..self } }
    pub fn sender_settle_mode(self, mode: SenderSettleMode) -> (r: CtlBuilder) ensures r == (CtlBuilder { snd_settle_mode: mode, ..self }) { CtlBuilder { snd_settle_mode: mode, ..self } }
    /// Builder::attach (unit WIRING: attach_inner): the link is created from the builder's fields
    #[verifier::external_body]
    pub fn attach(self, session: &mut SessionHandleS) -> (r: Result<ControllerS, SenderAttachError>)
        ensures r is Ok ==> built_from(r->Ok_0) == self && r->Ok_0.inner.sent@.len() == 0 && r->Ok_0.inner.closes@.len() == 0,
    { unimplemented!() }
}
impl ControllerS {
    pub fn builder() -> (r: CtlBuilder) ensures r.name is None && r.target is None { CtlBuilder { name: None, target: None, snd_settle_mode: SenderSettleMode::Mixed } }
    pub fn get_mut_inner(&mut self) -> (r: &mut SenderInnerS) ensures *r == old(self).inner, final(self).inner == *final(r) { &mut self.inner }

//@@ fn file=fe2o3-amqp/src/transaction/controller.rs impl=`impl Controller` name=attach_with_coordinator
//@@ generics
//@@ nowhere
//@@ param session : &mut SessionHandleS
//@@ param name : String
//@@ ret Result<ControllerS, SenderAttachError>
//@@ spec
    ensures
        r is Ok ==> built_from(r->Ok_0).snd_settle_mode is Unsettled,       // [C18.controller.control-link-is-unsettled] the control link is attached with snd-settle-mode UNSETTLED: a declare / discharge is never sent pre-settled, so the coordinator's outcome -- the declared id, accepted, or the transaction error -- always comes back to be reported
        r is Ok ==> built_from(r->Ok_0).target == Some(coordinator) && built_from(r->Ok_0).name == Some(name),       // [C18.controller.control-link-targets-the-coordinator] its target is the coordinator given (with the capabilities asked for), its name the one given
        r is Ok ==> r->Ok_0.inner.sent@.len() == 0 && r->Ok_0.inner.closes@.len() == 0,
//@@ end

//@@ fn file=fe2o3-amqp/src/transaction/controller.rs impl=`impl Controller` name=attach
//@@ generics
//@@ nowhere
//@@ param session : &mut SessionHandleS
//@@ param name : String
//@@ ret Result<ControllerS, SenderAttachError>
//@@ spec
    ensures
        r is Ok ==> built_from(r->Ok_0).snd_settle_mode is Unsettled && built_from(r->Ok_0).target == Some(default_coordinator()) && built_from(r->Ok_0).name == Some(name),       // [C18.controller.control-link-is-unsettled]
//@@ end

//@@ fn file=fe2o3-amqp/src/transaction/controller.rs impl=`impl Controller` name=close_with_error
//@@ param error : AmqpErrorS
//@@ ret Result<(), DetachError>
//@@ subst `(mut self,` => `(&mut self,` rule=R32
//@@ subst `self.inner.get_mut()` => `self.get_mut_inner()` rule=R4
//@@ spec
    ensures
        final(self).inner.closes@ == old(self).inner.closes@.push(Some(error)) && final(self).inner.sent == old(self).inner.sent,       // [C13.controller.close-with-error-carries-the-error] closing the control link with an error closes it once, with THAT error in the closing detach
//@@ end

//@@ fn file=fe2o3-amqp/src/transaction/controller.rs impl=`impl Controller` name=close
//@@ ret Result<(), DetachError>
//@@ subst `(mut self)` => `(&mut self)` rule=R32
//@@ subst `self.inner.get_mut()` => `self.get_mut_inner()` rule=R4
//@@ spec
    ensures
        final(self).inner.closes@ == old(self).inner.closes@.push(None::<AmqpErrorS>) && final(self).inner.sent == old(self).inner.sent,       // [C13.controller.close-closes-once-without-error]
//@@ end
}

// ---------------------------------------------------------------- transactional posting and retirement (transaction/mod.rs)
opaque!(PostError, DispositionError, StopReasonCell, DeliveryInfo);
impl ErrInto<PostError> for PostError { open spec fn conv(self) -> PostError { self } fn err_into(self) -> (r: PostError) { let e = self; assert(e == <PostError as ErrInto<PostError>>::conv(self)); e } }
impl ErrInto<DispositionError> for DispositionError { open spec fn conv(self) -> DispositionError { self } fn err_into(self) -> (r: DispositionError) { let e = self; assert(e == <DispositionError as ErrInto<DispositionError>>::conv(self)); e } }
pub struct LinkS { pub session_stop_reason: StopReasonCell }
pub struct PostSenderInner { pub sent: Ghost<Seq<Sent>>, pub link: LinkS }
impl PostSenderInner {
    #[verifier::external_body]
    pub fn send_with_state(&mut self, sendable: Sendable, state: Option<DeliveryState>, batchable: bool) -> (r: Result<Settlement, PostError>)
        ensures
            r is Ok ==> final(self).sent@ == old(self).sent@.push(Sent { body: sendable.message.body, settled: sendable.settled, state, batchable }),
            r is Err ==> final(self).sent@ == old(self).sent@,
    { unimplemented!() }
}
impl PostSenderInner {
    /// the by-reference twin (unit SENDINNER: same delivery, the message borrowed)
    #[verifier::external_body]
    pub fn send_ref_with_state(&mut self, sendable: &Sendable, state: Option<DeliveryState>, batchable: bool) -> (r: Result<Settlement, PostError>)
        ensures
            r is Ok ==> final(self).sent@ == old(self).sent@.push(Sent { body: sendable.message.body, settled: sendable.settled, state, batchable }),
            r is Err ==> final(self).sent@ == old(self).sent@,
    { unimplemented!() }
}
pub struct Sender { pub inner: PostSenderInner }
pub struct DeliveryFut { pub g: Ghost<int> }
impl DeliveryFut {
    #[verifier::external_body]
    pub fn new(s: Settlement, c: StopReasonCell) -> (r: DeliveryFut) { unimplemented!() }
}
/// what a receiver was asked to dispose: (delivery, settled, state)
pub struct RecvInner { pub disposed: Ghost<Seq<(DeliveryInfo, Option<bool>, DeliveryState)>> }
impl RecvInner {
    #[verifier::external_body]
    pub fn dispose(&mut self, d: DeliveryInfo, settled: Option<bool>, state: DeliveryState) -> (r: Result<(), DispositionError>)
        ensures r is Ok ==> final(self).disposed@ == old(self).disposed@.push((d, settled, state)), r is Err ==> final(self).disposed@ == old(self).disposed@,
    { unimplemented!() }
}
pub struct Receiver { pub inner: RecvInner }

//@@ fn file=fe2o3-amqp/src/transaction/mod.rs name=post_inner
//@@ qmark
//@@ generics
//@@ nowhere
//@@ param sendable : Sendable
//@@ ret Result<DeliveryFut, PostError>
//@@ subst `.send_with_state::<T, PostError>(` => `.send_with_state(` rule=R7
//@@ spec
    ensures
        r is Ok ==> final(sender).inner.sent@ == old(sender).inner.sent@.push(Sent { body: sendable.message.body, settled: sendable.settled,
            state: Some(DeliveryState::TransactionalState(TransactionalState { txn_id: *txn_id, outcome: None })), batchable }),   // [C18.controller.post-carries-txn-id] a transactional post is the application's message, sent once, with a transactional-state naming THIS transaction and no outcome
        r is Err ==> final(sender).inner.sent@ == old(sender).inner.sent@,
//@@ end

//@@ fn file=fe2o3-amqp/src/transaction/mod.rs name=post_ref_inner
//@@ qmark
//@@ generics
//@@ nowhere
//@@ param sendable : &Sendable
//@@ ret Result<DeliveryFut, PostError>
//@@ subst `.send_ref_with_state::<T, PostError>(` => `.send_ref_with_state(` rule=R7
//@@ spec
    ensures
        r is Ok ==> final(sender).inner.sent@ == old(sender).inner.sent@.push(Sent { body: sendable.message.body, settled: sendable.settled,
            state: Some(DeliveryState::TransactionalState(TransactionalState { txn_id: *txn_id, outcome: None })), batchable }),   // [C18.controller.post-carries-txn-id] the by-reference post: the same transfer as the by-value one
        r is Err ==> final(sender).inner.sent@ == old(sender).inner.sent@,
//@@ end

/// awaiting the outcome future of a post (DeliveryFut, unit DELIVFUT)
pub struct OutcomeS { pub p: u8 }
impl DeliveryFut {
    #[verifier::external_body]
    pub fn await_outcome(self) -> (r: Result<OutcomeS, PostError>) { unimplemented!() }
}
impl Transaction {
    pub fn txn_id(&self) -> (r: &TransactionId) ensures *r == self.declared.txn_id { &self.declared.txn_id }
//@@ fn file=fe2o3-amqp/src/transaction/mod.rs impl=`~TransactionPosting:TransactionBase` name=post_batchable implfuture id=TransactionPosting::post_batchable
//@@ generics
//@@ nowhere
//@@ param sendable : Sendable
//@@ ret Result<DeliveryFut, PostError>
//@@ subst `let sendable = sendable.into();` => `` rule=R7
//@@ spec
    ensures
        r is Ok ==> final(sender).inner.sent@ == old(sender).inner.sent@.push(Sent { body: sendable.message.body, settled: sendable.settled,
            state: Some(DeliveryState::TransactionalState(TransactionalState { txn_id: self.declared.txn_id, outcome: None })), batchable: true }),   // [C18.controller.post-under-this-transaction] a post made THROUGH a transaction carries THAT transaction's id; the batchable variant says so on the wire
        r is Err ==> final(sender).inner.sent@ == old(sender).inner.sent@,
//@@ end

//@@ fn file=fe2o3-amqp/src/transaction/mod.rs impl=`~TransactionPosting:TransactionBase` name=post implfuture id=TransactionPosting::post
//@@ qmark
//@@ generics
//@@ nowhere
//@@ param sendable : Sendable
//@@ ret Result<OutcomeS, PostError>
//@@ subst `let sendable = sendable.into();` => `` rule=R7
//@@ subst `fut }` => `fut.await_outcome() }` rule=R3b
//@@ spec
    ensures
        r is Ok ==> final(sender).inner.sent@ == old(sender).inner.sent@.push(Sent { body: sendable.message.body, settled: sendable.settled,
            state: Some(DeliveryState::TransactionalState(TransactionalState { txn_id: self.declared.txn_id, outcome: None })), batchable: false }),   // [C18.controller.post-under-this-transaction]
        final(sender).inner.sent@.len() <= old(sender).inner.sent@.len() + 1,
//@@ end
//@@ fn file=fe2o3-amqp/src/transaction/mod.rs impl=`~TransactionPosting:TransactionBase` name=post_batchable_ref implfuture id=TransactionPosting::post_batchable_ref
//@@ generics
//@@ nowhere
//@@ param sendable : &Sendable
//@@ ret Result<DeliveryFut, PostError>
//@@ spec
    ensures
        r is Ok ==> final(sender).inner.sent@ == old(sender).inner.sent@.push(Sent { body: sendable.message.body, settled: sendable.settled,
            state: Some(DeliveryState::TransactionalState(TransactionalState { txn_id: self.declared.txn_id, outcome: None })), batchable: true }),   // [C18.controller.post-under-this-transaction]
        r is Err ==> final(sender).inner.sent@ == old(sender).inner.sent@,
//@@ end

//@@ fn file=fe2o3-amqp/src/transaction/mod.rs impl=`~TransactionPosting:TransactionBase` name=post_ref implfuture id=TransactionPosting::post_ref
//@@ qmark
//@@ generics
//@@ nowhere
//@@ param sendable : &Sendable
//@@ ret Result<OutcomeS, PostError>
//@@ subst `post_ref_inner(self.txn_id(), sender, sendable, __E1)?` => `post_ref_inner(self.txn_id(), sender, sendable, __E1)?.await_outcome()` rule=R3b
//@@ spec
    ensures
        r is Ok ==> final(sender).inner.sent@ == old(sender).inner.sent@.push(Sent { body: sendable.message.body, settled: sendable.settled,
            state: Some(DeliveryState::TransactionalState(TransactionalState { txn_id: self.declared.txn_id, outcome: None })), batchable: false }),   // [C18.controller.post-under-this-transaction]
        final(sender).inner.sent@.len() <= old(sender).inner.sent@.len() + 1,
//@@ end

//@@ fn file=fe2o3-amqp/src/transaction/mod.rs impl=`~TransactionRetirement:TransactionBase` name=reject
//@@ generics
//@@ nowhere
//@@ param delivery : DeliveryInfo
//@@ param error : Option<AmqpErrorS>
//@@ ret Result<(), DispositionError>
//@@ subst `async move {` => `{` rule=R3
//@@ spec
    ensures
        r is Ok ==> final(recver).inner.disposed@ == old(recver).inner.disposed@.push((delivery, None::<bool>,
            DeliveryState::TransactionalState(TransactionalState { txn_id: self.declared.txn_id, outcome: Some(Outcome::Rejected(Rejected { error })) }))),   // [C18.controller.reject-under-txn] a transactional reject retires the delivery with `rejected`, carrying the error given, under THIS transaction's id
//@@ end
//@@ fn file=fe2o3-amqp/src/transaction/mod.rs impl=`~TransactionRetirement:TransactionBase` name=retire
//@@ qmark
//@@ generics
//@@ nowhere
//@@ param delivery : DeliveryInfo
//@@ ret Result<(), DispositionError>
//@@ subst `async move {` => `{` rule=R3
//@@ spec
    ensures
        r is Ok ==> final(recver).inner.disposed@ == old(recver).inner.disposed@.push((delivery, None::<bool>,
            DeliveryState::TransactionalState(TransactionalState { txn_id: self.declared.txn_id, outcome: Some(outcome) }))),   // [C18.controller.retire-carries-txn-id] a transactional retirement disposes the delivery with a transactional-state naming this transaction and the chosen outcome, unsettled
//@@ end
//@@ fn file=fe2o3-amqp/src/transaction/mod.rs impl=`~TransactionRetirement:TransactionBase` name=accept
//@@ generics
//@@ nowhere
//@@ param delivery : DeliveryInfo
//@@ ret Result<(), DispositionError>
//@@ subst `async move {` => `{` rule=R3
//@@ spec
    ensures
        r is Ok ==> final(recver).inner.disposed@ == old(recver).inner.disposed@.push((delivery, None::<bool>,
            DeliveryState::TransactionalState(TransactionalState { txn_id: self.declared.txn_id, outcome: Some(Outcome::Accepted(Accepted {})) }))),   // [C18.controller.accept-under-txn] a transactional accept retires the delivery with `accepted` under THIS transaction's id
//@@ end
//@@ fn file=fe2o3-amqp/src/transaction/mod.rs impl=`~TransactionRetirement:TransactionBase` name=release
//@@ generics
//@@ nowhere
//@@ param delivery : DeliveryInfo
//@@ ret Result<(), DispositionError>
//@@ subst `async move {` => `{` rule=R3
//@@ spec
    ensures
        r is Ok ==> final(recver).inner.disposed@ == old(recver).inner.disposed@.push((delivery, None::<bool>,
            DeliveryState::TransactionalState(TransactionalState { txn_id: self.declared.txn_id, outcome: Some(Outcome::Released(Released {})) }))),   // [C18.controller.release-under-txn]
//@@ end
//@@ fn file=fe2o3-amqp/src/transaction/mod.rs impl=`~TransactionRetirement:TransactionBase` name=modify
//@@ generics
//@@ nowhere
//@@ param delivery : DeliveryInfo
//@@ ret Result<(), DispositionError>
//@@ subst `async move {` => `{` rule=R3
//@@ spec
    ensures
        r is Ok ==> final(recver).inner.disposed@ == old(recver).inner.disposed@.push((delivery, None::<bool>,
            DeliveryState::TransactionalState(TransactionalState { txn_id: self.declared.txn_id, outcome: Some(Outcome::Modified(modified)) }))),   // [C18.controller.modify-under-txn]
//@@ end
}

} // verus!
fn main() {}