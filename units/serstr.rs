//@@ unit SERSTR
#![feature(allocator_api)]
#![allow(unused_imports, unused_variables, dead_code, unused_mut, unused_parens, non_upper_case_globals)]
use vstd::prelude::*;

verus! {

global size_of usize == 8;

//@@ trusted std::io::Write stand-in: write_all appends the slice or fails (the writer of `to_vec` is a Vec<u8>)
//@@ trusted u32::to_be_bytes / u8::to_be_bytes routed to wrappers with the big-endian spec (R14); str::len is the UTF-8 byte length, str::chars().count() the number of characters, str::as_bytes the UTF-8 encoding (vstd)
//@@ trusted Serializer<W>: only the fields these functions touch are kept (writer, non_native_type, is_array_elem); the methods of `impl ser::Serializer for &mut Serializer<W>` are re-homed to Serializer (by-value `self` is a `&mut Serializer`)
//@@ trusted call-site assumption: serialize_str is reached with non_native_type None / Symbol / SymbolRef, serialize_bytes never with Timestamp / Symbol / SymbolRef (the `unreachable!()` arms; set by the Serialize impls of the wrapper types)
//@@ trusted usize is 64 bits

//@@ include varspec.rs
#[verifier::external_body]
pub fn u32_to_be_bytes(x: u32) -> (r: [u8; 4]) ensures r@ == be32(x) { x.to_be_bytes() }
pub open spec fn be64(x: u64) -> Seq<u8> {
    seq![(x >> 56) as u8, ((x >> 48) & 0xff) as u8, ((x >> 40) & 0xff) as u8, ((x >> 32) & 0xff) as u8, ((x >> 24) & 0xff) as u8, ((x >> 16) & 0xff) as u8, ((x >> 8) & 0xff) as u8, (x & 0xff) as u8]
}
#[verifier::external_body]
pub fn i64_to_be_bytes(x: i64) -> (r: [u8; 8]) ensures r@ == be64(x as u64) { x.to_be_bytes() }
/// octets taken by a long / timestamp, by position
pub open spec fn i64_size(t: Option<NonNativeType>, e: IsArrayElement, v: i64) -> int {
    match e {
        IsArrayElement::False => if t is None && -128 <= v <= 127 { 2 } else { 9 },
        IsArrayElement::FirstElement => 9,
        IsArrayElement::OtherElement => 8,
    }
}
#[verifier::external_body]
pub fn u8_to_be_bytes(x: u8) -> (r: [u8; 1]) ensures r@ == seq![x] { x.to_be_bytes() }
/// str::len
#[verifier::external_body]
pub fn str_len(s: &str) -> (r: usize) ensures r == utf8(s@).len() { s.len() }
/// str::chars().count()
#[verifier::external_body]
pub fn str_chars_count(s: &str) -> (r: usize) ensures r == s@.len() { s.chars().count() }

#[verifier::external_body]
pub struct IoError { _p: u8 }
pub enum Error { Io(IoError), Other }
impl Error {
    #[verifier::external_body]
    pub fn too_long() -> (r: Self) { unimplemented!() }
}
impl From<IoError> for Error {
    #[verifier::external_body]
    fn from(e: IoError) -> Self { Error::Io(e) }
}
pub fn io_into(e: IoError) -> (r: Error) { Error::Io(e) }
pub struct VecWriter { pub out: Vec<u8> }
impl VecWriter {
    #[verifier::external_body]
    pub fn write_all(&mut self, b: &[u8]) -> (r: Result<(), IoError>)
        ensures
            r is Ok ==> final(self).out@ == old(self).out@ + b@,
    { unimplemented!() }
}

//@@ type file=serde_amqp/src/format_code.rs kind=enum name=EncodingCodes keeprepr
//@@ end
//@@ type file=serde_amqp/src/util.rs kind=enum name=IsArrayElement
//@@ end
//@@ type file=serde_amqp/src/util.rs kind=enum name=NonNativeType
//@@ end
//@@ type file=serde_amqp/src/ser.rs kind=const name=U8_MAX
//@@ end
//@@ type file=serde_amqp/src/ser.rs kind=const name=U8_MAX_MINUS_1
//@@ end
//@@ type file=serde_amqp/src/ser.rs kind=const name=U32_MAX_MINUS_4
//@@ end

pub struct Serializer {
    pub writer: VecWriter,
    pub non_native_type: Option<NonNativeType>,
    pub is_array_elem: IsArrayElement,
}

/// what a call appended to the writer
pub open spec fn added(o: Serializer, f: Serializer) -> Seq<u8> { f.writer.out@.skip(o.writer.out@.len() as int) }
pub open spec fn appended(o: Serializer, f: Serializer) -> bool { o.writer.out@.len() <= f.writer.out@.len() && f.writer.out@.subrange(0, o.writer.out@.len() as int) =~= o.writer.out@ }
pub open spec fn is_symbol(t: Option<NonNativeType>) -> bool { t == Some(NonNativeType::Symbol) || t == Some(NonNativeType::SymbolRef) }

impl Serializer {
//@@ fn file=serde_amqp/src/ser.rs impl=`~ser::Serializer for &'a mut Serializer<W>` name=serialize_str
//@@ selfmut
//@@ ret Result<(), Error>
//@@ subst `v.len()` => `str_len(v)` rule=R9
//@@ subst `v.chars().count()` => `str_chars_count(v)` rule=optional-R9
//@@ subst `(l as u32).to_be_bytes()` => `u32_to_be_bytes(l as u32)` rule=R14
//@@ subst `.map_err(Into::into)` => `.map_err(|e: IoError| -> (o: Error) { io_into(e) })` rule=R17 unless `\.map_err\(`
//@@ spec
    requires
        old(self).non_native_type is None || is_symbol(old(self).non_native_type),
    ensures
        final(self).is_array_elem == old(self).is_array_elem,
        r is Ok ==> appended(*old(self), *final(self)),
        r is Ok && old(self).is_array_elem is False && old(self).non_native_type is None ==> var_encoding(0xa1, 0xb1, utf8(v@), added(*old(self), *final(self))),          // [C05.str.encoding] [C03.rt.encoder-premise] a string is str8-utf8 / str32-utf8: constructor, size = number of UTF-8 OCTETS, then the octets
        r is Ok && old(self).is_array_elem is False && is_symbol(old(self).non_native_type) ==> var_encoding(0xa3, 0xb3, utf8(v@), added(*old(self), *final(self))),     // [C05.symbol.encoding] [C03.rt.encoder-premise]
        r is Ok && !(old(self).is_array_elem is False) && old(self).non_native_type is None ==> var_array_elem(0xb1, old(self).is_array_elem, utf8(v@), added(*old(self), *final(self))),      // [C05.str.array-element] [C03.rt.encoder-premise] inside an array: one str32 constructor for the array, each element is size (in OCTETS) + octets
        r is Ok && !(old(self).is_array_elem is False) && is_symbol(old(self).non_native_type) ==> var_array_elem(0xb3, old(self).is_array_elem, utf8(v@), added(*old(self), *final(self))),  // [C05.symbol.array-element] [C03.rt.encoder-premise]
        r is Ok && old(self).is_array_elem is False ==> final(self).non_native_type is None,                 // [C03.ser.marker-cleared] the one-shot wrapper marker (symbol) does not leak to the next value written by the same serializer
        r is Ok && utf8(v@).len() <= 0xffff_ffff ==> added(*old(self), *final(self)).len() == var_size(old(self).is_array_elem, utf8(v@).len() as int),   // [C20.size.str-written] the number of octets written for a string/symbol, as a function of its octet length and position
//@@ end

//@@ fn file=serde_amqp/src/ser.rs impl=`~ser::Serializer for &'a mut Serializer<W>` name=serialize_i64
//@@ selfmut
//@@ ret Result<(), Error>
//@@ subst `val.to_be_bytes()` => `i64_to_be_bytes(val)` rule=R14
//@@ subst `v.to_be_bytes()` => `i64_to_be_bytes(v)` rule=R14
//@@ spec
    requires
        old(self).non_native_type is None || old(self).non_native_type == Some(NonNativeType::Timestamp),
    ensures
        final(self).is_array_elem == old(self).is_array_elem,
        r is Ok ==> appended(*old(self), *final(self)),
        r is Ok && old(self).non_native_type is None && old(self).is_array_elem is False ==>
            (-128 <= v <= 127 && added(*old(self), *final(self)) =~= seq![0x55u8, v as u8]) || added(*old(self), *final(self)) =~= seq![0x81u8] + be64(v as u64),   // [C05.long.encoding] [C03.rt.encoder-premise] long is smalllong (one octet, two's complement) when it fits, or 0x81 + 8 octets big-endian
        r is Ok && old(self).non_native_type is None && !(old(self).is_array_elem is False) ==>
            added(*old(self), *final(self)) =~= (if old(self).is_array_elem is FirstElement { seq![0x81u8] } else { Seq::<u8>::empty() }) + be64(v as u64),   // [C05.long.array-element] [C03.rt.encoder-premise]
        r is Ok && old(self).non_native_type == Some(NonNativeType::Timestamp) ==>
            added(*old(self), *final(self)) =~= (if old(self).is_array_elem is OtherElement { Seq::<u8>::empty() } else { seq![0x83u8] }) + be64(v as u64),   // [C05.timestamp.encoding] [C03.rt.encoder-premise] a timestamp is ALWAYS 0x83 + 8 octets (there is no short form)
        r is Ok ==> added(*old(self), *final(self)).len() == i64_size(old(self).non_native_type, old(self).is_array_elem, v),   // [C20.size.i64-written]
        r is Ok ==> final(self).non_native_type is None,            // [C03.ser.marker-cleared] the timestamp marker is one-shot: the next value written by the same serializer (the value of a map entry whose key was a timestamp) is written as what IT is, not as another timestamp
//@@ end

//@@ fn file=serde_amqp/src/ser.rs impl=`~ser::Serializer for &'a mut Serializer<W>` name=serialize_none
//@@ selfmut
//@@ ret Result<(), Error>
//@@ spec
    ensures
        final(self).is_array_elem == old(self).is_array_elem,
        r is Ok ==> appended(*old(self), *final(self)),
        r is Ok && !(old(self).is_array_elem is OtherElement) ==> added(*old(self), *final(self)) =~= seq![0x40u8],          // [C05.null.encoding] null is the constructor 0x40 and no data octets
        r is Ok && old(self).is_array_elem is OtherElement ==> added(*old(self), *final(self)) =~= Seq::<u8>::empty(),      // [C05.null.array-later-element] as a second or later element of an array (whose element constructor 0x40 is written once, with the first element) a null occupies ZERO octets -- which is also what this crate's decoder reads for it
//@@ end

//@@ fn file=serde_amqp/src/ser.rs impl=`~ser::Serializer for &'a mut Serializer<W>` name=serialize_unit
//@@ selfmut
//@@ ret Result<(), Error>
//@@ spec
    ensures
        final(self).is_array_elem == old(self).is_array_elem,
        r is Ok ==> appended(*old(self), *final(self)),
        r is Ok && !(old(self).is_array_elem is OtherElement) ==> added(*old(self), *final(self)) =~= seq![0x40u8],          // [C05.null.encoding]
        r is Ok && old(self).is_array_elem is OtherElement ==> added(*old(self), *final(self)) =~= Seq::<u8>::empty(),      // [C05.null.array-later-element]
//@@ end

//@@ fn file=serde_amqp/src/ser.rs impl=`~ser::Serializer for &'a mut Serializer<W>` name=serialize_bool
//@@ selfmut
//@@ ret Result<(), Error>
//@@ subst `.map_err(Into::into)` => `.map_err(|e: IoError| -> (o: Error) { Error::Io(e) })` rule=optional-R17
//@@ spec
    ensures
        final(self).is_array_elem == old(self).is_array_elem,
        r is Ok ==> appended(*old(self), *final(self)),
        r is Ok && old(self).is_array_elem is False ==> added(*old(self), *final(self)) =~= seq![if v { 0x41u8 } else { 0x42u8 }],                       // [C05.bool.encoding] [C03.rt.encoder-premise] true / false constructors
        r is Ok && old(self).is_array_elem is FirstElement ==> added(*old(self), *final(self)) =~= seq![0x56u8, if v { 1u8 } else { 0u8 }],             // [C05.bool.array-element] [C03.rt.encoder-premise] inside an array: the one-octet form 0x56, constructor once
        r is Ok && old(self).is_array_elem is OtherElement ==> added(*old(self), *final(self)) =~= seq![if v { 1u8 } else { 0u8 }],
//@@ end

//@@ fn file=serde_amqp/src/ser.rs impl=`~ser::Serializer for &'a mut Serializer<W>` name=serialize_bytes
//@@ selfmut
//@@ ret Result<(), Error>
//@@ subst `(l as u32).to_be_bytes()` => `u32_to_be_bytes(l as u32)` rule=R14
//@@ subst `(l as u8).to_be_bytes()` => `u8_to_be_bytes(l as u8)` rule=R14
//@@ subst `.map_err(Into::into)` => `.map_err(|e: IoError| -> (o: Error) { io_into(e) })` rule=R17 unless `\.map_err\(`
//@@ spec
    requires
        !(old(self).non_native_type == Some(NonNativeType::Timestamp)) && !is_symbol(old(self).non_native_type),
    ensures
        final(self).is_array_elem == old(self).is_array_elem,
        r is Ok ==> appended(*old(self), *final(self)),
        r is Ok && old(self).is_array_elem is False && old(self).non_native_type is None ==> var_encoding(0xa0, 0xb0, v@, added(*old(self), *final(self))),        // [C05.binary.encoding] [C03.rt.encoder-premise] binary is vbin8 / vbin32: constructor, size = number of octets, octets
        r is Ok && !(old(self).is_array_elem is False) && old(self).non_native_type is None ==> var_array_elem(0xb0, old(self).is_array_elem, v@, added(*old(self), *final(self))),   // [C05.binary.array-element] [C03.rt.encoder-premise]
        r is Ok ==> final(self).non_native_type is None,   // [C03.ser.marker-cleared] uuid / decimal / lazy-value markers are one-shot (D83: the lazy-value marker was not): the next value (e.g. the value of a map entry whose key was a uuid) is written as itself
        r is Ok && old(self).non_native_type is None && v@.len() <= 0xffff_ffff ==> added(*old(self), *final(self)).len() == var_size(old(self).is_array_elem, v@.len() as int),   // [C20.size.binary-written]
        r is Ok && old(self).non_native_type == Some(NonNativeType::Uuid) ==> added(*old(self), *final(self)) =~= (if old(self).is_array_elem is OtherElement { Seq::<u8>::empty() } else { seq![0x98u8] }) + v@,      // [C05.uuid.encoding] [C03.rt.encoder-premise] fixed-width values handed over as bytes: constructor (once per array) + the bytes
        r is Ok && old(self).non_native_type == Some(NonNativeType::Dec32) ==> added(*old(self), *final(self)) =~= (if old(self).is_array_elem is OtherElement { Seq::<u8>::empty() } else { seq![0x74u8] }) + v@,   // [C05.decimal.encoding] [C03.rt.encoder-premise]
        r is Ok && old(self).non_native_type == Some(NonNativeType::Dec64) ==> added(*old(self), *final(self)) =~= (if old(self).is_array_elem is OtherElement { Seq::<u8>::empty() } else { seq![0x84u8] }) + v@,   // [C05.decimal.encoding] [C03.rt.encoder-premise]
        r is Ok && old(self).non_native_type == Some(NonNativeType::Dec128) ==> added(*old(self), *final(self)) =~= (if old(self).is_array_elem is OtherElement { Seq::<u8>::empty() } else { seq![0x94u8] }) + v@,  // [C05.decimal.encoding] [C03.rt.encoder-premise]
        r is Ok && old(self).non_native_type == Some(NonNativeType::LazyValue) ==> added(*old(self), *final(self)) =~= v@,                                             // [C05.lazy.verbatim] an already encoded value is copied verbatim
//@@ end
}

// ================================================================ the size calculator (size_ser.rs) against the same spec
pub struct SizeSerializer {
    pub non_native_type: Option<NonNativeType>,
    pub is_array_element: IsArrayElement,
}
impl SizeSerializer {
//@@ fn file=serde_amqp/src/size_ser.rs impl=`~ser::Serializer for &'a mut SizeSerializer` name=serialize_str as=size_str
//@@ selfmut
//@@ ret Result<usize, Error>
//@@ subst `v.len()` => `str_len(v)` rule=R9
//@@ subst `unreachable!("serialize_str is only used for Symbol and String")` => `unreachable!()` rule=R9
//@@ spec
    requires
        old(self).non_native_type is None || is_symbol(old(self).non_native_type),
        utf8(v@).len() < 0x7fff_ffff_ffff_ffff,
    ensures
        r is Ok ==> r->Ok_0 == var_size(old(self).is_array_element, utf8(v@).len() as int),                 // [C20.size.str] serialized_size of a string/symbol == the number of octets the encoder writes for it (same function of length and position)
        r is Err ==> old(self).is_array_element is False && utf8(v@).len() > 0xffff_fffb,                    // [C20.size.str-refusal] refused exactly when the encoder refuses
        r is Ok && old(self).is_array_element is False ==> final(self).non_native_type is None,              // [C20.size.marker-cleared] like the encoder (unit SERSTR: [C03.ser.marker-cleared]) the size pass takes the Symbol marker with the value it belongs to: the two passes stay in step for whatever is sized next
//@@ end

//@@ fn file=serde_amqp/src/size_ser.rs impl=`~ser::Serializer for &'a mut SizeSerializer` name=serialize_bool as=size_bool
//@@ selfmut
//@@ ret Result<usize, Error>
//@@ spec
    ensures
        final(self).is_array_element == old(self).is_array_element, final(self).non_native_type == old(self).non_native_type,
        r is Ok && r->Ok_0 == (if old(self).is_array_element is FirstElement { 2int } else { 1int }),      // [C20.size.bool] serialized_size of a boolean == the octets the encoder writes ([C05.bool.encoding] / [C05.bool.array-element] above): one (0x41 / 0x42, or the bare data octet of a later array element), two for the first array element (0x56 + data)
//@@ end

//@@ fn file=serde_amqp/src/size_ser.rs impl=`~ser::Serializer for &'a mut SizeSerializer` name=serialize_none as=size_none
//@@ selfmut
//@@ ret Result<usize, Error>
//@@ spec
    ensures
        final(self).is_array_element == old(self).is_array_element, final(self).non_native_type == old(self).non_native_type,
        r is Ok && r->Ok_0 == 1,      // [C20.size.null] the size of a null is the one octet the encoder writes for it (0x40) -- in every position: the writer repeats it for later array elements (known finding D19), and the size twin counts what is written
//@@ end

//@@ fn file=serde_amqp/src/size_ser.rs impl=`~ser::Serializer for &'a mut SizeSerializer` name=serialize_unit as=size_unit
//@@ selfmut
//@@ ret Result<usize, Error>
//@@ spec
    ensures
        final(self).is_array_element == old(self).is_array_element, final(self).non_native_type == old(self).non_native_type,
        r is Ok && r->Ok_0 == 1,      // [C20.size.null]
//@@ end

//@@ fn file=serde_amqp/src/size_ser.rs impl=`~ser::Serializer for &'a mut SizeSerializer` name=serialize_unit_struct as=size_unit_struct
//@@ selfmut
//@@ subst `self.serialize_unit()` => `self.size_unit()` rule=R2
//@@ ret Result<usize, Error>
//@@ spec
    ensures
        final(self).is_array_element == old(self).is_array_element, final(self).non_native_type == old(self).non_native_type,
        r is Ok && r->Ok_0 == 1,      // [C20.size.null] a unit struct is a null
//@@ end

//@@ fn file=serde_amqp/src/size_ser.rs impl=`~ser::Serializer for &'a mut SizeSerializer` name=serialize_i64 as=size_i64
//@@ selfmut
//@@ ret Result<usize, Error>
//@@ subst `unreachable!("serialize_i64 is only used for Long and Timestamp")` => `unreachable!()` rule=R9
//@@ spec
    requires
        old(self).non_native_type is None || old(self).non_native_type == Some(NonNativeType::Timestamp),
    ensures
        r is Ok && r->Ok_0 == i64_size(old(self).non_native_type, old(self).is_array_element, v),              // [C20.size.i64] serialized_size of a long / timestamp == the number of octets the encoder writes for it
//@@ end

//@@ fn file=serde_amqp/src/size_ser.rs impl=`~ser::Serializer for &'a mut SizeSerializer` name=serialize_bytes as=size_bytes
//@@ selfmut
//@@ ret Result<usize, Error>
//@@ subst `unreachable!("serialize_bytes is only used for Binary, Decimal32, Decimal64, Decimal128, and Uuid")` => `unreachable!()` rule=R9
//@@ spec
    requires
        !(old(self).non_native_type == Some(NonNativeType::Timestamp)) && !is_symbol(old(self).non_native_type),
        v@.len() < 0x7fff_ffff_ffff_ffff,
    ensures
        r is Ok && old(self).non_native_type is None ==> r->Ok_0 == var_size(old(self).is_array_element, v@.len() as int),   // [C20.size.binary]
        r is Ok && old(self).non_native_type == Some(NonNativeType::LazyValue) ==> r->Ok_0 == v@.len(),                     // [C20.size.lazy]
        r is Ok && old(self).non_native_type == Some(NonNativeType::LazyValue) ==> final(self).non_native_type is None,     // [C20.size.marker-cleared] the size twin drops the lazy-value marker where the writer drops it (D83), or the next value is sized as raw bytes
        r is Ok && !(old(self).non_native_type is None) && !(old(self).non_native_type == Some(NonNativeType::LazyValue))
            ==> r->Ok_0 == v@.len() + (if old(self).is_array_element is OtherElement { 0int } else { 1int }),                 // [C20.size.fixed-as-bytes] uuid / decimals: constructor (once per array) + the bytes
//@@ end
}

// ================================================================ the value-tree serializer (value/ser.rs): same marker discipline
pub struct ValueSerializer { pub non_native_type: Option<NonNativeType> }
/// the part of `Value` these functions build
pub enum Value { String(String), Symbol(SymbolS), Long(i64), Timestamp(i64), Binary(Seq<u8>), Decimal32(Seq<u8>), Decimal64(Seq<u8>), Decimal128(Seq<u8>), Uuid(Seq<u8>), Other }
#[verifier::external_body]
pub fn timestamp_value(v: i64) -> (r: Value) ensures r == Value::Timestamp(v) { unimplemented!() }
#[verifier::external_body]
pub fn binary_value(v: &[u8]) -> (r: Value) ensures r == Value::Binary(v@) { unimplemented!() }
/// Dec32 / Dec64 / Dec128 / Uuid ::try_from(&[u8]): succeed exactly on the right length (4 / 8 / 16 / 16 octets)
#[verifier::external_body]
pub fn fixed_value(kind: u8, v: &[u8]) -> (r: Result<Value, VError>)
    ensures r is Ok ==> r->Ok_0 == (if kind == 0 { Value::Decimal32(v@) } else if kind == 1 { Value::Decimal64(v@) } else if kind == 2 { Value::Decimal128(v@) } else { Value::Uuid(v@) }),
{ unimplemented!() }
/// LazyValue: the bytes are an encoded value, decoded by the slice deserializer (not under contract here)
#[verifier::external_body]
pub fn lazy_to_value(v: &[u8]) -> (r: Result<Value, VError>) { unimplemented!() }
pub trait ErrInto<T>: Sized { spec fn conv(self) -> T; fn err_into(self) -> (r: T) ensures r == self.conv(); }
impl ErrInto<VError> for VError { open spec fn conv(self) -> VError { self } fn err_into(self) -> (r: VError) { let e = self; assert(e == <VError as ErrInto<VError>>::conv(self)); e } }
pub struct SymbolS { pub s: Ghost<Seq<char>> }
#[verifier::external_body]
pub fn string_from(v: &str) -> (r: String) ensures r@ == v@ { unimplemented!() }
#[verifier::external_body]
pub fn symbol_from(v: &str) -> (r: SymbolS) ensures r.s@ == v@ { unimplemented!() }
pub enum VError { InvalidValue, Other }
impl ValueSerializer {
//@@ fn file=serde_amqp/src/value/ser.rs impl=`~ser::Serializer for &'a mut Serializer` name=serialize_str as=value_serialize_str
//@@ selfmut
//@@ ret Result<Value, VError>
//@@ subst `String::from(v)` => `string_from(v)` rule=R16
//@@ subst `Symbol::from(v)` => `symbol_from(v)` rule=R16
//@@ subst `Error::InvalidValue` => `VError::InvalidValue` rule=R11
//@@ spec
    ensures
        r is Ok ==> final(self).non_native_type is None,                                                      // [C20.value.marker-cleared] to_value: the symbol marker is one-shot, the next string (e.g. the value of a map entry with a symbol key) stays a string -- as it does when going through bytes
        r is Ok && old(self).non_native_type is None ==> r->Ok_0 is String && r->Ok_0->String_0@ == v@,      // [C20.value.str]
        r is Ok && is_symbol(old(self).non_native_type) ==> r->Ok_0 is Symbol && r->Ok_0->Symbol_0.s@ == v@,  // [C20.value.symbol]
        r is Ok ==> old(self).non_native_type is None || is_symbol(old(self).non_native_type),
//@@ end

//@@ fn file=serde_amqp/src/value/ser.rs impl=`~ser::Serializer for &'a mut Serializer` name=serialize_i64 as=value_serialize_i64
//@@ selfmut
//@@ ret Result<Value, VError>
//@@ subst `Value::Timestamp(Timestamp::from(v))` => `timestamp_value(v)` rule=R16
//@@ subst `Error::InvalidValue` => `VError::InvalidValue` rule=R11
//@@ spec
    ensures
        r is Ok ==> final(self).non_native_type is None,                                                      // [C20.value.marker-cleared] the timestamp marker is one-shot in the value tree too
        r is Ok && old(self).non_native_type is None ==> r->Ok_0 == Value::Long(v),
        r is Ok && old(self).non_native_type == Some(NonNativeType::Timestamp) ==> r->Ok_0 == Value::Timestamp(v),   // [C20.value.timestamp]
//@@ end

//@@ fn file=serde_amqp/src/value/ser.rs impl=`~ser::Serializer for &'a mut Serializer` name=serialize_bytes as=value_serialize_bytes dropuses
//@@ selfmut
//@@ qmark
//@@ orsplit
//@@ ret Result<Value, VError>
//@@ subst `Value::Binary(ByteBuf::from(v.to_vec()))` => `binary_value(v)` rule=R16
//@@ subst `Value::Decimal32(Dec32::try_from(v)?)` => `fixed_value(0, v)?` rule=R16
//@@ subst `Value::Decimal64(Dec64::try_from(v)?)` => `fixed_value(1, v)?` rule=R16
//@@ subst `Value::Decimal128(Dec128::try_from(v)?)` => `fixed_value(2, v)?` rule=R16
//@@ subst `Value::Uuid(Uuid::try_from(v)?)` => `fixed_value(3, v)?` rule=R16
//@@ subst `let reader = SliceReader::new(v); let mut de = crate::de::Deserializer::new(reader); let value = Value::deserialize(&mut de)?; Ok(value)` => `lazy_to_value(v)` rule=R9
//@@ subst `Error::InvalidValue` => `VError::InvalidValue` rule=R11
//@@ spec
    ensures
        r is Ok ==> final(self).non_native_type is None,   // [C20.value.marker-cleared] uuid / decimal / lazy-value markers are one-shot (D83): the value of a map entry whose key was a uuid is what IT is (a binary stays a binary), as when going through bytes
        r is Ok && old(self).non_native_type is None ==> r->Ok_0 == Value::Binary(v@),
        r is Ok && old(self).non_native_type == Some(NonNativeType::Uuid) ==> r->Ok_0 == Value::Uuid(v@),             // [C20.value.uuid]
        r is Ok && old(self).non_native_type == Some(NonNativeType::Dec32) ==> r->Ok_0 == Value::Decimal32(v@),
        r is Ok && old(self).non_native_type == Some(NonNativeType::Dec64) ==> r->Ok_0 == Value::Decimal64(v@),
        r is Ok && old(self).non_native_type == Some(NonNativeType::Dec128) ==> r->Ok_0 == Value::Decimal128(v@),
//@@ end
}

} // verus!
fn main() {}
