//@@ unit SERHDR
#![feature(allocator_api)]
#![allow(unused_imports, unused_variables, dead_code, unused_mut, unused_parens, non_upper_case_globals)]
use vstd::prelude::*;

verus! {

global size_of usize == 8;

//@@ include common.rs
//@@ trusted std::io::Write stand-in (R13: the by-value generic `mut writer: W` is always `&mut se.writer`): write_all appends the slice or fails
//@@ trusted u32::to_be_bytes routed to a wrapper with the big-endian spec (R14)
//@@ trusted usize is 64 bits

pub open spec fn be32(x: u32) -> Seq<u8> {
    seq![(x >> 24) as u8, ((x >> 16) & 0xff) as u8, ((x >> 8) & 0xff) as u8, (x & 0xff) as u8]
}
#[verifier::external_body]
pub fn u32_to_be_bytes(x: u32) -> (r: [u8; 4]) ensures r@ == be32(x) { x.to_be_bytes() }

#[verifier::external_body]
pub struct IoError { _p: u8 }
pub enum Error { Io(IoError), Other }
pub trait ErrInto<T>: Sized { spec fn conv(self) -> T; fn err_into(self) -> (r: T) ensures r == self.conv(); }
impl ErrInto<Error> for IoError { open spec fn conv(self) -> Error { Error::Io(self) } fn err_into(self) -> (r: Error) { Error::Io(self) } }
impl Error {
    #[verifier::external_body]
    pub fn too_long() -> (r: Self) { unimplemented!() }
}
impl From<IoError> for Error {
    #[verifier::external_body]
    fn from(e: IoError) -> Self { Error::Io(e) }
}
pub struct VecWriter { pub out: Vec<u8> }
impl VecWriter {
    #[verifier::external_body]
    pub fn write_all(&mut self, b: &[u8]) -> (r: Result<(), IoError>)
        ensures
            r is Ok ==> final(self).out@ == old(self).out@ + b@,
    { unimplemented!() }
}

//@@ type file=serde_amqp/src/format_code.rs kind=enum name=EncodingCodes keeprepr
//@@ end
//@@ type file=serde_amqp/src/util.rs kind=enum name=IsArrayElement
//@@ end
//@@ type file=serde_amqp/src/ser.rs kind=const name=U8_MAX
//@@ end
//@@ type file=serde_amqp/src/ser.rs kind=const name=U8_MAX_MINUS_1
//@@ end
//@@ type file=serde_amqp/src/ser.rs kind=const name=U32_MAX_MINUS_4
//@@ end
//@@ type file=serde_amqp/src/format.rs kind=const name=OFFSET_LIST8
//@@ end
//@@ type file=serde_amqp/src/format.rs kind=const name=OFFSET_LIST32
//@@ end
//@@ type file=serde_amqp/src/format.rs kind=const name=OFFSET_MAP8
//@@ end
//@@ type file=serde_amqp/src/format.rs kind=const name=OFFSET_MAP32
//@@ end

// ---- AMQP 1.0 compound headers, written from the specification (part 1, 1.6.22-1.6.24), not from format_code.rs ----
/// constructor is written unless the value is a non-first element of an array (one constructor per array)
pub open spec fn ctor(code: u8, e: IsArrayElement) -> Seq<u8> {
    if e is OtherElement { Seq::empty() } else { seq![code] }
}
/// 8-bit form: size (1 byte) counts everything after the size field = 1 count byte + body; count (1 byte)
pub open spec fn hdr8(code: u8, e: IsArrayElement, body_len: int, count: int) -> Seq<u8> {
    ctor(code, e) + seq![(body_len + 1) as u8, count as u8]
}
/// 32-bit form: size (4 bytes, big-endian) = 4 count bytes + body; count (4 bytes, big-endian)
pub open spec fn hdr32(code: u8, e: IsArrayElement, body_len: int, count: int) -> Seq<u8> {
    ctor(code, e) + be32((body_len + 4) as u32) + be32(count as u32)
}

//@@ fn file=serde_amqp/src/ser.rs name=write_transparent_vec
//@@ generics
//@@ qmark
//@@ param writer : &mut VecWriter
//@@ param buf : &[u8]
//@@ spec
    ensures
        r is Ok ==> final(writer).out@ == old(writer).out@ + buf@,       // [C05.transparent-vec.no-header] [C20.size.transparent-vec-adds-nothing] a transparent vector is written as the octets of its elements and nothing else: no constructor, no size, no count (what unit SERENTRY assumes of it and what the size pass counts)
//@@ end

//@@ fn file=serde_amqp/src/ser.rs name=write_list
//@@ generics
//@@ param writer : &mut VecWriter
//@@ param buf : &[u8]
//@@ subst `(__E1 as u32).to_be_bytes()` => `u32_to_be_bytes(__E1 as u32)` rule=R14
//@@ spec
    requires
        num <= buf@.len(),        // ASSUMED of the serializer call sites: every element of a list occupies at least one byte, so count <= byte length
    ensures
        r is Ok ==> final(writer).out@ == old(writer).out@ + (
            if !(*ext_is_array_elem is False) { hdr32(0xd0, *ext_is_array_elem, buf@.len() as int, num as int) }   // [C05.array.one-constructor-for-all-elements] [C03.rt.encoder-premise] an array has ONE element constructor: a list that is an array element is written in the 32-bit form whatever its own size (empty, short or long), so that every element body matches the constructor the first one wrote
            else if buf@.len() == 0 { seq![0x45u8] }                                                      // [C05.list.list0] [C03.rt.encoder-premise] the empty list is list0
            else if buf@.len() <= 254 { hdr8(0xc0, *ext_is_array_elem, buf@.len() as int, num as int) }     // [C05.list.list8] [C03.rt.encoder-premise] [C06.performative.list-header] list8: size = body + 1, count, both exact in 8 bits
            else { hdr32(0xd0, *ext_is_array_elem, buf@.len() as int, num as int) }                         // [C05.list.list32] [C03.rt.encoder-premise] [C06.performative.list-header] list32: big-endian size = body + 4, big-endian count
        ) + buf@,
        r is Ok ==> buf@.len() <= 0xffff_fffb,                                                              // [C05.list.too-long] a body that does not fit the 32-bit size field is refused
        r is Ok && *ext_is_array_elem is False && 0 < buf@.len() <= 254 ==> num <= 255 && buf@.len() + 1 <= 255,                           // [C03.list.no-truncation] the 8-bit form is chosen only when size and count fit in 8 bits
//@@ end

//@@ fn file=serde_amqp/src/ser.rs name=write_map
//@@ generics
//@@ param writer : &mut VecWriter
//@@ param buf : &[u8]
//@@ subst `(__E1 as u32).to_be_bytes()` => `u32_to_be_bytes(__E1 as u32)` rule=R14
//@@ spec
    requires
        num <= buf@.len(),        // ASSUMED of the serializer call sites (2 entries per pair, each at least one byte)
    ensures
        r is Ok ==> final(writer).out@ == old(writer).out@ + (
            if !(*ext_is_array_elem is False) { hdr32(0xd1, *ext_is_array_elem, buf@.len() as int, num as int) }   // [C05.array.one-constructor-for-all-elements] [C03.rt.encoder-premise]
            else if buf@.len() <= 254 { hdr8(0xc1, *ext_is_array_elem, buf@.len() as int, num as int) }     // [C05.map.map8] [C03.rt.encoder-premise] [C01.message.map-header] [C20.size.encoder-picks-the-form-the-size-pass-assumes]
            else { hdr32(0xd1, *ext_is_array_elem, buf@.len() as int, num as int) }                         // [C05.map.map32] [C03.rt.encoder-premise] [C01.message.map-header] [C20.size.encoder-picks-the-form-the-size-pass-assumes]
        ) + buf@,
        r is Ok ==> buf@.len() <= 0xffff_fffb,
        r is Ok && *ext_is_array_elem is False && buf@.len() <= 254 ==> num <= 255,                                                        // [C03.map.no-truncation]
//@@ end

//@@ fn file=serde_amqp/src/ser.rs name=write_array
//@@ generics
//@@ param writer : &mut VecWriter
//@@ param buf : &[u8]
//@@ subst `(__E1 as u32).to_be_bytes()` => `u32_to_be_bytes(__E1 as u32)` rule=R14
//@@ spec
    requires
        num <= buf@.len(),        // ASSUMED of the serializer call sites (this implementation writes at least one byte per array element)
    ensures
        r is Ok ==> final(writer).out@ == old(writer).out@ + (
            if !(*ext_is_array_elem is False) { hdr32(0xf0, *ext_is_array_elem, buf@.len() as int, num as int) }   // [C05.array.one-constructor-for-all-elements] [C03.rt.encoder-premise]
            else if buf@.len() <= 254 { hdr8(0xe0, *ext_is_array_elem, buf@.len() as int, num as int) }     // [C05.array.array8] [C03.rt.encoder-premise] array8: size = (constructor + elements) + 1, count
            else { hdr32(0xf0, *ext_is_array_elem, buf@.len() as int, num as int) }                         // [C05.array.array32] [C03.rt.encoder-premise]
        ) + buf@,
        r is Ok ==> buf@.len() <= 0xffff_fffb,
        r is Ok && *ext_is_array_elem is False && buf@.len() <= 254 ==> num <= 255,                                                        // [C03.array.no-truncation]
//@@ end

// ---- the size-only twins (size_ser.rs): what `serialized_size` adds for a compound of `len` body octets ----
//@@ fn file=serde_amqp/src/size_ser.rs name=list_size
//@@ spec
    ensures
        (r is Ok) == (len <= 0xffff_fffb),                                                            // [C20.size.compound-refusal] refused exactly when the encoder refuses
        r is Ok ==> r->Ok_0 == (if !(*is_array_element is False) { hdr32(0xd0, *is_array_element, len as int, 0) } else if len == 0 { seq![0x45u8] } else if len <= 254 { hdr8(0xc0, *is_array_element, len as int, 0) } else { hdr32(0xd0, *is_array_element, len as int, 0) }).len() + len,   // [C20.size.list] serialized_size of a list == header written by write_list + body, in every position
//@@ end

//@@ fn file=serde_amqp/src/size_ser.rs name=array_size
//@@ spec
    ensures
        (r is Ok) == (len <= 0xffff_fffb),                                                            // [C20.size.compound-refusal]
        r is Ok ==> r->Ok_0 == (if !(*is_array_element is False) { hdr32(0xf0, *is_array_element, len as int, 0) } else if len <= 254 { hdr8(0xe0, *is_array_element, len as int, 0) } else { hdr32(0xf0, *is_array_element, len as int, 0) }).len() + len,   // [C20.size.array]
//@@ end

//@@ fn file=serde_amqp/src/size_ser.rs name=map_size
//@@ spec
    ensures
        (r is Ok) == (len <= 0xffff_fffb),                                                            // [C20.size.compound-refusal]
        r is Ok ==> r->Ok_0 == (if !(*is_array_element is False) { hdr32(0xd1, *is_array_element, len as int, 0) } else if len <= 254 { hdr8(0xc1, *is_array_element, len as int, 0) } else { hdr32(0xd1, *is_array_element, len as int, 0) }).len() + len,   // [C20.size.map]
//@@ end

// ---- the size of a DESCRIBED composite (derive(SerializeComposite)): descriptor, then the list / map of its fields ----
//@@ type file=serde_amqp/src/util.rs kind=enum name=StructEncoding
//@@ end
impl Copy for StructEncoding {}
impl Clone for StructEncoding { fn clone(&self) -> (r: Self) ensures r == *self { *self } }
/// SizeSerializer: the two fields the struct serializers read. `struct_encoding()` = the innermost pending encoding (`.last().unwrap_or(&None)`), `struct_encoding.pop()` drops it
pub struct EncStack { pub v: Vec<StructEncoding> }
impl EncStack {
    pub fn pop(&mut self) -> (r: Option<StructEncoding>) ensures final(self).v@ == (if old(self).v@.len() > 0 { old(self).v@.drop_last() } else { old(self).v@ }) { self.v.pop() }
}
pub struct SizeSerializer { pub struct_encoding: EncStack, pub is_array_element: IsArrayElement }
pub open spec fn sp_top(s: Seq<StructEncoding>) -> StructEncoding { if s.len() > 0 { s.last() } else { StructEncoding::None } }
impl SizeSerializer {
    pub fn struct_encoding(&self) -> (r: &StructEncoding) ensures *r == sp_top(self.struct_encoding.v@) {
        if self.struct_encoding.v.len() > 0 { &self.struct_encoding.v[self.struct_encoding.v.len() - 1] } else { &StructEncoding::None }
    }
}
/// octets of a list / map holding `body` octets of fields, as the ENCODER writes it (write_list / write_map above)
pub open spec fn sp_list_octets(e: IsArrayElement, body: int) -> int {
    (if !(e is False) { hdr32(0xd0, e, body, 0) } else if body == 0 { seq![0x45u8] } else if body <= 254 { hdr8(0xc0, e, body, 0) } else { hdr32(0xd0, e, body, 0) }).len() + body
}
pub open spec fn sp_map_octets(e: IsArrayElement, body: int) -> int {
    (if !(e is False) { hdr32(0xd1, e, body, 0) } else if body <= 254 { hdr8(0xc1, e, body, 0) } else { hdr32(0xd1, e, body, 0) }).len() + body
}
//@@ type file=serde_amqp/src/size_ser.rs kind=struct name=StructSerializer
//@@ subst `<'a>` => `` rule=R30
//@@ subst `&'a mut SizeSerializer` => `SizeSerializer` rule=R30
//@@ end
//@@ type file=serde_amqp/src/size_ser.rs kind=struct name=TupleStructSerializer
//@@ subst `<'a>` => `` rule=R30
//@@ subst `&'a mut SizeSerializer` => `SizeSerializer` rule=R30
//@@ subst `field_role: FieldRole,` => `` rule=R11
//@@ end
impl StructSerializer {
//@@ fn file=serde_amqp/src/size_ser.rs impl=`impl ser::SerializeStruct for StructSerializer<'_>` name=end id=StructSerializer::end
//@@ ret Result<usize, Error>
//@@ selfmut
//@@ subst `|_v0| Error::too_long()` => `|_v0: usize| -> (o: Error) { Error::too_long() }` rule=R18
//@@ subst `|_v1| Error::too_long()` => `|_v1: usize| -> (o: Error) { Error::too_long() }` rule=R18
//@@ subst `|_v2| Error::too_long()` => `|_v2: usize| -> (o: Error) { Error::too_long() }` rule=R18
//@@ subst `|size| self.descriptor_size + size` => `|size: usize| -> (o: usize) requires size <= self.cumulated_size + 9 ensures o == self.descriptor_size + size { self.descriptor_size + size }` rule=optional-R18
//@@ spec
    requires
        old(self).descriptor_size + old(self).cumulated_size + 9 <= usize::MAX,      // sizes of in-memory values
    ensures
        r is Ok ==> r->Ok_0 == (match sp_top(old(self).se.struct_encoding.v@) {
            StructEncoding::None => sp_list_octets(old(self).se.is_array_element, old(self).cumulated_size as int),
            StructEncoding::DescribedList => old(self).descriptor_size + sp_list_octets(old(self).se.is_array_element, old(self).cumulated_size as int),   // [C20.size.described-composite] a described composite is its descriptor FOLLOWED by the list of its fields: the size announced is the descriptor's octets plus what the encoder writes for a list with that BODY (list0 for an empty body, list8 up to 254 body octets) -- the descriptor is not part of the body the header width is chosen from (`Accepted` = 00 53 24 45: 4 octets, not 6)
            StructEncoding::DescribedMap => old(self).descriptor_size + sp_map_octets(old(self).se.is_array_element, old(self).cumulated_size as int),     // [C20.size.described-composite]
            StructEncoding::DescribedBasic => old(self).descriptor_size + old(self).cumulated_size,
        }),
//@@ end
}
impl TupleStructSerializer {
//@@ fn file=serde_amqp/src/size_ser.rs impl=`impl ser::SerializeTupleStruct for TupleStructSerializer<'_>` name=end id=TupleStructSerializer::end
//@@ ret Result<usize, Error>
//@@ selfmut
//@@ subst `|_v0| Error::too_long()` => `|_v0: usize| -> (o: Error) { Error::too_long() }` rule=R18
//@@ subst `|_v1| Error::too_long()` => `|_v1: usize| -> (o: Error) { Error::too_long() }` rule=R18
//@@ subst `|size| self.descriptor_size + size` => `|size: usize| -> (o: usize) requires size <= self.cumulated_size + 9 ensures o == self.descriptor_size + size { self.descriptor_size + size }` rule=optional-R18
//@@ subst `unreachable!("TupleStructSerializer is NOT used for DescribedMap")` => `{ assume(false); Err(Error::Other) }` rule=R12
//@@ spec
    requires
        old(self).descriptor_size + old(self).cumulated_size + 9 <= usize::MAX,
        !(sp_top(old(self).se.struct_encoding.v@) is DescribedMap),       // ASSUMED: serialize_tuple_struct is not entered for a described map (the arm is `unreachable!`)
    ensures
        r is Ok ==> r->Ok_0 == (match sp_top(old(self).se.struct_encoding.v@) {
            StructEncoding::DescribedList => old(self).descriptor_size + sp_list_octets(old(self).se.is_array_element, old(self).cumulated_size as int),   // [C20.size.described-composite]
            StructEncoding::DescribedBasic => old(self).descriptor_size + old(self).cumulated_size,
            _ => sp_list_octets(old(self).se.is_array_element, old(self).cumulated_size as int),
        }),
//@@ end
}

} // verus!
fn main() {}
