//@@ unit BUILDER
#![feature(allocator_api)]
#![allow(unused_imports, unused_variables, dead_code, unused_mut, unused_parens)]
use vstd::prelude::*;

verus! {

global size_of usize == 8;

//@@ include common.rs
//@@ trusted Transport::negotiate_amqp_header / ConnectionEngine::open / Connection::new / the spawn closure are stand-ins that only record the arguments they were given (idle time-out handed to the transport, Open handed to the connection)
//@@ trusted newtype conversions `.map(Into::into)` between builder fields and Open fields erased (both sides are the same stand-in type here) (R16); leaf stand-ins opaque
//@@ trusted usize is 64 bits

pub type Milliseconds = u32;
pub type Uint = u32;
macro_rules! opaque {
    ($($n:ident),*) => { verus!{ $(
        #[verifier::external_body]
        pub struct $n { _p: u8 }
    )* } }
}
opaque!(Hostname, Locales, Caps, Fields, TlsS, SaslProfile, FramedW, FramedR, OpenError, ConnectionHandle, CtlTx, FrameTx);
pub struct MaxFrameSize(pub Uint);
pub struct ChannelMax(pub u16);
//@@ type file=fe2o3-amqp-types/src/definitions/constant_def.rs kind=const name=MIN_MAX_FRAME_SIZE
//@@ end
/// AMQP 1.0 part 2, 2.4.1: 'MIN-MAX-FRAME-SIZE 512: the lower bound for the agreed maximum frame size'
proof fn spec_min_max_frame_size() ensures MIN_MAX_FRAME_SIZE == 512 {}      // [C06.constants.min-max-frame-size] [C17.constants.min-max-frame-size]
pub const DEFAULT_CONTROL_CHAN_BUF: usize = 128;

pub fn max_u32(a: u32, b: u32) -> (r: u32) ensures r == (if a >= b { a } else { b }) { if a >= b { a } else { b } }

// Builder<'a, Mode, Tls>: the real field list with stand-in leaf types (R11; lifetimes and type-state markers erased)
pub struct Builder {
    pub container_id: String,
    pub hostname: Option<Hostname>,
    pub max_frame_size: MaxFrameSize,
    pub channel_max: ChannelMax,
    pub idle_time_out: Option<Milliseconds>,
    pub outgoing_locales: Option<Locales>,
    pub incoming_locales: Option<Locales>,
    pub offered_capabilities: Option<Caps>,
    pub desired_capabilities: Option<Caps>,
    pub properties: Option<Fields>,
    pub tls_connector: TlsS,
    pub buffer_size: usize,
    pub sasl_profile: Option<SaslProfile>,
}
pub struct Open {
    pub container_id: String,
    pub hostname: Option<Hostname>,
    pub max_frame_size: MaxFrameSize,
    pub channel_max: ChannelMax,
    pub idle_time_out: Option<Milliseconds>,
    pub outgoing_locales: Option<Locales>,
    pub incoming_locales: Option<Locales>,
    pub offered_capabilities: Option<Caps>,
    pub desired_capabilities: Option<Caps>,
    pub properties: Option<Fields>,
}
pub enum ConnectionState { Start, Other }
pub struct Duration { pub ms: u64 }
impl Duration { pub fn from_millis(ms: u64) -> (r: Self) ensures r.ms == ms { Duration { ms } } }

/// what the transport and the connection were built with
pub struct TransportS { pub idle_timeout: Option<Duration> }
pub struct Connection { pub local_open: Open }
pub struct ConnectionEngine { pub transport: TransportS, pub connection: Connection }
pub struct Spawned { pub engine: Ghost<Option<ConnectionEngine>> }
impl TransportS {
    #[verifier::external_body]
    pub fn negotiate_amqp_header(fw: FramedW, fr: FramedR, local_state: &mut ConnectionState, idle_timeout: Option<Duration>) -> (r: Result<TransportS, OpenError>)
        ensures r is Ok ==> r->Ok_0.idle_timeout == idle_timeout,
    { unimplemented!() }
}
impl Connection {
    #[verifier::external_body]
    pub fn new(local_state: ConnectionState, local_open: Open) -> (r: Self) ensures r.local_open == local_open { unimplemented!() }
}
impl ConnectionEngine {
    #[verifier::external_body]
    pub fn open(transport: TransportS, connection: Connection, control: CtlRx, outgoing: FrameRx) -> (r: Result<ConnectionEngine, OpenError>)
        ensures r is Ok ==> r->Ok_0.transport == transport && r->Ok_0.connection == connection,
    { unimplemented!() }
}
opaque!(CtlRx, FrameRx);
#[verifier::external_body]
pub fn ctl_channel(n: usize) -> (r: (CtlTx, CtlRx)) { unimplemented!() }
#[verifier::external_body]
pub fn frame_channel(n: usize) -> (r: (FrameTx, FrameRx)) { unimplemented!() }
impl Spawned {
    #[verifier::external_body]
    pub fn call(&mut self, engine: ConnectionEngine, c: CtlTx, f: FrameTx) -> (r: Result<ConnectionHandle, OpenError>)
        ensures final(self).engine@ == Some(engine),
    { unimplemented!() }
}

impl Open {
//@@ fn file=fe2o3-amqp/src/connection/builder.rs impl=`impl<'a, Tls> From<Builder<'a, mode::ConnectorWithId, Tls>> for Open` name=from as=open_from
//@@ param builder : Builder
//@@ ret Open
//@@ subst `.map(Into::into)` => `` rule=R16
//@@ subst `std::cmp::max( MIN_MAX_FRAME_SIZE as u32, builder.max_frame_size.0, )` => `max_u32(MIN_MAX_FRAME_SIZE as u32, builder.max_frame_size.0)` rule=R16
//@@ subst `builder.idle_time_out.map(|v| v / 2)` => `builder.idle_time_out.map(|v: u32| -> (o: u32) ensures o == v / 2 { v / 2 })` rule=R18 unless `\.map\(`
//@@ spec
    ensures
        r.idle_time_out == (match builder.idle_time_out { Some(v) => Some((v / 2) as u32), None => None::<u32> }),   // [C17.idle.advertised-half] the idle-time-out advertised to the peer is half of the configured one (AMQP 2.4.5), never more
        r.max_frame_size.0 >= 512 && r.max_frame_size.0 >= builder.max_frame_size.0,                                 // [C06.open.max-frame-size] never advertises less than MIN-MAX-FRAME-SIZE
        r.channel_max == builder.channel_max,                                                                        // [C17.channel-max.advertised]
//@@ end
}

impl Builder {
//@@ fn file=fe2o3-amqp/src/connection/builder.rs impl=`impl<Tls> Builder<'_, mode::ConnectorWithId, Tls>` name=connect_amqp_with_framed
//@@ generics
//@@ nowhere
//@@ param framed_write : FramedW
//@@ param framed_read : FramedR
//@@ param spawn_engine_fn : &mut Spawned
//@@ ret Result<ConnectionHandle, OpenError>
//@@ subst `Transport::negotiate_amqp_header(` => `TransportS::negotiate_amqp_header(` rule=R9
//@@ subst `Open::from(self)` => `Open::open_from(self)` rule=R16
//@@ subst `mpsc::channel(DEFAULT_CONTROL_CHAN_BUF)` => `ctl_channel(DEFAULT_CONTROL_CHAN_BUF)` rule=R9
//@@ subst `mpsc::channel(buffer_size)` => `frame_channel(buffer_size)` rule=R9
//@@ subst `(spawn_engine_fn)(engine, control_tx, outgoing_tx)` => `spawn_engine_fn.call(engine, control_tx, outgoing_tx)` rule=R19
//@@ subst `.map(|millis| Duration::from_millis(millis as u64))` => `.map(|millis: u32| -> (o: Duration) ensures o.ms == millis as u64 { Duration::from_millis(millis as u64) })` rule=R18 unless `\.map\(`
//@@ spec
    requires
        old(spawn_engine_fn).engine@ is None,
    ensures
        final(spawn_engine_fn).engine@ is Some ==> ({
            let e = final(spawn_engine_fn).engine@->Some_0;
            &&& e.transport.idle_timeout == (match self.idle_time_out { Some(ms) => Some(Duration { ms: ms as u64 }), None => None::<Duration> })   // [C17.idle.local-deadline] the endpoint's own time-out is armed with the CONFIGURED value: the connection is torn down only after nothing has arrived for that long (not half of it)
            &&& e.connection.local_open.idle_time_out == (match self.idle_time_out { Some(v) => Some((v / 2) as u32), None => None::<u32> })       // [C17.idle.open-advertises-half]
        }),
//@@ end
}

} // verus!
fn main() {}
