//@@ unit TIMERS
#![feature(allocator_api)]
#![allow(unused_imports, unused_variables, dead_code, unused_mut, unused_parens)]
use vstd::prelude::*;

verus! {

//@@ trusted time is a stand-in: Duration and Instant are numbers of nanoseconds; `Instant::now()` yields an arbitrary instant `t` recorded in a ghost clock argument; a Delay (tokio Sleep) is its deadline (from_duration(d): now + d, recorded as `armed_for`; reset_at(t): t); an Interval (tokio Interval) is its period; whether and when they FIRE is tokio's business and outside every contract -- decided here: which values they are armed with, what a reset re-arms them to, and what the wrappers make of a tick. Pin / Box::pin / pin_project are erased (R3)

#[verifier::external_body]
#[derive(Clone, Copy)]
pub struct Duration { _p: u64 }
impl Duration { pub uninterp spec fn ns(&self) -> nat; }
#[verifier::external_body]
pub struct InstantS { _p: u64 }
impl InstantS {
    pub uninterp spec fn t(&self) -> int;
    pub uninterp spec fn spec_now() -> int;
    #[verifier::external_body]
    pub fn now() -> (r: InstantS) ensures r.t() == InstantS::spec_now() { unimplemented!() }
    #[verifier::external_body]
    pub fn add(self, duration: Duration) -> (r: InstantS) ensures r.t() == self.t() + duration.ns() { unimplemented!() }
}
pub struct DelayS { pub armed_for: Ghost<Option<Duration>>, pub deadline: Ghost<int>, pub elapsed: Ghost<bool> }
pub struct Context {}
pub enum Poll<T> { Ready(T), Pending }
impl DelayS {
    #[verifier::external_body]
    pub fn from_duration(duration: Duration) -> (r: DelayS) ensures r.armed_for@ == Some(duration), r.deadline@ == InstantS::spec_now() + duration.ns() { unimplemented!() }
    #[verifier::external_body]
    pub fn reset_at(&mut self, at: InstantS) ensures final(self).deadline@ == at.t(), final(self).armed_for == old(self).armed_for { unimplemented!() }
    #[verifier::external_body]
    pub fn poll(&mut self, cx: &mut Context) -> (r: Poll<()>) ensures r is Ready == old(self).elapsed@, final(self).deadline == old(self).deadline { unimplemented!() }
}
pub struct IdleTimeout { pub delay: DelayS, pub duration: Duration }
impl IdleTimeout {
//@@ fn file=fe2o3-amqp/src/util/mod.rs impl=`~impl<T>IdleTimeout<T>where` name=new
//@@ subst `Box::pin(T::from_duration(duration))` => `DelayS::from_duration(duration)` rule=R3
//@@ spec
    ensures r.duration == duration, r.delay.armed_for@ == Some(duration), r.delay.deadline@ == InstantS::spec_now() + duration.ns(),     // [C17.idle.armed-with-the-configured-time-out] the local idle timer is armed with exactly the duration it is given (unit BUILDER: the configured idle time-out) and remembers it for every re-arming
//@@ end

//@@ fn file=fe2o3-amqp/src/util/mod.rs impl=`~impl<T>IdleTimeout<T>where` name=reset
//@@ subst `T::Instant::now()` => `InstantS::now()` rule=R7
//@@ subst `self.delay.as_mut().reset_at(next)` => `self.delay.reset_at(next)` rule=R3
//@@ spec
    ensures final(self).delay.deadline@ == InstantS::spec_now() + old(self).duration.ns(), final(self).duration == old(self).duration,   // [C17.idle.reset-rearms-the-full-time-out] every incoming item (unit TRANSPORT: poll_next restarts the timer) moves the deadline to NOW + the full configured time-out: the connection is not torn down while frames keep arriving in time, and it is once nothing has arrived for that long
//@@ end

//@@ fn file=fe2o3-amqp/src/util/mod.rs impl=`impl Future for IdleTimeout` name=poll
//@@ subst `(mut self: Pin<&mut Self>,` => `(&mut self,` rule=R3
//@@ param cx : &mut Context
//@@ ret Poll<()>
//@@ subst `let delay = Pin::new(&mut self.delay);` => `let delay = &mut self.delay;` rule=R3
//@@ spec
    ensures r is Ready == old(self).delay.elapsed@, final(self).delay.deadline == old(self).delay.deadline,     // [C17.idle.elapsed-is-the-delays] the idle time-out is reported exactly when its delay has elapsed
//@@ end
}

pub struct IntervalS { pub period: Duration, pub due: Ghost<bool> }
impl IntervalS {
    #[verifier::external_body]
    pub fn new_with_period(period: Duration) -> (r: IntervalS)
        requires period.ns() > 0,                    // tokio::time::interval panics on a zero period
        ensures r.period == period,
    { unimplemented!() }
    #[verifier::external_body]
    pub fn poll_tick(&mut self, cx: &mut Context) -> (r: Poll<InstantS>) ensures r is Ready == old(self).due@, final(self).period == old(self).period { unimplemented!() }
}
pub struct IntervalStream { pub interval: IntervalS }
impl IntervalStream {
//@@ fn file=fe2o3-amqp/src/connection/heartbeat.rs impl=`~impl<T>IntervalStream<T>where` name=new as=interval_stream_new
//@@ subst `T::new_with_period(period)` => `IntervalS::new_with_period(period)` rule=R7
//@@ spec
    requires period.ns() > 0,
    ensures r.interval.period == period,          // [C17.heartbeat.period-as-given]
//@@ end

//@@ fn file=fe2o3-amqp/src/connection/heartbeat.rs impl=`~impl<T>StreamforIntervalStream<T>where` name=poll_next as=interval_stream_poll_next
//@@ subst `(self: std::pin::Pin<&mut Self>,` => `(&mut self,` rule=R3
//@@ param cx : &mut Context
//@@ ret Poll<Option<InstantS>>
//@@ subst `let this = self.get_mut();` => `let this = self;` rule=R3
//@@ spec
    ensures r is Ready == old(self).interval.due@, r is Ready ==> r->Ready_0 is Some, final(self).interval.period == old(self).interval.period,
//@@ end
}
pub struct IoError {}
pub struct HeartBeat { pub interval: Option<IntervalStream> }
impl HeartBeat {
//@@ fn file=fe2o3-amqp/src/connection/heartbeat.rs impl=`impl HeartBeat` name=never
//@@ spec
    ensures r.interval is None,                   // [C17.heartbeat.never-has-no-timer]
//@@ end
//@@ fn file=fe2o3-amqp/src/connection/heartbeat.rs impl=`impl HeartBeat` name=new
//@@ subst `IntervalStream::new(period)` => `IntervalStream::interval_stream_new(period)` rule=R2
//@@ spec
    requires period.ns() > 0,                       // [C15.heartbeat.zero-period-never-armed] (the call sites in unit CONNENG establish it: D10)
    ensures r.interval is Some && r.interval->Some_0.interval.period == period,      // [C17.heartbeat.period-as-given] the heartbeat ticks with exactly the period it is given (unit CONNENG: less than the peer's idle time-out)
//@@ end
//@@ fn file=fe2o3-amqp/src/connection/heartbeat.rs impl=`impl Stream for HeartBeat` name=poll_next
//@@ subst `self: std::pin::Pin<&mut Self>,` => `&mut self,` rule=R3
//@@ param cx : &mut Context
//@@ ret Poll<Option<Result<(), IoError>>>
//@@ subst `let this = self.project();` => `let this = self;` rule=R3
//@@ subst `this.interval.as_pin_mut()` => `this.interval.as_mut()` rule=R3
//@@ subst `interval.poll_next(cx)` => `interval.interval_stream_poll_next(cx)` rule=R2
//@@ spec
    ensures
        old(self).interval is None ==> r is Pending,                                                       // [C17.heartbeat.never-does-not-tick] without a peer idle time-out no empty frame is ever due
        old(self).interval is Some ==> (r is Ready == old(self).interval->Some_0.interval.due@) && (r is Ready ==> r->Ready_0 == Some(Ok::<(), IoError>(()))),   // [C17.heartbeat.every-tick-is-handed-on] every tick of the interval reaches the engine as one heartbeat event (unit CONNENG: one empty frame per event)
//@@ end
}

} // verus!
fn main() {}
