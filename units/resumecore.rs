//@@ unit RESUMECORE
#![feature(allocator_api)]
#![allow(unused_imports, unused_variables, dead_code, unused_mut, unused_parens)]
use vstd::prelude::*;

verus! {

//@@ trusted the two `resume_incoming_attach` cores (link/sender.rs, link/receiver.rs) are verified against stand-ins of the steps they are made of -- reallocate_output_handle (unit WIRING), the link's send_attach / on_incoming_attach (units LINK, LINKATTACH), exchange_attach (unit LINKEXCH), handle_resuming_delivery / resend (unit SENDINNER), detach_with_error (unit LINKDETACH), set_credit (unit LINKFLOW) -- each of which RECORDS that it ran, with what, in one log; their answers are uninterpreted. What is decided here is the ORDER and the NUMBER of those steps and what is handed from one to the next
//@@ trusted `?` conversions between the error types are the code's own From impls (thiserror #[from]): the error is kept; modelled as one opaque error type
//@@ trusted `resend_buf.drain(..)` yields the buffered messages in order and leaves the buffer empty (std)

macro_rules! opaque {
    ($($n:ident),*) => { verus!{ $(
        #[verifier::external_body]
        pub struct $n { _p: u8 }
    )* } }
}
opaque!(Attach, DeliveryTag, ResumingDelivery, UnsettledMessage, ChanS, ErrS);
pub trait ErrInto<T>: Sized { spec fn conv(self) -> T; fn err_into(self) -> (r: T) ensures r == self.conv(); }
impl ErrInto<ErrS> for ErrS { open spec fn conv(self) -> ErrS { self } fn err_into(self) -> (r: ErrS) { let e = self; assert(e == <ErrS as ErrInto<ErrS>>::conv(self)); e } }
pub trait AwaitS: Sized { type Out; spec fn resolved(self) -> Self::Out; fn await_s(self) -> (r: Self::Out) ensures r == self.resolved(); }
impl<T, E> AwaitS for Result<T, E> { type Out = Result<T, E>; open spec fn resolved(self) -> Result<T, E> { self } fn await_s(self) -> (r: Result<T, E>) { self } }

/// one step of a resume, as the stand-ins record it
pub enum Step {
    Realloc,
    SendAttach { reattaching: bool },
    PeerAttach(Attach),
    Exchange { reattaching: bool },
    ReadCredit,
    SetCredit(u32),
    Resuming(DeliveryTag, ResumingDelivery),
    Resend(UnsettledMessage),
    Detach,
}

// ================================================================ receiver
pub mod rcv {
use super::*;
//@@ type file=fe2o3-amqp/src/link/mod.rs kind=enum name=ReceiverAttachExchange
//@@ end
pub struct FlowStateS { pub log: Ghost<Seq<Step>>, pub credit_now: Ghost<u32> }
pub struct LinkS { pub log: Ghost<Seq<Step>>, pub flow_credit: Ghost<u32>, pub g: Ghost<int> }
pub uninterp spec fn send_attach_res(l: LinkS, reattaching: bool) -> Result<(), ErrS>;
pub uninterp spec fn peer_attach_res(l: LinkS, a: Attach) -> Result<ReceiverAttachExchange, ErrS>;
pub uninterp spec fn credit_after(l: LinkS) -> u32;
impl LinkS {
    #[verifier::external_body]
    pub fn send_attach(&mut self, outgoing: &ChanS, session: &ChanS, is_reattaching: bool) -> (r: Result<(), ErrS>)
        ensures final(self).log@ == old(self).log@.push(Step::SendAttach { reattaching: is_reattaching }), r == send_attach_res(*old(self), is_reattaching),
    { unimplemented!() }
    #[verifier::external_body]
    pub fn on_incoming_attach(&mut self, remote_attach: Attach) -> (r: Result<ReceiverAttachExchange, ErrS>)
        ensures final(self).log@ == old(self).log@.push(Step::PeerAttach(remote_attach)), r == peer_attach_res(*old(self), remote_attach),
    { unimplemented!() }
    /// `self.link.flow_state.link_credit()`: the credit the link's flow state holds at this moment
    #[verifier::external_body]
    pub fn flow_state_link_credit(&mut self) -> (r: u32)
        ensures final(self).log@ == old(self).log@.push(Step::ReadCredit), r == credit_after(*old(self)),
    { unimplemented!() }
}
pub struct ReceiverInner { pub link: LinkS, pub outgoing: ChanS, pub session: ChanS }
pub uninterp spec fn realloc_res(i: ReceiverInner) -> Result<(), ErrS>;
pub uninterp spec fn exchange_res(i: ReceiverInner, reattaching: bool) -> Result<ReceiverAttachExchange, ErrS>;
pub uninterp spec fn set_credit_res(i: ReceiverInner, c: u32) -> Result<(), ErrS>;
impl ReceiverInner {
    #[verifier::external_body]
    pub fn reallocate_output_handle(&mut self) -> (r: Result<(), ErrS>)
        ensures final(self).link.log@ == old(self).link.log@.push(Step::Realloc), r == realloc_res(*old(self)), final(self).outgoing == old(self).outgoing, final(self).session == old(self).session,
    { unimplemented!() }
    #[verifier::external_body]
    pub fn exchange_attach(&mut self, is_reattaching: bool) -> (r: Result<ReceiverAttachExchange, ErrS>)
        ensures final(self).link.log@ == old(self).link.log@.push(Step::Exchange { reattaching: is_reattaching }), r == exchange_res(*old(self), is_reattaching), final(self).outgoing == old(self).outgoing, final(self).session == old(self).session,
    { unimplemented!() }
    #[verifier::external_body]
    pub fn set_credit(&mut self, credit: u32) -> (r: Result<(), ErrS>)
        ensures final(self).link.log@ == old(self).link.log@.push(Step::SetCredit(credit)), r == set_credit_res(*old(self), credit), final(self).outgoing == old(self).outgoing, final(self).session == old(self).session,
    { unimplemented!() }

//@@ fn file=fe2o3-amqp/src/link/receiver.rs impl=`impl ReceiverInner<ReceiverLink<Target>>` name=resume_incoming_attach id=ReceiverInner::resume_incoming_attach
//@@ awaitcall
//@@ qmark
//@@ ret Result<ReceiverAttachExchange, ErrS>
//@@ subst `self.link.flow_state.link_credit()` => `self.link.flow_state_link_credit()` rule=R9
//@@ spec
    ensures
        ({
            let l0 = old(self).link.log@;
            let l1 = final(self).link.log@;
            let n0 = old(self).link.log@.len() as int;
            &&& l1.len() >= n0 + 1 && l1.subrange(0, n0) =~= l0 && l1[n0] == Step::Realloc       // [C11.resume.handle-first] [C13.resume.handle-first] the first thing a resume does is to give the link a handle (and a routing entry) in the session it now stands on; only then is anything written
            &&& initial_remote_attach is Some ==> (l1.len() >= n0 + 2 ==> l1[n0 + 1] == (Step::SendAttach { reattaching: is_reattaching }))
            &&& initial_remote_attach is Some ==> (l1.len() >= n0 + 3 ==> l1[n0 + 2] == Step::PeerAttach(initial_remote_attach->Some_0))       // [C13.resume.own-attach-then-the-peers] with the peer's attach in hand: the own attach goes out first (carrying the re-attach decision), then the peer's attach -- that one -- is taken up
            &&& initial_remote_attach is None ==> (l1.len() >= n0 + 2 ==> l1[n0 + 1] == (Step::Exchange { reattaching: is_reattaching }))
            &&& r is Ok ==> ({
                let n = if initial_remote_attach is Some { n0 + 3 } else { n0 + 2 };
                &&& l1.len() == n + 2 && l1[n] == Step::ReadCredit && l1[n + 1] is SetCredit       // [C09.resume.credit-reannounced-after-the-exchange] [C08.resume.credit-reannounced-after-the-exchange] the credit is read from the flow state and announced to the sender AFTER the attach exchange -- the flow that carries it then reports the delivery-count agreed in THIS attach, not the one of before the detach -- and it is the last step
            })
            &&& l1.len() <= n0 + 5
        }),
//@@ end
}

pub enum ReceiverAttachError { IllegalState, Other }
impl ReceiverInner {
//@@ fn file=fe2o3-amqp/src/link/receiver.rs impl=`~impl<L>LinkEndpointInnerReattachforReceiverInner<L>where` name=handle_reattach_outcome id=ReceiverInner::handle_reattach_outcome
//@@ orsplit
//@@ blockarms
//@@ ret Result<&mut Self, ReceiverAttachError>
//@@ spec
    ensures (r is Ok) == (outcome is Complete), r is Ok ==> *r->Ok_0 == *old(self) && *final(self) == *final(r->Ok_0), r is Err ==> r->Err_0 is IllegalState && *final(self) == *old(self),       // [C13.reattach.only-a-complete-exchange-counts] a re-attach (a fresh attach: no unsettled deliveries on either side) is done only if the exchange came back complete; an exchange that talks about deliveries to resume is refused as an illegal state, the endpoint untouched
//@@ end
}
} // mod rcv

// ================================================================ sender
pub mod snd {
use super::*;
pub enum SenderAttachExchange { Complete, IncompleteUnsettled(Vec<(DeliveryTag, ResumingDelivery)>), Resume(Vec<(DeliveryTag, ResumingDelivery)>) }
pub struct LinkS { pub log: Ghost<Seq<Step>>, pub g: Ghost<int> }
pub uninterp spec fn send_attach_res(l: LinkS, reattaching: bool) -> Result<(), ErrS>;
pub uninterp spec fn peer_attach_res(l: LinkS, a: Attach) -> Result<SenderAttachExchange, ErrS>;
impl LinkS {
    #[verifier::external_body]
    pub fn send_attach(&mut self, outgoing: &ChanS, session: &ChanS, is_reattaching: bool) -> (r: Result<(), ErrS>)
        ensures final(self).log@ == old(self).log@.push(Step::SendAttach { reattaching: is_reattaching }), r == send_attach_res(*old(self), is_reattaching),
    { unimplemented!() }
    #[verifier::external_body]
    pub fn on_incoming_attach(&mut self, remote_attach: Attach) -> (r: Result<SenderAttachExchange, ErrS>)
        ensures final(self).log@ == old(self).log@.push(Step::PeerAttach(remote_attach)), r == peer_attach_res(*old(self), remote_attach),
    { unimplemented!() }
}
pub struct SenderInner { pub link: LinkS, pub outgoing: ChanS, pub session: ChanS }
pub uninterp spec fn exchange_res(i: SenderInner, reattaching: bool) -> Result<SenderAttachExchange, ErrS>;
/// the steps of handling the resuming deliveries `ds[0..k)` in order
pub open spec fn resumed(ds: Seq<(DeliveryTag, ResumingDelivery)>, k: int) -> Seq<Step>
    decreases k
{
    if k <= 0 { Seq::empty() } else { resumed(ds, k - 1).push(Step::Resuming(ds[k - 1].0, ds[k - 1].1)) }
}
pub open spec fn resent(ms: Seq<UnsettledMessage>, k: int) -> Seq<Step>
    decreases k
{
    if k <= 0 { Seq::empty() } else { resent(ms, k - 1).push(Step::Resend(ms[k - 1])) }
}
impl SenderInner {
    #[verifier::external_body]
    pub fn reallocate_output_handle(&mut self) -> (r: Result<(), ErrS>)
        ensures final(self).link.log@ == old(self).link.log@.push(Step::Realloc), final(self).outgoing == old(self).outgoing, final(self).session == old(self).session,
    { unimplemented!() }
    #[verifier::external_body]
    pub fn exchange_attach(&mut self, is_reattaching: bool) -> (r: Result<SenderAttachExchange, ErrS>)
        ensures final(self).link.log@ == old(self).link.log@.push(Step::Exchange { reattaching: is_reattaching }), r == exchange_res(*old(self), is_reattaching), final(self).outgoing == old(self).outgoing, final(self).session == old(self).session,
    { unimplemented!() }
    /// unit SENDINNER: a resuming delivery is restated / aborted / resumed, or its message is put into the re-send buffer
    #[verifier::external_body]
    pub fn handle_resuming_delivery(&mut self, delivery_tag: DeliveryTag, resuming: ResumingDelivery, resend_buf: &mut Vec<UnsettledMessage>) -> (r: Result<(), ErrS>)
        ensures final(self).link.log@ == old(self).link.log@.push(Step::Resuming(delivery_tag, resuming)), final(self).outgoing == old(self).outgoing, final(self).session == old(self).session,
    { unimplemented!() }
    #[verifier::external_body]
    pub fn resend(&mut self, unsettled_message: UnsettledMessage) -> (r: Result<(), ErrS>)
        ensures final(self).link.log@ == old(self).link.log@.push(Step::Resend(unsettled_message)), final(self).outgoing == old(self).outgoing, final(self).session == old(self).session,
    { unimplemented!() }
    #[verifier::external_body]
    pub fn detach_with_error(&mut self, error: Option<ErrS>) -> (r: Result<(), ErrS>)
        ensures final(self).link.log@ == old(self).link.log@.push(Step::Detach), final(self).outgoing == old(self).outgoing, final(self).session == old(self).session,
    { unimplemented!() }
}
/// `resend_buf.drain(..)` collected: the buffered messages in order, the buffer empty afterwards
#[verifier::external_body]
pub fn drain_all(v: &mut Vec<UnsettledMessage>) -> (r: Vec<UnsettledMessage>) ensures r@ == old(v)@, final(v)@.len() == 0 { unimplemented!() }

/// a log that is made of whole rounds: every exchange the sender starts is either the last thing in the log (the round is in progress / was cut short by an error)
/// or is followed by the handling of what it returned; `rounds_ok(l, from)`: from index `from` on, the log holds no PeerAttach step (the peer's attach is used in the first round only)
pub open spec fn no_peer_attach_from(l: Seq<Step>, from: int) -> bool { forall|i: int| from <= i < l.len() ==> !(#[trigger] l[i] is PeerAttach) }

/// the log before the call is kept and the first new step is the handle allocation
pub open spec fn base(l: Seq<Step>, l0: Seq<Step>, n0: int) -> bool { n0 == l0.len() && l.len() >= n0 + 1 && (forall|i: int| 0 <= i < n0 ==> #[trigger] l[i] == l0[i]) && l[n0] == Step::Realloc }
/// once the peer's attach (if the caller had one) has been taken: it opened the first round, behind the own attach, and no later round takes up a peer attach
pub open spec fn rounds(l: Seq<Step>, n0: int, first: Option<Attach>, reattaching: bool) -> bool {
    match first {
        Some(a) => l.len() >= n0 + 3 && l[n0 + 1] == (Step::SendAttach { reattaching }) && l[n0 + 2] == Step::PeerAttach(a) && no_peer_attach_from(l, n0 + 3),
        None => no_peer_attach_from(l, n0 + 1),
    }
}
/// no attach exchange directly follows a re-send: the round in which messages were sent again is closed (by the detach) before the next one opens
pub open spec fn suspended_after_resend(l: Seq<Step>) -> bool { forall|i: int| 1 <= i < l.len() && #[trigger] l[i] is Exchange ==> !(l[i - 1] is Resend) }
impl SenderInner {
//@@ fn file=fe2o3-amqp/src/link/sender.rs impl=`impl SenderInner<SenderLink<Target>>` name=resume_incoming_attach id=SenderInner::resume_incoming_attach
//@@ shape loops=loop,for,for,for
//@@ awaitcall
//@@ qmark
//@@ ret Result<(), ErrS>
//@@ attr #[verifier::exec_allows_no_decreases_clause]
//@@ attr #[verifier::loop_isolation(false)]
//@@ attr #[verifier::allow_complex_invariants]
//@@ subst `resend_buf.drain(..)` => `drain_all(&mut resend_buf)` rule=R9
//@@ entry
    let ghost l0 = self.link.log@;
    let ghost first = initial_remote_attach;
    let ghost n0: int = l0.len() as int;
//@@ loop 0
            invariant
                base(self.link.log@, l0, n0),
                initial_remote_attach is Some ==> initial_remote_attach == first && self.link.log@.len() == n0 + 1,
                initial_remote_attach is None ==> rounds(self.link.log@, n0, first, is_reattaching),
                suspended_after_resend(self.link.log@) || !suspended_after_resend(l0), !(self.link.log@.last() is Resend),
            ensures initial_remote_attach is None, self.link.log@.last() is Exchange || self.link.log@.last() is PeerAttach,
//@@ loop 1
                invariant base(self.link.log@, l0, n0), initial_remote_attach is None, rounds(self.link.log@, n0, first, is_reattaching), suspended_after_resend(self.link.log@) || !suspended_after_resend(l0), !(self.link.log@.last() is Resend),
//@@ loop 2
                invariant base(self.link.log@, l0, n0), initial_remote_attach is None, rounds(self.link.log@, n0, first, is_reattaching), suspended_after_resend(self.link.log@) || !suspended_after_resend(l0), !(self.link.log@.last() is Resend),
//@@ loop 3
                invariant base(self.link.log@, l0, n0), initial_remote_attach is None, rounds(self.link.log@, n0, first, is_reattaching), suspended_after_resend(self.link.log@) || !suspended_after_resend(l0),
//@@ spec
    ensures
        base(final(self).link.log@, old(self).link.log@, old(self).link.log@.len() as int),       // [C11.resume.handle-first] [C13.resume.handle-first] the first thing a resume does is to give the link a handle (and a routing entry) in the session it now stands on
        r is Ok ==> rounds(final(self).link.log@, old(self).link.log@.len() as int, initial_remote_attach, is_reattaching),       // [C13.resume.own-attach-then-the-peers] [C13.resume.peers-attach-used-once] with the peer's attach in hand the own attach goes out first and then THAT attach is taken up -- in the first round only: after a suspend-and-retry round the exchange is a fresh one
        suspended_after_resend(old(self).link.log@) ==> suspended_after_resend(final(self).link.log@),       // [C13.resume.resend-round-is-suspended] [C02.resume.resend-round-is-suspended] once unsettled messages have been sent again the link is suspended (detached) before the next attach exchange: the two ends re-attempt the resumption from the state the re-sent deliveries left (AMQP 1.0 part 2, 2.6.13)
        r is Ok ==> final(self).link.log@.last() is Exchange || final(self).link.log@.last() is PeerAttach,       // [C13.resume.ends-on-an-attach-exchange] [C02.resume.ends-on-an-attach-exchange] a resume reports success only right after an attach exchange that left nothing to resume: a round in which deliveries were resumed or re-sent is followed by another exchange (after a detach, where messages were re-sent), it is never the last one
//@@ end
}

pub enum SenderAttachError { IllegalState, Other }
impl SenderInner {
//@@ fn file=fe2o3-amqp/src/link/sender.rs impl=`~impl<L>LinkEndpointInnerReattachforSenderInner<L>where` name=handle_reattach_outcome id=SenderInner::handle_reattach_outcome
//@@ orsplit
//@@ blockarms
//@@ ret Result<&mut Self, SenderAttachError>
//@@ spec
    ensures (r is Ok) == (outcome is Complete), r is Ok ==> *r->Ok_0 == *old(self) && *final(self) == *final(r->Ok_0), r is Err ==> r->Err_0 is IllegalState && *final(self) == *old(self),       // [C13.reattach.only-a-complete-exchange-counts]
//@@ end
}
} // mod snd

} // verus!
fn main() {}
