//@@ trusted sharing is modelled by IDENTITY (R8b): every reference-counted cell and channel end (the flow state, the unsettled map, the stop-reason cell, mpsc senders / receivers, Notify) is a stand-in with a ghost identity; `.clone()` keeps it, `Arc::new(..)` / `mpsc::channel(..)` / `Notify::new()` make a new one (the two ends of ONE channel share one identity). What the cells hold and how they are used is the business of the units named in the clauses
//@@ trusted session::allocate_link (unit HANDLES / SESSION) is a stand-in: on Ok, `registered(handle)` is the relay it was given; exchange_attach / handle_attach_error / set_credit are stand-ins (units LINKATTACH, LINKDETACH, LINKFLOW): set_credit(n) is recorded on the outgoing channel as a grant of n
//@@ trusted leaf stand-ins: names, terminus types, capabilities, properties, settle modes are opaque values with value-equal Clone; PhantomData markers are unit structs

macro_rules! shared {
    ($($n:ident),*) => { verus!{ $(
        #[verifier::external_body]
        pub struct $n { _p: u8 }
        impl $n { pub uninterp spec fn id(&self) -> int; }
        impl Clone for $n { #[verifier::external_body] fn clone(&self) -> (r: Self) ensures r.id() == self.id() { unimplemented!() } }
    )* } }
}
macro_rules! plain {
    ($($n:ident),*) => { verus!{ $(
        #[verifier::external_body]
        pub struct $n { _p: u8 }
        impl Clone for $n { #[verifier::external_body] fn clone(&self) -> (r: Self) ensures r == *self { unimplemented!() } }
    )* } }
}
shared!(LinkTx, SessCtlTx, UnsettledArc, StopArc, ProcessedArc, NotifyArc);
#[verifier::external_body]
pub struct FlowArc { _p: u8 }
impl FlowArc { pub uninterp spec fn id(&self) -> int; pub uninterp spec fn init(&self) -> LinkFlowStateInner; }
impl Clone for FlowArc { #[verifier::external_body] fn clone(&self) -> (r: Self) ensures r.id() == self.id(), r.init() == self.init() { unimplemented!() } }
plain!(Source, TargetT, Caps, Fields, SenderSettleMode, LinkIncomingItem, AttachExchange, IncompleteTransfer, OutputHandle);
pub type SequenceNo = u32;
pub type Ulong = u64;
#[verifier::external_body]
pub struct LinkRx { _p: u8 }
impl LinkRx { pub uninterp spec fn id(&self) -> int; }
/// the link's channel to the session; `granted()`: the credit grants (set_credit) sent through this handle so far
#[verifier::external_body]
pub struct OutTx { _p: u8 }
impl OutTx { pub uninterp spec fn id(&self) -> int; pub uninterp spec fn granted(&self) -> Seq<u32>; }
impl Clone for OutTx { #[verifier::external_body] fn clone(&self) -> (r: Self) ensures r.id() == self.id(), r.granted() == self.granted() { unimplemented!() } }
pub struct PhantomData {}
//@@ type file=fe2o3-amqp-types/src/definitions/rcv_settle_mode.rs kind=enum name=ReceiverSettleMode clone
//@@ attr #[derive(PartialEq, Eq, Structural)]
//@@ end
impl Default for ReceiverSettleMode { fn default() -> (r: Self) ensures r == ReceiverSettleMode::First { ReceiverSettleMode::First } }
//@@ type file=fe2o3-amqp/src/link/receiver.rs kind=enum name=CreditMode clone
//@@ end
//@@ type file=fe2o3-amqp/src/link/state.rs kind=enum name=LinkState
//@@ end
//@@ type file=fe2o3-amqp/src/link/state.rs kind=struct name=LinkFlowStateInner
//@@ end
pub mod mpsc {
    use super::*;
    /// tokio::sync::mpsc::channel: the two ends of one new channel
    #[verifier::external_body]
    pub fn channel<T>(n: usize) -> (r: (LinkTx, LinkRx)) ensures r.0.id() == r.1.id() { unimplemented!() }
}
pub struct Arc {}
pub struct RwLock {}
pub struct RwLockNone {}
impl RwLock { pub fn new(x: Option<u8>) -> (r: RwLockNone) { RwLockNone {} } }
pub struct LinkFlowState {}
pub struct FlowInit { pub inner: LinkFlowStateInner }
impl LinkFlowState {
    pub fn receiver(inner: LinkFlowStateInner) -> (r: FlowInit) ensures r.inner == inner { FlowInit { inner } }
    pub fn sender(inner: LinkFlowStateInner) -> (r: FlowInit) ensures r.inner == inner { FlowInit { inner } }
}
pub trait ArcNew: Sized { type Out; spec fn made(self, r: Self::Out) -> bool; fn arc_new(self) -> (r: Self::Out) ensures self.made(r); }
/// `Arc::new(x)` wherever the code spells it out: a cell of its own, with an identity nothing else shares yet
impl Arc { pub fn new<T: ArcNew>(x: T) -> (r: T::Out) ensures x.made(r) { x.arc_new() } }
impl ArcNew for FlowInit { type Out = FlowArc; open spec fn made(self, r: FlowArc) -> bool { r.init() == self.inner } #[verifier::external_body] fn arc_new(self) -> (r: FlowArc) { unimplemented!() } }
impl ArcNew for RwLockNone { type Out = UnsettledArc; open spec fn made(self, r: UnsettledArc) -> bool { true } #[verifier::external_body] fn arc_new(self) -> (r: UnsettledArc) { unimplemented!() } }
pub struct NotifyNew {}
pub struct Notify {}
impl Notify { pub fn new() -> (r: NotifyNew) { NotifyNew {} } }
impl ArcNew for NotifyNew { type Out = NotifyArc; open spec fn made(self, r: NotifyArc) -> bool { true } #[verifier::external_body] fn arc_new(self) -> (r: NotifyArc) { unimplemented!() } }
#[verifier::external_body]
pub fn new_processed_counter() -> (r: ProcessedArc) { unimplemented!() }

/// Producer / Consumer (util): the relay's and the link's view of ONE sender flow state and ONE notifier
pub struct Producer { pub notifier: NotifyArc, pub state: FlowArc }
pub struct Consumer { pub notifier: NotifyArc, pub state: FlowArc }
impl Producer { pub fn new(notifier: NotifyArc, state: FlowArc) -> (r: Self) ensures r.notifier == notifier, r.state == state { Producer { notifier, state } } }
impl Consumer { pub fn new(notifier: NotifyArc, state: FlowArc) -> (r: Self) ensures r.notifier == notifier, r.state == state { Consumer { notifier, state } } }
pub type SenderRelayFlowState = Producer;
pub type SenderFlowState = Consumer;
pub type ReceiverRelayFlowState = FlowArc;
pub type ReceiverFlowState = FlowArc;
pub type ArcSenderUnsettledMap = UnsettledArc;
pub type ArcReceiverUnsettledMap = UnsettledArc;

pub enum LinkRelay<H> {
    Sender { tx: LinkTx, output_handle: H, flow_state: SenderRelayFlowState, unsettled: ArcSenderUnsettledMap, receiver_settle_mode: ReceiverSettleMode },
    Receiver { tx: LinkTx, output_handle: H, flow_state: ReceiverRelayFlowState, unsettled: ArcReceiverUnsettledMap, receiver_settle_mode: ReceiverSettleMode, more: bool },
}

pub enum AllocLinkError { SessionStopped, Other }
pub enum ReceiverAttachError { IllegalState, Alloc(AllocLinkError), Other(u8) }
pub enum SenderAttachError { IllegalState, Alloc(AllocLinkError), Other(u8) }
pub trait ErrInto<T>: Sized { spec fn conv(self) -> T; fn err_into(self) -> (r: T) ensures r == self.conv(); }
impl ErrInto<ReceiverAttachError> for AllocLinkError { open spec fn conv(self) -> ReceiverAttachError { ReceiverAttachError::Alloc(self) } fn err_into(self) -> (r: ReceiverAttachError) { ReceiverAttachError::Alloc(self) } }
impl ErrInto<SenderAttachError> for AllocLinkError { open spec fn conv(self) -> SenderAttachError { SenderAttachError::Alloc(self) } fn err_into(self) -> (r: SenderAttachError) { SenderAttachError::Alloc(self) } }
impl ErrInto<ReceiverAttachError> for ReceiverAttachError { open spec fn conv(self) -> ReceiverAttachError { self } fn err_into(self) -> (r: ReceiverAttachError) { let e = self; assert(e == <ReceiverAttachError as ErrInto<ReceiverAttachError>>::conv(self)); e } }
impl ErrInto<SenderAttachError> for SenderAttachError { open spec fn conv(self) -> SenderAttachError { self } fn err_into(self) -> (r: SenderAttachError) { let e = self; assert(e == <SenderAttachError as ErrInto<SenderAttachError>>::conv(self)); e } }
pub struct IllegalLinkState {}
impl ErrInto<ReceiverAttachError> for IllegalLinkState { open spec fn conv(self) -> ReceiverAttachError { ReceiverAttachError::IllegalState } fn err_into(self) -> (r: ReceiverAttachError) { ReceiverAttachError::IllegalState } }

pub struct SessionHandle { pub control: SessCtlTx, pub outgoing: OutTx, pub stop: StopArc }
impl SessionHandle { pub fn session_stop_reason(&self) -> (r: &StopArc) ensures *r == self.stop { &self.stop } }
/// the relay the session engine registered under a handle
pub uninterp spec fn registered(h: OutputHandle) -> LinkRelay<()>;
pub mod session {
    use super::*;
    #[verifier::external_body]
    pub fn allocate_link(control: &SessCtlTx, link_name: String, link_relay: LinkRelay<()>, stop: &StopArc) -> (r: Result<OutputHandle, AllocLinkError>)
        ensures r is Ok ==> registered(r->Ok_0) == link_relay,
    { unimplemented!() }
}

// Link<Role, T, C, M>: the fields create_link fills (all of them), C = the link's flow-state handle
pub struct LinkR {
    pub role: PhantomData, pub local_state: LinkState, pub name: String, pub output_handle: Option<OutputHandle>, pub input_handle: Option<u32>,
    pub snd_settle_mode: SenderSettleMode, pub rcv_settle_mode: ReceiverSettleMode, pub source: Option<Source>, pub target: Option<TargetT>, pub max_message_size: u64,
    pub offered_capabilities: Option<Caps>, pub desired_capabilities: Option<Caps>, pub flow_state: FlowArc, pub unsettled: UnsettledArc, pub session_stop_reason: StopArc,
    pub verify_incoming_source: bool, pub verify_incoming_target: bool,
}
pub struct LinkS {
    pub role: PhantomData, pub local_state: LinkState, pub name: String, pub output_handle: Option<OutputHandle>, pub input_handle: Option<u32>,
    pub snd_settle_mode: SenderSettleMode, pub rcv_settle_mode: ReceiverSettleMode, pub source: Option<Source>, pub target: Option<TargetT>, pub max_message_size: u64,
    pub offered_capabilities: Option<Caps>, pub desired_capabilities: Option<Caps>, pub flow_state: Consumer, pub unsettled: UnsettledArc, pub session_stop_reason: StopArc,
    pub verify_incoming_source: bool, pub verify_incoming_target: bool,
}
pub struct Exchange { pub complete: bool }
impl Exchange {
    pub fn complete_or<E>(self, e: E) -> (r: Result<(), E>) ensures self.complete ==> r is Ok, !self.complete ==> r == Err::<(), E>(e) { if self.complete { Ok(()) } else { Err(e) } }
}
impl LinkR {
    #[verifier::external_body]
    pub fn exchange_attach(&mut self, writer: &OutTx, reader: &mut LinkRx, session: &SessCtlTx, is_reattaching: bool) -> (r: Result<Exchange, ReceiverAttachError>)
        ensures final(self).flow_state == old(self).flow_state, final(self).unsettled == old(self).unsettled, final(self).session_stop_reason == old(self).session_stop_reason,
            final(self).rcv_settle_mode == old(self).rcv_settle_mode, final(self).output_handle == old(self).output_handle, final(reader).id() == old(reader).id(),
    { unimplemented!() }
    #[verifier::external_body]
    pub fn handle_attach_error(&mut self, e: ReceiverAttachError, writer: &OutTx, reader: &mut LinkRx, session: &SessCtlTx) -> (r: ReceiverAttachError) { unimplemented!() }
}
impl LinkS {
    #[verifier::external_body]
    pub fn exchange_attach(&mut self, writer: &OutTx, reader: &mut LinkRx, session: &SessCtlTx, is_reattaching: bool) -> (r: Result<Exchange, SenderAttachError>)
        ensures final(self).flow_state == old(self).flow_state, final(self).unsettled == old(self).unsettled, final(self).session_stop_reason == old(self).session_stop_reason,
            final(self).output_handle == old(self).output_handle, final(reader).id() == old(reader).id(),
    { unimplemented!() }
    #[verifier::external_body]
    pub fn handle_attach_error(&mut self, e: SenderAttachError, writer: &OutTx, reader: &mut LinkRx, session: &SessCtlTx) -> (r: SenderAttachError) { unimplemented!() }
}
pub struct ReceiverInner {
    pub link: LinkR, pub buffer_size: usize, pub credit_mode: CreditMode, pub processed: ProcessedArc, pub auto_accept: bool,
    pub session: SessCtlTx, pub outgoing: OutTx, pub incoming: LinkRx, pub incomplete_transfer: Option<IncompleteTransfer>,
}
impl ReceiverInner {
    /// ReceiverInner::set_credit (unit LINKFLOW: one flow granting exactly `credit`)
    #[verifier::external_body]
    pub fn set_credit(&mut self, credit: u32) -> (r: Result<(), IllegalLinkState>)
        ensures r is Ok ==> final(self).outgoing.granted() == old(self).outgoing.granted().push(credit), final(self).outgoing.id() == old(self).outgoing.id(),
            final(self).link == old(self).link, final(self).credit_mode == old(self).credit_mode, final(self).processed == old(self).processed, final(self).auto_accept == old(self).auto_accept,
            final(self).session == old(self).session, final(self).incoming.id() == old(self).incoming.id(), final(self).incomplete_transfer == old(self).incomplete_transfer, final(self).buffer_size == old(self).buffer_size,
    { unimplemented!() }
}
pub struct SenderInner { pub link: LinkS, pub buffer_size: usize, pub session: SessCtlTx, pub outgoing: OutTx, pub incoming: LinkRx }

