//@@ unit DELIVERY
#![feature(allocator_api)]
#![allow(unused_imports, unused_variables, dead_code, unused_mut, unused_parens)]
use vstd::prelude::*;

verus! {

//@@ trusted DeliveryTag and ReceiverSettleMode are opaque with Clone = identity (R8: `#[derive(Clone)]` / Bytes::clone); `Message<T>` is reduced to its body (R11: the functions below only move the message); R7: `impl Into<X>` parameters are taken as X.
macro_rules! opaque {
    ($($n:ident),*) => { verus!{ $(
        #[verifier::external_body]
        pub struct $n { _p: u8 }
        impl Clone for $n { #[verifier::external_body] fn clone(&self) -> (r: Self) ensures r == *self { unimplemented!() } }
    )* } }
}
opaque!(DeliveryTag, ReceiverSettleMode);
pub type DeliveryNumber = u32;
pub type MessageFormat = u32;
pub struct Handle(pub u32);
pub struct Sealed {}
pub struct Uninitialized {}
pub struct Message<T> { pub body: T }
pub const MESSAGE_FORMAT: u32 = 0;
/// `Option<ReceiverSettleMode>::clone()` (derive(Clone) on a field-less enum: the same value)
#[verifier::external_body]
pub fn opt_clone(x: &Option<ReceiverSettleMode>) -> (r: Option<ReceiverSettleMode>) ensures r == *x { unimplemented!() }

//@@ type file=fe2o3-amqp/src/link/delivery.rs kind=struct name=DeliveryInfo
//@@ end
//@@ type file=fe2o3-amqp/src/link/delivery.rs kind=struct name=Delivery
//@@ end
//@@ type file=fe2o3-amqp/src/link/delivery.rs kind=struct name=Sendable
//@@ end
//@@ type file=fe2o3-amqp/src/link/delivery.rs kind=struct name=Builder
//@@ end

/// the delivery a DeliveryInfo names: id, tag and the settle mode its transfer carried
pub open spec fn names<T>(i: DeliveryInfo, d: Delivery<T>) -> bool {
    i.delivery_id == d.delivery_id && i.delivery_tag == d.delivery_tag && i.rcv_settle_mode == d.rcv_settle_mode
}

impl DeliveryInfo {
//@@ fn file=fe2o3-amqp/src/link/delivery.rs impl=`impl DeliveryInfo` name=delivery_id as=info_delivery_id
//@@ spec
    ensures r == self.delivery_id,
//@@ end
//@@ fn file=fe2o3-amqp/src/link/delivery.rs impl=`impl DeliveryInfo` name=delivery_tag as=info_delivery_tag
//@@ spec
    ensures *r == self.delivery_tag,
//@@ end
//@@ fn file=fe2o3-amqp/src/link/delivery.rs impl=`impl DeliveryInfo` name=rcv_settle_mode as=info_rcv_settle_mode
//@@ spec
    ensures *r == self.rcv_settle_mode,
//@@ end

//@@ fn file=fe2o3-amqp/src/link/delivery.rs impl=`impl<T> From<Delivery<T>> for DeliveryInfo` name=from as=from_delivery
//@@ generics <T>
//@@ spec
    ensures names(r, delivery),       // [C02.delivery-info.names-the-delivery] the handle an application disposes a delivery with (accept / reject / release / modify take a DeliveryInfo) carries THAT delivery's id, its tag and the rcv-settle-mode its transfer carried: the disposition and the settlement rule applied are the right delivery's
//@@ end

//@@ fn file=fe2o3-amqp/src/link/delivery.rs impl=`impl<T> From<&Delivery<T>> for DeliveryInfo` name=from as=from_delivery_ref
//@@ generics <T>
//@@ subst `delivery.rcv_settle_mode.clone()` => `opt_clone(&delivery.rcv_settle_mode)` rule=R8
//@@ spec
    ensures names(r, *delivery),       // [C02.delivery-info.names-the-delivery]
//@@ end
}

impl<T> Delivery<T> {
//@@ fn file=fe2o3-amqp/src/link/delivery.rs impl=`impl<T> Delivery<T>` name=handle
//@@ spec
    ensures *r == self.link_output_handle,
//@@ end
//@@ fn file=fe2o3-amqp/src/link/delivery.rs impl=`impl<T> Delivery<T>` name=message
//@@ spec
    ensures *r == self.message,
//@@ end
//@@ fn file=fe2o3-amqp/src/link/delivery.rs impl=`impl<T> Delivery<T>` name=delivery_id
//@@ spec
    ensures *r == self.delivery_id,
//@@ end
//@@ fn file=fe2o3-amqp/src/link/delivery.rs impl=`impl<T> Delivery<T>` name=delivery_tag
//@@ spec
    ensures *r == self.delivery_tag,
//@@ end
//@@ fn file=fe2o3-amqp/src/link/delivery.rs impl=`impl<T> Delivery<T>` name=message_format
//@@ spec
    ensures *r == self.message_format,
//@@ end
//@@ fn file=fe2o3-amqp/src/link/delivery.rs impl=`impl<T> Delivery<T>` name=into_message
//@@ spec
    ensures r == self.message,       // [C01.delivery.message-handed-over-unchanged] what the application takes out of a delivery is the message that was reassembled for it
//@@ end
//@@ fn file=fe2o3-amqp/src/link/delivery.rs impl=`impl<T> Delivery<T>` name=body
//@@ spec
    ensures *r == self.message.body,
//@@ end
//@@ fn file=fe2o3-amqp/src/link/delivery.rs impl=`impl<T> Delivery<T>` name=into_body
//@@ spec
    ensures r == self.message.body,       // [C01.delivery.message-handed-over-unchanged]
//@@ end
//@@ fn file=fe2o3-amqp/src/link/delivery.rs impl=`impl<T> Delivery<T>` name=into_parts
//@@ spec
    ensures names(r.0, self), r.1 == self.message,       // [C02.delivery-info.names-the-delivery] [C01.delivery.message-handed-over-unchanged]
//@@ end
}

// ---------------------------------------------------------------- Sendable and its builder
impl Builder<Uninitialized> {
//@@ fn file=fe2o3-amqp/src/link/delivery.rs impl=`impl Builder<Uninitialized>` name=new
//@@ spec
    ensures r.settled is None && r.message_format == MESSAGE_FORMAT,       // [C02.sendable.settled-left-to-the-link-unless-asked] a sendable built without `.settled(..)` leaves settlement to the link's negotiated mode
//@@ end
}
impl<State> Builder<State> {
//@@ fn file=fe2o3-amqp/src/link/delivery.rs impl=`impl<State> Builder<State>` name=message
//@@ generics <T>
//@@ param message : Message<T>
//@@ subst `message.into()` => `message` rule=optional-R7
//@@ spec
    ensures r.message == message && r.settled == self.settled && r.message_format == self.message_format,       // [C02.sendable.settled-as-asked] [C01.sendable.message-kept] giving the builder its message keeps what was asked for before
//@@ end
//@@ fn file=fe2o3-amqp/src/link/delivery.rs impl=`impl<State> Builder<State>` name=message_format as=set_message_format
//@@ spec
    ensures r.message == self.message && r.settled == self.settled && r.message_format == message_format,
//@@ end
//@@ fn file=fe2o3-amqp/src/link/delivery.rs impl=`impl<State> Builder<State>` name=settled
//@@ param settled : Option<bool>
//@@ subst `settled.into()` => `settled` rule=optional-R7
//@@ spec
    ensures r.message == self.message && r.settled == settled && r.message_format == self.message_format,       // [C02.sendable.settled-as-asked] the settled flag the application asks for is the one the sendable carries to the link (where the negotiated snd-settle-mode decides whether it is honoured)
//@@ end
}
impl<T> Builder<Message<T>> {
//@@ fn file=fe2o3-amqp/src/link/delivery.rs impl=`impl<T> Builder<Message<T>>` name=build
//@@ spec
    ensures r.message == self.message && r.settled == self.settled && r.message_format == self.message_format,       // [C02.sendable.settled-as-asked] [C01.sendable.message-kept]
//@@ end
}
impl<T> Sendable<T> {
//@@ fn file=fe2o3-amqp/src/link/delivery.rs impl=`impl<T> From<Builder<Message<T>>> for Sendable<T>` name=from as=from_builder
//@@ spec
    ensures r.message == builder.message && r.settled == builder.settled && r.message_format == builder.message_format,       // [C02.sendable.settled-as-asked]
//@@ end

//@@ fn file=fe2o3-amqp/src/link/delivery.rs impl=`~impl<T,U>From<T>forSendable<U>` name=from as=from_message
//@@ generics
//@@ nowhere
//@@ param value : Message<T>
//@@ ret Sendable<T>
//@@ subst `value.into()` => `value` rule=optional-R7
//@@ subst `Self {` => `Sendable {` rule=R2
//@@ spec
    ensures r.message == value && r.settled is None && r.message_format == MESSAGE_FORMAT,       // [C02.sendable.settled-left-to-the-link-unless-asked] [C01.sendable.message-kept] `sender.send(message)` (anything that converts into a message) asks for nothing about settlement
//@@ end
}

// ---------------------------------------------------------------- DeliveryState: which states are terminal (fe2o3-amqp-types, messaging/delivery_state/mod.rs)
pub mod dstate {
use super::*;
macro_rules! opaque2 { ($($n:ident),*) => { verus!{ $( #[verifier::external_body] pub struct $n { _p: u8 } )* } } }
opaque2!(Received, Accepted, Rejected, Released, Modified, Declared, TransactionalState);
//@@ type file=fe2o3-amqp-types/src/messaging/delivery_state/mod.rs kind=enum name=DeliveryState
//@@ end
impl DeliveryState {
//@@ fn file=fe2o3-amqp-types/src/messaging/delivery_state/mod.rs impl=`impl DeliveryState` name=is_terminal
//@@ spec
    ensures r == (self is Accepted || self is Rejected || self is Released || self is Modified || self is Declared),       // [C02.state.terminal-outcomes] the terminal outcomes are accepted, rejected, released and modified (and `declared`, the outcome of a declare): a `received` state and a transactional state are NOT -- this is the predicate the units LINK, SESSION, REASM and DELIVFUT name `spec_is_terminal` (uninterpreted there): it decides when a send completes, when the settling echo is owed and which state a later frame may no longer replace
//@@ end

//@@ fn file=fe2o3-amqp-types/src/messaging/delivery_state/mod.rs impl=`impl DeliveryState` name=is_received
//@@ spec
    ensures r == (self is Received),
//@@ end
}
} // mod dstate

} // verus!
fn main() {}
