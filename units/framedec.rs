//@@ unit FRAMEDEC
//@@ gsubst `serde_amqp::Error` => `SerError` rule=R11
#![feature(allocator_api)]
#![allow(unused_imports, unused_variables, dead_code, unused_mut, unused_parens)]
use vstd::prelude::*;

verus! {

//@@ include common.rs
//@@ trusted bytes::BytesMut / bytes::Bytes stand-ins: byte sequences with new/len/clear/put_u8/put_u16(big-endian)/put/split_to/freeze/writer
//@@ trusted Transfer::serialize (serde derive + serde_amqp::Serializer) appends enc(t), an uninterpreted function of the performative's fields, or fails
//@@ trusted AXIOM enc_more_monotone: |enc(t[more:=false])| <= |enc(t[more:=true])| (default-valued trailing field elision); checked bounded on the real serializer by Kani harness `transfer_more_len`
//@@ trusted leaf stand-ins: DeliveryTag, DeliveryState, ReceiverSettleMode opaque; Handle one-field newtype

pub type DeliveryNumber = u32;
pub type MessageFormat = u32;
pub type Boolean = bool;

macro_rules! opaque {
    ($($n:ident),*) => { verus!{ $(
        #[verifier::external_body]
        pub struct $n { _p: u8 }
    )* } }
}
opaque!(DeliveryTag, DeliveryState, ReceiverSettleMode, SerError);
pub struct Handle(pub u32);

//@@ type file=fe2o3-amqp-types/src/performatives/transfer.rs kind=struct name=Transfer
//@@ end

//@@ type file=fe2o3-amqp/src/frames/mod.rs kind=const name=FRAME_TYPE_AMQP
//@@ end

// ---- bytes stand-ins -------------------------------------------------------------------------
pub trait BufSrc: Sized {
    spec fn bytes(&self) -> Seq<u8>;
}

#[verifier::external_body]
pub struct BytesMut { v: Vec<u8> }
impl View for BytesMut { type V = Seq<u8>; uninterp spec fn view(&self) -> Seq<u8>; }
#[verifier::external_body]
pub struct Bytes { v: Vec<u8> }
impl View for Bytes { type V = Seq<u8>; uninterp spec fn view(&self) -> Seq<u8>; }
pub type Payload = Bytes;

impl BufSrc for BytesMut { open spec fn bytes(&self) -> Seq<u8> { self@ } }
impl BufSrc for Bytes { open spec fn bytes(&self) -> Seq<u8> { self@ } }
impl<'a> BufSrc for &'a [u8] { open spec fn bytes(&self) -> Seq<u8> { self@ } }

pub struct Writer<'a> { pub buf: &'a mut BytesMut }
pub struct Serializer<'a> { pub writer: Writer<'a> }
impl<'a> Serializer<'a> {
    pub fn from(writer: Writer<'a>) -> (r: Self) ensures r.writer == writer { Serializer { writer } }
}

impl BytesMut {
    #[verifier::external_body]
    pub fn new() -> (r: Self) ensures r@ == Seq::<u8>::empty() { unimplemented!() }
    #[verifier::external_body]
    pub fn len(&self) -> (r: usize) ensures r == self@.len(), r <= isize::MAX as usize { unimplemented!() }
    #[verifier::external_body]
    pub fn clear(&mut self) ensures final(self)@ == Seq::<u8>::empty() { unimplemented!() }
    #[verifier::external_body]
    pub fn put_u8(&mut self, x: u8) ensures final(self)@ == old(self)@.push(x) { unimplemented!() }
    #[verifier::external_body]
    pub fn put_u16(&mut self, x: u16) ensures final(self)@ == old(self)@.push((x >> 8) as u8).push((x & 0xff) as u8) { unimplemented!() }
    #[verifier::external_body]
    pub fn put<B: BufSrc>(&mut self, b: B) ensures final(self)@ == old(self)@ + b.bytes() { unimplemented!() }
    #[verifier::external_body]
    pub fn as_slice(&self) -> (r: &[u8]) ensures r@ == self@ { unimplemented!() }
    #[verifier::external_body]
    pub fn split_to(&mut self, n: usize) -> (r: BytesMut)
        requires n <= old(self)@.len(),     // bytes::BytesMut::split_to panics otherwise
        ensures r@ == old(self)@.take(n as int), final(self)@ == old(self)@.skip(n as int),
    { unimplemented!() }
    #[verifier::external_body]
    pub fn freeze(self) -> (r: Bytes) ensures r@ == self@ { unimplemented!() }
    #[verifier::external_body]
    pub fn writer(&mut self) -> (w: Writer<'_>)
        ensures w.buf@ == old(self)@, final(self)@ == final(w.buf)@,
    { unimplemented!() }
}
impl Bytes {
    #[verifier::external_body]
    pub fn len(&self) -> (r: usize) ensures r == self@.len(), r <= isize::MAX as usize { unimplemented!() }
    #[verifier::external_body]
    pub fn split_to(&mut self, n: usize) -> (r: Bytes)
        requires n <= old(self)@.len(),     // bytes::Bytes::split_to panics otherwise
        ensures r@ == old(self)@.take(n as int), final(self)@ == old(self)@.skip(n as int),
    { unimplemented!() }
}

// ---------------------------------------------------------------------------------------------
// frame decoder (C15: total on peer bytes; C20: payload == what follows the performative)
//@@ trusted bytes::Buf::get_u8/get_u16 require that many remaining bytes (they panic otherwise) -- stated as preconditions of the stand-ins
//@@ trusted serde_amqp Deserializer over IoReader<Reader<&mut BytesMut>> is a stand-in: on Ok it has consumed exactly perf_len(bytes) > 0 leading bytes and produced perf_of(bytes); on Err the buffer content is unspecified

impl BytesMut {
    #[verifier::external_body]
    pub fn get_u8(&mut self) -> (r: u8)
        requires old(self)@.len() >= 1,
        ensures r == old(self)@[0], final(self)@ == old(self)@.skip(1),
    { unimplemented!() }
    #[verifier::external_body]
    pub fn get_u16(&mut self) -> (r: u16)
        requires old(self)@.len() >= 2,
        ensures r == (old(self)@[0] as u16) * 256 + old(self)@[1] as u16, final(self)@ == old(self)@.skip(2),
    { unimplemented!() }
    #[verifier::external_body]
    pub fn advance(&mut self, n: usize)
        requires n <= old(self)@.len(),     // bytes::Buf::advance panics beyond the end
        ensures final(self)@ == old(self)@.skip(n as int),
    { unimplemented!() }
    #[verifier::external_body]
    pub fn is_empty(&self) -> (r: bool) ensures r == (self@.len() == 0) { unimplemented!() }
    #[verifier::external_body]
    pub fn split(&mut self) -> (r: BytesMut) ensures r@ == old(self)@, final(self)@ == Seq::<u8>::empty() { unimplemented!() }
    #[verifier::external_body]
    pub fn reader(&mut self) -> (w: Reader<'_>)
        ensures w.buf@ == old(self)@, final(self)@ == final(w.buf)@,
    { unimplemented!() }
    pub fn into(self) -> (r: Bytes) ensures r@ == self@ { self.freeze() }
}
pub struct Reader<'a> { pub buf: &'a mut BytesMut }
pub struct IoReader<'a> { pub r: Reader<'a> }
impl<'a> IoReader<'a> { pub fn new(r: Reader<'a>) -> (o: Self) ensures o.r == r { IoReader { r } } }
pub struct Deserializer<'a> { pub reader: IoReader<'a> }
impl<'a> Deserializer<'a> { pub fn new(reader: IoReader<'a>) -> (o: Self) ensures o.reader == reader { Deserializer { reader } } }

opaque!(Open, Begin, Attach, Flow, Disposition, Detach, End, Close);
pub enum Performative {
    Open(Open), Begin(Begin), Attach(Attach), Flow(Flow), Transfer(Transfer), Disposition(Disposition), Detach(Detach), End(End), Close(Close),
}
pub uninterp spec fn perf_len(b: Seq<u8>) -> int;
pub uninterp spec fn perf_of(b: Seq<u8>) -> Performative;
impl Performative {
    #[verifier::external_body]
    pub fn deserialize<'a>(d: &mut Deserializer<'a>) -> (r: Result<Performative, SerError>)
        ensures
            r is Ok ==> 0 < perf_len(old(d).reader.r.buf@) <= old(d).reader.r.buf@.len()
                && final(d).reader.r.buf@ == old(d).reader.r.buf@.skip(perf_len(old(d).reader.r.buf@))
                && r->Ok_0 == perf_of(old(d).reader.r.buf@),
            *final(final(d).reader.r.buf) == *final(old(d).reader.r.buf),
    { unimplemented!() }
}
//@@ type file=fe2o3-amqp/src/frames/error.rs kind=enum name=Error
//@@ subst `io::Error` => `IoError`
//@@ end
opaque!(IoError);
impl From<SerError> for Error {
    #[verifier::external_body]
    fn from(e: SerError) -> Self { unimplemented!() }
}
#[verifier::external_body]
pub fn str_to_string(s: &str) -> (r: String) { s.to_string() }

//@@ type file=fe2o3-amqp/src/frames/amqp.rs kind=struct name=Frame
//@@ end
//@@ type file=fe2o3-amqp/src/frames/amqp.rs kind=enum name=FrameBody
//@@ end
//@@ type file=fe2o3-amqp/src/frames/amqp.rs kind=struct name=FrameDecoder
//@@ end

impl FrameDecoder {
//@@ fn file=fe2o3-amqp/src/frames/amqp.rs impl=`impl Decoder for FrameDecoder` name=decode
//@@ subst `Deserialize::deserialize(&mut deserializer)` => `Performative::deserialize(&mut deserializer)` rule=R16
//@@ subst `"Frame is shorter than the frame header".to_string()` => `str_to_string("Frame is shorter than the frame header")` rule=optional-R16
//@@ spec
    ensures
        // no precondition on `src`: every call of a bytes accessor must be justified by a check in the code   [C15.frame.total] any frame body -- short, unknown type or data offset, undecodable -- yields Ok or Err, never a panic
        old(src)@.len() < 4 ==> r is Err,                                                   // [C15.frame.short] a body shorter than the rest of the header is an error
        old(src)@.len() >= 4 && (old(src)@[1] != FRAME_TYPE_AMQP || old(src)@[0] < 2) ==> r is Err,   // [C15.frame.type-doff] unknown frame type or malformed data offset (< 2) is an error (doff > 2: any outcome, but never a panic)
        r is Ok && old(src)@[0] == 2 ==> r->Ok_0 is Some && r->Ok_0->Some_0.channel == (old(src)@[2] as u16) * 256 + old(src)@[3] as u16,   // [C06.decode.channel]
        old(src)@.len() == 4 && old(src)@[0] == 2 && old(src)@[1] == FRAME_TYPE_AMQP ==> r is Ok,                                       // [C17.decode.heartbeat-accepted] the 8-octet empty frame a peer sends as its heartbeat is accepted (not an error that would tear the connection down)
        r is Ok && old(src)@.len() == 4 && old(src)@[0] == 2 ==> r->Ok_0 is Some && r->Ok_0->Some_0.body is Empty,                  // [C17.decode.empty-frame] a bare header is the empty (heartbeat) frame
        r is Ok && old(src)@.len() > 4 && old(src)@[0] == 2 && r->Ok_0 is Some && r->Ok_0->Some_0.body is Transfer ==> ({
            let body = old(src)@.skip(4);
            &&& perf_of(body) is Transfer
            &&& r->Ok_0->Some_0.body->Transfer_performative == perf_of(body)->Transfer_0
            &&& r->Ok_0->Some_0.body->Transfer_payload@ =~= body.skip(perf_len(body))       // [C04.frame.payload-untouched] [C20.frame.payload-untouched] the payload is exactly the bytes that follow the performative [C06.decode.payload]
        }),
//@@ entry
        let ghost s0 = src@;
        proof {
            if s0.len() >= 4 { assert(s0.skip(1).skip(1).skip(2) =~= s0.skip(4)); }
        }
//@@ end
}


// ---- SASL frame decoder (pre-authentication path: C19 / C15) ----
//@@ type file=fe2o3-amqp/src/frames/mod.rs kind=const name=FRAME_TYPE_SASL
//@@ end
/// AMQP 1.0 part 2, 2.3.2: frame type 0x00 = AMQP, part 5, 5.3.1: 0x01 = SASL
proof fn spec_frame_types() ensures FRAME_TYPE_AMQP == 0x00, FRAME_TYPE_SASL == 0x01 {}      // [C06.constants.frame-types] [C19.constants.frame-types] [C15.constants.frame-types]
opaque!(SaslFrame);
pub uninterp spec fn sasl_of(b: Seq<u8>) -> SaslFrame;
impl SaslFrame {
    #[verifier::external_body]
    pub fn deserialize<'a>(d: &mut Deserializer<'a>) -> (r: Result<SaslFrame, SerError>)
        ensures
            r is Ok ==> r->Ok_0 == sasl_of(old(d).reader.r.buf@),
            *final(final(d).reader.r.buf) == *final(old(d).reader.r.buf),
    { unimplemented!() }
}
pub struct FrameCodec {}
impl FrameCodec {
//@@ fn file=fe2o3-amqp/src/frames/sasl.rs impl=`impl Decoder for FrameCodec` name=decode as=sasl_decode
//@@ subst `use bytes::Buf;` => `` rule=R6
//@@ subst `use serde_amqp::de::Deserializer;` => `` rule=R6
//@@ subst `src: &mut bytes::BytesMut` => `src: &mut BytesMut` rule=R11
//@@ ret Result<Option<SaslFrame>, Error>
//@@ subst `let frame: Frame = Deserialize::deserialize(&mut deserializer)?;` => `let frame: SaslFrame = SaslFrame::deserialize(&mut deserializer)?;` rule=R16
//@@ subst `"Frame is shorter than the frame header".to_string()` => `str_to_string("Frame is shorter than the frame header")` rule=optional-R16
//@@ spec
    ensures
        old(src)@.len() < 4 ==> r is Err,                                                   // [C15.sasl-frame.short] [C19.sasl-frame.short] a SASL frame body shorter than the rest of the header is an error, not a panic (pre-authentication path)
        old(src)@.len() >= 4 && (old(src)@[1] != FRAME_TYPE_SASL || old(src)@[0] != 2) ==> r is Err,   // [C19.sasl-frame.type] an AMQP frame (or any other type / data offset) during the SASL exchange is refused [C15.sasl-frame.type]
        r is Ok && old(src)@[0] == 2 ==> r->Ok_0 == Some(sasl_of(old(src)@.skip(4))),
//@@ entry
        let ghost s0 = src@;
        proof {
            if s0.len() >= 4 { assert(s0.skip(1).skip(1).skip(2) =~= s0.skip(4)); }
        }
//@@ end
}

} // verus!
fn main() {}
