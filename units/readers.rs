//@@ unit READERS
//@@ gsubst `io::Error::new(io::ErrorKind::UnexpectedEof, "")` => `eof_error()` rule=R9
//@@ gsubst `io::Error` => `IoError` rule=R11
#![feature(allocator_api)]
#![allow(unused_imports, unused_variables, dead_code, unused_mut, unused_parens)]
use vstd::prelude::*;

verus! {

global size_of usize == 8;

//@@ trusted the byte stream behind IoReader (`R: io::Read`) is a stand-in: a ghost sequence `rest` of bytes still to come; read_exact(buf) either fills buf with the next |buf| bytes, or fails having taken fewer than |buf| bytes (any I/O error, not only end-of-stream); `take(k).read_to_end(v)` appends the next min(k, |rest|) bytes to v or fails
//@@ trusted allocation is modelled at the two request sites that take a length from the wire: `vec![0u8; n]` and `Vec::resize(n, 0)` become alloc stand-ins whose PRECONDITION bounds the requested length by the input still unread plus READ_BYTES_CHUNK (a request beyond that is the violation); Vec growth inside read_to_end / push is amortised by std and proportional to the bytes appended
//@@ trusted std slice/Vec library calls with their documented semantics: slice::{split_at, first, get(..n)}, Option::copied, Vec::{remove, push, resize}, `<&[u8] as io::Read>::read_exact` (on a short slice: Err and the slice is emptied), Vec::drain(..l) (drops the first l), copy_from_slice, u32::from_be_bytes (uninterpreted)
//@@ trusted read_primitive_bytes_or_else takes its fallback as a generic FnOnce: it is instantiated at its two call sites (op = read_described_bytes at top level, op = |_| Err(InvalidFormatCode) below a descriptor) as two functions (R28)
//@@ trusted fewer than 2^64 bytes pass through a reader (consumed counters); usize is 64 bits

pub struct IoError { pub k: u8 }
#[verifier::external_body]
pub fn eof_error() -> (r: IoError) { unimplemented!() }
/// Option::<&u8>::copied
pub fn opt_copied(o: Option<&u8>) -> (r: Option<u8>) ensures r == (match o { Some(x) => Some(*x), None => None::<u8> }) { match o { Some(x) => Some(*x), None => None } }
pub assume_specification<T, E, U, F: FnOnce(T) -> Result<U, E>>[ Result::<T, E>::and_then ](r: Result<T, E>, f: F) -> (o: Result<U, E>)
    requires r is Ok ==> f.requires((r->Ok_0,)),
    ensures (match r { Ok(v) => f.ensures((v,), o), Err(e) => o == Err::<U, E>(e) });
pub uninterp spec fn sp_be32(b: Seq<u8>) -> u32;
#[verifier::external_body]
pub fn be32(b: [u8; 4]) -> (r: u32) ensures r == sp_be32(b@) { u32::from_be_bytes(b) }

/// how far ahead of the input an allocation request may run
pub const READ_BYTES_CHUNK: usize = 65536;
/// `vec![0u8; n]` with the resource contract: the request is bounded by the input still available (+ one chunk)
#[verifier::external_body]
pub fn alloc_zeroed_vec(n: usize, avail: Ghost<nat>) -> (r: Vec<u8>)
    requires n <= avail@ + READ_BYTES_CHUNK,      // [C04.alloc.bounded-by-input]
    ensures r@.len() == n,
{ unimplemented!() }
/// `v.resize(n, 0)` with the same resource contract
#[verifier::external_body]
pub fn vec_resize_zeroed(v: &mut Vec<u8>, n: usize, avail: Ghost<nat>)
    requires n <= avail@ + READ_BYTES_CHUNK,      // [C04.alloc.bounded-by-input]
    ensures final(v)@.len() == n, forall|i: int| 0 <= i < n && i < old(v)@.len() ==> final(v)@[i] == old(v)@[i],
{ unimplemented!() }
#[verifier::external_body]
pub fn vec_drain_front(v: &mut Vec<u8>, l: usize)
    requires l <= old(v)@.len(),
    ensures final(v)@ == old(v)@.skip(l as int),
{ unimplemented!() }

pub open spec fn is_suffix(a: Seq<u8>, b: Seq<u8>) -> bool { a.len() <= b.len() && a =~= b.skip(b.len() - a.len()) }

// ================================================================ the Read trait (read/mod.rs): ONE contract, checked against both readers
pub trait Read: Sized {
    /// the bytes not yet consumed (peeked ones included), and how many were consumed
    spec fn unread(&self) -> Seq<u8>;
    spec fn consumed(&self) -> nat;
    spec fn wf(&self) -> bool;

//@@ decl name=Read::peek sig=`fn peek(&mut self) -> (r: Option<u8>)`
//@@ spec
        requires old(self).wf(),
        ensures
            final(self).wf(),
            final(self).unread() =~= old(self).unread() && final(self).consumed() == old(self).consumed(),   // [C20.reader.peek-does-not-consume] peeking leaves every byte where it was
            r is Some ==> old(self).unread().len() > 0 && r->Some_0 == old(self).unread()[0],                 // [C20.reader.peek-value]
//@@ end

//@@ decl name=Read::bytes_consumed sig=`fn bytes_consumed(&self) -> (r: usize)`
//@@ spec
        requires self.wf(),
        ensures r == self.consumed(),
//@@ end

//@@ decl name=Read::next sig=`fn next(&mut self) -> (r: Result<Option<u8>, IoError>)`
//@@ spec
        requires old(self).wf(), old(self).consumed() + old(self).unread().len() < usize::MAX,
        ensures
            final(self).wf(),
            (match r {
                Ok(Some(b)) => old(self).unread().len() > 0 && b == old(self).unread()[0] && final(self).unread() =~= old(self).unread().skip(1)
                    && final(self).consumed() == old(self).consumed() + 1,                                   // [C20.reader.next] next() yields exactly the first unread byte and consumes exactly it
                Ok(None) => old(self).unread().len() == 0 && final(self).unread() == old(self).unread() && final(self).consumed() == old(self).consumed(),
                Err(_) => final(self).unread() == old(self).unread() && final(self).consumed() == old(self).consumed(),
            }),
//@@ end

//@@ fn file=serde_amqp/src/read/mod.rs impl=`~Read<'de>:private::Sealed` name=read_const_bytes
//@@ qmark
//@@ spec
        requires old(self).wf(), old(self).consumed() + old(self).unread().len() < usize::MAX,
        ensures
            final(self).wf(),
            r is Ok ==> N <= old(self).unread().len() && r->Ok_0@ =~= old(self).unread().subrange(0, N as int) && final(self).unread() =~= old(self).unread().skip(N as int)
                && final(self).consumed() == old(self).consumed() + N,                                       // [C20.reader.read-exact]
//@@ end

//@@ decl name=Read::peek_bytes sig=`fn peek_bytes(&mut self, n: usize) -> (r: Result<Option<&[u8]>, IoError>)`
//@@ spec
        requires old(self).wf(),
        ensures
            final(self).wf(),
            (match r {
                Ok(Some(s)) => n <= old(self).unread().len() && s@ =~= old(self).unread().subrange(0, n as int),   // [C20.reader.peek-bytes-value]
                Ok(None) => old(self).unread().len() < n,
                Err(_) => true,
            }),
            r is Ok ==> final(self).unread() =~= old(self).unread() && final(self).consumed() == old(self).consumed(),   // [C20.reader.peek-does-not-consume] whatever follows the peeked bytes is still there for the next reader of the stream
//@@ end

//@@ fn file=serde_amqp/src/read/mod.rs impl=`~Read<'de>:private::Sealed` name=read_bytes
//@@ attr #[verifier::exec_allows_no_decreases_clause]
//@@ qmark
//@@ subst `vec![0u8; n]` => `alloc_zeroed_vec(n, Ghost(self.unread().len()))` rule=optional-R9
//@@ subst `buf.resize(end, 0)` => `{ let ghost av = buf@.len() + self.unread().len(); vec_resize_zeroed(&mut buf, end, Ghost(av)) }` rule=optional-R9
//@@ subst `self.read_exact(&mut buf[start..])` => `self.read_exact_tail(&mut buf, start)` rule=optional-R9
//@@ spec
        requires old(self).wf(), old(self).consumed() + old(self).unread().len() < usize::MAX,
        ensures
            final(self).wf(),
            r is Ok ==> n <= old(self).unread().len() && r->Ok_0@ =~= old(self).unread().subrange(0, n as int) && final(self).unread() =~= old(self).unread().skip(n as int)
                && final(self).consumed() == old(self).consumed() + n,                                       // [C20.reader.read-exact] read_bytes(n) returns exactly the next n bytes and consumes exactly them
            r is Err ==> final(self).unread().len() <= old(self).unread().len(),                             // [C04.reader.error-loses-only-input]
//@@ loop 0 optional
            invariant
                self.wf(), buf@.len() <= n,
                buf@.len() <= old(self).unread().len(),
                forall|i: int| 0 <= i < buf@.len() ==> buf@[i] == old(self).unread()[i],
                self.unread() =~= old(self).unread().skip(buf@.len() as int),
                self.consumed() == old(self).consumed() + buf@.len(),
                old(self).consumed() + old(self).unread().len() < usize::MAX,
//@@ end

//@@ decl name=Read::read_exact sig=`fn read_exact(&mut self, buf: &mut [u8]) -> (r: Result<(), IoError>)`
//@@ spec
        requires old(self).wf(), old(self).consumed() + old(self).unread().len() < usize::MAX,
        ensures
            final(self).wf(),
            final(buf)@.len() == old(buf)@.len(),
            r is Ok ==> old(buf)@.len() <= old(self).unread().len() && final(buf)@ =~= old(self).unread().subrange(0, old(buf)@.len() as int)
                && final(self).unread() =~= old(self).unread().skip(old(buf)@.len() as int)
                && final(self).consumed() == old(self).consumed() + old(buf)@.len(),                         // [C20.reader.read-exact] read_exact fills the buffer with exactly the next |buf| unread bytes and consumes exactly them
            r is Err ==> is_suffix(final(self).unread(), old(self).unread()) && final(self).consumed() + final(self).unread().len() <= old(self).consumed() + old(self).unread().len(),   // [C04.reader.error-loses-only-input] a failed read may drop input but never invents any
//@@ end

    /// `self.read_exact(&mut buf[start..])`: read_exact into the tail of a vector, the head stays as it is (stand-in in both impls)
    fn read_exact_tail(&mut self, buf: &mut Vec<u8>, start: usize) -> (r: Result<(), IoError>)
        requires old(self).wf(), start <= old(buf)@.len(), old(self).consumed() + old(self).unread().len() < usize::MAX,
        ensures
            final(self).wf(), final(buf)@.len() == old(buf)@.len(), forall|i: int| 0 <= i < start ==> final(buf)@[i] == old(buf)@[i],
            r is Ok ==> old(buf)@.len() - start <= old(self).unread().len() && (forall|i: int| start <= i < old(buf)@.len() ==> final(buf)@[i] == old(self).unread()[i - start])
                && final(self).unread() =~= old(self).unread().skip(old(buf)@.len() - start) && final(self).consumed() == old(self).consumed() + (old(buf)@.len() - start),
            r is Err ==> is_suffix(final(self).unread(), old(self).unread());
}

// ================================================================ SliceReader (read/sliceread.rs)
//@@ type file=serde_amqp/src/read/sliceread.rs kind=struct name=SliceReader
//@@ end
/// `<&[u8] as std::io::Read>::read_exact`
#[verifier::external_body]
pub fn slice_read_exact(s: &mut &[u8], buf: &mut [u8]) -> (r: Result<(), IoError>)
    ensures
        final(buf)@.len() == old(buf)@.len(),
        old(buf)@.len() <= old(s)@.len() ==> r is Ok && final(buf)@ == old(s)@.subrange(0, old(buf)@.len() as int) && final(s)@ == old(s)@.skip(old(buf)@.len() as int),
        old(buf)@.len() > old(s)@.len() ==> r is Err && final(s)@.len() == 0,
{ unimplemented!() }

impl<'s> SliceReader<'s> {
//@@ fn file=serde_amqp/src/read/sliceread.rs impl=`impl<'s> SliceReader<'s>` name=new
//@@ spec
    ensures r.slice@ == slice@, r.initial_len == slice@.len(),
//@@ end

//@@ fn file=serde_amqp/src/read/sliceread.rs impl=`impl<'s> SliceReader<'s>` name=get_byte_slice
//@@ spec
    requires old(self).slice@.len() <= old(self).initial_len,
    ensures
        final(self).initial_len == old(self).initial_len,
        (match r {
            Ok(s) => n <= old(self).slice@.len() && s@ == old(self).slice@.subrange(0, n as int) && final(self).slice@ == old(self).slice@.skip(n as int),   // [C20.reader.read-exact]
            Err(_) => n > old(self).slice@.len() && final(self).slice@ == old(self).slice@,                 // [C04.reader.short-input-is-an-error] a length beyond the input is an error and touches nothing -- no allocation, no panic
        }),
//@@ end
}

impl<'s> Read for SliceReader<'s> {
    open spec fn unread(&self) -> Seq<u8> { self.slice@ }
    open spec fn consumed(&self) -> nat { (self.initial_len - self.slice@.len()) as nat }
    open spec fn wf(&self) -> bool { self.slice@.len() <= self.initial_len }
    #[verifier::external_body]
    fn read_exact_tail(&mut self, buf: &mut Vec<u8>, start: usize) -> (r: Result<(), IoError>) { unimplemented!() }

//@@ fn file=serde_amqp/src/read/sliceread.rs impl=`impl<'s> Read<'s> for SliceReader<'s>` name=peek id=SliceReader::peek
//@@ subst `self.slice.first().copied()` => `opt_copied(self.slice.first())` rule=R9
//@@ end
//@@ fn file=serde_amqp/src/read/sliceread.rs impl=`impl<'s> Read<'s> for SliceReader<'s>` name=bytes_consumed id=SliceReader::bytes_consumed
//@@ end
//@@ fn file=serde_amqp/src/read/sliceread.rs impl=`impl<'s> Read<'s> for SliceReader<'s>` name=peek_bytes id=SliceReader::peek_bytes
//@@ end
//@@ fn file=serde_amqp/src/read/sliceread.rs impl=`impl<'s> Read<'s> for SliceReader<'s>` name=next id=SliceReader::next
//@@ qmark
//@@ end
//@@ fn file=serde_amqp/src/read/sliceread.rs impl=`impl<'s> Read<'s> for SliceReader<'s>` name=read_exact id=SliceReader::read_exact
//@@ subst `std::io::Read::read_exact(&mut self.slice, buf)` => `slice_read_exact(&mut self.slice, buf)` rule=R9
//@@ end
}


// ================================================================ IoReader (read/ioread.rs)
/// the underlying `R: io::Read`
pub struct Stream { pub rest: Ghost<Seq<u8>> }
impl Stream {
    /// `io::Read::read_exact`
    #[verifier::external_body]
    pub fn read_exact(&mut self, buf: &mut [u8]) -> (r: Result<(), IoError>)
        ensures
            final(buf)@.len() == old(buf)@.len(),
            r is Ok ==> old(buf)@.len() <= old(self).rest@.len() && final(buf)@ == old(self).rest@.subrange(0, old(buf)@.len() as int) && final(self).rest@ == old(self).rest@.skip(old(buf)@.len() as int),
            r is Err ==> is_suffix(final(self).rest@, old(self).rest@) && old(self).rest@.len() - final(self).rest@.len() < old(buf)@.len(),
    { unimplemented!() }
    /// `self.reader.read_exact(&mut v[l..])`
    #[verifier::external_body]
    pub fn read_exact_tail(&mut self, v: &mut Vec<u8>, l: usize) -> (r: Result<(), IoError>)
        requires l <= old(v)@.len(),
        ensures
            final(v)@.len() == old(v)@.len(), forall|i: int| 0 <= i < l ==> final(v)@[i] == old(v)@[i],
            r is Ok ==> old(v)@.len() - l <= old(self).rest@.len() && (forall|i: int| l <= i < old(v)@.len() ==> final(v)@[i] == old(self).rest@[i - l]) && final(self).rest@ == old(self).rest@.skip(old(v)@.len() - l),
            r is Err ==> is_suffix(final(self).rest@, old(self).rest@) && old(self).rest@.len() - final(self).rest@.len() < old(v)@.len() - l,
    { unimplemented!() }
    /// `self.reader.read_exact(&mut buf[l..])` for a caller's slice
    #[verifier::external_body]
    pub fn read_exact_slice_tail(&mut self, buf: &mut [u8], l: usize) -> (r: Result<(), IoError>)
        requires l <= old(buf)@.len(),
        ensures
            final(buf)@.len() == old(buf)@.len(), forall|i: int| 0 <= i < l ==> final(buf)@[i] == old(buf)@[i],
            r is Ok ==> old(buf)@.len() - l <= old(self).rest@.len() && (forall|i: int| l <= i < old(buf)@.len() ==> final(buf)@[i] == old(self).rest@[i - l]) && final(self).rest@ == old(self).rest@.skip(old(buf)@.len() - l),
            r is Err ==> is_suffix(final(self).rest@, old(self).rest@) && old(self).rest@.len() - final(self).rest@.len() < old(buf)@.len() - l,
    { unimplemented!() }
    /// `(&mut self.reader).take(k).read_to_end(v)`: appends the next min(k, |rest|) bytes; Ok(number appended)
    #[verifier::external_body]
    pub fn take_read_to_end(&mut self, k: u64, v: &mut Vec<u8>) -> (r: Result<usize, IoError>)
        ensures
            (match r {
                Ok(n) => n == (if k as int <= old(self).rest@.len() { k as int } else { old(self).rest@.len() as int })
                    && final(v)@ == old(v)@ + old(self).rest@.subrange(0, n as int) && final(self).rest@ == old(self).rest@.skip(n as int),
                Err(_) => exists|n: int| 0 <= n <= old(self).rest@.len() && n <= k && final(v)@ == old(v)@ + old(self).rest@.subrange(0, n) && final(self).rest@ == old(self).rest@.skip(n),
            }),
    { unimplemented!() }
}
/// `(buf[..l]).copy_from_slice(&src[..l])`
#[verifier::external_body]
pub fn copy_prefix(buf: &mut [u8], src: &Vec<u8>, l: usize)
    requires l <= old(buf)@.len(), l <= src@.len(),
    ensures final(buf)@.len() == old(buf)@.len(), forall|i: int| 0 <= i < l ==> final(buf)@[i] == src@[i], forall|i: int| l <= i < old(buf)@.len() ==> final(buf)@[i] == old(buf)@[i],
{ unimplemented!() }

//@@ type file=serde_amqp/src/read/ioread.rs kind=struct name=IoReader
//@@ subst `<R>` => `` rule=R7
//@@ subst `reader: R` => `reader: Stream` rule=R7
//@@ end

impl IoReader {
//@@ fn file=serde_amqp/src/read/ioread.rs impl=`impl<R: io::Read> IoReader<R>` name=pop_first
//@@ spec
    ensures
        final(self).reader == old(self).reader && final(self).consumed == old(self).consumed,
        (match r { Some(b) => old(self).buf@.len() > 0 && b == old(self).buf@[0] && final(self).buf@ == old(self).buf@.skip(1), None => old(self).buf@.len() == 0 && final(self).buf@ == old(self).buf@ }),
//@@ end

//@@ fn file=serde_amqp/src/read/ioread.rs impl=`impl<R: io::Read> IoReader<R>` name=fill_buffer
//@@ qmark
//@@ subst `self.buf.resize(len, 0)` => `{ let ghost av = self.buf@.len() + self.reader.rest@.len(); vec_resize_zeroed(&mut self.buf, len, Ghost(av)) }` rule=optional-R9
//@@ subst `self.reader.read_exact(&mut self.buf[l..])` => `self.reader.read_exact_tail(&mut self.buf, l)` rule=optional-R9
//@@ subst `let mut limited = io::Read::take(&mut self.reader, missing); let n = io::Read::read_to_end(&mut limited, &mut self.buf)` => `let n = self.reader.take_read_to_end(missing, &mut self.buf)` rule=optional-R9
//@@ subst `io::Error::new( io::ErrorKind::UnexpectedEof, "failed to fill whole buffer", )` => `eof_error()` rule=optional-R9
//@@ spec
    ensures
        final(self).consumed == old(self).consumed,
        r is Ok ==> final(self).buf@.len() >= len && final(self).buf@ + final(self).reader.rest@ =~= old(self).buf@ + old(self).reader.rest@,   // [C20.reader.peek-does-not-consume] filling the peek buffer moves bytes from the stream into the buffer, in order, and loses none
        final(self).buf@.len() <= old(self).buf@.len() + (old(self).reader.rest@.len() - final(self).reader.rest@.len()),     // [C04.ioreader.buffer-holds-only-stream-bytes] success or failure, the peek buffer never grows beyond the bytes the stream actually supplied: a declared length cannot make it allocate
        is_suffix(final(self).reader.rest@, old(self).reader.rest@),
//@@ end
}

impl Read for IoReader {
    open spec fn unread(&self) -> Seq<u8> { self.buf@ + self.reader.rest@ }
    open spec fn consumed(&self) -> nat { self.consumed as nat }
    open spec fn wf(&self) -> bool { true }
    #[verifier::external_body]
    fn read_exact_tail(&mut self, buf: &mut Vec<u8>, start: usize) -> (r: Result<(), IoError>) { unimplemented!() }

//@@ fn file=serde_amqp/src/read/ioread.rs impl=`~Read<'de>forIoReader<R>` name=peek id=IoReader::peek
//@@ end
//@@ fn file=serde_amqp/src/read/ioread.rs impl=`~Read<'de>forIoReader<R>` name=bytes_consumed id=IoReader::bytes_consumed
//@@ end
//@@ fn file=serde_amqp/src/read/ioread.rs impl=`~Read<'de>forIoReader<R>` name=peek_bytes id=IoReader::peek_bytes
//@@ qmark
//@@ subst `&self.buf[..n]` => `vstd::slice::slice_subrange(self.buf.as_slice(), 0, n)` rule=R9
//@@ end
//@@ fn file=serde_amqp/src/read/ioread.rs impl=`~Read<'de>forIoReader<R>` name=next id=IoReader::next
//@@ qmark
//@@ end
//@@ fn file=serde_amqp/src/read/ioread.rs impl=`~Read<'de>forIoReader<R>` name=read_exact id=IoReader::read_exact
//@@ subst `(buf[..l]).copy_from_slice(&self.buf[..l])` => `copy_prefix(buf, &self.buf, l)` rule=R9
//@@ subst `self.reader.read_exact(&mut buf[l..])` => `self.reader.read_exact_slice_tail(buf, l)` rule=R9
//@@ subst `self.buf.drain(..l)` => `vec_drain_front(&mut self.buf, l)` rule=R9
//@@ subst `buf.copy_from_slice(&self.buf[..n])` => `copy_prefix(buf, &self.buf, n)` rule=R9
//@@ subst `self.buf.drain(..n)` => `vec_drain_front(&mut self.buf, n)` rule=R9
//@@ end
}

pub trait ErrInto<T>: Sized { spec fn conv(self) -> T; fn err_into(self) -> (r: T) ensures r == self.conv(); }
impl ErrInto<IoError> for IoError { open spec fn conv(self) -> IoError { self } fn err_into(self) -> (r: IoError) { let e = self; assert(e == <IoError as ErrInto<IoError>>::conv(self)); e } }

// ================================================================ the byte scanners behind LazyValue / forward_read_byte_buf (read/mod.rs)
pub enum Error { Io(IoError), InvalidFormatCode, Other }
impl Error {
    #[verifier::external_body]
    pub fn unexpected_eof(msg: &str) -> (r: Error) ensures r is Io { unimplemented!() }
}
impl ErrInto<Error> for IoError { open spec fn conv(self) -> Error { Error::Io(self) } fn err_into(self) -> (r: Error) { Error::Io(self) } }
impl ErrInto<Error> for Error { open spec fn conv(self) -> Error { self } fn err_into(self) -> (r: Error) { let e = self; assert(e == <Error as ErrInto<Error>>::conv(self)); e } }
//@@ type file=serde_amqp/src/format_code.rs kind=enum name=EncodingCodes keeprepr clone
//@@ end
impl Copy for EncodingCodes {}
//@@ type file=serde_amqp/src/format.rs kind=enum name=Category
//@@ end
/// AMQP 1.0 section 1.2: the constructor's high nibble gives the category and the width -- 0x4_ 0x5_ 0x6_ 0x7_ 0x8_ 0x9_ fixed 0/1/2/4/8/16,
/// 0xA_ 0xB_ variable 1/4, 0xC_ 0xD_ compound 1/4, 0xE_ 0xF_ array 1/4 (an independent reading of the table in format.rs)
pub open spec fn nib(b: u8) -> int { (b as int) / 16 }
pub open spec fn nibble_kind(b: u8) -> int {
    if 4 <= nib(b) <= 9 { 0 } else if nib(b) == 10 || nib(b) == 11 { 1 } else if nib(b) == 12 || nib(b) == 13 { 2 } else if nib(b) == 14 || nib(b) == 15 { 3 } else { -1 }
}
pub open spec fn nibble_width(b: u8) -> int {
    if nib(b) == 4 { 0 } else if nib(b) == 5 { 1 } else if nib(b) == 6 { 2 } else if nib(b) == 7 { 4 } else if nib(b) == 8 { 8 } else if nib(b) == 9 { 16 }
    else if nib(b) == 10 || nib(b) == 12 || nib(b) == 14 { 1 } else { 4 }
}
/// the size field behind a 1- or 4-byte-width constructor
pub open spec fn sp_enc_len(u: Seq<u8>, width: int) -> int { if width == 1 { u[1] as int } else { sp_be32(u.subrange(1, 5)) as int } }
/// length of the non-described encoded value at the head of u
pub open spec fn sp_prim_len(u: Seq<u8>) -> Option<int> {
    if u.len() == 0 { None } else if nibble_kind(u[0]) == 0 { Some(1 + nibble_width(u[0])) }
    else if nibble_kind(u[0]) > 0 { if u.len() >= 1 + nibble_width(u[0]) { Some(1 + nibble_width(u[0]) + sp_enc_len(u, nibble_width(u[0]))) } else { None } }
    else { None }
}
/// length of the encoded value at the head of u: 0x00 descriptor value, or a primitive
pub open spec fn sp_value_len(u: Seq<u8>) -> Option<int> {
    if u.len() > 0 && u[0] == 0 {
        match sp_prim_len(u.skip(1)) {
            Some(l1) => match sp_prim_len(u.skip(1 + l1)) { Some(l2) => Some(1 + l1 + l2), None => None },
            None => None,
        }
    } else { sp_prim_len(u) }
}
//@@ type file=serde_amqp/src/format.rs kind=struct name=IsDescribed
//@@ end
impl EncodingCodes {
//@@ fn file=serde_amqp/src/format_code.rs impl=`impl TryFrom<u8> for EncodingCodes` name=try_from as=try_from_u8
//@@ ret Result<EncodingCodes, Error>
//@@ subst `Error::InvalidFormatCode` => `Error::InvalidFormatCode` rule=optional
//@@ spec
    ensures r is Ok ==> r->Ok_0 as u8 == value,                                                                 // [C05.format-code.table] a byte is accepted as a format code only if it is that code's value
//@@ end
}
impl Category {
//@@ fn file=serde_amqp/src/format.rs impl=`impl TryFrom<EncodingCodes> for Category` name=try_from as=try_from_code
//@@ ret Result<Category, IsDescribed>
//@@ spec
    ensures
        (match r {
            Ok(Category::Fixed(w)) => nibble_kind(value as u8) == 0 && w == nibble_width(value as u8),
            Ok(Category::Variable(w)) => nibble_kind(value as u8) == 1 && w == nibble_width(value as u8),
            Ok(Category::Compound(w)) => nibble_kind(value as u8) == 2 && w == nibble_width(value as u8),
            Ok(Category::Array(w)) => nibble_kind(value as u8) == 3 && w == nibble_width(value as u8),
            Err(_) => value is DescribedType,
        }),                                                                                                      // [C05.format-code.width-by-constructor] the category and width the scanner uses for a format code are the ones its high nibble stands for in the AMQP type system                                                                                                      // [C04.scan.width-table] every variable-width, compound and array constructor has a 1- or 4-byte size field: the scanner's `unreachable!()` really is
//@@ end
}

/// exactly the first k unread bytes were taken
pub open spec fn took<R: Read>(old_r: R, new_r: R, out: Seq<u8>) -> bool {
    &&& out.len() <= old_r.unread().len()
    &&& out =~= old_r.unread().subrange(0, out.len() as int)
    &&& new_r.unread() =~= old_r.unread().skip(out.len() as int)
    &&& new_r.consumed() == old_r.consumed() + out.len()
}
pub open spec fn bounded<R: Read>(r: R) -> bool { r.wf() && r.consumed() + r.unread().len() < usize::MAX }

//@@ fn file=serde_amqp/src/read/mod.rs name=read_fixed_bytes
//@@ qmark
//@@ generics <R: Read>
//@@ nowhere
//@@ spec
    requires bounded(*old(reader)), width <= 16,
    ensures final(reader).wf(), r is Ok ==> r->Ok_0@.len() == width + 1 && took(*old(reader), *final(reader), r->Ok_0@),   // [C20.scan.exact] the scanner returns exactly the bytes of the constructor and its fixed-width body
//@@ end

//@@ fn file=serde_amqp/src/read/mod.rs name=peek_encoded_len
//@@ qmark
//@@ generics <R: Read>
//@@ nowhere
//@@ subst `|| Error::unexpected_eof("parse LazyValue")` => `|| -> (o: Error) { Error::unexpected_eof("parse LazyValue") }` rule=R18
//@@ subst `u32::from_be_bytes(` => `be32(` rule=R9
//@@ at `len_bytes_.copy_from_slice(&len_bytes[1..]);` after
            proof { assert(len_bytes_@ =~= old(reader).unread().subrange(1, 5)); }
//@@ spec
    requires bounded(*old(reader)), width == 1 || width == 4,
    ensures
        final(reader).wf(),
        r is Ok ==> final(reader).unread() =~= old(reader).unread() && final(reader).consumed() == old(reader).consumed()
            && old(reader).unread().len() >= width + 1 && r->Ok_0 <= u32::MAX && r->Ok_0 == sp_enc_len(old(reader).unread(), width as int),                                  // [C20.reader.peek-does-not-consume] reading the size field ahead consumes nothing
//@@ end

//@@ fn file=serde_amqp/src/read/mod.rs name=read_encoded_len_bytes
//@@ qmark
//@@ generics <R: Read>
//@@ nowhere
//@@ spec
    requires bounded(*old(reader)), width == 1 || width == 4,
    ensures final(reader).wf(), r is Ok ==> took(*old(reader), *final(reader), r->Ok_0@) && old(reader).unread().len() >= width + 1
        && r->Ok_0@.len() == 1 + width + sp_enc_len(old(reader).unread(), width as int),                        // [C20.scan.exact] constructor + size field + exactly the declared number of bytes
//@@ end

//@@ fn file=serde_amqp/src/read/mod.rs name=read_primitive_bytes_or_else as=read_primitive_bytes_or_invalid
//@@ qmark
//@@ generics <R: Read>
//@@ nowhere
//@@ param op : Ghost<int>
//@@ subst `|code| code.try_into()` => `|code: u8| -> (o: Result<EncodingCodes, Error>) ensures o is Ok ==> o->Ok_0 as u8 == code { EncodingCodes::try_from_u8(code) }` rule=R18
//@@ subst `Category::try_from(code)` => `Category::try_from_code(code)` rule=R2
//@@ subst `op(reader)` => `Err::<Vec<u8>, Error>(Error::InvalidFormatCode)` rule=R28
//@@ spec
    requires bounded(*old(reader)),
    ensures final(reader).wf(), bounded(*final(reader)) || r is Err,
        r is Ok ==> took(*old(reader), *final(reader), r->Ok_0@) && sp_prim_len(old(reader).unread()) == Some(r->Ok_0@.len() as int),   // [C20.scan.exact] a primitive value is scanned to exactly the length its constructor and size field say
//@@ end

//@@ fn file=serde_amqp/src/read/mod.rs name=read_described_bytes
//@@ qmark
//@@ generics <R: Read>
//@@ nowhere
//@@ subst `read_primitive_bytes_or_else(reader, |_v0| Err(Error::InvalidFormatCode))` => `read_primitive_bytes_or_invalid(reader, Ghost(0))` rule=R28
//@@ subst `read_primitive_bytes_or_else(reader, |_v1| Err(Error::InvalidFormatCode))` => `read_primitive_bytes_or_invalid(reader, Ghost(0))` rule=R28
//@@ subst `bytes.append(&mut descriptor_bytes)` => `vec_append(&mut bytes, &mut descriptor_bytes)` rule=R9
//@@ subst `bytes.append(&mut value_bytes)` => `vec_append(&mut bytes, &mut value_bytes)` rule=R9
//@@ at `vec_append(&mut bytes, &mut descriptor_bytes);` before
    let ghost l1 = descriptor_bytes@.len() as int;
    proof { assert(reader.unread() =~= old(reader).unread().skip(1 + l1)); }
//@@ at `vec_append(&mut bytes, &mut value_bytes);` before
    let ghost l2 = value_bytes@.len() as int;
    proof {
        assert(reader.unread() =~= old(reader).unread().skip(1 + l1 + l2));
        assert(old(reader).unread().skip(1).skip(l1) =~= old(reader).unread().skip(1 + l1));
    }
//@@ spec
    requires bounded(*old(reader)),
    ensures final(reader).wf(), r is Ok ==> took(*old(reader), *final(reader), r->Ok_0@) && old(reader).unread().len() > 0
        && (old(reader).unread()[0] == 0 ==> sp_value_len(old(reader).unread()) == Some(r->Ok_0@.len() as int)),     // [C20.scan.exact] a described value is scanned as 0x00 + descriptor + value, each exactly; a described descriptor or a doubly described value is refused (no recursion)
//@@ end

//@@ fn file=serde_amqp/src/read/mod.rs name=read_primitive_bytes_or_else
//@@ qmark
//@@ generics <R: Read>
//@@ nowhere
//@@ param op : Ghost<int>
//@@ subst `|code| code.try_into()` => `|code: u8| -> (o: Result<EncodingCodes, Error>) ensures o is Ok ==> o->Ok_0 as u8 == code { EncodingCodes::try_from_u8(code) }` rule=R18
//@@ subst `Category::try_from(code)` => `Category::try_from_code(code)` rule=R2
//@@ subst `op(reader)` => `read_described_bytes(reader)` rule=R28
//@@ spec
    requires bounded(*old(reader)),
    ensures final(reader).wf(), r is Ok ==> took(*old(reader), *final(reader), r->Ok_0@) && sp_value_len(old(reader).unread()) == Some(r->Ok_0@.len() as int),   // [C20.scan.exact] LazyValue / byte_buf scanning takes exactly one encoded value off the reader, whatever follows it stays
//@@ end

/// Vec::append
#[verifier::external_body]
pub fn vec_append(a: &mut Vec<u8>, b: &mut Vec<u8>)
    ensures final(a)@ == old(a)@ + old(b)@, final(b)@.len() == 0,
{ unimplemented!() }

} // verus!
fn main() {}
