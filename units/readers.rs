//@@ unit READERS
//@@ gsubst `Vec::with_capacity(` => `vec_with_capacity_bounded(` rule=R9
//@@ gsubst `io::Error::new(io::ErrorKind::UnexpectedEof, "")` => `eof_error()` rule=R9
//@@ gsubst `io::Error` => `IoError` rule=R11
#![feature(allocator_api)]
#![allow(unused_imports, unused_variables, dead_code, unused_mut, unused_parens)]
use vstd::prelude::*;

verus! {

global size_of usize == 8;

//@@ trusted the byte stream behind IoReader (`R: io::Read`) is a stand-in: a ghost sequence `rest` of bytes still to come; read_exact(buf) either fills buf with the next |buf| bytes, or fails having taken fewer than |buf| bytes (any I/O error, not only end-of-stream); `take(k).read_to_end(v)` appends the next min(k, |rest|) bytes to v or fails
//@@ trusted allocation is modelled at the two request sites that take a length from the wire: `vec![0u8; n]` and `Vec::resize(n, 0)` become alloc stand-ins whose PRECONDITION bounds the requested length by the input still unread plus READ_BYTES_CHUNK (a request beyond that is the violation); Vec growth inside read_to_end / push is amortised by std and proportional to the bytes appended
//@@ trusted std slice/Vec library calls with their documented semantics: slice::{split_at, first, get(..n)}, Option::copied, Vec::{remove, push, resize}, `<&[u8] as io::Read>::read_exact` (on a short slice: Err and the slice is emptied), Vec::drain(..l) (drops the first l), copy_from_slice, u32::from_be_bytes (uninterpreted)
//@@ trusted read_primitive_bytes_or_else takes its fallback as a generic FnOnce: it is instantiated at its two call sites (op = read_described_bytes at top level, op = |_| Err(InvalidFormatCode) below a descriptor) as two functions (R28)
//@@ trusted fewer than 2^64 bytes pass through a reader (consumed counters); usize is 64 bits

macro_rules! opaque_err { () => { verus!{ #[verifier::external_body] pub struct FromUtf8Error { _p: u8 } } } }
pub struct IoError { pub k: u8 }
#[verifier::external_body]
pub fn eof_error() -> (r: IoError) { unimplemented!() }
/// Option::<&u8>::copied
pub fn opt_copied(o: Option<&u8>) -> (r: Option<u8>) ensures r == (match o { Some(x) => Some(*x), None => None::<u8> }) { match o { Some(x) => Some(*x), None => None } }
pub assume_specification<T, E, U, F: FnOnce(T) -> Result<U, E>>[ Result::<T, E>::and_then ](r: Result<T, E>, f: F) -> (o: Result<U, E>)
    requires r is Ok ==> f.requires((r->Ok_0,)),
    ensures (match r { Ok(v) => f.ensures((v,), o), Err(e) => o == Err::<U, E>(e) });
/// u32::from_be_bytes
pub open spec fn sp_be32(b: Seq<u8>) -> u32 { ((b[0] as u32) << 24 | (b[1] as u32) << 16 | (b[2] as u32) << 8 | (b[3] as u32)) as u32 }
#[verifier::external_body]
pub fn from_be32(b: [u8; 4]) -> (r: u32) ensures r == sp_be32(b@) { u32::from_be_bytes(b) }

/// how far ahead of the input an allocation request may run
pub const READ_BYTES_CHUNK: usize = 65536;
/// `vec![0u8; n]` with the resource contract: the request is bounded by the input still available (+ one chunk)
#[verifier::external_body]
pub fn alloc_zeroed_vec(n: usize, avail: Ghost<nat>) -> (r: Vec<u8>)
    requires n <= avail@ + READ_BYTES_CHUNK,      // [C04.alloc.bounded-by-input]
    ensures r@.len() == n,
{ unimplemented!() }
/// `Vec::with_capacity(n)`: reserving capacity IS an allocation. Nothing is known about the input still available where a capacity is reserved up front,
/// so only a request within one chunk is admitted (not used by the code under contract today: present so that a change introducing it is decided)
#[verifier::external_body]
pub fn vec_with_capacity_bounded(n: usize) -> (r: Vec<u8>)
    requires n <= READ_BYTES_CHUNK,      // [C04.alloc.bounded-by-input]
    ensures r@.len() == 0,
{ unimplemented!() }
/// `v.resize(n, 0)` with the same resource contract
#[verifier::external_body]
pub fn vec_resize_zeroed(v: &mut Vec<u8>, n: usize, avail: Ghost<nat>)
    requires n <= avail@ + READ_BYTES_CHUNK,      // [C04.alloc.bounded-by-input]
    ensures final(v)@.len() == n, forall|i: int| 0 <= i < n && i < old(v)@.len() ==> final(v)@[i] == old(v)@[i],
{ unimplemented!() }
/// `v.reserve(n)`: capacity for n more octets is allocated NOW, whether they ever arrive or not -- the same resource contract
#[verifier::external_body]
pub fn vec_reserve(v: &mut Vec<u8>, n: usize, avail: Ghost<nat>)
    requires n <= avail@ + READ_BYTES_CHUNK,      // [C04.alloc.bounded-by-input] [C15.alloc.bounded-by-input] memory is set aside in proportion to the octets the input really holds (plus one chunk), never to a length field the peer declared
    ensures final(v)@ == old(v)@,
{ unimplemented!() }
#[verifier::external_body]
pub fn vec_drain_front(v: &mut Vec<u8>, l: usize)
    requires l <= old(v)@.len(),
    ensures final(v)@ == old(v)@.skip(l as int),
{ unimplemented!() }

pub open spec fn is_suffix(a: Seq<u8>, b: Seq<u8>) -> bool { a.len() <= b.len() && a =~= b.skip(b.len() - a.len()) }

// ================================================================ the Read trait (read/mod.rs): ONE contract, checked against both readers
pub trait Read: Sized {
    /// the bytes not yet consumed (peeked ones included), and how many were consumed
    spec fn unread(&self) -> Seq<u8>;
    spec fn consumed(&self) -> nat;
    spec fn wf(&self) -> bool;
    /// the source never fails while it still has the bytes asked for (true of a slice; of a stream only if it has no I/O errors)
    spec fn reliable(&self) -> bool;

//@@ decl name=Read::peek sig=`fn peek(&mut self) -> (r: Option<u8>)`
//@@ spec
        requires old(self).wf(),
        ensures
            final(self).wf(),
            final(self).unread() =~= old(self).unread() && final(self).consumed() == old(self).consumed(),   // [C20.reader.peek-does-not-consume] peeking leaves every byte where it was
            r is Some ==> old(self).unread().len() > 0 && r->Some_0 == old(self).unread()[0],                 // [C20.reader.peek-value]
            final(self).reliable() == old(self).reliable(), old(self).reliable() && old(self).unread().len() > 0 ==> r is Some,   // [C05.reader.available-bytes-are-delivered]
//@@ end

//@@ decl name=Read::bytes_consumed sig=`fn bytes_consumed(&self) -> (r: usize)`
//@@ spec
        requires self.wf(),
        ensures r == self.consumed(),
//@@ end

//@@ decl name=Read::next sig=`fn next(&mut self) -> (r: Result<Option<u8>, IoError>)`
//@@ spec
        requires old(self).wf(), old(self).consumed() + old(self).unread().len() < usize::MAX,
        ensures
            final(self).wf(),
            (match r {
                Ok(Some(b)) => old(self).unread().len() > 0 && b == old(self).unread()[0] && final(self).unread() =~= old(self).unread().skip(1)
                    && final(self).consumed() == old(self).consumed() + 1,                                   // [C20.reader.next] next() yields exactly the first unread byte and consumes exactly it
                Ok(None) => old(self).unread().len() == 0 && final(self).unread() == old(self).unread() && final(self).consumed() == old(self).consumed(),
                Err(_) => final(self).unread() == old(self).unread() && final(self).consumed() == old(self).consumed(),
            }),
            final(self).reliable() == old(self).reliable(), old(self).reliable() && old(self).unread().len() > 0 ==> r is Ok && r->Ok_0 is Some,   // [C05.reader.available-bytes-are-delivered]
//@@ end

//@@ fn file=serde_amqp/src/read/mod.rs impl=`~Read<'de>:private::Sealed` name=read_const_bytes
//@@ qmark
//@@ spec
        requires old(self).wf(), old(self).consumed() + old(self).unread().len() < usize::MAX,
        ensures
            final(self).wf(),
            r is Ok ==> N <= old(self).unread().len() && r->Ok_0@ =~= old(self).unread().subrange(0, N as int) && final(self).unread() =~= old(self).unread().skip(N as int)
                && final(self).consumed() == old(self).consumed() + N,                                       // [C20.reader.read-exact]
            final(self).reliable() == old(self).reliable(), old(self).reliable() && N <= old(self).unread().len() ==> r is Ok,   // [C05.reader.available-bytes-are-delivered]
//@@ end

//@@ decl name=Read::peek_bytes sig=`fn peek_bytes(&mut self, n: usize) -> (r: Result<Option<&[u8]>, IoError>)`
//@@ spec
        requires old(self).wf(),
        ensures
            final(self).wf(),
            (match r {
                Ok(Some(s)) => n <= old(self).unread().len() && s@ =~= old(self).unread().subrange(0, n as int),   // [C20.reader.peek-bytes-value]
                Ok(None) => old(self).unread().len() < n,
                Err(_) => true,
            }),
            final(self).reliable() == old(self).reliable(), old(self).reliable() && n <= old(self).unread().len() ==> r is Ok && r->Ok_0 is Some,   // [C05.reader.available-bytes-are-delivered]
            r is Ok ==> final(self).unread() =~= old(self).unread() && final(self).consumed() == old(self).consumed(),   // [C20.reader.peek-does-not-consume] whatever follows the peeked bytes is still there for the next reader of the stream
//@@ end

//@@ fn file=serde_amqp/src/read/mod.rs impl=`~Read<'de>:private::Sealed` name=read_bytes
//@@ attr #[verifier::loop_isolation(false)]
//@@ shape loops=while
//@@ attr #[verifier::exec_allows_no_decreases_clause]
//@@ qmark
//@@ subst `vec![0u8; n]` => `alloc_zeroed_vec(n, Ghost(self.unread().len()))` rule=optional-R9
//@@ subst `buf.resize(end, 0)` => `{ let ghost av = buf@.len() + self.unread().len(); vec_resize_zeroed(&mut buf, end, Ghost(av)) }` rule=optional-R9
//@@ subst `self.read_exact(&mut buf[start..])` => `self.read_exact_tail(&mut buf, start)` rule=optional-R9
//@@ spec
        requires old(self).wf(), old(self).consumed() + old(self).unread().len() < usize::MAX,
        ensures
            final(self).wf(),
            r is Ok ==> n <= old(self).unread().len() && r->Ok_0@ =~= old(self).unread().subrange(0, n as int) && final(self).unread() =~= old(self).unread().skip(n as int)
                && final(self).consumed() == old(self).consumed() + n,                                       // [C03.reader.read-exact] [C20.reader.read-exact] [C01.reader.read-exact] read_bytes(n) returns exactly the next n bytes and consumes exactly them
            r is Err ==> final(self).unread().len() <= old(self).unread().len(),                             // [C04.reader.error-loses-only-input]
            final(self).reliable() == old(self).reliable(), old(self).reliable() && n <= old(self).unread().len() ==> r is Ok,   // [C05.reader.available-bytes-are-delivered]
//@@ loop 0 optional
            invariant
                self.wf(), buf@.len() <= n,
                buf@.len() <= old(self).unread().len(),
                forall|i: int| 0 <= i < buf@.len() ==> buf@[i] == old(self).unread()[i],
                self.unread() =~= old(self).unread().skip(buf@.len() as int),
                self.consumed() == old(self).consumed() + buf@.len(),
                old(self).consumed() + old(self).unread().len() < usize::MAX,
                self.reliable() == old(self).reliable(),
//@@ end

//@@ decl name=Read::read_exact sig=`fn read_exact(&mut self, buf: &mut [u8]) -> (r: Result<(), IoError>)`
//@@ spec
        requires old(self).wf(), old(self).consumed() + old(self).unread().len() < usize::MAX,
        ensures
            final(self).wf(),
            final(buf)@.len() == old(buf)@.len(),
            r is Ok ==> old(buf)@.len() <= old(self).unread().len() && final(buf)@ =~= old(self).unread().subrange(0, old(buf)@.len() as int)
                && final(self).unread() =~= old(self).unread().skip(old(buf)@.len() as int)
                && final(self).consumed() == old(self).consumed() + old(buf)@.len(),                         // [C20.reader.read-exact] read_exact fills the buffer with exactly the next |buf| unread bytes and consumes exactly them
            r is Err ==> is_suffix(final(self).unread(), old(self).unread()) && final(self).consumed() + final(self).unread().len() <= old(self).consumed() + old(self).unread().len(),   // [C04.reader.error-loses-only-input] a failed read may drop input but never invents any
            final(self).reliable() == old(self).reliable(), old(self).reliable() && old(buf)@.len() <= old(self).unread().len() ==> r is Ok,   // [C05.reader.available-bytes-are-delivered]
//@@ end

    /// `self.read_exact(&mut buf[start..])`: read_exact into the tail of a vector, the head stays as it is (stand-in in both impls)
    fn read_exact_tail(&mut self, buf: &mut Vec<u8>, start: usize) -> (r: Result<(), IoError>)
        requires old(self).wf(), start <= old(buf)@.len(), old(self).consumed() + old(self).unread().len() < usize::MAX,
        ensures
            final(self).wf(), final(buf)@.len() == old(buf)@.len(), forall|i: int| 0 <= i < start ==> final(buf)@[i] == old(buf)@[i],
            r is Ok ==> old(buf)@.len() - start <= old(self).unread().len() && (forall|i: int| start <= i < old(buf)@.len() ==> final(buf)@[i] == old(self).unread()[i - start])
                && final(self).unread() =~= old(self).unread().skip(old(buf)@.len() - start) && final(self).consumed() == old(self).consumed() + (old(buf)@.len() - start),
            r is Err ==> is_suffix(final(self).unread(), old(self).unread()),
            final(self).reliable() == old(self).reliable(), old(self).reliable() && old(buf)@.len() - start <= old(self).unread().len() ==> r is Ok;
}

// ================================================================ SliceReader (read/sliceread.rs)
//@@ type file=serde_amqp/src/read/sliceread.rs kind=struct name=SliceReader
//@@ end
/// `<&[u8] as std::io::Read>::read_exact`
#[verifier::external_body]
pub fn slice_read_exact(s: &mut &[u8], buf: &mut [u8]) -> (r: Result<(), IoError>)
    ensures
        final(buf)@.len() == old(buf)@.len(),
        old(buf)@.len() <= old(s)@.len() ==> r is Ok && final(buf)@ == old(s)@.subrange(0, old(buf)@.len() as int) && final(s)@ == old(s)@.skip(old(buf)@.len() as int),
        old(buf)@.len() > old(s)@.len() ==> r is Err && final(s)@.len() == 0,
{ unimplemented!() }

impl<'s> SliceReader<'s> {
//@@ fn file=serde_amqp/src/read/sliceread.rs impl=`impl<'s> SliceReader<'s>` name=new
//@@ spec
    ensures r.slice@ == slice@, r.initial_len == slice@.len(),
//@@ end

//@@ fn file=serde_amqp/src/read/sliceread.rs impl=`impl<'s> SliceReader<'s>` name=get_byte_slice
//@@ spec
    requires old(self).slice@.len() <= old(self).initial_len,
    ensures
        final(self).initial_len == old(self).initial_len,
        (match r {
            Ok(s) => n <= old(self).slice@.len() && s@ == old(self).slice@.subrange(0, n as int) && final(self).slice@ == old(self).slice@.skip(n as int),   // [C20.reader.read-exact]
            Err(_) => n > old(self).slice@.len() && final(self).slice@ == old(self).slice@,                 // [C04.reader.short-input-is-an-error] a length beyond the input is an error and touches nothing -- no allocation, no panic
        }),
//@@ end
}

impl<'s> Read for SliceReader<'s> {
    open spec fn unread(&self) -> Seq<u8> { self.slice@ }
    open spec fn consumed(&self) -> nat { (self.initial_len - self.slice@.len()) as nat }
    open spec fn wf(&self) -> bool { self.slice@.len() <= self.initial_len }
    open spec fn reliable(&self) -> bool { true }
    #[verifier::external_body]
    fn read_exact_tail(&mut self, buf: &mut Vec<u8>, start: usize) -> (r: Result<(), IoError>) { unimplemented!() }

//@@ fn file=serde_amqp/src/read/sliceread.rs impl=`impl<'s> Read<'s> for SliceReader<'s>` name=peek id=SliceReader::peek
//@@ subst `self.slice.first().copied()` => `opt_copied(self.slice.first())` rule=R9
//@@ end
//@@ fn file=serde_amqp/src/read/sliceread.rs impl=`impl<'s> Read<'s> for SliceReader<'s>` name=bytes_consumed id=SliceReader::bytes_consumed
//@@ end
//@@ fn file=serde_amqp/src/read/sliceread.rs impl=`impl<'s> Read<'s> for SliceReader<'s>` name=peek_bytes id=SliceReader::peek_bytes
//@@ end
//@@ fn file=serde_amqp/src/read/sliceread.rs impl=`impl<'s> Read<'s> for SliceReader<'s>` name=next id=SliceReader::next
//@@ qmark
//@@ end
//@@ fn file=serde_amqp/src/read/sliceread.rs impl=`impl<'s> Read<'s> for SliceReader<'s>` name=read_exact id=SliceReader::read_exact
//@@ subst `std::io::Read::read_exact(&mut self.slice, buf)` => `slice_read_exact(&mut self.slice, buf)` rule=R9
//@@ end
}


// ================================================================ IoReader (read/ioread.rs)
/// the underlying `R: io::Read`
pub struct Stream { pub rest: Ghost<Seq<u8>>, pub reliable: Ghost<bool> }
impl Stream {
    /// `io::Read::read_exact`
    #[verifier::external_body]
    pub fn read_exact(&mut self, buf: &mut [u8]) -> (r: Result<(), IoError>)
        ensures
            final(buf)@.len() == old(buf)@.len(),
            r is Ok ==> old(buf)@.len() <= old(self).rest@.len() && final(buf)@ == old(self).rest@.subrange(0, old(buf)@.len() as int) && final(self).rest@ == old(self).rest@.skip(old(buf)@.len() as int),
            r is Err ==> is_suffix(final(self).rest@, old(self).rest@) && old(self).rest@.len() - final(self).rest@.len() < old(buf)@.len(),
            final(self).reliable == old(self).reliable, old(self).reliable@ && old(buf)@.len() <= old(self).rest@.len() ==> r is Ok,
    { unimplemented!() }
    /// `self.reader.read_exact(&mut v[l..])`
    #[verifier::external_body]
    pub fn read_exact_tail(&mut self, v: &mut Vec<u8>, l: usize) -> (r: Result<(), IoError>)
        requires l <= old(v)@.len(),
        ensures
            final(v)@.len() == old(v)@.len(), forall|i: int| 0 <= i < l ==> final(v)@[i] == old(v)@[i],
            r is Ok ==> old(v)@.len() - l <= old(self).rest@.len() && (forall|i: int| l <= i < old(v)@.len() ==> final(v)@[i] == old(self).rest@[i - l]) && final(self).rest@ == old(self).rest@.skip(old(v)@.len() - l),
            r is Err ==> is_suffix(final(self).rest@, old(self).rest@) && old(self).rest@.len() - final(self).rest@.len() < old(v)@.len() - l,
            final(self).reliable == old(self).reliable, old(self).reliable@ && old(v)@.len() - l <= old(self).rest@.len() ==> r is Ok,
    { unimplemented!() }
    /// `self.reader.read_exact(&mut buf[l..])` for a caller's slice
    #[verifier::external_body]
    pub fn read_exact_slice_tail(&mut self, buf: &mut [u8], l: usize) -> (r: Result<(), IoError>)
        requires l <= old(buf)@.len(),
        ensures
            final(buf)@.len() == old(buf)@.len(), forall|i: int| 0 <= i < l ==> final(buf)@[i] == old(buf)@[i],
            r is Ok ==> old(buf)@.len() - l <= old(self).rest@.len() && (forall|i: int| l <= i < old(buf)@.len() ==> final(buf)@[i] == old(self).rest@[i - l]) && final(self).rest@ == old(self).rest@.skip(old(buf)@.len() - l),
            r is Err ==> is_suffix(final(self).rest@, old(self).rest@) && old(self).rest@.len() - final(self).rest@.len() < old(buf)@.len() - l,
            final(self).reliable == old(self).reliable, old(self).reliable@ && old(buf)@.len() - l <= old(self).rest@.len() ==> r is Ok,
    { unimplemented!() }
    /// `(&mut self.reader).take(k).read_to_end(v)`: appends the next min(k, |rest|) bytes; Ok(number appended)
    #[verifier::external_body]
    pub fn take_read_to_end(&mut self, k: u64, v: &mut Vec<u8>) -> (r: Result<usize, IoError>)
        ensures
            (match r {
                Ok(n) => n == (if k as int <= old(self).rest@.len() { k as int } else { old(self).rest@.len() as int })
                    && final(v)@ == old(v)@ + old(self).rest@.subrange(0, n as int) && final(self).rest@ == old(self).rest@.skip(n as int),
                Err(_) => exists|n: int| 0 <= n <= old(self).rest@.len() && n <= k && final(v)@ == old(v)@ + old(self).rest@.subrange(0, n) && final(self).rest@ == old(self).rest@.skip(n),
            }),
            final(self).reliable == old(self).reliable, old(self).reliable@ ==> r is Ok,
    { unimplemented!() }
}

/// `(buf[..l]).copy_from_slice(&src[..l])`
#[verifier::external_body]
pub fn copy_prefix(buf: &mut [u8], src: &Vec<u8>, l: usize)
    requires l <= old(buf)@.len(), l <= src@.len(),
    ensures final(buf)@.len() == old(buf)@.len(), forall|i: int| 0 <= i < l ==> final(buf)@[i] == src@[i], forall|i: int| l <= i < old(buf)@.len() ==> final(buf)@[i] == old(buf)@[i],
{ unimplemented!() }

//@@ type file=serde_amqp/src/read/ioread.rs kind=struct name=IoReader
//@@ subst `<R>` => `` rule=R7
//@@ subst `reader: R` => `reader: Stream` rule=R7
//@@ end

impl IoReader {
//@@ fn file=serde_amqp/src/read/ioread.rs impl=`impl<R: io::Read> IoReader<R>` name=pop_first
//@@ spec
    ensures
        final(self).reader == old(self).reader && final(self).consumed == old(self).consumed,
        (match r { Some(b) => old(self).buf@.len() > 0 && b == old(self).buf@[0] && final(self).buf@ == old(self).buf@.skip(1), None => old(self).buf@.len() == 0 && final(self).buf@ == old(self).buf@ }),
//@@ end

//@@ fn file=serde_amqp/src/read/ioread.rs impl=`impl<R: io::Read> IoReader<R>` name=fill_buffer
//@@ qmark
//@@ subst `self.buf.resize(len, 0)` => `{ let ghost av = self.buf@.len() + self.reader.rest@.len(); vec_resize_zeroed(&mut self.buf, len, Ghost(av)) }` rule=optional-R9
//@@ subst `self.reader.read_exact(&mut self.buf[l..])` => `self.reader.read_exact_tail(&mut self.buf, l)` rule=optional-R9
//@@ subst `self.buf.reserve(__E1)` => `{ let ghost av = self.reader.rest@.len(); vec_reserve(&mut self.buf, __E1, Ghost(av)) }` rule=optional-R9
//@@ subst `io::Read::take(&mut self.reader,` => `take_limit(` rule=optional-R9
//@@ subst `io::Read::read_to_end(&mut limited, &mut self.buf)` => `self.reader.take_read_to_end(limited, &mut self.buf)` rule=optional-R9
//@@ subst `io::Error::new( io::ErrorKind::UnexpectedEof, "failed to fill whole buffer", )` => `eof_error()` rule=optional-R9
//@@ spec
    ensures
        final(self).consumed == old(self).consumed,
        r is Ok ==> final(self).buf@.len() >= len && final(self).buf@ + final(self).reader.rest@ =~= old(self).buf@ + old(self).reader.rest@,   // [C20.reader.peek-does-not-consume] [C15.reader.short-input-is-an-error] a successful fill really holds the `len` octets asked for: a frame that ends part-way through a value (truncated descriptor, array body longer than the frame) is reported as an error here -- the callers slice `&buf[..len]` and would panic in the engine task otherwise; filling the peek buffer moves bytes from the stream into the buffer, in order, and loses none
        final(self).buf@.len() <= old(self).buf@.len() + (old(self).reader.rest@.len() - final(self).reader.rest@.len()),     // [C04.ioreader.buffer-holds-only-stream-bytes] success or failure, the peek buffer never grows beyond the bytes the stream actually supplied: a declared length cannot make it allocate
        r is Ok ==> final(self).buf@.len() == (if old(self).buf@.len() >= len { old(self).buf@.len() } else { len as nat }),   // [C20.reader.peeks-no-more-than-asked] the peek buffer is filled up to what was asked for and no further: nothing beyond the value being decoded is taken off the stream (what follows it -- a transfer's payload after its performative -- stays in the stream)
        is_suffix(final(self).reader.rest@, old(self).reader.rest@),
        final(self).reader.reliable == old(self).reader.reliable, old(self).reader.reliable@ && len <= old(self).buf@.len() + old(self).reader.rest@.len() ==> r is Ok,   // [C05.reader.available-bytes-are-delivered]
//@@ end
}

impl Read for IoReader {
    open spec fn unread(&self) -> Seq<u8> { self.buf@ + self.reader.rest@ }
    open spec fn consumed(&self) -> nat { self.consumed as nat }
    open spec fn wf(&self) -> bool { true }
    open spec fn reliable(&self) -> bool { self.reader.reliable@ }
    #[verifier::external_body]
    fn read_exact_tail(&mut self, buf: &mut Vec<u8>, start: usize) -> (r: Result<(), IoError>) { unimplemented!() }

//@@ fn file=serde_amqp/src/read/ioread.rs impl=`~Read<'de>forIoReader<R>` name=peek id=IoReader::peek
//@@ end
//@@ fn file=serde_amqp/src/read/ioread.rs impl=`~Read<'de>forIoReader<R>` name=bytes_consumed id=IoReader::bytes_consumed
//@@ end
//@@ fn file=serde_amqp/src/read/ioread.rs impl=`~Read<'de>forIoReader<R>` name=peek_bytes id=IoReader::peek_bytes
//@@ qmark
//@@ subst `&self.buf[..n]` => `vstd::slice::slice_subrange(self.buf.as_slice(), 0, n)` rule=optional-R9
//@@ subst `Some(&self.buf)` => `Some(self.buf.as_slice())` rule=optional-R9
//@@ end
//@@ fn file=serde_amqp/src/read/ioread.rs impl=`~Read<'de>forIoReader<R>` name=next id=IoReader::next
//@@ qmark
//@@ end
//@@ fn file=serde_amqp/src/read/ioread.rs impl=`~Read<'de>forIoReader<R>` name=read_exact id=IoReader::read_exact
//@@ subst `(buf[..l]).copy_from_slice(&self.buf[..l])` => `copy_prefix(buf, &self.buf, l)` rule=R9
//@@ subst `self.reader.read_exact(&mut buf[l..])` => `self.reader.read_exact_slice_tail(buf, l)` rule=R9
//@@ subst `self.buf.drain(..l)` => `vec_drain_front(&mut self.buf, l)` rule=optional-R9
//@@ subst `buf.copy_from_slice(&self.buf[..n])` => `copy_prefix(buf, &self.buf, n)` rule=R9
//@@ subst `self.buf.drain(..n)` => `vec_drain_front(&mut self.buf, n)` rule=optional-R9
//@@ end
}

pub trait ErrInto<T>: Sized { spec fn conv(self) -> T; fn err_into(self) -> (r: T) ensures r == self.conv(); }
impl ErrInto<IoError> for IoError { open spec fn conv(self) -> IoError { self } fn err_into(self) -> (r: IoError) { let e = self; assert(e == <IoError as ErrInto<IoError>>::conv(self)); e } }

// ================================================================ the byte scanners behind LazyValue / forward_read_byte_buf (read/mod.rs)
pub enum Error { Io(IoError), InvalidFormatCode, InvalidValue, InvalidLength, SequenceLengthMismatch, Other }
impl Error {
    #[verifier::external_body]
    pub fn unexpected_eof(msg: &str) -> (r: Error) ensures r is Io { unimplemented!() }
}
impl ErrInto<Error> for IoError { open spec fn conv(self) -> Error { Error::Io(self) } fn err_into(self) -> (r: Error) { Error::Io(self) } }
impl ErrInto<Error> for Error { open spec fn conv(self) -> Error { self } fn err_into(self) -> (r: Error) { let e = self; assert(e == <Error as ErrInto<Error>>::conv(self)); e } }
//@@ type file=serde_amqp/src/format_code.rs kind=enum name=EncodingCodes keeprepr clone
//@@ end
impl Copy for EncodingCodes {}
//@@ type file=serde_amqp/src/format.rs kind=enum name=Category
//@@ end
/// AMQP 1.0 section 1.2: the constructor's high nibble gives the category and the width -- 0x4_ 0x5_ 0x6_ 0x7_ 0x8_ 0x9_ fixed 0/1/2/4/8/16,
/// 0xA_ 0xB_ variable 1/4, 0xC_ 0xD_ compound 1/4, 0xE_ 0xF_ array 1/4 (an independent reading of the table in format.rs)
pub open spec fn nib(b: u8) -> int { (b as int) / 16 }
pub open spec fn nibble_kind(b: u8) -> int {
    if 4 <= nib(b) <= 9 { 0 } else if nib(b) == 10 || nib(b) == 11 { 1 } else if nib(b) == 12 || nib(b) == 13 { 2 } else if nib(b) == 14 || nib(b) == 15 { 3 } else { -1 }
}
pub open spec fn nibble_width(b: u8) -> int {
    if nib(b) == 4 { 0 } else if nib(b) == 5 { 1 } else if nib(b) == 6 { 2 } else if nib(b) == 7 { 4 } else if nib(b) == 8 { 8 } else if nib(b) == 9 { 16 }
    else if nib(b) == 10 || nib(b) == 12 || nib(b) == 14 { 1 } else { 4 }
}
/// the size field behind a 1- or 4-byte-width constructor
pub open spec fn sp_enc_len(u: Seq<u8>, width: int) -> int { if width == 1 { u[1] as int } else { sp_be32(u.subrange(1, 5)) as int } }
/// length of the non-described encoded value at the head of u
pub open spec fn sp_prim_len(u: Seq<u8>) -> Option<int> {
    if u.len() == 0 { None } else if nibble_kind(u[0]) == 0 { Some(1 + nibble_width(u[0])) }
    else if nibble_kind(u[0]) > 0 { if u.len() >= 1 + nibble_width(u[0]) { Some(1 + nibble_width(u[0]) + sp_enc_len(u, nibble_width(u[0]))) } else { None } }
    else { None }
}
/// length of the encoded value at the head of u: 0x00 descriptor value, or a primitive
pub open spec fn sp_value_len(u: Seq<u8>) -> Option<int> {
    if u.len() > 0 && u[0] == 0 {
        match sp_prim_len(u.skip(1)) {
            Some(l1) => match sp_prim_len(u.skip(1 + l1)) { Some(l2) => Some(1 + l1 + l2), None => None },
            None => None,
        }
    } else { sp_prim_len(u) }
}
//@@ type file=serde_amqp/src/format.rs kind=struct name=IsDescribed
//@@ end
/// the constructors defined by AMQP 1.0 part 1 section 1.6 (primitive types), plus the described-type marker 0x00
pub open spec fn amqp_ctor(b: u8) -> bool {
    b == 0x00 || b == 0x40 || b == 0x56 || b == 0x41 || b == 0x42 || b == 0x50 || b == 0x60 || b == 0x70 || b == 0x52 || b == 0x43
    || b == 0x80 || b == 0x53 || b == 0x44 || b == 0x51 || b == 0x61 || b == 0x71 || b == 0x54 || b == 0x81 || b == 0x55
    || b == 0x72 || b == 0x82 || b == 0x74 || b == 0x84 || b == 0x94 || b == 0x73 || b == 0x83 || b == 0x98
    || b == 0xa0 || b == 0xb0 || b == 0xa1 || b == 0xb1 || b == 0xa3 || b == 0xb3
    || b == 0x45 || b == 0xc0 || b == 0xd0 || b == 0xc1 || b == 0xd1 || b == 0xe0 || b == 0xf0
}
impl EncodingCodes {
//@@ fn file=serde_amqp/src/format_code.rs impl=`impl TryFrom<u8> for EncodingCodes` name=try_from as=try_from_u8
//@@ ret Result<EncodingCodes, Error>
//@@ subst `Error::InvalidFormatCode` => `Error::InvalidFormatCode` rule=optional
//@@ spec
    ensures r is Ok ==> r->Ok_0 as u8 == value,                                                                 // [C05.format-code.table] [C03.rt.decoder-premise] a byte is accepted as a format code only if it is that code's value
        amqp_ctor(value) ==> r is Ok,                                                                          // [C05.format-code.complete] every constructor of the AMQP 1.0 primitive type system (and 0x00) is recognised
//@@ end
}
impl Category {
//@@ fn file=serde_amqp/src/format.rs impl=`impl TryFrom<EncodingCodes> for Category` name=try_from as=try_from_code
//@@ ret Result<Category, IsDescribed>
//@@ spec
    ensures
        (match r {
            Ok(Category::Fixed(w)) => nibble_kind(value as u8) == 0 && w == nibble_width(value as u8),
            Ok(Category::Variable(w)) => nibble_kind(value as u8) == 1 && w == nibble_width(value as u8),
            Ok(Category::Compound(w)) => nibble_kind(value as u8) == 2 && w == nibble_width(value as u8),
            Ok(Category::Array(w)) => nibble_kind(value as u8) == 3 && w == nibble_width(value as u8),
            Err(_) => value is DescribedType,
        }),                                                                                                      // [C05.format-code.width-by-constructor] [C03.format-code.width-by-constructor] [C20.format-code.width-by-constructor] [C04.format-code.width-by-constructor] the category and width the scanner uses for a format code are the ones its high nibble stands for in the AMQP type system                                                                                                      // [C04.scan.width-table] every variable-width, compound and array constructor has a 1- or 4-byte size field: the scanner's `unreachable!()` really is
//@@ end
}

/// exactly the first k unread bytes were taken
pub open spec fn took<R: Read>(old_r: R, new_r: R, out: Seq<u8>) -> bool {
    &&& out.len() <= old_r.unread().len()
    &&& out =~= old_r.unread().subrange(0, out.len() as int)
    &&& new_r.unread() =~= old_r.unread().skip(out.len() as int)
    &&& new_r.consumed() == old_r.consumed() + out.len()
}
pub open spec fn bounded<R: Read>(r: R) -> bool { r.wf() && r.consumed() + r.unread().len() < usize::MAX }

//@@ fn file=serde_amqp/src/read/mod.rs name=read_fixed_bytes
//@@ qmark
//@@ generics <R: Read>
//@@ nowhere
//@@ spec
    requires bounded(*old(reader)), width <= 16,
    ensures final(reader).wf(), r is Ok ==> r->Ok_0@.len() == width + 1 && took(*old(reader), *final(reader), r->Ok_0@),   // [C20.scan.exact] the scanner returns exactly the bytes of the constructor and its fixed-width body
//@@ end

//@@ fn file=serde_amqp/src/read/mod.rs name=peek_encoded_len
//@@ qmark
//@@ generics <R: Read>
//@@ nowhere
//@@ subst `|| Error::unexpected_eof("parse LazyValue")` => `|| -> (o: Error) { Error::unexpected_eof("parse LazyValue") }` rule=R18
//@@ subst `u32::from_be_bytes(` => `from_be32(` rule=R9
//@@ at `len_bytes_.copy_from_slice(&len_bytes[1..]);` after
            proof { assert(len_bytes_@ =~= old(reader).unread().subrange(1, 5)); }
//@@ spec
    requires bounded(*old(reader)), width == 1 || width == 4,
    ensures
        final(reader).wf(),
        r is Ok ==> final(reader).unread() =~= old(reader).unread() && final(reader).consumed() == old(reader).consumed()
            && old(reader).unread().len() >= width + 1 && r->Ok_0 <= u32::MAX && r->Ok_0 == sp_enc_len(old(reader).unread(), width as int),                                  // [C20.reader.peek-does-not-consume] reading the size field ahead consumes nothing
//@@ end

//@@ fn file=serde_amqp/src/read/mod.rs name=read_encoded_len_bytes
//@@ qmark
//@@ generics <R: Read>
//@@ nowhere
//@@ spec
    requires bounded(*old(reader)), width == 1 || width == 4,
    ensures final(reader).wf(), r is Ok ==> took(*old(reader), *final(reader), r->Ok_0@) && old(reader).unread().len() >= width + 1
        && r->Ok_0@.len() == 1 + width + sp_enc_len(old(reader).unread(), width as int),                        // [C20.scan.exact] constructor + size field + exactly the declared number of bytes
//@@ end

//@@ fn file=serde_amqp/src/read/mod.rs name=read_primitive_bytes_or_else as=read_primitive_bytes_or_invalid
//@@ qmark
//@@ generics <R: Read>
//@@ nowhere
//@@ param op : Ghost<int>
//@@ subst `|code| code.try_into()` => `|code: u8| -> (o: Result<EncodingCodes, Error>) ensures o is Ok ==> o->Ok_0 as u8 == code { EncodingCodes::try_from_u8(code) }` rule=R18
//@@ subst `Category::try_from(code)` => `Category::try_from_code(code)` rule=R2
//@@ subst `op(reader)` => `Err::<Vec<u8>, Error>(Error::InvalidFormatCode)` rule=R28
//@@ spec
    requires bounded(*old(reader)),
    ensures final(reader).wf(), bounded(*final(reader)) || r is Err,
        r is Ok ==> took(*old(reader), *final(reader), r->Ok_0@) && sp_prim_len(old(reader).unread()) == Some(r->Ok_0@.len() as int),   // [C20.scan.exact] a primitive value is scanned to exactly the length its constructor and size field say
//@@ end

//@@ fn file=serde_amqp/src/read/mod.rs name=read_described_bytes
//@@ qmark
//@@ generics <R: Read>
//@@ nowhere
//@@ subst `read_primitive_bytes_or_else(reader, |_v0| Err(Error::InvalidFormatCode))` => `read_primitive_bytes_or_invalid(reader, Ghost(0))` rule=optional-R28
//@@ subst `read_primitive_bytes_or_else(reader, |_v1| Err(Error::InvalidFormatCode))` => `read_primitive_bytes_or_invalid(reader, Ghost(0))` rule=optional-R28
//@@ subst `read_primitive_bytes_or_else(reader, read_described_bytes)` => `read_primitive_bytes_or_else(reader, Ghost(0))` rule=optional-R28
//@@ subst `bytes.append(&mut descriptor_bytes)` => `vec_append(&mut bytes, &mut descriptor_bytes)` rule=R9
//@@ subst `bytes.append(&mut value_bytes)` => `vec_append(&mut bytes, &mut value_bytes)` rule=R9
//@@ at `vec_append(&mut bytes, &mut descriptor_bytes);` before
    let ghost l1 = descriptor_bytes@.len() as int;
    proof { assert(reader.unread() =~= old(reader).unread().skip(1 + l1)); }
//@@ at `vec_append(&mut bytes, &mut value_bytes);` before
    let ghost l2 = value_bytes@.len() as int;
    proof {
        assert(reader.unread() =~= old(reader).unread().skip(1 + l1 + l2));
        assert(old(reader).unread().skip(1).skip(l1) =~= old(reader).unread().skip(1 + l1));
    }
//@@ spec
    requires bounded(*old(reader)),
    ensures final(reader).wf(),                                                                                  // [C04.scan.no-recursion] the scanner is not recursive: nesting in the input cannot grow the stack (a call cycle fails Verus' termination check)
        r is Ok ==> took(*old(reader), *final(reader), r->Ok_0@) && old(reader).unread().len() > 0
        && (old(reader).unread()[0] == 0 ==> sp_value_len(old(reader).unread()) == Some(r->Ok_0@.len() as int)),     // [C20.scan.exact] a described value is scanned as 0x00 + descriptor + value, each exactly; a described descriptor or a doubly described value is refused (no recursion)
//@@ end

//@@ fn file=serde_amqp/src/read/mod.rs name=read_primitive_bytes_or_else
//@@ qmark
//@@ generics <R: Read>
//@@ nowhere
//@@ param op : Ghost<int>
//@@ subst `|code| code.try_into()` => `|code: u8| -> (o: Result<EncodingCodes, Error>) ensures o is Ok ==> o->Ok_0 as u8 == code { EncodingCodes::try_from_u8(code) }` rule=R18
//@@ subst `Category::try_from(code)` => `Category::try_from_code(code)` rule=R2
//@@ subst `op(reader)` => `read_described_bytes(reader)` rule=R28
//@@ spec
    requires bounded(*old(reader)),
    ensures final(reader).wf(), r is Ok ==> took(*old(reader), *final(reader), r->Ok_0@) && sp_value_len(old(reader).unread()) == Some(r->Ok_0@.len() as int),   // [C20.scan.exact] LazyValue / byte_buf scanning takes exactly one encoded value off the reader, whatever follows it stays
//@@ end

// ---- forward_read_byte_buf of both readers: the visitor of a LazyValue / byte_buf-style value (message bodies are decoded through it) must be driven the same way
// by the slice reader (single-frame delivery) and by the io reader (multi-frame delivery)
pub enum VisCall { Bytes(Seq<u8>), ByteBuf(Seq<u8>), Str(Seq<char>) }
pub struct VisValue { pub via: Ghost<VisCall> }
/// a serde visitor, reduced to which entry point it was driven through and with which octets
pub struct VisS { pub p: u8 }
impl VisS {
    #[verifier::external_body]
    pub fn visit_bytes(self, v: &Vec<u8>) -> (r: Result<VisValue, Error>) ensures r is Ok ==> r->Ok_0.via@ == VisCall::Bytes(v@) { unimplemented!() }
    #[verifier::external_body]
    pub fn visit_byte_buf(self, v: Vec<u8>) -> (r: Result<VisValue, Error>) ensures r is Ok ==> r->Ok_0.via@ == VisCall::ByteBuf(v@) { unimplemented!() }
    /// a visitor that accepts whatever it is given (serde::de::IgnoredAny)
    pub uninterp spec fn total(self) -> bool;
    #[verifier::external_body]
    pub fn visit_borrowed_bytes(self, v: &[u8]) -> (r: Result<VisValue, Error>) ensures r is Ok ==> r->Ok_0.via@ == VisCall::Bytes(v@), self.total() ==> r is Ok { unimplemented!() }
    #[verifier::external_body]
    pub fn visit_bytes_of(self, v: &[u8]) -> (r: Result<VisValue, Error>) ensures r is Ok ==> r->Ok_0.via@ == VisCall::Bytes(v@), self.total() ==> r is Ok { unimplemented!() }
}
impl VisS {
    #[verifier::external_body]
    pub fn visit_borrowed_str(self, v: &str) -> (r: Result<VisValue, Error>) ensures r is Ok ==> r->Ok_0.via@ == VisCall::Str(v@) { unimplemented!() }
    #[verifier::external_body]
    pub fn visit_str(self, v: &str) -> (r: Result<VisValue, Error>) ensures r is Ok ==> r->Ok_0.via@ == VisCall::Str(v@) { unimplemented!() }
}
/// the ONE contract of Read::forward_read_str, checked against both readers
pub open spec fn str_forwarded<R: Read>(old_r: R, new_r: R, len: usize, r: Result<VisValue, Error>) -> bool {
    &&& (r is Ok ==> r->Ok_0.via@ is Str && utf8(r->Ok_0.via@->Str_0).len() == len && took(old_r, new_r, utf8(r->Ok_0.via@->Str_0)))      // [C20.reader.forward-exact] the visitor is shown exactly the next `len` octets, as text, and exactly they are consumed -- by either reader
    &&& (len > old_r.unread().len() ==> r is Err)                                                                                         // [C04.reader.short-input-is-an-error]
}
/// the ONE contract of Read::forward_read_bytes_with_hint, checked against both readers
pub open spec fn bytes_forwarded<R: Read>(old_r: R, new_r: R, len: usize, visitor: VisS, r: Result<VisValue, Error>) -> bool {
    &&& (r is Ok ==> r->Ok_0.via@ is Bytes && r->Ok_0.via@->Bytes_0.len() == len && took(old_r, new_r, r->Ok_0.via@->Bytes_0))      // [C20.reader.forward-exact] exactly the next `len` octets are shown to the visitor and exactly they are consumed
    &&& (old_r.reliable() && len <= old_r.unread().len() && visitor.total() ==> r is Ok)                                            // [C05.reader.available-bytes-are-delivered]
    &&& (len > old_r.unread().len() ==> r is Err)                                                                                   // [C04.reader.short-input-is-an-error]
}
/// the ONE contract of Read::forward_read_byte_buf, checked against both readers
pub open spec fn byte_buf_forwarded<R: Read>(old_r: R, new_r: R, r: Result<VisValue, Error>) -> bool {
    r is Ok ==> {
        &&& r->Ok_0.via@ is ByteBuf                                                         // [C10.reader.byte-buf-same-entry-point] the scanned value is handed to the visitor as an OWNED buffer (visit_byte_buf) by either reader: what a visitor accepts cannot depend on whether the delivery came in one frame (slice reader) or several (io reader)
        &&& took(old_r, new_r, r->Ok_0.via@->ByteBuf_0)                                     // [C20.scan.exact] exactly one encoded value is taken
        &&& sp_value_len(old_r.unread()) == Some(r->Ok_0.via@->ByteBuf_0.len() as int)
    }
}
impl<'s> SliceReader<'s> {
//@@ fn file=serde_amqp/src/read/sliceread.rs impl=`impl<'s> Read<'s> for SliceReader<'s>` name=forward_read_byte_buf id=SliceReader::forward_read_byte_buf
//@@ qmark
//@@ generics
//@@ nowhere
//@@ param visitor : VisS
//@@ ret Result<VisValue, Error>
//@@ subst `read_primitive_bytes_or_else(self, read_described_bytes)` => `read_primitive_bytes_or_else(self, Ghost(0))` rule=R28
//@@ spec
    requires bounded(*old(self)),
    ensures byte_buf_forwarded(*old(self), *final(self), r),     // [C10.reader.byte-buf-same-entry-point] [C20.scan.exact] (spelled out in byte_buf_forwarded above)
//@@ end
}
impl IoReader {
//@@ fn file=serde_amqp/src/read/ioread.rs impl=`~Read<'de>forIoReader<R>` name=forward_read_byte_buf id=IoReader::forward_read_byte_buf
//@@ qmark
//@@ generics
//@@ nowhere
//@@ param visitor : VisS
//@@ ret Result<VisValue, Error>
//@@ subst `read_primitive_bytes_or_else(self, read_described_bytes)` => `read_primitive_bytes_or_else(self, Ghost(0))` rule=R28
//@@ spec
    requires bounded(*old(self)),
    ensures byte_buf_forwarded(*old(self), *final(self), r),     // [C10.reader.byte-buf-same-entry-point] [C20.scan.exact] (spelled out in byte_buf_forwarded above)
//@@ end
}

impl<'s> SliceReader<'s> {
//@@ fn file=serde_amqp/src/read/sliceread.rs impl=`impl<'s> Read<'s> for SliceReader<'s>` name=forward_read_bytes_with_hint id=SliceReader::forward_read_bytes_with_hint
//@@ qmark
//@@ generics
//@@ nowhere
//@@ param visitor : VisS
//@@ ret Result<VisValue, Error>
//@@ spec
    requires bounded(*old(self)),
    ensures bytes_forwarded(*old(self), *final(self), len, visitor, r), final(self).wf(),     // [C20.reader.forward-exact] [C10.reader.forward-exact] [C03.reader.forward-exact] (spelled out in bytes_forwarded above)
//@@ end
}
impl<'s> SliceReader<'s> {
//@@ fn file=serde_amqp/src/read/sliceread.rs impl=`impl<'s> Read<'s> for SliceReader<'s>` name=forward_read_str id=SliceReader::forward_read_str
//@@ qmark
//@@ generics
//@@ nowhere
//@@ param visitor : VisS
//@@ ret Result<VisValue, Error>
//@@ subst `std::str::from_utf8(` => `str_from_utf8(` rule=R9
//@@ spec
    requires bounded(*old(self)),
    ensures str_forwarded(*old(self), *final(self), len, r), final(self).wf(),     // [C20.reader.forward-exact] (spelled out in str_forwarded above)
//@@ end
}
impl IoReader {
//@@ fn file=serde_amqp/src/read/ioread.rs impl=`~Read<'de>forIoReader<R>` name=forward_read_str id=IoReader::forward_read_str
//@@ qmark
//@@ generics
//@@ nowhere
//@@ param visitor : VisS
//@@ ret Result<VisValue, Error>
//@@ subst `std::str::from_utf8(&self.buf[..len])` => `str_from_utf8(vstd::slice::slice_subrange(self.buf.as_slice(), 0, len))` rule=R9
//@@ subst `self.buf.drain(..len)` => `vec_drain_front(&mut self.buf, len)` rule=optional-R9
//@@ spec
    requires bounded(*old(self)),
    ensures str_forwarded(*old(self), *final(self), len, r), final(self).wf(),     // [C20.reader.forward-exact] (spelled out in str_forwarded above)
//@@ end
}
impl IoReader {
//@@ fn file=serde_amqp/src/read/ioread.rs impl=`~Read<'de>forIoReader<R>` name=forward_read_bytes_with_hint id=IoReader::forward_read_bytes_with_hint
//@@ qmark
//@@ generics
//@@ nowhere
//@@ param visitor : VisS
//@@ ret Result<VisValue, Error>
//@@ subst `visitor.visit_bytes(&__E1[..len])` => `visitor.visit_bytes_of(vstd::slice::slice_subrange(__E1.as_slice(), 0, len))` rule=optional-R9
//@@ subst `visitor.visit_bytes(&__E1)` => `visitor.visit_bytes_of(__E1.as_slice())` rule=optional-R9
//@@ subst `self.buf.drain(..len)` => `vec_drain_front(&mut self.buf, len)` rule=optional-R9
//@@ subst `std::mem::take(&mut self.buf)` => `vec_take(&mut self.buf)` rule=optional-R9
//@@ spec
    requires bounded(*old(self)),
    ensures bytes_forwarded(*old(self), *final(self), len, visitor, r), final(self).wf(),     // [C20.reader.forward-exact] [C10.reader.forward-exact] [C03.reader.forward-exact] (spelled out in bytes_forwarded above)
//@@ end
}

/// `io::Read::take(&mut reader, limit)` is reduced to its limit: the adaptor is consumed by the read_to_end that follows (R9)
pub fn take_limit(limit: u64) -> (r: u64) ensures r == limit { limit }
/// std::mem::take on a Vec: the vector is handed out, an empty one is left behind
#[verifier::external_body]
pub fn vec_take(a: &mut Vec<u8>) -> (r: Vec<u8>)
    ensures r@ == old(a)@, final(a)@.len() == 0,
{ unimplemented!() }
/// Vec::append
#[verifier::external_body]
pub fn vec_append(a: &mut Vec<u8>, b: &mut Vec<u8>)
    ensures final(a)@ == old(a)@ + old(b)@, final(b)@.len() == 0,
{ unimplemented!() }

// ================================================================ variable-width primitives of the decoder (de.rs) on top of the Read contract
opaque_err!();
/// what a compound header decoder hands to the serde visitor: which access (0 array, 1 list, 2 map), body length in octets, element count
pub struct Handed { pub kind: int, pub len: int, pub count: int, pub unread_at: Seq<u8> }
//@@ type file=serde_amqp/src/util.rs kind=enum name=NonNativeType
//@@ end
pub struct Deserializer<R> { pub reader: R, pub elem_format_code: Option<EncodingCodes>, pub handed: Ghost<Option<Handed>>, pub non_native_type: Option<NonNativeType> }
pub struct VisitorS { pub g: Ghost<int> }
#[verifier::external_body]
pub struct VisitValue { _p: u8 }
/// `visitor.visit_seq(ArrayAccess::new(de, len, count))`: the visitor (and through it the element decoders) is outside this unit; recorded: what it was given
#[verifier::external_body]
pub fn visit_array<R: Read>(visitor: VisitorS, de: &mut Deserializer<R>, len: usize, count: usize) -> (r: Result<VisitValue, Error>)
    requires old(de).reader.wf(),
        count > 0 ==> old(de).elem_format_code is Some,            // [C03.array.element-constructor-set] a non-empty array body is handed on together with its element constructor
    ensures final(de).reader.wf(), final(de).handed@ == Some(Handed { kind: 0, len: len as int, count: count as int, unread_at: old(de).reader.unread() }),
{ unimplemented!() }
/// `visitor.visit_seq(ListAccess::new(de, len, count))`
#[verifier::external_body]
pub fn visit_list<R: Read>(visitor: VisitorS, de: &mut Deserializer<R>, len: usize, count: usize) -> (r: Result<VisitValue, Error>)
    requires old(de).reader.wf(),
        count > 0 ==> old(de).elem_format_code is None,           // [C03.compound.body-own-constructors] the elements of a list carry their own constructors, also when the list itself is an element of an array (whose element constructor must not leak into the list body)
    ensures final(de).reader.wf(), final(de).handed@ == Some(Handed { kind: 1, len: len as int, count: count as int, unread_at: old(de).reader.unread() }),
{ unimplemented!() }
/// `visitor.visit_map(MapAccess::new(de, size, count))`
#[verifier::external_body]
pub fn visit_map<R: Read>(visitor: VisitorS, de: &mut Deserializer<R>, len: usize, count: usize) -> (r: Result<VisitValue, Error>)
    requires old(de).reader.wf(),
        count > 0 ==> old(de).elem_format_code is None,           // [C03.compound.body-own-constructors] the keys and values of a map carry their own constructors, also when the map itself is an element of an array
    ensures final(de).reader.wf(), final(de).handed@ == Some(Handed { kind: 2, len: len as int, count: count as int, unread_at: old(de).reader.unread() }),
{ unimplemented!() }
//@@ type file=serde_amqp/src/util.rs kind=enum name=IsArrayElement
//@@ end
//@@ include varspec.rs
//@@ include fixspec.rs
/// String::from_utf8: succeeds exactly on UTF-8, and then the string's octets are the input
#[verifier::external_body]
pub fn string_from_utf8(buf: Vec<u8>) -> (r: Result<String, FromUtf8Error>)
    ensures
        r is Ok ==> utf8(r->Ok_0@) == buf@,
        forall|c: Seq<char>| utf8(c) == buf@ ==> r is Ok && r->Ok_0@ == c,
{ unimplemented!() }
/// Result<Option<T>, E>::transpose
pub fn res_transpose(r: Result<Option<u8>, Error>) -> (o: Option<Result<u8, Error>>)
    ensures o == (match r { Ok(Some(x)) => Some(Ok::<u8, Error>(x)), Ok(None) => None, Err(e) => Some(Err::<u8, Error>(e)) }),
{ match r { Ok(Some(x)) => Some(Ok(x)), Ok(None) => None, Err(e) => Some(Err(e)) } }
/// Result<Option<u8>, io::Error>::transpose
pub fn res_transpose_io(r: Result<Option<u8>, IoError>) -> (o: Option<Result<u8, IoError>>)
    ensures o == (match r { Ok(Some(x)) => Some(Ok::<u8, IoError>(x)), Ok(None) => None, Err(e) => Some(Err::<u8, IoError>(e)) }),
{ match r { Ok(Some(x)) => Some(Ok(x)), Ok(None) => None, Err(e) => Some(Err(e)) } }
/// Option<Result<T, E>>::transpose
pub fn opt_transpose(o: Option<Result<u8, IoError>>) -> (r: Result<Option<u8>, IoError>)
    ensures r == (match o { Some(Ok(x)) => Ok::<Option<u8>, IoError>(Some(x)), Some(Err(e)) => Err::<Option<u8>, IoError>(e), None => Ok::<Option<u8>, IoError>(None) }),
{ match o { Some(Ok(x)) => Ok(Some(x)), Some(Err(e)) => Err(e), None => Ok(None) } }

/// what decoding a variable-width value (8-bit constructor c8, 32-bit constructor c32) off `u` must yield: the data octets, by the AMQP layout
pub open spec fn var_decoded(c8: u8, c32: u8, u: Seq<u8>) -> Option<Seq<u8>> {
    if u.len() >= 2 && u[0] == c8 && u.len() >= 2 + u[1] { Some(u.subrange(2, 2 + u[1] as int)) }
    else if u.len() >= 5 && u[0] == c32 && u.len() >= 5 + sp_be32(u.subrange(1, 5)) { Some(u.subrange(5, 5 + sp_be32(u.subrange(1, 5)) as int)) }
    else { None }
}
pub open spec fn var_consumed(c8: u8, u: Seq<u8>) -> int { if u[0] == c8 { 2 + u[1] as int } else { 5 + sp_be32(u.subrange(1, 5)) as int } }

impl<R: Read> Deserializer<R> {
//@@ fn file=serde_amqp/src/de.rs impl=`impl<'de, R: Read<'de>> Deserializer<R>` name=read_format_code
//@@ subst `self.reader .next() .map_err(Into::into) .transpose() .map(|code| code.and_then(|code| code.try_into()))` => `res_transpose(self.reader.next().map_err(|e: IoError| -> (o: Error) ensures o == Error::Io(e) { Error::Io(e) })).map(|code: Result<u8, Error>| -> (o: Result<EncodingCodes, Error>) ensures (match code { Ok(c) => (o is Ok ==> o->Ok_0 as u8 == c) && (amqp_ctor(c) ==> o is Ok), Err(e) => o == Err::<EncodingCodes, Error>(e) }) { match code { Ok(c) => EncodingCodes::try_from_u8(c), Err(e) => Err(e) } })` rule=R19 unless `\.map_err\(`
//@@ spec
    requires bounded(old(self).reader),
    ensures
        final(self).non_native_type == old(self).non_native_type,
        final(self).elem_format_code == old(self).elem_format_code, final(self).handed == old(self).handed, final(self).reader.wf(),
        (match r {
            Some(Ok(c)) => old(self).reader.unread().len() > 0 && c as u8 == old(self).reader.unread()[0] && final(self).reader.unread() =~= old(self).reader.unread().skip(1)
                && final(self).reader.consumed() == old(self).reader.consumed() + 1,                      // [C05.format-code.table] [C03.rt.decoder-premise]
            Some(Err(_)) => true,
            None => old(self).reader.unread().len() == 0 && final(self).reader.unread() =~= old(self).reader.unread(),
        }),
        final(self).reader.reliable() == old(self).reader.reliable(),
        old(self).reader.reliable() && old(self).reader.unread().len() > 0 && amqp_ctor(old(self).reader.unread()[0]) ==> r is Some && r->Some_0 is Ok,   // [C05.format-code.complete]
//@@ end
}

impl<R: Read> Deserializer<R> {
//@@ fn file=serde_amqp/src/de.rs impl=`impl<'de, R: Read<'de>> Deserializer<R>` name=get_elem_code_or_read_format_code
//@@ spec
    requires bounded(old(self).reader),
    ensures
        final(self).non_native_type == old(self).non_native_type,
        final(self).elem_format_code == old(self).elem_format_code, final(self).handed == old(self).handed, final(self).reader.wf(),
        old(self).elem_format_code is Some ==> r == Some(Ok::<EncodingCodes, Error>(old(self).elem_format_code->Some_0)) && final(self).reader.unread() =~= old(self).reader.unread()
            && final(self).reader.consumed() == old(self).reader.consumed(),                                 // [C05.array.one-constructor] inside an array the element constructor is the array's, nothing is read for it
        old(self).elem_format_code is None ==> (match r {
            Some(Ok(c)) => old(self).reader.unread().len() > 0 && c as u8 == old(self).reader.unread()[0] && final(self).reader.unread() =~= old(self).reader.unread().skip(1)
                && final(self).reader.consumed() == old(self).reader.consumed() + 1,
            Some(Err(_)) => true,
            None => old(self).reader.unread().len() == 0 && final(self).reader.unread() =~= old(self).reader.unread(),
        }),
        final(self).reader.reliable() == old(self).reader.reliable(),
        old(self).elem_format_code is None && old(self).reader.reliable() && old(self).reader.unread().len() > 0 && amqp_ctor(old(self).reader.unread()[0]) ==> r is Some && r->Some_0 is Ok,
//@@ end

//@@ fn file=serde_amqp/src/de.rs impl=`impl<'de, R: Read<'de>> Deserializer<R>` name=read_small_string
//@@ blockarms
//@@ subst `self.reader.next().transpose()` => `res_transpose_io(self.reader.next())` rule=R19
//@@ subst `e.into()` => `e.err_into()` rule=R16
//@@ at `Some(string_from_utf8(buf)` before
            proof { assert(buf@ =~= old(self).reader.unread().subrange(1, 1 + len as int)); }
//@@ subst `String::from_utf8(buf).map_err(Into::into)` => `string_from_utf8(buf).map_err(|e: FromUtf8Error| -> (o: Error) { Error::Other })` rule=R17 unless `\.map_err\(`
//@@ spec
    requires bounded(old(self).reader),
    ensures
        final(self).non_native_type == old(self).non_native_type,
        final(self).reader.wf(),
        (match r {
            Some(Ok(s)) => old(self).reader.unread().len() >= 1 && old(self).reader.unread().len() >= 1 + old(self).reader.unread()[0]
                && utf8(s@) =~= old(self).reader.unread().subrange(1, 1 + old(self).reader.unread()[0] as int)
                && final(self).reader.unread() =~= old(self).reader.unread().skip(1 + old(self).reader.unread()[0] as int),   // [C05.str8.decoding] [C03.rt.decoder-premise] one size octet, then exactly that many octets of UTF-8
            Some(Err(_)) => true,
            None => old(self).reader.unread().len() == 0,
        }),
        // a well-formed value is accepted
        old(self).reader.reliable() && old(self).reader.unread().len() >= 1 && old(self).reader.unread().len() >= 1 + old(self).reader.unread()[0]
            && (exists|c: Seq<char>| utf8(c) == old(self).reader.unread().subrange(1, 1 + old(self).reader.unread()[0] as int)) ==> r is Some && r->Some_0 is Ok,   // [C05.str8.accepted]
//@@ end

//@@ fn file=serde_amqp/src/de.rs impl=`impl<'de, R: Read<'de>> Deserializer<R>` name=read_string
//@@ blockarms
//@@ subst `u32::from_be_bytes(` => `from_be32(` rule=R9
//@@ subst `e.into()` => `e.err_into()` rule=R16
//@@ at `Some(string_from_utf8(buf)` before
            proof { assert(buf@ =~= old(self).reader.unread().subrange(4, 4 + len as int)); assert(len_bytes@ =~= old(self).reader.unread().subrange(0, 4)); }
//@@ subst `String::from_utf8(buf).map_err(Into::into)` => `string_from_utf8(buf).map_err(|e: FromUtf8Error| -> (o: Error) { Error::Other })` rule=R17 unless `\.map_err\(`
//@@ spec
    requires bounded(old(self).reader),
    ensures
        final(self).non_native_type == old(self).non_native_type,
        final(self).reader.wf(),
        (match r {
            Some(Ok(s)) => old(self).reader.unread().len() >= 4 && old(self).reader.unread().len() >= 4 + sp_be32(old(self).reader.unread().subrange(0, 4))
                && utf8(s@) =~= old(self).reader.unread().subrange(4, 4 + sp_be32(old(self).reader.unread().subrange(0, 4)) as int)
                && final(self).reader.unread() =~= old(self).reader.unread().skip(4 + sp_be32(old(self).reader.unread().subrange(0, 4)) as int),   // [C05.str32.decoding] [C03.rt.decoder-premise] four size octets (big-endian), then exactly that many octets of UTF-8
            Some(Err(_)) => true,
            None => false,
        }),
        old(self).reader.reliable() && old(self).reader.unread().len() >= 4 && old(self).reader.unread().len() >= 4 + sp_be32(old(self).reader.unread().subrange(0, 4))
            && (exists|c: Seq<char>| utf8(c) == old(self).reader.unread().subrange(4, 4 + sp_be32(old(self).reader.unread().subrange(0, 4)) as int)) ==> r is Some && r->Some_0 is Ok,   // [C05.str32.accepted]
//@@ end
}

impl<R: Read> Deserializer<R> {
//@@ fn file=serde_amqp/src/de.rs impl=`impl<'de, R: Read<'de>> Deserializer<R>` name=parse_string
//@@ qmark
//@@ blockarms
//@@ at `EncodingCodes::Str8 => {` after
            proof {
                let u = old(self).reader.unread(); let w = self.reader.unread();
                if u.len() >= 2 && u.len() >= 2 + u[1] { assert(w.subrange(1, 1 + w[0] as int) =~= u.subrange(2, 2 + u[1] as int)); }
            }
//@@ at `EncodingCodes::Str32 => {` after
            proof {
                let u = old(self).reader.unread(); let w = self.reader.unread();
                if u.len() >= 5 { assert(w.subrange(0, 4) =~= u.subrange(1, 5)); if u.len() >= 5 + sp_be32(u.subrange(1, 5)) { assert(w.subrange(4, 4 + sp_be32(w.subrange(0, 4)) as int) =~= u.subrange(5, 5 + sp_be32(u.subrange(1, 5)) as int)); } }
            }
//@@ subst `|| Error::unexpected_eof("parse_string")` => `|| -> (o: Error) { Error::unexpected_eof("parse_string") }` rule=R18
//@@ subst `|| Error::unexpected_eof("Expecting str8")` => `|| -> (o: Error) { Error::unexpected_eof("Expecting str8") }` rule=R18
//@@ subst `|| Error::unexpected_eof("Expecting str32")` => `|| -> (o: Error) { Error::unexpected_eof("Expecting str32") }` rule=R18
//@@ spec
    requires bounded(old(self).reader), old(self).elem_format_code is None,
    ensures
        final(self).non_native_type == old(self).non_native_type,
        final(self).reader.wf(),
        r is Ok ==> var_decoded(0xa1, 0xb1, old(self).reader.unread()) == Some(utf8(r->Ok_0@))
            && final(self).reader.unread() =~= old(self).reader.unread().skip(var_consumed(0xa1, old(self).reader.unread())),   // [C05.str.decoding] [C03.rt.decoder-premise] str8-utf8 and str32-utf8 are both read by the AMQP layout: constructor, size, exactly that many octets of UTF-8, nothing more consumed
        old(self).reader.reliable() && var_decoded(0xa1, 0xb1, old(self).reader.unread()) is Some
            && (exists|c: Seq<char>| utf8(c) == var_decoded(0xa1, 0xb1, old(self).reader.unread())->Some_0) ==> r is Ok,                  // [C05.str.every-variant-accepted] whichever width variant the peer chose
//@@ end

//@@ fn file=serde_amqp/src/de.rs impl=`impl<'de, R: Read<'de>> Deserializer<R>` name=parse_symbol
//@@ qmark
//@@ blockarms
//@@ at `EncodingCodes::Sym8 => {` after
            proof {
                let u = old(self).reader.unread(); let w = self.reader.unread();
                if u.len() >= 2 && u.len() >= 2 + u[1] { assert(w.subrange(1, 1 + w[0] as int) =~= u.subrange(2, 2 + u[1] as int)); }
            }
//@@ at `EncodingCodes::Sym32 => {` after
            proof {
                let u = old(self).reader.unread(); let w = self.reader.unread();
                if u.len() >= 5 { assert(w.subrange(0, 4) =~= u.subrange(1, 5)); if u.len() >= 5 + sp_be32(u.subrange(1, 5)) { assert(w.subrange(4, 4 + sp_be32(w.subrange(0, 4)) as int) =~= u.subrange(5, 5 + sp_be32(u.subrange(1, 5)) as int)); } }
            }
//@@ subst `|| Error::unexpected_eof("parse_symbol")` => `|| -> (o: Error) { Error::unexpected_eof("parse_symbol") }` rule=R18
//@@ subst `|| Error::unexpected_eof("Expecting sym8")` => `|| -> (o: Error) { Error::unexpected_eof("Expecting sym8") }` rule=R18
//@@ subst `|| Error::unexpected_eof("Expecting sym32")` => `|| -> (o: Error) { Error::unexpected_eof("Expecting sym32") }` rule=R18
//@@ spec
    requires bounded(old(self).reader), old(self).elem_format_code is None,
    ensures
        final(self).non_native_type == old(self).non_native_type,
        final(self).reader.wf(),
        r is Ok ==> var_decoded(0xa3, 0xb3, old(self).reader.unread()) == Some(utf8(r->Ok_0@))
            && final(self).reader.unread() =~= old(self).reader.unread().skip(var_consumed(0xa3, old(self).reader.unread())),   // [C05.symbol.decoding] [C03.rt.decoder-premise]
        old(self).reader.reliable() && var_decoded(0xa3, 0xb3, old(self).reader.unread()) is Some
            && (exists|c: Seq<char>| utf8(c) == var_decoded(0xa3, 0xb3, old(self).reader.unread())->Some_0) ==> r is Ok,                  // [C05.symbol.every-variant-accepted]
//@@ end

//@@ fn file=serde_amqp/src/de.rs impl=`impl<'de, R: Read<'de>> Deserializer<R>` name=parse_binary
//@@ qmark
//@@ subst `|| Error::unexpected_eof("parse_byte_buf")` => `|| -> (o: Error) { Error::unexpected_eof("parse_byte_buf") }` rule=R18
//@@ subst `|| Error::unexpected_eof("Expecting len")` => `|| -> (o: Error) { Error::unexpected_eof("Expecting len") }` rule=R18
//@@ subst `u32::from_be_bytes(` => `from_be32(` rule=R9
//@@ subst `.map_err(Into::into)` => `.map_err(|e: IoError| -> (o: Error) { Error::Io(e) })` rule=R17 unless `\.map_err\(`
//@@ spec
    requires bounded(old(self).reader), old(self).elem_format_code is None,
    ensures
        final(self).non_native_type == old(self).non_native_type,
        final(self).reader.wf(),
        r is Ok ==> var_decoded(0xa0, 0xb0, old(self).reader.unread()) == Some(r->Ok_0@)
            && final(self).reader.unread() =~= old(self).reader.unread().skip(var_consumed(0xa0, old(self).reader.unread())),   // [C05.binary.decoding] [C03.rt.decoder-premise]
        old(self).reader.reliable() && var_decoded(0xa0, 0xb0, old(self).reader.unread()) is Some ==> r is Ok,                              // [C05.binary.every-variant-accepted]
//@@ end
}

/// `self.reader.forward_read_byte_buf(visitor)`: the contract of Read::forward_read_byte_buf checked against both readers above (byte_buf_forwarded)
#[verifier::external_body]
pub fn reader_forward_read_byte_buf<R: Read>(reader: &mut R, visitor: VisS) -> (r: Result<VisValue, Error>)
    requires bounded(*old(reader)),
    ensures byte_buf_forwarded(*old(reader), *final(reader), r), final(reader).wf(),
{ unimplemented!() }
impl<R: Read> Deserializer<R> {
//@@ fn file=serde_amqp/src/de.rs impl=`~de::Deserializer<'de>for&mutDeserializer<R>` name=deserialize_byte_buf
//@@ selfmut
//@@ qmark
//@@ generics
//@@ nowhere
//@@ param visitor : VisS
//@@ ret Result<VisValue, Error>
//@@ subst `self.reader.forward_read_byte_buf(visitor)` => `reader_forward_read_byte_buf(&mut self.reader, visitor)` rule=R9
//@@ subst `unreachable!("Only Binary and LazyValue are expected in deserialize_byte_buf")` => `{ assume(false); Err(Error::InvalidFormatCode) }` rule=R12
//@@ spec
    requires bounded(old(self).reader), old(self).elem_format_code is None,
        old(self).non_native_type is None || old(self).non_native_type->Some_0 is LazyValue,      // (the other markers are consumed by deserialize_i64 / _string / _str / _bytes; the arm for them is `unreachable!`, R12)
    ensures
        final(self).non_native_type is None,       // [C03.marker.one-shot] a type marker set by a newtype wrapper (here: LazyValue) is consumed by the value it marks: it does not reach the NEXT value read through the same deserializer (a binary after a LazyValue -- a message footer after a LazyValue body -- was captured raw, constructor and size octets included)
//@@ end
}
impl VisS {
    #[verifier::external_body]
    pub fn visit_string(self, v: String) -> (r: Result<VisValue, Error>) ensures r is Ok ==> r->Ok_0.via@ == VisCall::Str(v@) { unimplemented!() }
}
/// `self.reader.forward_read_str(len, visitor)`: the contract of Read::forward_read_str checked against both readers (str_forwarded)
#[verifier::external_body]
pub fn reader_forward_str<R: Read>(reader: &mut R, len: usize, visitor: VisS) -> (r: Result<VisValue, Error>)
    requires bounded(*old(reader)),
    ensures str_forwarded(*old(reader), *final(reader), len, r), final(reader).wf(),
{ unimplemented!() }
impl<R: Read> Deserializer<R> {
//@@ fn file=serde_amqp/src/de.rs impl=`~de::Deserializer<'de>for&mutDeserializer<R>` name=deserialize_string
//@@ selfmut
//@@ qmark
//@@ generics
//@@ nowhere
//@@ param visitor : VisS
//@@ ret Result<VisValue, Error>
//@@ spec
    requires bounded(old(self).reader), old(self).elem_format_code is None,
    ensures
        old(self).non_native_type is None || old(self).non_native_type->Some_0 is Symbol ==> final(self).non_native_type is None,       // [C03.marker.one-shot] the Symbol marker is consumed by the string it marks
        old(self).non_native_type is Some && !(old(self).non_native_type->Some_0 is Symbol) ==> final(self).non_native_type == old(self).non_native_type,
//@@ end

//@@ fn file=serde_amqp/src/de.rs impl=`~de::Deserializer<'de>for&mutDeserializer<R>` name=deserialize_str
//@@ selfmut
//@@ qmark
//@@ generics
//@@ nowhere
//@@ param visitor : VisS
//@@ ret Result<VisValue, Error>
//@@ subst `|| Error::unexpected_eof("Expecting format code")` => `|| -> (o: Error) { Error::unexpected_eof("Expecting format code") }` rule=R18
//@@ subst `|| Error::unexpected_eof("Expecting len")` => `|| -> (o: Error) { Error::unexpected_eof("Expecting len") }` rule=R18
//@@ subst `self.reader.read_const_bytes().map(u32::from_be_bytes)?` => `(match self.reader.read_const_bytes() { Ok(b) => from_be32(b), Err(e) => return Err(e.err_into()) })` rule=R19 unless `\.map\(`
//@@ subst `self.reader.forward_read_str(len, visitor)` => `reader_forward_str(&mut self.reader, len, visitor)` rule=R9
//@@ spec
    requires bounded(old(self).reader),
    ensures
        old(self).non_native_type is None || old(self).non_native_type->Some_0 is SymbolRef ==> final(self).non_native_type is None,    // [C03.marker.one-shot] the SymbolRef marker is consumed by the text it marks: it does not reach the next value (where a binary used to hit `unreachable!`)
        r is Ok ==> ({
            let u = eff_unread(*old(self));
            &&& (u[0] == 0xa1 || u[0] == 0xa3 || u[0] == 0xb1 || u[0] == 0xb3)
            &&& r->Ok_0.via@ is Str
            &&& utf8(r->Ok_0.via@->Str_0) =~= (if u[0] == 0xa1 || u[0] == 0xa3 { u.subrange(2, 2 + u[1] as int) } else { u.subrange(5, 5 + sp_be32(u.subrange(1, 5)) as int) })     // [C05.string.decoding] [C20.reader.forward-exact] str8 / sym8: one length octet; str32 / sym32: four, big-endian; the visitor is shown exactly the announced octets as text
        }),
//@@ end

//@@ fn file=serde_amqp/src/de.rs impl=`~de::Deserializer<'de>for&mutDeserializer<R>` name=deserialize_bytes
//@@ selfmut
//@@ qmark
//@@ blockarms
//@@ generics
//@@ nowhere
//@@ orsplit
//@@ param visitor : VisS
//@@ ret Result<VisValue, Error>
//@@ subst `|| Error::unexpected_eof("Expecting format code")` => `|| -> (o: Error) { Error::unexpected_eof("Expecting format code") }` rule=R18
//@@ subst `|| Error::unexpected_eof("Expecting len")` => `|| -> (o: Error) { Error::unexpected_eof("Expecting len") }` rule=R18
//@@ subst `self.reader.read_const_bytes().map(u32::from_be_bytes)?` => `(match self.reader.read_const_bytes() { Ok(b) => from_be32(b), Err(e) => return Err(e.err_into()) })` rule=R19 unless `\.map\(`
//@@ subst `self.reader.forward_read_bytes_with_hint(len, visitor)` => `reader_forward_bytes(&mut self.reader, len, visitor)` rule=R9
//@@ subst `unreachable!()` => `{ marker_cannot_be(); Err(Error::InvalidFormatCode) }` rule=R12
//@@ spec
    requires bounded(old(self).reader),
        !(old(self).non_native_type is Some && old(self).non_native_type->Some_0 is LazyValue),     // internal invariant, discharged at the call sites in unit DEENTRY ([C04.marker.no-unreachable-panic@deserialize_bytes] there: deserialize_newtype_struct, the only place that sets markers, hands the LazyValue marker straight to deserialize_byte_buf, which consumes it on every path -- [C03.marker.one-shot]); what stays assumed is that a visitor leaves no marker behind where there was none (induction over the nesting depth, not mechanised)
    ensures
        old(self).non_native_type is Some && (old(self).non_native_type->Some_0 is Dec32 || old(self).non_native_type->Some_0 is Dec64 || old(self).non_native_type->Some_0 is Dec128 || old(self).non_native_type->Some_0 is Uuid)
            ==> final(self).non_native_type is None,                                                 // [C03.marker.one-shot] the decimal / uuid marker is consumed by the value it marks
        old(self).non_native_type is None ==> final(self).non_native_type is None,
//@@ end
}
/// `unreachable!()` in deserialize_bytes: the LazyValue marker is set by deserialize_newtype_struct(LAZY_VALUE) and handed straight to deserialize_byte_buf, which consumes it
pub fn marker_cannot_be()
    requires false,     // [C04.marker.no-unreachable-panic] no input makes the decoder reach an `unreachable!`: a marker that a previous value left behind (LazyValue in front of a `&[u8]` field used to) must not be able to get here
{}

// ================================================================ compound headers of the decoder (de.rs deserialize_seq / deserialize_tuple / deserialize_map)
//@@ type file=serde_amqp/src/de.rs kind=const name=MAX_ARRAY_COUNT
//@@ end
//@@ type file=serde_amqp/src/format.rs kind=const name=OFFSET_LIST8
//@@ end
//@@ type file=serde_amqp/src/format.rs kind=const name=OFFSET_LIST32
//@@ end
//@@ type file=serde_amqp/src/format.rs kind=const name=OFFSET_MAP8
//@@ end
//@@ type file=serde_amqp/src/format.rs kind=const name=OFFSET_MAP32
//@@ end
//@@ type file=serde_amqp/src/format.rs kind=const name=OFFSET_ARRAY8
//@@ end
//@@ type file=serde_amqp/src/format.rs kind=const name=OFFSET_ARRAY32
//@@ end

/// AMQP 1.0 part 1, 1.6.22-1.6.24: compound = constructor, size, count, body; array = constructor, size, count, element constructor, body.
/// `size` counts everything after the size field. For the header at the front of `u` (constructor included): (body length in octets, count), if well-formed.
pub open spec fn compound_header(u: Seq<u8>) -> Option<(int, int)> {
    if u.len() == 0 { None }
    else if u[0] == 0x45 { Some((0int, 0int)) }
    else if u[0] == 0xc0 || u[0] == 0xc1 { if u.len() >= 3 && u[1] >= 1 { Some((u[1] as int - 1, u[2] as int)) } else { None } }
    else if u[0] == 0xd0 || u[0] == 0xd1 { if u.len() >= 9 && sp_be32(u.subrange(1, 5)) >= 4 { Some((sp_be32(u.subrange(1, 5)) as int - 4, sp_be32(u.subrange(5, 9)) as int)) } else { None } }
    else if u[0] == 0xe0 { if u.len() >= 3 && ((u[2] == 0 && u[1] >= 1) || u[1] >= 2) { Some((if u[2] == 0 { 0int } else { u[1] as int - 2 }, u[2] as int)) } else { None } }
    else if u[0] == 0xf0 { if u.len() >= 9 && ((sp_be32(u.subrange(5, 9)) == 0 && sp_be32(u.subrange(1, 5)) >= 4) || sp_be32(u.subrange(1, 5)) >= 5) { Some((if sp_be32(u.subrange(5, 9)) == 0 { 0int } else { sp_be32(u.subrange(1, 5)) as int - 5 }, sp_be32(u.subrange(5, 9)) as int)) } else { None } }
    else { None }
}

/// the octets of the value about to be decoded, constructor first: inside an array the constructor is the array's element constructor (held in
/// elem_format_code, not repeated on the wire), otherwise it is the next unread octet
pub open spec fn eff_unread<R: Read>(de: Deserializer<R>) -> Seq<u8> {
    match de.elem_format_code { Some(c) => seq![c as u8] + de.reader.unread(), None => de.reader.unread() }
}

pub open spec fn valid_array8_header(u: Seq<u8>) -> bool {
    u.len() >= 3 && u[0] == 0xe0 && ((u[2] == 0 && u[1] >= 1 && u.len() >= 2 + u[1]) || (u[2] > 0 && u[1] >= 2 && u.len() >= 2 + u[1] && amqp_ctor(u[3])))
}

/// `self.reader.forward_read_bytes_with_hint(n, de::IgnoredAny)`: the contract of Read::forward_read_bytes_with_hint checked against both readers above (bytes_forwarded), with a visitor that accepts anything
#[verifier::external_body]
pub fn reader_skip_bytes<R: Read>(reader: &mut R, n: usize) -> (r: Result<VisValue, Error>)
    requires bounded(*old(reader)),
    ensures exists|v: VisS| v.total() && #[trigger] bytes_forwarded(*old(reader), *final(reader), n, v, r), final(reader).wf(), final(reader).reliable() == old(reader).reliable(),
{ unimplemented!() }
impl<R: Read> Deserializer<R> {
//@@ fn file=serde_amqp/src/de.rs impl=`impl<'a, 'de, R: Read<'de>> DescribedAccess<'a, R>` name=consume_list_header id=DescribedAccess::consume_list_header
//@@ qmark
//@@ generics
//@@ nowhere
//@@ subst `self .as_mut()` => `self` rule=R30
//@@ subst `self.as_mut()` => `self` rule=optional-R30
//@@ subst `|| Error::unexpected_eof("Expecting format code")` => `|| -> (o: Error) { Error::unexpected_eof("Expecting format code") }` rule=R18
//@@ subst `|| Error::unexpected_eof("Expecting size")` => `|| -> (o: Error) { Error::unexpected_eof("Expecting size") }` rule=R18
//@@ subst `|| Error::unexpected_eof("Expecting count")` => `|| -> (o: Error) { Error::unexpected_eof("Expecting count") }` rule=R18
//@@ subst `u32::from_be_bytes(` => `from_be32(` rule=R9
//@@ subst `de::Error::custom("Invalid format code. Expecting a list")` => `Error::Other` rule=R9
//@@ spec
    requires bounded(old(self).reader),
    ensures
        final(self).reader.wf(),
        r is Ok ==> ({
            let u = eff_unread(*old(self));
            let hdr = if old(self).elem_format_code is Some { 0int } else { 1int };
            &&& u.len() > 0 && ((u[0] == 0x45 && r->Ok_0 == 0 && final(self).reader.unread() =~= old(self).reader.unread().skip(hdr)) || u[0] == 0xc0 || u[0] == 0xd0)       // [C05.composite.header-is-a-list] the body of a composite is announced by a list constructor and nothing else
            &&& (u[0] == 0xc0 ==> u.len() >= 3 && r->Ok_0 == u[2] as u32 && final(self).reader.unread() =~= old(self).reader.unread().skip(hdr + 2))       // [C05.composite.count-is-the-headers-count] the field count is the COUNT octet of the header (the second one: the size comes first), and exactly the header is consumed
            &&& (u[0] == 0xd0 ==> u.len() >= 9 && r->Ok_0 == sp_be32(u.subrange(5, 9)) && final(self).reader.unread() =~= old(self).reader.unread().skip(hdr + 8))       // [C05.composite.count-is-the-headers-count] likewise for the 32-bit form: four octets of size, then four of count, big-endian
        }),
//@@ end

//@@ fn file=serde_amqp/src/de.rs impl=`impl<'a, 'de, R: Read<'de>> DescribedAccess<'a, R>` name=consume_map_header id=DescribedAccess::consume_map_header
//@@ qmark
//@@ generics
//@@ nowhere
//@@ subst `self .as_mut()` => `self` rule=R30
//@@ subst `self.as_mut()` => `self` rule=optional-R30
//@@ subst `|| Error::unexpected_eof("Expecting format code")` => `|| -> (o: Error) { Error::unexpected_eof("Expecting format code") }` rule=R18
//@@ subst `|| Error::unexpected_eof("Expecting size")` => `|| -> (o: Error) { Error::unexpected_eof("Expecting size") }` rule=R18
//@@ subst `|| Error::unexpected_eof("Expecting count")` => `|| -> (o: Error) { Error::unexpected_eof("Expecting count") }` rule=R18
//@@ subst `u32::from_be_bytes(` => `from_be32(` rule=R9
//@@ subst `de::Error::custom("Invalid format code. Expecting a list")` => `Error::Other` rule=R9
//@@ spec
    requires bounded(old(self).reader),
    ensures
        final(self).reader.wf(),
        r is Ok ==> ({
            let u = eff_unread(*old(self));
            let hdr = if old(self).elem_format_code is Some { 0int } else { 1int };
            &&& u.len() > 0 && (u[0] == 0xc1 || u[0] == 0xd1)       // [C05.composite.header-is-a-map] the body of a composite is announced by a map constructor and nothing else
            &&& (u[0] == 0xc1 ==> u.len() >= 3 && r->Ok_0 == u[2] as u32 && final(self).reader.unread() =~= old(self).reader.unread().skip(hdr + 2))       // [C05.composite.count-is-the-headers-count] the field count is the COUNT octet of the header (the second one: the size comes first), and exactly the header is consumed
            &&& (u[0] == 0xd1 ==> u.len() >= 9 && r->Ok_0 == sp_be32(u.subrange(5, 9)) && final(self).reader.unread() =~= old(self).reader.unread().skip(hdr + 8))       // [C05.composite.count-is-the-headers-count] likewise for the 32-bit form: four octets of size, then four of count, big-endian
        }),
//@@ end

}
impl<R: Read> Deserializer<R> {
//@@ fn file=serde_amqp/src/de.rs impl=`~de::Deserializer<'de>for&mutDeserializer<R>` name=deserialize_seq
//@@ subst `self.reader .forward_read_bytes_with_hint(__E1, de::IgnoredAny)` => `reader_skip_bytes(&mut self.reader, __E1)` rule=R9
//@@ selfmut
//@@ qmark
//@@ generics
//@@ nowhere
//@@ param visitor : VisitorS
//@@ ret Result<VisitValue, Error>
//@@ subst `|| Error::unexpected_eof("Expecting format code")` => `|| -> (o: Error) { Error::unexpected_eof("Expecting format code") }` rule=R18
//@@ subst `|| Error::unexpected_eof("Expecting len")` => `|| -> (o: Error) { Error::unexpected_eof("Expecting len") }` rule=R18
//@@ subst `|| Error::unexpected_eof("Expecting count")` => `|| -> (o: Error) { Error::unexpected_eof("Expecting count") }` rule=R18
//@@ subst `u32::from_be_bytes(` => `from_be32(` rule=R9
//@@ subst `visitor.visit_seq(ArrayAccess::new(self, __E1, count))` => `visit_array(visitor, self, __E1, count)` rule=R9
//@@ subst `visitor.visit_seq(ListAccess::new(self, len, count))` => `visit_list(visitor, self, len, count)` rule=R9
//@@ spec
    requires bounded(old(self).reader), old(self).handed@ is None,
    ensures
        final(self).reader.wf(),
        final(self).handed@ is Some ==> ({
            let u = eff_unread(*old(self));
            let h = final(self).handed@->Some_0;
            &&& compound_header(u) == Some((h.len, h.count))                                                     // [C05.compound.header-decoding] [C03.rt.decoder-premise] list0/list8/list32/array8/array32: the body length and count handed on are the ones the AMQP layout defines (size minus the count field, minus the element constructor for a non-empty array)
            &&& h.kind == (if u[0] == 0xe0 || u[0] == 0xf0 { 0int } else { 1int })
            &&& h.count <= 65536 || u[0] == 0xc0                                                                 // [C04.compound.count-capped] 32-bit counts are capped before anything iterates or allocates by them
            &&& (h.kind == 0 ==> h.count <= h.len + 5)                                                           // [C04.array.count-bounded-by-size] an array cannot announce more elements than its size field covers
            &&& (h.kind == 0 ==> h.count <= u.len())                                                             // [C04.array.count-bounded-by-input] ... nor more elements than there are unread input octets: size and count are both fields the peer chose, and elements may be zero octets wide (null, true, list0...), so `count <= size` alone lets 10 octets buy 65 536 elements
        }),
        final(self).handed@ is Some && eff_unread(*old(self))[0] == 0xe0 && final(self).handed@->Some_0.count == 0 && old(self).reader.consumed() + old(self).reader.unread().len() + 1 < usize::MAX ==> ({
            let hdr = if old(self).elem_format_code is Some { 0int } else { 1int };
            final(self).handed@->Some_0.unread_at =~= old(self).reader.unread().skip(hdr + 1 + eff_unread(*old(self))[1] as int)
        }),                                                                                                      // [C05.array.empty-array-body-consumed] an EMPTY array that carries its element constructor (`e0 02 00 a3`: size 2 = count octet + constructor) is consumed whole: the octets its size field announces belong to it, they are not left in the stream for the next value
        final(self).handed@ is Some && eff_unread(*old(self))[0] == 0xf0 && final(self).handed@->Some_0.count == 0 && old(self).reader.consumed() + old(self).reader.unread().len() + 1 < usize::MAX ==> ({
            let hdr = if old(self).elem_format_code is Some { 0int } else { 1int };
            final(self).handed@->Some_0.unread_at =~= old(self).reader.unread().skip(hdr + 4 + sp_be32(eff_unread(*old(self)).subrange(1, 5)) as int)
        }),                                                                                                      // [C05.array.empty-array-body-consumed] the same for array32 (`f0 00000005 00000000 a3`): size field (4 octets) plus the `size` octets it announces
        // completeness: a well-formed array8 header (AMQP 1.0 part 1, 1.6.24: size >= count octet + element constructor; any count 0..=255, since elements may be zero octets wide) is accepted
        old(self).reader.reliable() && valid_array8_header(eff_unread(*old(self))) && eff_unread(*old(self))[2] <= eff_unread(*old(self))[1] ==> final(self).handed@ is Some,    // [C05.array8.every-valid-header-accepted] (count <= size field)
        old(self).reader.reliable() && valid_array8_header(eff_unread(*old(self))) && eff_unread(*old(self))[2] > eff_unread(*old(self))[1] ==> final(self).handed@ is Some,     // [C05.array8.zero-width-elements-count-above-size] a count above the size field is valid when the elements are zero octets wide (null, true, false, uint0, ulong0, list0)
//@@ end

//@@ fn file=serde_amqp/src/de.rs impl=`~de::Deserializer<'de>for&mutDeserializer<R>` name=deserialize_tuple
//@@ selfmut
//@@ qmark
//@@ generics
//@@ nowhere
//@@ param visitor : VisitorS
//@@ ret Result<VisitValue, Error>
//@@ subst `|| Error::unexpected_eof("Expecting format code")` => `|| -> (o: Error) { Error::unexpected_eof("Expecting format code") }` rule=R18
//@@ subst `|| Error::unexpected_eof("Expecting size")` => `|| -> (o: Error) { Error::unexpected_eof("Expecting size") }` rule=R18
//@@ subst `|| Error::unexpected_eof("Expecting count")` => `|| -> (o: Error) { Error::unexpected_eof("Expecting count") }` rule=R18
//@@ subst `u32::from_be_bytes(` => `from_be32(` rule=R9
//@@ subst `visitor.visit_seq(ListAccess::new(self, size, count))` => `visit_list(visitor, self, size, count)` rule=R9
//@@ spec
    requires bounded(old(self).reader), old(self).handed@ is None,
    ensures
        final(self).reader.wf(),
        final(self).handed@ is Some ==> ({
            let u = eff_unread(*old(self));
            let h = final(self).handed@->Some_0;
            &&& (u[0] == 0x45 || u[0] == 0xc0 || u[0] == 0xd0)
            &&& compound_header(u) == Some((h.len, h.count)) && h.kind == 1                                     // [C05.compound.header-decoding] [C03.rt.decoder-premise]
            &&& h.count == len                                                                                   // [C05.tuple.arity] a fixed-arity sequence is accepted only with exactly that many elements
        }),
//@@ end

//@@ fn file=serde_amqp/src/de.rs impl=`~de::Deserializer<'de>for&mutDeserializer<R>` name=deserialize_map
//@@ selfmut
//@@ qmark
//@@ generics
//@@ nowhere
//@@ param visitor : VisitorS
//@@ ret Result<VisitValue, Error>
//@@ subst `|| Error::unexpected_eof("Expecting format code")` => `|| -> (o: Error) { Error::unexpected_eof("Expecting format code") }` rule=R18
//@@ subst `|| Error::unexpected_eof("Expecting size")` => `|| -> (o: Error) { Error::unexpected_eof("Expecting size") }` rule=R18
//@@ subst `|| Error::unexpected_eof("Expecting count")` => `|| -> (o: Error) { Error::unexpected_eof("Expecting count") }` rule=R18
//@@ subst `u32::from_be_bytes(` => `from_be32(` rule=R9
//@@ subst `visitor.visit_map(MapAccess::new(self, size, count))` => `visit_map(visitor, self, size, count)` rule=R9
//@@ spec
    requires bounded(old(self).reader), old(self).handed@ is None,
    ensures
        final(self).reader.wf(),
        final(self).handed@ is Some ==> ({
            let u = eff_unread(*old(self));
            let h = final(self).handed@->Some_0;
            &&& (u[0] == 0xc1 || u[0] == 0xd1)
            &&& compound_header(u) == Some((h.len, h.count)) && h.kind == 2                                     // [C05.compound.header-decoding] [C03.rt.decoder-premise] map8/map32
            &&& h.count <= 65536 || u[0] == 0xc1                                                                 // [C04.compound.count-capped]
        }),
//@@ end
}


// ================================================================ fixed-width primitives of the decoder (de.rs parse_*), in and outside arrays
/// value and total encoded length (constructor included) of the fixed-width encodings at the front of `u` (AMQP 1.0 part 1, 1.6)
pub open spec fn dec_u64(u: Seq<u8>) -> Option<(u64, int)> {
    if u.len() >= 1 && u[0] == 0x44 { Some((0u64, 1int)) }
    else if u.len() >= 2 && u[0] == 0x53 { Some((u[1] as u64, 2int)) }
    else if u.len() >= 9 && u[0] == 0x80 { Some((sp_be64(u.subrange(1, 9)), 9int)) }
    else { None }
}
pub open spec fn dec_u32(u: Seq<u8>) -> Option<(u32, int)> {
    if u.len() >= 1 && u[0] == 0x43 { Some((0u32, 1int)) }
    else if u.len() >= 2 && u[0] == 0x52 { Some((u[1] as u32, 2int)) }
    else if u.len() >= 5 && u[0] == 0x70 { Some((sp_be32(u.subrange(1, 5)), 5int)) }
    else { None }
}
pub open spec fn dec_u8(u: Seq<u8>) -> Option<(u8, int)> { if u.len() >= 2 && u[0] == 0x50 { Some((u[1], 2int)) } else { None } }
pub open spec fn dec_bool(u: Seq<u8>) -> Option<(bool, int)> {
    if u.len() >= 1 && u[0] == 0x41 { Some((true, 1int)) }
    else if u.len() >= 1 && u[0] == 0x42 { Some((false, 1int)) }
    else if u.len() >= 2 && u[0] == 0x56 && u[1] == 0 { Some((false, 2int)) }
    else if u.len() >= 2 && u[0] == 0x56 && u[1] == 1 { Some((true, 2int)) }
    else { None }
}

impl<R: Read> Deserializer<R> {
//@@ fn file=serde_amqp/src/de.rs impl=`impl<'de, R: Read<'de>> Deserializer<R>` name=parse_u64
//@@ qmark
//@@ subst `|| Error::unexpected_eof("parse_u64")` => `|| -> (o: Error) { Error::unexpected_eof("parse_u64") }` rule=R18
//@@ subst `|| Error::unexpected_eof("Expecting small u64")` => `|| -> (o: Error) { Error::unexpected_eof("Expecting small u64") }` rule=R18
//@@ subst `u64::from_be_bytes(` => `from_be64(` rule=R14
//@@ spec
    requires bounded(old(self).reader),
    ensures
        final(self).reader.wf(), final(self).elem_format_code == old(self).elem_format_code,
        r is Ok ==> dec_u64(eff_unread(*old(self))) is Some && dec_u64(eff_unread(*old(self)))->Some_0.0 == r->Ok_0
            && final(self).reader.unread() =~= eff_unread(*old(self)).skip(dec_u64(eff_unread(*old(self)))->Some_0.1),        // [C05.ulong.decoding] [C03.rt.decoder-premise] ulong0 / smallulong / ulong, each by its AMQP layout, exactly its octets consumed; inside an array the constructor is the array's
        old(self).reader.reliable() && dec_u64(eff_unread(*old(self))) is Some ==> r is Ok,                                     // [C05.ulong.every-variant-accepted]
//@@ end

//@@ fn file=serde_amqp/src/de.rs impl=`impl<'de, R: Read<'de>> Deserializer<R>` name=parse_u32
//@@ qmark
//@@ blockarms
//@@ subst `|| Error::unexpected_eof("parse_u32")` => `|| -> (o: Error) { Error::unexpected_eof("parse_u32") }` rule=R18
//@@ subst `self .reader .read_const_bytes() .map(u32::from_be_bytes) .map_err(Into::into)` => `(match self.reader.read_const_bytes() { Ok(b) => Ok(from_be32(b)), Err(e) => Err(e.err_into()) })` rule=R19 unless `\.map_err\(`
//@@ subst `self.reader.next().map_err(Into::into).and_then(|b| { b.ok_or_else(|| Error::unexpected_eof("Expecting small u32")) .map(|byte| byte as u32) })` => `(match self.reader.next() { Ok(Some(byte)) => Ok(byte as u32), Ok(None) => Err(Error::unexpected_eof("Expecting small u32")), Err(e) => Err(e.err_into()) })` rule=R19 unless `\.map_err\(`
//@@ spec
    requires bounded(old(self).reader),
    ensures
        final(self).reader.wf(), final(self).elem_format_code == old(self).elem_format_code,
        r is Ok ==> dec_u32(eff_unread(*old(self))) is Some && dec_u32(eff_unread(*old(self)))->Some_0.0 == r->Ok_0
            && final(self).reader.unread() =~= eff_unread(*old(self)).skip(dec_u32(eff_unread(*old(self)))->Some_0.1),        // [C05.uint.decoding] [C03.rt.decoder-premise] uint0 / smalluint / uint
        old(self).reader.reliable() && dec_u32(eff_unread(*old(self))) is Some ==> r is Ok,                                     // [C05.uint.every-variant-accepted]
//@@ end

//@@ fn file=serde_amqp/src/de.rs impl=`impl<'de, R: Read<'de>> Deserializer<R>` name=parse_u8
//@@ qmark
//@@ blockarms
//@@ subst `|| Error::unexpected_eof("parse_u8")` => `|| -> (o: Error) { Error::unexpected_eof("parse_u8") }` rule=R18
//@@ subst `self .reader .next() .map_err(Into::into) .and_then(|b| b.ok_or_else(|| Error::unexpected_eof("Expecting u8")))` => `(match self.reader.next() { Ok(Some(byte)) => Ok(byte), Ok(None) => Err(Error::unexpected_eof("Expecting u8")), Err(e) => Err(e.err_into()) })` rule=R19 unless `\.map_err\(`
//@@ spec
    requires bounded(old(self).reader),
    ensures
        final(self).reader.wf(), final(self).elem_format_code == old(self).elem_format_code,
        r is Ok ==> dec_u8(eff_unread(*old(self))) == Some((r->Ok_0, 2int))
            && final(self).reader.unread() =~= eff_unread(*old(self)).skip(2),                                                  // [C05.ubyte.decoding] [C03.rt.decoder-premise]
        old(self).reader.reliable() && dec_u8(eff_unread(*old(self))) is Some ==> r is Ok,                                      // [C05.ubyte.accepted]
//@@ end

//@@ fn file=serde_amqp/src/de.rs impl=`impl<'de, R: Read<'de>> Deserializer<R>` name=parse_bool
//@@ qmark
//@@ blockarms
//@@ subst `|| Error::unexpected_eof("parse_bool")` => `|| -> (o: Error) { Error::unexpected_eof("parse_bool") }` rule=R18
//@@ subst `self.reader.next().map_err(Into::into).and_then(|b| { b.ok_or_else(|| Error::unexpected_eof("Expecting bool byte")) })?` => `(match self.reader.next() { Ok(Some(byte)) => byte, Ok(None) => return Err(Error::unexpected_eof("Expecting bool byte")), Err(e) => return Err(e.err_into()) })` rule=R19 unless `\.map_err\(`
//@@ spec
    requires bounded(old(self).reader),
    ensures
        final(self).reader.wf(), final(self).elem_format_code == old(self).elem_format_code,
        r is Ok ==> dec_bool(eff_unread(*old(self))) is Some && dec_bool(eff_unread(*old(self)))->Some_0.0 == r->Ok_0
            && final(self).reader.unread() =~= eff_unread(*old(self)).skip(dec_bool(eff_unread(*old(self)))->Some_0.1),       // [C05.bool.decoding] [C03.rt.decoder-premise] true 0x41, false 0x42, boolean 0x56 + 00/01 (anything else in that octet is refused)
        old(self).reader.reliable() && dec_bool(eff_unread(*old(self))) is Some ==> r is Ok,                                    // [C05.bool.every-variant-accepted]
//@@ end
}


pub open spec fn sp_be16(b: Seq<u8>) -> u16 { ((b[0] as u16) << 8 | (b[1] as u16)) as u16 }
#[verifier::external_body] pub fn u16_from_be(b: [u8; 2]) -> (r: u16) ensures r == sp_be16(b@) { u16::from_be_bytes(b) }
#[verifier::external_body] pub fn i16_from_be(b: [u8; 2]) -> (r: i16) ensures r == sp_be16(b@) as i16 { i16::from_be_bytes(b) }
#[verifier::external_body] pub fn i32_from_be(b: [u8; 4]) -> (r: i32) ensures r == sp_be32(b@) as i32 { i32::from_be_bytes(b) }
#[verifier::external_body] pub fn i64_from_be(b: [u8; 8]) -> (r: i64) ensures r == sp_be64(b@) as i64 { i64::from_be_bytes(b) }
pub open spec fn dec_i64(u: Seq<u8>) -> Option<(i64, int)> {
    if u.len() >= 2 && u[0] == 0x55 { Some((u[1] as i8 as i64, 2int)) }
    else if u.len() >= 9 && u[0] == 0x81 { Some((sp_be64(u.subrange(1, 9)) as i64, 9int)) }
    else { None }
}
pub open spec fn dec_i32(u: Seq<u8>) -> Option<(i32, int)> {
    if u.len() >= 2 && u[0] == 0x54 { Some((u[1] as i8 as i32, 2int)) }
    else if u.len() >= 5 && u[0] == 0x71 { Some((sp_be32(u.subrange(1, 5)) as i32, 5int)) }
    else { None }
}
pub open spec fn dec_i16(u: Seq<u8>) -> Option<(i16, int)> { if u.len() >= 3 && u[0] == 0x61 { Some((sp_be16(u.subrange(1, 3)) as i16, 3int)) } else { None } }
pub open spec fn dec_u16(u: Seq<u8>) -> Option<(u16, int)> { if u.len() >= 3 && u[0] == 0x60 { Some((sp_be16(u.subrange(1, 3)), 3int)) } else { None } }
pub open spec fn dec_i8(u: Seq<u8>) -> Option<(i8, int)> { if u.len() >= 2 && u[0] == 0x51 { Some((u[1] as i8, 2int)) } else { None } }

impl<R: Read> Deserializer<R> {
//@@ fn file=serde_amqp/src/de.rs impl=`impl<'de, R: Read<'de>> Deserializer<R>` name=parse_i64
//@@ qmark
//@@ blockarms
//@@ subst `|| Error::unexpected_eof("parse_i64")` => `|| -> (o: Error) { Error::unexpected_eof("parse_i64") }` rule=R18
//@@ subst `self .reader .read_const_bytes() .map(i64::from_be_bytes) .map_err(Into::into)` => `(match self.reader.read_const_bytes() { Ok(b) => Ok(i64_from_be(b)), Err(e) => Err(e.err_into()) })` rule=R19 unless `\.map_err\(`
//@@ subst `self.reader.next().map_err(Into::into).and_then(|b| { b.map(|signed| signed as i8 as i64) .ok_or_else(|| Error::unexpected_eof("Expecting i64")) })` => `(match self.reader.next() { Ok(Some(signed)) => Ok(signed as i8 as i64), Ok(None) => Err(Error::unexpected_eof("Expecting i64")), Err(e) => Err(e.err_into()) })` rule=R19 unless `\.map_err\(`
//@@ spec
    requires bounded(old(self).reader),
    ensures
        final(self).reader.wf(), final(self).elem_format_code == old(self).elem_format_code,
        r is Ok ==> dec_i64(eff_unread(*old(self))) is Some && dec_i64(eff_unread(*old(self)))->Some_0.0 == r->Ok_0
            && final(self).reader.unread() =~= eff_unread(*old(self)).skip(dec_i64(eff_unread(*old(self)))->Some_0.1),        // [C05.long.decoding] [C03.rt.decoder-premise]
        old(self).reader.reliable() && dec_i64(eff_unread(*old(self))) is Some ==> r is Ok,                                     // [C05.long.every-variant-accepted]
//@@ end

//@@ fn file=serde_amqp/src/de.rs impl=`impl<'de, R: Read<'de>> Deserializer<R>` name=parse_i32
//@@ qmark
//@@ blockarms
//@@ subst `|| Error::unexpected_eof("parse_i32")` => `|| -> (o: Error) { Error::unexpected_eof("parse_i32") }` rule=R18
//@@ subst `self .reader .read_const_bytes() .map(i32::from_be_bytes) .map_err(Into::into)` => `(match self.reader.read_const_bytes() { Ok(b) => Ok(i32_from_be(b)), Err(e) => Err(e.err_into()) })` rule=R19 unless `\.map_err\(`
//@@ subst `self.reader.next().map_err(Into::into).and_then(|b| { b.map(|signed| signed as i8 as i32) .ok_or_else(|| Error::unexpected_eof("Expecting i32")) })` => `(match self.reader.next() { Ok(Some(signed)) => Ok(signed as i8 as i32), Ok(None) => Err(Error::unexpected_eof("Expecting i32")), Err(e) => Err(e.err_into()) })` rule=R19 unless `\.map_err\(`
//@@ spec
    requires bounded(old(self).reader),
    ensures
        final(self).reader.wf(), final(self).elem_format_code == old(self).elem_format_code,
        r is Ok ==> dec_i32(eff_unread(*old(self))) is Some && dec_i32(eff_unread(*old(self)))->Some_0.0 == r->Ok_0
            && final(self).reader.unread() =~= eff_unread(*old(self)).skip(dec_i32(eff_unread(*old(self)))->Some_0.1),        // [C05.int.decoding] [C03.rt.decoder-premise]
        old(self).reader.reliable() && dec_i32(eff_unread(*old(self))) is Some ==> r is Ok,                                     // [C05.int.every-variant-accepted]
//@@ end

//@@ fn file=serde_amqp/src/de.rs impl=`impl<'de, R: Read<'de>> Deserializer<R>` name=parse_i16
//@@ qmark
//@@ blockarms
//@@ subst `|| Error::unexpected_eof("parse_i16")` => `|| -> (o: Error) { Error::unexpected_eof("parse_i16") }` rule=R18
//@@ subst `self .reader .read_const_bytes() .map(i16::from_be_bytes) .map_err(Into::into)` => `(match self.reader.read_const_bytes() { Ok(b) => Ok(i16_from_be(b)), Err(e) => Err(e.err_into()) })` rule=R19 unless `\.map_err\(`
//@@ spec
    requires bounded(old(self).reader),
    ensures
        final(self).reader.wf(), final(self).elem_format_code == old(self).elem_format_code,
        r is Ok ==> dec_i16(eff_unread(*old(self))) is Some && dec_i16(eff_unread(*old(self)))->Some_0.0 == r->Ok_0
            && final(self).reader.unread() =~= eff_unread(*old(self)).skip(dec_i16(eff_unread(*old(self)))->Some_0.1),        // [C05.short.decoding] [C03.rt.decoder-premise]
        old(self).reader.reliable() && dec_i16(eff_unread(*old(self))) is Some ==> r is Ok,                                     // [C05.short.every-variant-accepted]
//@@ end

//@@ fn file=serde_amqp/src/de.rs impl=`impl<'de, R: Read<'de>> Deserializer<R>` name=parse_u16
//@@ qmark
//@@ blockarms
//@@ subst `|| Error::unexpected_eof("parse_u16")` => `|| -> (o: Error) { Error::unexpected_eof("parse_u16") }` rule=R18
//@@ subst `self .reader .read_const_bytes() .map(u16::from_be_bytes) .map_err(Into::into)` => `(match self.reader.read_const_bytes() { Ok(b) => Ok(u16_from_be(b)), Err(e) => Err(e.err_into()) })` rule=R19 unless `\.map_err\(`
//@@ spec
    requires bounded(old(self).reader),
    ensures
        final(self).reader.wf(), final(self).elem_format_code == old(self).elem_format_code,
        r is Ok ==> dec_u16(eff_unread(*old(self))) is Some && dec_u16(eff_unread(*old(self)))->Some_0.0 == r->Ok_0
            && final(self).reader.unread() =~= eff_unread(*old(self)).skip(dec_u16(eff_unread(*old(self)))->Some_0.1),        // [C05.ushort.decoding] [C03.rt.decoder-premise]
        old(self).reader.reliable() && dec_u16(eff_unread(*old(self))) is Some ==> r is Ok,                                     // [C05.ushort.every-variant-accepted]
//@@ end

//@@ fn file=serde_amqp/src/de.rs impl=`impl<'de, R: Read<'de>> Deserializer<R>` name=parse_i8
//@@ qmark
//@@ blockarms
//@@ subst `|| Error::unexpected_eof("parse_i8")` => `|| -> (o: Error) { Error::unexpected_eof("parse_i8") }` rule=R18
//@@ subst `let byte = self .reader .next() .map_err(Into::into) .and_then(|b| b.ok_or_else(|| Error::unexpected_eof("Expecting i8")))?;` => `let byte = (match self.reader.next() { Ok(Some(b)) => b, Ok(None) => return Err(Error::unexpected_eof("Expecting i8")), Err(e) => return Err(e.err_into()) });` rule=R19 unless `\.map_err\(`
//@@ spec
    requires bounded(old(self).reader),
    ensures
        final(self).reader.wf(), final(self).elem_format_code == old(self).elem_format_code,
        r is Ok ==> dec_i8(eff_unread(*old(self))) is Some && dec_i8(eff_unread(*old(self)))->Some_0.0 == r->Ok_0
            && final(self).reader.unread() =~= eff_unread(*old(self)).skip(dec_i8(eff_unread(*old(self)))->Some_0.1),        // [C05.byte.decoding] [C03.rt.decoder-premise]
        old(self).reader.reliable() && dec_i8(eff_unread(*old(self))) is Some ==> r is Ok,                                     // [C05.byte.every-variant-accepted]
//@@ end

//@@ fn file=serde_amqp/src/de.rs impl=`impl<'de, R: Read<'de>> Deserializer<R>` name=parse_timestamp
//@@ qmark
//@@ blockarms
//@@ subst `|| Error::unexpected_eof("parse_timestamp")` => `|| -> (o: Error) { Error::unexpected_eof("parse_timestamp") }` rule=R18
//@@ subst `i64::from_be_bytes(bytes)` => `i64_from_be(bytes)` rule=R14
//@@ spec
    requires bounded(old(self).reader),
    ensures
        final(self).reader.wf(), final(self).elem_format_code == old(self).elem_format_code, final(self).non_native_type == old(self).non_native_type,
        r is Ok ==> ({ let u = eff_unread(*old(self)); u.len() >= 9 && u[0] == 0x83 && r->Ok_0 == sp_be64(u.subrange(1, 9)) as i64
            && final(self).reader.unread() =~= u.skip(9) }),                                                                   // [C05.timestamp.decoding] [C03.rt.decoder-premise] timestamp: 0x83 and 8 octets, big-endian two's complement milliseconds
        old(self).reader.reliable() && eff_unread(*old(self)).len() >= 9 && eff_unread(*old(self))[0] == 0x83 ==> r is Ok,     // [C05.timestamp.accepted]
//@@ end

//@@ fn file=serde_amqp/src/de.rs impl=`impl<'de, R: Read<'de>> Deserializer<R>` name=parse_char
//@@ qmark
//@@ blockarms
//@@ subst `|| Error::unexpected_eof("parse_char")` => `|| -> (o: Error) { Error::unexpected_eof("parse_char") }` rule=R18
//@@ subst `u32::from_be_bytes(` => `from_be32(` rule=R9
//@@ subst `char::from_u32(n).ok_or(Error::InvalidValue)` => `char_from_u32(n)` rule=R9
//@@ spec
    requires bounded(old(self).reader),
    ensures
        final(self).reader.wf(), final(self).elem_format_code == old(self).elem_format_code, final(self).non_native_type == old(self).non_native_type,
        r is Ok ==> ({ let u = eff_unread(*old(self)); u.len() >= 5 && u[0] == 0x73 && r->Ok_0 as u32 == sp_be32(u.subrange(1, 5)) && is_scalar_value(sp_be32(u.subrange(1, 5)))
            && final(self).reader.unread() =~= u.skip(5) }),                                                                   // [C05.char.decoding] [C03.rt.decoder-premise] char: 0x73 and the UTF-32BE code point, which must be a Unicode scalar value (no surrogates, <= 0x10FFFF)
        old(self).reader.reliable() && eff_unread(*old(self)).len() >= 5 && eff_unread(*old(self))[0] == 0x73 && is_scalar_value(sp_be32(eff_unread(*old(self)).subrange(1, 5))) ==> r is Ok,     // [C05.char.accepted]
//@@ end

//@@ fn file=serde_amqp/src/de.rs impl=`impl<'de, R: Read<'de>> Deserializer<R>` name=parse_unit
//@@ qmark
//@@ blockarms
//@@ subst `|| Error::unexpected_eof("parse_unit")` => `|| -> (o: Error) { Error::unexpected_eof("parse_unit") }` rule=R18
//@@ spec
    requires bounded(old(self).reader),
    ensures
        final(self).reader.wf(), final(self).elem_format_code == old(self).elem_format_code, final(self).non_native_type == old(self).non_native_type,
        r is Ok ==> ({ let u = eff_unread(*old(self)); u.len() >= 1 && u[0] == 0x40 && final(self).reader.unread() =~= u.skip(1) }),   // [C05.null.decoding] [C03.rt.decoder-premise] null is the single octet 0x40
        old(self).reader.reliable() && eff_unread(*old(self)).len() >= 1 && eff_unread(*old(self))[0] == 0x40 ==> r is Ok,
//@@ end

//@@ fn file=serde_amqp/src/de.rs impl=`impl<'de, R: Read<'de>> Deserializer<R>` name=parse_f32
//@@ qmark
//@@ blockarms
//@@ subst `|| Error::unexpected_eof("parse_f32")` => `|| -> (o: Error) { Error::unexpected_eof("parse_f32") }` rule=R18
//@@ subst `f32::from_be_bytes(bytes)` => `f32_from_be(bytes)` rule=R14
//@@ spec
    requires bounded(old(self).reader),
    ensures
        final(self).reader.wf(), final(self).elem_format_code == old(self).elem_format_code, final(self).non_native_type == old(self).non_native_type,
        r is Ok ==> ({ let u = eff_unread(*old(self)); u.len() >= 5 && u[0] == 0x72 && f32_bits(r->Ok_0) == sp_be32(u.subrange(1, 5)) && final(self).reader.unread() =~= u.skip(5) }),   // [C05.float.decoding] [C03.rt.decoder-premise] float: 0x72 and the 4 IEEE 754 octets, big-endian, taken bit for bit
        old(self).reader.reliable() && eff_unread(*old(self)).len() >= 5 && eff_unread(*old(self))[0] == 0x72 ==> r is Ok,
//@@ end

//@@ fn file=serde_amqp/src/de.rs impl=`impl<'de, R: Read<'de>> Deserializer<R>` name=parse_f64
//@@ qmark
//@@ blockarms
//@@ subst `|| Error::unexpected_eof("parse_f64")` => `|| -> (o: Error) { Error::unexpected_eof("parse_f64") }` rule=R18
//@@ subst `f64::from_be_bytes(bytes)` => `f64_from_be(bytes)` rule=R14
//@@ spec
    requires bounded(old(self).reader),
    ensures
        final(self).reader.wf(), final(self).elem_format_code == old(self).elem_format_code, final(self).non_native_type == old(self).non_native_type,
        r is Ok ==> ({ let u = eff_unread(*old(self)); u.len() >= 9 && u[0] == 0x82 && f64_bits(r->Ok_0) == sp_be64(u.subrange(1, 9)) && final(self).reader.unread() =~= u.skip(9) }),   // [C05.double.decoding] [C03.rt.decoder-premise] double: 0x82 and the 8 IEEE 754 octets, big-endian, bit for bit
        old(self).reader.reliable() && eff_unread(*old(self)).len() >= 9 && eff_unread(*old(self))[0] == 0x82 ==> r is Ok,
//@@ end
}
/// `self.reader.forward_read_bytes_with_hint(n, visitor)`: the contract of Read::forward_read_bytes_with_hint checked against both readers (bytes_forwarded)
#[verifier::external_body]
pub fn reader_forward_bytes<R: Read>(reader: &mut R, n: usize, visitor: VisS) -> (r: Result<VisValue, Error>)
    requires bounded(*old(reader)),
    ensures bytes_forwarded(*old(reader), *final(reader), n, visitor, r), final(reader).wf(), final(reader).reliable() == old(reader).reliable(),
{ unimplemented!() }
//@@ type file=serde_amqp/src/fixed_width.rs kind=const name=DECIMAL32_WIDTH
//@@ end
//@@ type file=serde_amqp/src/fixed_width.rs kind=const name=DECIMAL64_WIDTH
//@@ end
//@@ type file=serde_amqp/src/fixed_width.rs kind=const name=DECIMAL128_WIDTH
//@@ end
//@@ type file=serde_amqp/src/fixed_width.rs kind=const name=UUID_WIDTH
//@@ end
/// AMQP 1.0 part 1, 1.6.13-1.6.15, 1.6.18: decimal32 / 64 / 128 are 4 / 8 / 16 octets, uuid 16
proof fn spec_fixed_widths() ensures DECIMAL32_WIDTH == 4, DECIMAL64_WIDTH == 8, DECIMAL128_WIDTH == 16, UUID_WIDTH == 16 {}      // [C05.constants.fixed-widths] [C03.constants.fixed-widths] [C20.constants.fixed-widths]
/// what a fixed-width value shown to the visitor as raw octets decodes from: constructor `code`, then `w` octets
pub open spec fn fixed_shown<R: Read>(de0: Deserializer<R>, de1: Deserializer<R>, code: u8, w: int, r: Result<VisValue, Error>) -> bool {
    let u = eff_unread(de0);
    u.len() >= 1 + w && u[0] == code && r->Ok_0.via@ is Bytes && r->Ok_0.via@->Bytes_0 =~= u.subrange(1, 1 + w) && de1.reader.unread() =~= u.skip(1 + w)
}
impl<R: Read> Deserializer<R> {
//@@ fn file=serde_amqp/src/de.rs impl=`impl<'de, R: Read<'de>> Deserializer<R>` name=parse_uuid
//@@ qmark
//@@ generics
//@@ nowhere
//@@ blockarms
//@@ param visitor : VisS
//@@ ret Result<VisValue, Error>
//@@ subst `|| Error::unexpected_eof("parse_uuid")` => `|| -> (o: Error) { Error::unexpected_eof("parse_uuid") }` rule=R18
//@@ subst `self .reader .forward_read_bytes_with_hint(UUID_WIDTH, visitor)` => `reader_forward_bytes(&mut self.reader, UUID_WIDTH, visitor)` rule=R9
//@@ spec
    requires bounded(old(self).reader),
    ensures
        final(self).reader.wf(), final(self).elem_format_code == old(self).elem_format_code, final(self).non_native_type == old(self).non_native_type,
        r is Ok ==> fixed_shown(*old(self), *final(self), 0x98, 16, r),                                     // [C05.uuid.decoding] [C03.rt.decoder-premise] uuid: 0x98 and exactly 16 octets, handed on unchanged
        old(self).reader.reliable() && visitor.total() && eff_unread(*old(self)).len() >= 17 && eff_unread(*old(self))[0] == 0x98 ==> r is Ok,
//@@ end

//@@ fn file=serde_amqp/src/de.rs impl=`impl<'de, R: Read<'de>> Deserializer<R>` name=parse_decimal
//@@ qmark
//@@ generics
//@@ nowhere
//@@ blockarms
//@@ param visitor : VisS
//@@ ret Result<VisValue, Error>
//@@ subst `|| Error::unexpected_eof("parse_decimal")` => `|| -> (o: Error) { Error::unexpected_eof("parse_decimal") }` rule=R18
//@@ subst `self .reader .forward_read_bytes_with_hint(DECIMAL32_WIDTH, visitor)` => `reader_forward_bytes(&mut self.reader, DECIMAL32_WIDTH, visitor)` rule=R9
//@@ subst `self .reader .forward_read_bytes_with_hint(DECIMAL64_WIDTH, visitor)` => `reader_forward_bytes(&mut self.reader, DECIMAL64_WIDTH, visitor)` rule=R9
//@@ subst `self .reader .forward_read_bytes_with_hint(DECIMAL128_WIDTH, visitor)` => `reader_forward_bytes(&mut self.reader, DECIMAL128_WIDTH, visitor)` rule=R9
//@@ spec
    requires bounded(old(self).reader),
    ensures
        final(self).reader.wf(), final(self).elem_format_code == old(self).elem_format_code, final(self).non_native_type == old(self).non_native_type,
        r is Ok ==> fixed_shown(*old(self), *final(self), 0x74, 4, r) || fixed_shown(*old(self), *final(self), 0x84, 8, r) || fixed_shown(*old(self), *final(self), 0x94, 16, r),   // [C05.decimal.decoding] [C03.rt.decoder-premise] decimal32 / 64 / 128: 0x74 / 0x84 / 0x94 and exactly 4 / 8 / 16 octets, handed on unchanged
        old(self).reader.reliable() && visitor.total() && ({ let u = eff_unread(*old(self)); (u.len() >= 5 && u[0] == 0x74) || (u.len() >= 9 && u[0] == 0x84) || (u.len() >= 17 && u[0] == 0x94) }) ==> r is Ok,
//@@ end
}
/// a Unicode scalar value (what `char::from_u32` accepts)
pub open spec fn is_scalar_value(n: u32) -> bool { n <= 0x10FFFF && !(0xD800 <= n && n <= 0xDFFF) }
/// `char::from_u32(n).ok_or(Error::InvalidValue)`
#[verifier::external_body]
pub fn char_from_u32(n: u32) -> (r: Result<char, Error>) ensures (r is Ok) == is_scalar_value(n), r is Ok ==> r->Ok_0 as u32 == n { char::from_u32(n).ok_or(Error::Other) }
/// the IEEE 754 bit pattern of a float (f32::to_bits / from_bits: uninterpreted here)
pub uninterp spec fn f32_bits(x: f32) -> u32;
pub uninterp spec fn f64_bits(x: f64) -> u64;
#[verifier::external_body] pub fn f32_from_be(b: [u8; 4]) -> (r: f32) ensures f32_bits(r) == sp_be32(b@) { f32::from_be_bytes(b) }
#[verifier::external_body] pub fn f64_from_be(b: [u8; 8]) -> (r: f64) ensures f64_bits(r) == sp_be64(b@) { f64::from_be_bytes(b) }

// ================================================================ the descriptor of a described value (de.rs parse_described_identifier)
/// what the visitor is given (visit_u64 / visit_str are outside this unit: a visitor either fails or returns a value that remembers what it was given)
pub enum Ident { Code(u64), Name(Seq<char>) }
pub uninterp spec fn given(v: VisitValue) -> Ident;
#[verifier::external_body]
pub fn visit_u64(visitor: VisitorS, x: u64) -> (r: Result<VisitValue, Error>) ensures r is Ok ==> given(r->Ok_0) == Ident::Code(x) { unimplemented!() }
#[verifier::external_body]
pub fn visit_str(visitor: VisitorS, x: &str) -> (r: Result<VisitValue, Error>) ensures r is Ok ==> given(r->Ok_0) == Ident::Name(x@) { unimplemented!() }
#[verifier::external_body]
pub struct Utf8Error { _p: u8 }
impl ErrInto<Error> for Utf8Error { open spec fn conv(self) -> Error { Error::Other } fn err_into(self) -> (r: Error) { Error::Other } }
/// core::str::from_utf8
#[verifier::external_body]
pub fn str_from_utf8<'a>(b: &'a [u8]) -> (r: Result<&'a str, Utf8Error>)
    ensures r is Ok ==> utf8(r->Ok_0@) == b@,
{ unimplemented!() }
pub open spec fn sp_be64(b: Seq<u8>) -> u64 {
    ((b[0] as u64) << 56 | (b[1] as u64) << 48 | (b[2] as u64) << 40 | (b[3] as u64) << 32 | (b[4] as u64) << 24 | (b[5] as u64) << 16 | (b[6] as u64) << 8 | (b[7] as u64)) as u64
}
#[verifier::external_body]
pub fn from_be64(b: [u8; 8]) -> (r: u64) ensures r == sp_be64(b@) { u64::from_be_bytes(b) }
/// AMQP 1.0 part 1, 1.2 / 1.6: after the 0x00 marker the descriptor is a ulong (ulong0 0x44, smallulong 0x53 + 1 octet, ulong 0x80 + 8 octets big-endian)
/// or a symbol (sym8 0xa3 + size + octets, sym32 0xb3 + 4-octet size + octets)
pub open spec fn descriptor_at(u: Seq<u8>, d: Ident) -> bool {
    u.len() >= 2 && (
        (u[1] == 0x44 && d == Ident::Code(0))
        || (u[1] == 0x53 && u.len() >= 3 && d == Ident::Code(u[2] as u64))
        || (u[1] == 0x80 && u.len() >= 10 && d == Ident::Code(sp_be64(u.subrange(2, 10))))
        || (u[1] == 0xa3 && u.len() >= 3 && u.len() >= 3 + u[2] && d is Name && utf8(d->Name_0) == u.subrange(3, 3 + u[2] as int))
        || (u[1] == 0xb3 && u.len() >= 6 && u.len() >= 6 + sp_be32(u.subrange(2, 6)) && d is Name && utf8(d->Name_0) == u.subrange(6, 6 + sp_be32(u.subrange(2, 6)) as int))
    )
}
impl<R: Read> Deserializer<R> {
//@@ fn file=serde_amqp/src/de.rs impl=`impl<'de, R: Read<'de>> Deserializer<R>` name=parse_described_identifier
//@@ qmark
//@@ generics
//@@ nowhere
//@@ param visitor : VisitorS
//@@ ret Result<VisitValue, Error>
//@@ subst `|| Error::unexpected_eof("parse_described_identifier")` => `|| -> (o: Error) { Error::unexpected_eof("parse_described_identifier") }` rule=R18
//@@ subst `|| Error::unexpected_eof("")` => `|| -> (o: Error) { Error::unexpected_eof("") }` rule=R18
//@@ subst `code.try_into()` => `EncodingCodes::try_from_u8(code)` rule=R16
//@@ subst `std::str::from_utf8(` => `str_from_utf8(` rule=R9
//@@ subst `u32::from_be_bytes(` => `from_be32(` rule=R9
//@@ subst `u64::from_be_bytes(` => `from_be64(` rule=R9
//@@ subst `visitor.visit_str(slice)` => `visit_str(visitor, slice)` rule=R9
//@@ subst `visitor.visit_u64(0)` => `visit_u64(visitor, 0)` rule=R9
//@@ subst `visitor.visit_u64(value as u64)` => `visit_u64(visitor, value as u64)` rule=R9
//@@ subst `visitor.visit_u64(value)` => `visit_u64(visitor, value)` rule=R9
//@@ at `visit_u64(visitor, value)` before
                proof { assert(bytes@ =~= old(self).reader.unread().subrange(2, 10)); }
//@@ at `visit_str(visitor, slice)` before nth=0
                proof { assert(utf8(slice@) =~= old(self).reader.unread().subrange(3, 3 + size as int)); }
//@@ at `visit_str(visitor, slice)` before nth=1
                proof { assert(size_bytes@ =~= old(self).reader.unread().subrange(2, 6)); assert(utf8(slice@) =~= old(self).reader.unread().subrange(6, 6 + size as int)); }
//@@ spec
    requires bounded(old(self).reader),
    ensures
        final(self).reader.wf(), final(self).elem_format_code == old(self).elem_format_code,
        r is Ok ==> descriptor_at(old(self).reader.unread(), given(r->Ok_0)),                                 // [C05.descriptor.decoding] the descriptor handed to the type dispatcher is the ulong (any of its three widths) or symbol (either width) that follows the 0x00 marker
        r is Ok ==> final(self).reader.unread() =~= old(self).reader.unread() && final(self).reader.consumed() == old(self).reader.consumed(),   // [C20.reader.peek-does-not-consume] identifying the type only peeks: the value is still entirely unread
//@@ end
}

// ================================================================ DescribedAccess: the headers of described composites (the nine performatives, the delivery states, message sections ...)
/// the element count a list / map header announces, and how many octets the header occupies (constructor included), by the AMQP layout
pub open spec fn list_header_count(u: Seq<u8>) -> Option<(int, int)> {
    if u.len() == 0 { None }
    else if u[0] == 0x45 { Some((0int, 1int)) }
    else if u[0] == 0xc0 { if u.len() >= 3 { Some((u[2] as int, 3int)) } else { None } }
    else if u[0] == 0xd0 { if u.len() >= 9 { Some((sp_be32(u.subrange(5, 9)) as int, 9int)) } else { None } }
    else { None }
}
pub open spec fn map_header_count(u: Seq<u8>) -> Option<(int, int)> {
    if u.len() == 0 { None }
    else if u[0] == 0xc1 { if u.len() >= 3 { Some((u[2] as int, 3int)) } else { None } }
    else if u[0] == 0xd1 { if u.len() >= 9 { Some((sp_be32(u.subrange(5, 9)) as int, 9int)) } else { None } }
    else { None }
}
pub struct DescribedAccess<R> { pub de: Deserializer<R>, pub counter: u32, pub field_count: u32 }
impl<R: Read> DescribedAccess<R> {
//@@ fn file=serde_amqp/src/de.rs impl=`impl<'a, 'de, R: Read<'de>> DescribedAccess<'a, R>` name=consume_list_header
//@@ qmark
//@@ subst `self.as_mut()` => `(&mut self.de)` rule=R30
//@@ subst `self .as_mut()` => `(&mut self.de)` rule=optional-R30
//@@ subst `|| Error::unexpected_eof("Expecting format code")` => `|| -> (o: Error) { Error::unexpected_eof("Expecting format code") }` rule=R18
//@@ subst `|| Error::unexpected_eof("Expecting size")` => `|| -> (o: Error) { Error::unexpected_eof("Expecting size") }` rule=optional-R18
//@@ subst `|| Error::unexpected_eof("Expecting count")` => `|| -> (o: Error) { Error::unexpected_eof("Expecting count") }` rule=optional-R18
//@@ subst `u32::from_be_bytes(` => `from_be32(` rule=optional-R9
//@@ subst `Err(de::Error::custom(__E1))` => `Err(Error::Other)` rule=R11
//@@ spec
    requires bounded(old(self).de.reader),
    ensures
        final(self).de.reader.wf(), final(self).counter == old(self).counter, final(self).field_count == old(self).field_count,
        final(self).de.elem_format_code == old(self).de.elem_format_code,
        r is Ok ==> ({
            let u = eff_unread(old(self).de);
            let hdr = if old(self).de.elem_format_code is Some { 1int } else { 0int };
            &&& list_header_count(u) is Some && r->Ok_0 == list_header_count(u)->Some_0.0                       // [C05.composite.list-header-decoding] [C03.rt.decoder-premise] the field count of a described list (list0 / list8 / list32) is the COUNT field of its header, not the size field
            &&& final(self).de.reader.unread() =~= old(self).de.reader.unread().skip(list_header_count(u)->Some_0.1 - hdr)   // [C20.composite.header-consumed-exactly] [C06.decode.performative-ends-where-the-payload-begins] exactly the header is consumed: the first field starts right behind it, and whatever follows the composite (the next message section, a transfer's payload) is found where it is
        }),
        old(self).de.reader.reliable() && list_header_count(eff_unread(old(self).de)) is Some ==> r is Ok,       // [C05.composite.every-list-width-accepted] every list width the peer may choose is accepted
//@@ end

//@@ fn file=serde_amqp/src/de.rs impl=`impl<'a, 'de, R: Read<'de>> DescribedAccess<'a, R>` name=consume_map_header
//@@ qmark
//@@ subst `self.as_mut()` => `(&mut self.de)` rule=R30
//@@ subst `self .as_mut()` => `(&mut self.de)` rule=optional-R30
//@@ subst `|| Error::unexpected_eof("Expecting format code")` => `|| -> (o: Error) { Error::unexpected_eof("Expecting format code") }` rule=R18
//@@ subst `|| Error::unexpected_eof("Expecting size")` => `|| -> (o: Error) { Error::unexpected_eof("Expecting size") }` rule=optional-R18
//@@ subst `|| Error::unexpected_eof("Expecting count")` => `|| -> (o: Error) { Error::unexpected_eof("Expecting count") }` rule=optional-R18
//@@ subst `u32::from_be_bytes(` => `from_be32(` rule=optional-R9
//@@ subst `Err(de::Error::custom(__E1))` => `Err(Error::Other)` rule=R11
//@@ spec
    requires bounded(old(self).de.reader),
    ensures
        final(self).de.reader.wf(), final(self).counter == old(self).counter, final(self).field_count == old(self).field_count,
        final(self).de.elem_format_code == old(self).de.elem_format_code,
        r is Ok ==> ({
            let u = eff_unread(old(self).de);
            let hdr = if old(self).de.elem_format_code is Some { 1int } else { 0int };
            &&& map_header_count(u) is Some && r->Ok_0 == map_header_count(u)->Some_0.0                         // [C05.composite.map-header-decoding] [C03.rt.decoder-premise]
            &&& final(self).de.reader.unread() =~= old(self).de.reader.unread().skip(map_header_count(u)->Some_0.1 - hdr)    // [C20.composite.header-consumed-exactly] [C06.decode.performative-ends-where-the-payload-begins]
        }),
        old(self).de.reader.reliable() && map_header_count(eff_unread(old(self).de)) is Some ==> r is Ok,        // [C05.composite.every-map-width-accepted]
//@@ end
}

// ================================================================ round trip of the variable-width primitives: unit SERSTR's postcondition feeds this unit's
pub proof fn lemma_be32_inverse(x: u32)
    ensures sp_be32(be32(x)) == x, be32(x).len() == 4,
{
    let b = be32(x);
    assert(((((x >> 24) as u8) as u32) << 24 | ((((x >> 16) & 0xff) as u8) as u32) << 16 | ((((x >> 8) & 0xff) as u8) as u32) << 8 | (((x & 0xff) as u8) as u32)) == x) by (bit_vector);
}
/// [C03.var.round-trip] whatever valid encoding the serializer chose for data octets `d` (SERSTR: var_encoding), followed by anything, the decoder's
/// layout reading (var_decoded) gives back exactly `d` and stops exactly at the end of the encoding
pub proof fn lemma_var_round_trip(c8: u8, c32: u8, d: Seq<u8>, enc: Seq<u8>, rest: Seq<u8>)
    requires var_encoding(c8, c32, d, enc), c8 != c32,
    ensures
        var_decoded(c8, c32, enc + rest) == Some(d),
        var_consumed(c8, enc + rest) == enc.len(),
        (enc + rest).skip(enc.len() as int) =~= rest,
{
    let u = enc + rest;
    if d.len() <= 255 && enc =~= seq![c8, d.len() as u8] + d {
        assert(u[0] == c8 && u[1] == d.len() as u8);
        assert(u.subrange(2, 2 + d.len() as int) =~= d);
    } else {
        lemma_be32_inverse(d.len() as u32);
        assert(enc =~= seq![c32] + be32(d.len() as u32) + d);
        assert(u[0] == c32);
        assert(u.subrange(1, 5) =~= be32(d.len() as u32));
        assert(u.subrange(5, 5 + d.len() as int) =~= d);
    }
}

pub proof fn lemma_be64_inverse(x: u64)
    ensures sp_be64(be64(x)) == x, be64(x).len() == 8,
{
    assert((((((x >> 56) as u8) as u64) << 56 | ((((x >> 48) & 0xff) as u8) as u64) << 48 | ((((x >> 40) & 0xff) as u8) as u64) << 40 | ((((x >> 32) & 0xff) as u8) as u64) << 32
        | ((((x >> 24) & 0xff) as u8) as u64) << 24 | ((((x >> 16) & 0xff) as u8) as u64) << 16 | ((((x >> 8) & 0xff) as u8) as u64) << 8 | (((x & 0xff) as u8) as u64)) as u64) == x) by (bit_vector);
}
/// the octets the decoder sees for a value written at array position `e`: the array's element constructor `code` is held in elem_format_code (eff_unread puts it
/// in front), whether the encoder wrote it with this element (first) or not (later ones)
pub open spec fn seen(code: u8, enc: Seq<u8>, e: IsArrayElement) -> Seq<u8> { if e is OtherElement { seq![code] + enc } else { enc } }
/// [C03.fixed.round-trip] every ulong / uint / ubyte the encoder writes (contract of unit SERFIX: enc_*), in whichever position, followed by anything, is read back
/// by the decoder's layout (dec_*: contract of parse_* above) as the same value, and exactly its octets are consumed
pub proof fn lemma_fixed_round_trip_u64(v: u64, e: IsArrayElement, rest: Seq<u8>)
    ensures dec_u64(seen(0x80, enc_u64(v, e), e) + rest) == Some((v, seen(0x80, enc_u64(v, e), e).len() as int)),
{
    lemma_be64_inverse(v);
    let s = seen(0x80, enc_u64(v, e), e);
    let u = s + rest;
    if e is False && v == 0 { assert(u[0] == 0x44); }
    else if e is False && v <= 255 { assert(u[0] == 0x53 && u[1] == v as u8); assert(v as u8 as u64 == v) by (bit_vector) requires v <= 255; }
    else { assert(s =~= seq![0x80u8] + be64(v)); assert(u[0] == 0x80); assert(u.subrange(1, 9) =~= be64(v)); }
}
pub proof fn lemma_fixed_round_trip_u32(v: u32, e: IsArrayElement, rest: Seq<u8>)
    ensures dec_u32(seen(0x70, enc_u32(v, e), e) + rest) == Some((v, seen(0x70, enc_u32(v, e), e).len() as int)),
{
    lemma_be32_inverse(v);
    let s = seen(0x70, enc_u32(v, e), e);
    let u = s + rest;
    if e is False && v == 0 { assert(u[0] == 0x43); }
    else if e is False && v <= 255 { assert(u[0] == 0x52 && u[1] == v as u8); assert(v as u8 as u32 == v) by (bit_vector) requires v <= 255; }
    else { assert(s =~= seq![0x70u8] + be32(v)); assert(u[0] == 0x70); assert(u.subrange(1, 5) =~= be32(v)); }
}
pub proof fn lemma_fixed_round_trip_u8(v: u8, e: IsArrayElement, rest: Seq<u8>)
    ensures dec_u8(seen(0x50, enc_u8(v, e), e) + rest) == Some((v, 2int)),
{
    let s = seen(0x50, enc_u8(v, e), e);
    assert(s =~= seq![0x50u8, v]);
    assert((s + rest)[0] == 0x50 && (s + rest)[1] == v);
}

pub proof fn lemma_fixed_round_trip_i32(v: i32, e: IsArrayElement, rest: Seq<u8>)
    ensures dec_i32(seen(0x71, enc_i32(v, e), e) + rest) == Some((v, seen(0x71, enc_i32(v, e), e).len() as int)),
{
    lemma_be32_inverse(v as u32);
    let s = seen(0x71, enc_i32(v, e), e);
    let u = s + rest;
    if e is False && -128 <= v <= 127 {
        assert(u[0] == 0x54 && u[1] == v as u8);
        assert((v as u8) as i8 as i32 == v) by (bit_vector) requires -128 <= v <= 127;
    } else {
        assert(s =~= seq![0x71u8] + be32(v as u32)); assert(u[0] == 0x71); assert(u.subrange(1, 5) =~= be32(v as u32));
        assert((v as u32) as i32 == v) by (bit_vector);
    }
}
pub proof fn lemma_fixed_round_trip_i64(v: i64, rest: Seq<u8>)
    ensures dec_i64(seq![0x81u8] + be64(v as u64) + rest) == Some((v, 9int)),
{
    lemma_be64_inverse(v as u64);
    let u = seq![0x81u8] + be64(v as u64) + rest;
    assert(u[0] == 0x81); assert(u.subrange(1, 9) =~= be64(v as u64));
    assert((v as u64) as i64 == v) by (bit_vector);
}

} // verus!
fn main() {}
