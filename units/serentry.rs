//@@ unit SERENTRY
#![feature(allocator_api)]
#![allow(unused_imports, unused_variables, dead_code, unused_mut, unused_parens)]
use vstd::prelude::*;

verus! {

//@@ trusted R13: the serializer's writer type W is instantiated as `&mut Vec<u8>` -- the instantiation of `to_vec` and of every nested (element / field / entry) serializer, which write into the compound's own buffer; another `io::Write` may fail where a Vec does not, which the stand-ins for the leaf writers allow for (they may fail)
//@@ trusted the value handed to a compound serializer (`T: Serialize`: derive-macro output, hand-written impls, serde's impls for std types) is a stand-in: serialized through a serializer it appends enc(value, mode) -- an uninterpreted function of the value and of the serializer's mode (array-element position, pending struct encoding, type and sequence markers) -- or fails; it consumes the one-shot markers and leaves the stack of pending struct encodings as it found it (true of every Serialize impl that pairs serialize_struct / end; the induction over the nesting depth is not mechanised)
//@@ trusted capacity hints (`len * serialized_size(..)`, `.. - buf.len()` in front of Vec::with_capacity / reserve) are replaced by stand-ins whose result is unconstrained: their arithmetic is assumed not to overflow and only reserves memory
//@@ trusted write_list / write_map / write_array (under contract in unit SERHDR against the AMQP header layouts) are stand-ins here: they append list_enc / map_enc / array_enc of (count, body, array-element position), uninterpreted in this unit; serialize_u32 (unit SERFIX) likewise appends u32_enc; serialized_size (unit SERHDR / SERFIX: == octets written) is only used for capacity hints here

pub struct IoError { pub k: u8 }
pub enum Error { Io(IoError), TooLong, Other }
pub trait ErrInto<T>: Sized { spec fn conv(self) -> T; fn err_into(self) -> (r: T) ensures r == self.conv(); }
impl ErrInto<Error> for IoError { open spec fn conv(self) -> Error { Error::Io(self) } fn err_into(self) -> (r: Error) { Error::Io(self) } }
impl ErrInto<Error> for Error { open spec fn conv(self) -> Error { self } fn err_into(self) -> (r: Error) { let e = self; assert(e == <Error as ErrInto<Error>>::conv(self)); e } }

//@@ type file=serde_amqp/src/util.rs kind=enum name=NonNativeType
//@@ end
//@@ type file=serde_amqp/src/util.rs kind=enum name=SequenceType
//@@ end
//@@ type file=serde_amqp/src/util.rs kind=enum name=StructEncoding clone
//@@ end
//@@ type file=serde_amqp/src/util.rs kind=enum name=IsArrayElement clone
//@@ end
//@@ type file=serde_amqp/src/util.rs kind=enum name=FieldRole
//@@ end

//@@ strconsts file=serde_amqp/src/constants.rs names=DESCRIBED_BASIC,DESCRIBED_LIST,DESCRIBED_MAP,DESCRIPTOR,UNTAGGED_ENUM,VALUE,ARRAY,DECIMAL32,DECIMAL64,DECIMAL128,SYMBOL,SYMBOL_REF,TIMESTAMP,UUID,TRANSPARENT_VEC,LAZY_VALUE lemma=lemma_names_distinct label=`[C03.constants.newtype-names-distinct] [C05.constants.newtype-names-distinct] the names by which the AMQP-specific types announce themselves to the serializer are pairwise different strings`

//@@ type file=serde_amqp/src/ser.rs kind=struct name=Serializer
//@@ subst `Serializer<W>` => `Serializer<'w>` rule=R13
//@@ subst `writer: W` => `writer: &'w mut Vec<u8>` rule=R13
//@@ end

/// the mode a value is written under
pub struct Mode { pub pos: IsArrayElement, pub encs: Seq<StructEncoding>, pub marker: Option<NonNativeType>, pub st: Option<SequenceType> }
pub open spec fn mode_of(se: Serializer) -> Mode { Mode { pos: se.is_array_elem, encs: se.struct_encoding@, marker: se.non_native_type, st: se.seq_type } }
pub open spec fn plain_mode() -> Mode { Mode { pos: IsArrayElement::False, encs: Seq::empty(), marker: None, st: None } }

#[verifier::external_body]
pub struct ValS { _p: u8 }
/// the octets a value's Serialize impl produces under a mode
pub uninterp spec fn enc(v: ValS, m: Mode) -> Seq<u8>;
impl ValS {
    #[verifier::external_body]
    pub fn serialize<'w>(&self, se: &mut Serializer<'w>) -> (r: Result<(), Error>)
        ensures
            *final(final(se).writer) == *final(old(se).writer),
            r is Ok ==> final(se).writer@ == old(se).writer@ + enc(*self, mode_of(*old(se))),
            final(se).non_native_type is None, final(se).seq_type is None, final(se).struct_encoding@ == old(se).struct_encoding@, final(se).is_array_elem == old(se).is_array_elem,
    { unimplemented!() }
}
/// serialized_size(value): a capacity hint only
#[verifier::external_body]
pub fn serialized_size(v: &ValS) -> (r: Result<usize, Error>) { unimplemented!() }
/// the product in a capacity hint (`len * serialized_size(..)`): ASSUMED not to overflow -- len is the number of elements of an in-memory collection, each of which serializes to at least one octet of an output that has to fit in memory; the value is only ever a reservation
#[verifier::external_body]
pub fn cap_hint(a: usize, b: usize) -> (r: usize) { unimplemented!() }
/// `unreachable!(..)`: an obligation, not an assumption
pub fn unreachable_here()
    requires false,     // [C03.ser.no-unreachable-panic] no value and no call order makes a compound serializer reach one of its `unreachable!` arms
{}
/// `Vec::with_capacity(n)`: a reservation, no content
#[verifier::external_body]
pub fn vec_with_capacity(n: usize) -> (r: Vec<u8>) ensures r@.len() == 0 { unimplemented!() }

pub uninterp spec fn list_enc(num: int, body: Seq<u8>, pos: IsArrayElement) -> Seq<u8>;
pub uninterp spec fn map_enc(num: int, body: Seq<u8>, pos: IsArrayElement) -> Seq<u8>;
pub uninterp spec fn array_enc(num: int, body: Seq<u8>, pos: IsArrayElement) -> Seq<u8>;
pub uninterp spec fn u32_enc(v: u32, pos: IsArrayElement) -> Seq<u8>;
macro_rules! compound_writer {
    ($($f:ident => $s:ident),*) => { verus!{ $(
        /// unit SERHDR has this writer under contract against the AMQP header layout
        #[verifier::external_body]
        pub fn $f<'w>(writer: &mut &'w mut Vec<u8>, num: usize, buf: &Vec<u8>, ext_is_array_elem: &IsArrayElement) -> (r: Result<(), Error>)
            ensures *final(*final(writer)) == *final(*old(writer)),
                r is Ok ==> (*final(writer))@ == (*old(writer))@ + $s(num as int, buf@, *ext_is_array_elem),
        { unimplemented!() }
    )* } }
}
compound_writer!(write_list => list_enc, write_map => map_enc, write_array => array_enc);
#[verifier::external_body]
pub fn write_transparent_vec<'w>(writer: &mut &'w mut Vec<u8>, buf: &Vec<u8>) -> (r: Result<(), Error>)
    ensures *final(*final(writer)) == *final(*old(writer)),
        r is Ok ==> (*final(writer))@ == (*old(writer))@ + buf@,
{ unimplemented!() }

impl<'w> Serializer<'w> {
//@@ fn file=serde_amqp/src/ser.rs impl=`impl<W: Write> Serializer<W>` name=new
//@@ param writer : &'w mut Vec<u8>
//@@ spec
    ensures *r.writer == *old(writer), *final(writer) == *final(r.writer),
        mode_of(r) == plain_mode(),       // [C03.ser.fresh-serializer-is-plain] [C05.ser.fresh-serializer-is-plain] a new serializer carries no marker, no pending struct encoding and is not inside an array
//@@ end

//@@ fn file=serde_amqp/src/ser.rs impl=`impl<W: Write> Serializer<W>` name=described_list
//@@ param writer : &'w mut Vec<u8>
//@@ subst `vec![StructEncoding::DescribedList]` => `vec_one(StructEncoding::DescribedList)` rule=R14
//@@ spec
    ensures *r.writer == *old(writer), *final(writer) == *final(r.writer),
        mode_of(r) == (Mode { encs: seq![StructEncoding::DescribedList], ..plain_mode() }),
//@@ end

//@@ fn file=serde_amqp/src/ser.rs impl=`impl<W: Write> Serializer<W>` name=described_map
//@@ param writer : &'w mut Vec<u8>
//@@ subst `vec![StructEncoding::DescribedMap]` => `vec_one(StructEncoding::DescribedMap)` rule=R14
//@@ spec
    ensures *r.writer == *old(writer), *final(writer) == *final(r.writer),
        mode_of(r) == (Mode { encs: seq![StructEncoding::DescribedMap], ..plain_mode() }),
//@@ end
}
pub fn vec_one(e: StructEncoding) -> (r: Vec<StructEncoding>) ensures r@ == seq![e] { let mut v = Vec::new(); v.push(e); v }

//@@ type file=serde_amqp/src/format_code.rs kind=enum name=EncodingCodes keeprepr
//@@ end
/// std::io::Write for Vec<u8> (R13): write_all appends the slice, or fails (another writer may)
pub trait WriteAll { fn write_all(&mut self, b: &[u8]) -> (r: Result<(), IoError>) ensures r is Ok ==> final(self).bytes() == old(self).bytes() + b@, r is Err ==> final(self).bytes() == old(self).bytes(); spec fn bytes(&self) -> Seq<u8>; }
impl WriteAll for Vec<u8> {
    open spec fn bytes(&self) -> Seq<u8> { self@ }
    #[verifier::external_body]
    fn write_all(&mut self, b: &[u8]) -> (r: Result<(), IoError>) { unimplemented!() }
}
pub uninterp spec fn null_enc(pos: IsArrayElement) -> Seq<u8>;
impl<'w> Serializer<'w> {
    /// serialize_unit (unit SERSTR): a null in the position the serializer is in
    #[verifier::external_body]
    pub fn serialize_unit(&mut self) -> (r: Result<(), Error>)
        ensures *final(final(self).writer) == *final(old(self).writer), mode_of(*final(self)) == mode_of(*old(self)),
            r is Ok ==> final(self).writer@ == old(self).writer@ + null_enc(old(self).is_array_elem),
    { unimplemented!() }
    /// serialize_u32 (unit SERFIX): the smallest uint encoding for the position
    #[verifier::external_body]
    pub fn serialize_u32(&mut self, v: u32) -> (r: Result<(), Error>)
        ensures *final(final(self).writer) == *final(old(self).writer), mode_of(*final(self)) == mode_of(*old(self)),
            r is Ok ==> final(self).writer@ == old(self).writer@ + u32_enc(v, old(self).is_array_elem),
    { unimplemented!() }

//@@ fn file=serde_amqp/src/ser.rs impl=`~ser::Serializer for &'a mut Serializer<W>` name=serialize_some
//@@ selfmut
//@@ generics
//@@ nowhere
//@@ param value : &ValS
//@@ ret Result<(), Error>
//@@ spec
    ensures *final(final(self).writer) == *final(old(self).writer),
        r is Ok ==> final(self).writer@ == old(self).writer@ + enc(*value, mode_of(*old(self))),      // [C05.option.present-value-is-the-value] [C03.option.present-value-is-the-value] a present optional value is written as the value itself, under the mode the serializer is in: no wrapper, no extra octet
//@@ end

//@@ fn file=serde_amqp/src/ser.rs impl=`~ser::Serializer for &'a mut Serializer<W>` name=serialize_unit_struct
//@@ selfmut
//@@ ret Result<(), Error>
//@@ spec
    ensures *final(final(self).writer) == *final(old(self).writer),
        r is Ok ==> final(self).writer@ == old(self).writer@ + null_enc(old(self).is_array_elem),      // [C05.unit-struct.is-null] a unit struct is a null
//@@ end

//@@ fn file=serde_amqp/src/ser.rs impl=`~ser::Serializer for &'a mut Serializer<W>` name=serialize_unit_variant
//@@ selfmut
//@@ ret Result<(), Error>
//@@ spec
    ensures *final(final(self).writer) == *final(old(self).writer),
        r is Ok ==> final(self).writer@ == old(self).writer@ + u32_enc(variant_index, old(self).is_array_elem),      // [C03.enum.unit-variant-is-its-index] a unit variant is its index as a uint -- what deserialize_enum's uint arm reads back (unit DEENTRY)
//@@ end

//@@ fn file=serde_amqp/src/ser.rs impl=`~ser::Serializer for &'a mut Serializer<W>` name=serialize_newtype_struct
//@@ selfmut
//@@ generics
//@@ nowhere
//@@ param value : &ValS
//@@ ret Result<(), Error>
//@@ entry
    proof { lemma_names_distinct(); }
//@@ spec
    ensures *final(final(self).writer) == *final(old(self).writer),
        final(self).non_native_type is None && final(self).seq_type is None,      // [C03.ser.marker-cleared] the marker set for this value is gone once the value has been written
        r is Ok ==> ({
            let m0 = mode_of(*old(self));
            let w = |m: Mode| final(self).writer@ == old(self).writer@ + enc(*value, m);
            // [C03.newtype.marker-matches-type] [C05.newtype.marker-matches-type] each AMQP type that serde's data model lacks announces itself by name; its content is written ONCE, under the marker of THAT type (a symbol as sym8 / sym32 and not as a string, a timestamp as 0x83 and not as a long, decimals / uuid as their fixed-width constructors, an Array as an array and not as a list), everything else about the serializer unchanged
            &&& name@ == SYMBOL@ ==> w(Mode { marker: Some(NonNativeType::Symbol), ..m0 })
            &&& name@ == SYMBOL_REF@ ==> w(Mode { marker: Some(NonNativeType::SymbolRef), ..m0 })
            &&& name@ == DECIMAL32@ ==> w(Mode { marker: Some(NonNativeType::Dec32), ..m0 })
            &&& name@ == DECIMAL64@ ==> w(Mode { marker: Some(NonNativeType::Dec64), ..m0 })
            &&& name@ == DECIMAL128@ ==> w(Mode { marker: Some(NonNativeType::Dec128), ..m0 })
            &&& name@ == TIMESTAMP@ ==> w(Mode { marker: Some(NonNativeType::Timestamp), ..m0 })
            &&& name@ == UUID@ ==> w(Mode { marker: Some(NonNativeType::Uuid), ..m0 })
            &&& name@ == LAZY_VALUE@ ==> w(Mode { marker: Some(NonNativeType::LazyValue), ..m0 })
            &&& name@ == ARRAY@ ==> w(Mode { st: Some(SequenceType::Array), ..m0 })
            &&& name@ == TRANSPARENT_VEC@ ==> w(Mode { st: Some(SequenceType::TransparentVec), ..m0 })
            &&& !(name@ == SYMBOL@ || name@ == SYMBOL_REF@ || name@ == DECIMAL32@ || name@ == DECIMAL64@ || name@ == DECIMAL128@ || name@ == TIMESTAMP@ || name@ == UUID@ || name@ == LAZY_VALUE@ || name@ == ARRAY@ || name@ == TRANSPARENT_VEC@)
                    ==> w(m0)       // [C03.newtype.plain-newtype-transparent] any other newtype is written as its content
        }),
//@@ end
}

// ================================================================ the compound serializers (ser.rs)
//@@ type file=serde_amqp/src/ser.rs kind=enum name=SeqSerializerState
//@@ end
//@@ type file=serde_amqp/src/ser.rs kind=struct name=SeqSerializer
//@@ subst `SeqSerializer<'a, W: 'a>` => `SeqSerializer<'a, 'w>` rule=R13
//@@ subst `Serializer<W>` => `Serializer<'w>` rule=R13
//@@ end
//@@ type file=serde_amqp/src/ser.rs kind=struct name=TupleSerializer
//@@ subst `TupleSerializer<'a, W: 'a>` => `TupleSerializer<'a, 'w>` rule=R13
//@@ subst `Serializer<W>` => `Serializer<'w>` rule=R13
//@@ end

/// the octets buffered by a sequence serializer so far
pub open spec fn seq_buf(st: SeqSerializerState) -> Seq<u8> { match st { SeqSerializerState::Init(_) => Seq::empty(), SeqSerializerState::Buffer(b) => b@ } }
/// the mode an element of a sequence is written under: a fresh serializer; inside an array the first element carries the constructor, the others do not
pub open spec fn elem_mode(st: Option<SequenceType>, num: int) -> Mode {
    match st {
        Some(SequenceType::Array) => Mode { pos: if num == 0 { IsArrayElement::FirstElement } else { IsArrayElement::OtherElement }, ..plain_mode() },
        _ => plain_mode(),
    }
}

impl<'w> Serializer<'w> {
//@@ fn file=serde_amqp/src/ser.rs impl=`~ser::Serializer for &'a mut Serializer<W>` name=serialize_seq
//@@ selfmut
//@@ ret Result<SeqSerializer<'_, 'w>, Error>
//@@ spec
    ensures r is Ok, *r->Ok_0.se == *old(self), *final(self) == *final(r->Ok_0.se), r->Ok_0.num == 0, seq_buf(r->Ok_0.state) =~= Seq::empty(),      // [C03.seq.starts-empty] a sequence starts with no element and nothing buffered; nothing is written yet
//@@ end

//@@ fn file=serde_amqp/src/ser.rs impl=`~ser::Serializer for &'a mut Serializer<W>` name=serialize_tuple
//@@ selfmut
//@@ ret Result<TupleSerializer<'_, 'w>, Error>
//@@ spec
    ensures r is Ok, *r->Ok_0.se == *old(self), *final(self) == *final(r->Ok_0.se), r->Ok_0.num == len, r->Ok_0.buf@ =~= Seq::empty(),      // [C05.tuple.count-is-arity] a tuple is a list whose count is the tuple's arity
//@@ end
}

impl<'a, 'w> SeqSerializer<'a, 'w> {
//@@ fn file=serde_amqp/src/ser.rs impl=`impl<'a, W: 'a> SeqSerializer<'a, W>` name=new id=SeqSerializer::new
//@@ subst `Serializer<W>` => `Serializer<'w>` rule=R13
//@@ spec
    ensures *r.se == *old(se), *final(se) == *final(r.se), r.num == 0, r.state == SeqSerializerState::Init(len),
//@@ end

//@@ fn file=serde_amqp/src/ser.rs impl=`~ser::SerializeSeq for SeqSerializer<'a, W>` name=end id=SeqSerializer::end
//@@ ret Result<(), Error>
//@@ blockarms
//@@ orsplit
//@@ spec
    ensures *final(final(self.se).writer) == *final(old(self.se).writer),
        final(self.se).seq_type is None,       // [C03.ser.marker-cleared] the Array / TransparentVec marker applies to THIS sequence only: it is taken, so that it cannot reach the next value written with the same serializer (the value of a map entry whose key is an array)
        final(self.se).non_native_type == old(self.se).non_native_type, final(self.se).struct_encoding@ == old(self.se).struct_encoding@, final(self.se).is_array_elem == old(self.se).is_array_elem,
        r is Ok ==> ({
            let out = final(self.se).writer@;
            let before = old(self.se).writer@;
            let body = seq_buf(self.state);
            let pos = old(self.se).is_array_elem;
            // [C05.seq.header-counts-elements] [C03.seq.header-counts-elements] a finished sequence is ONE compound value: header (unit SERHDR) with the number of elements serialized and exactly the octets they produced, in the position the enclosing serializer is in; an Array becomes an array, anything unmarked a list
            match old(self.se).seq_type {
                Some(SequenceType::Array) => out == before + array_enc(self.num as int, body, pos),
                Some(SequenceType::TransparentVec) => out == before + body,
                _ => out == before + list_enc(self.num as int, body, pos),
            }
        }),
//@@ end
}

impl<'a, 'w> TupleSerializer<'a, 'w> {
//@@ fn file=serde_amqp/src/ser.rs impl=`impl<'a, W: 'a> TupleSerializer<'a, W>` name=new id=TupleSerializer::new
//@@ subst `Serializer<W>` => `Serializer<'w>` rule=R13
//@@ spec
    ensures *r.se == *old(se), *final(se) == *final(r.se), r.num == num, r.buf@ =~= Seq::empty(),
//@@ end

//@@ fn file=serde_amqp/src/ser.rs impl=`~ser::SerializeTuple for TupleSerializer<'a, W>` name=serialize_element id=TupleSerializer::serialize_element
//@@ generics
//@@ nowhere
//@@ param value : &ValS
//@@ ret Result<(), Error>
//@@ spec
    ensures final(self).num == old(self).num, *final(self).se == *old(self).se, *final(final(self).se) == *final(old(self).se),
        r is Ok ==> final(self).buf@ == old(self).buf@ + enc(*value, plain_mode()),      // [C05.list.every-element-own-constructor] [C03.list.elements-in-order] every element of a list is written with its own constructor (a fresh serializer: no marker, not an array element), appended behind the elements before it; nothing reaches the output before `end`
//@@ end

//@@ fn file=serde_amqp/src/ser.rs impl=`~ser::SerializeTuple for TupleSerializer<'a, W>` name=end id=TupleSerializer::end
//@@ ret Result<(), Error>
//@@ spec
    ensures *final(final(self.se).writer) == *final(old(self.se).writer),
        mode_of(*final(self.se)) == mode_of(*old(self.se)),
        r is Ok ==> final(self.se).writer@ == old(self.se).writer@ + list_enc(self.num as int, self.buf@, old(self.se).is_array_elem),      // [C05.tuple.header-counts-elements] [C03.tuple.header-counts-elements] the tuple is written as one list: the arity as count, the buffered elements as body, in the enclosing position
//@@ end
}

impl<'a, 'w> SeqSerializer<'a, 'w> {
//@@ fn file=serde_amqp/src/ser.rs impl=`impl<'a, W: 'a> SeqSerializer<'a, W>` name=get_buffer_mut_or_alloc
//@@ generics
//@@ nowhere
//@@ param element : &ValS
//@@ subst `Vec::with_capacity(total_len)` => `vec_with_capacity(total_len)` rule=R14
//@@ subst `len * serialized_size(element)?` => `cap_hint(len, serialized_size(element)?)` rule=optional-R14
//@@ subst `unreachable!("SeqSerializerState::Init should have been handled")` => `{ unreachable_here(); Err(Error::Other) }` rule=R12
//@@ spec
    ensures r is Ok ==> r->Ok_0@ =~= seq_buf(old(self).state) && final(self).state == SeqSerializerState::Buffer(*final(r->Ok_0)),
        final(self).num == old(self).num, *final(self).se == *old(self).se, *final(final(self).se) == *final(old(self).se),
        r is Err ==> seq_buf(final(self).state) == seq_buf(old(self).state),
//@@ end
}

impl<'a, 'w> SeqSerializer<'a, 'w> {
//@@ fn file=serde_amqp/src/ser.rs impl=`~ser::SerializeSeq for SeqSerializer<'a, W>` name=serialize_element id=SeqSerializer::serialize_element
//@@ generics
//@@ nowhere
//@@ orsplit
//@@ blockarms
//@@ param value : &ValS
//@@ ret Result<(), Error>
//@@ spec
    requires old(self).num < usize::MAX,
    ensures *final(self).se == *old(self).se, *final(final(self).se) == *final(old(self).se),
        r is Ok ==> final(self).num == old(self).num + 1
            && seq_buf(final(self).state) == seq_buf(old(self).state) + enc(*value, elem_mode(old(self).se.seq_type, old(self).num as int)),       // [C05.array.one-constructor] [C03.seq.elements-in-order] every element is appended behind the ones before it and counted once; in an Array only the FIRST element is written with its constructor, every later one as bare value octets under that constructor; list (and transparent) elements each carry their own
//@@ end
}

//@@ type file=serde_amqp/src/ser.rs kind=enum name=MapSerializerState
//@@ end
//@@ type file=serde_amqp/src/ser.rs kind=struct name=MapSerializer
//@@ subst `MapSerializer<'a, W: 'a>` => `MapSerializer<'a, 'w>` rule=R13
//@@ subst `Serializer<W>` => `Serializer<'w>` rule=R13
//@@ end
pub open spec fn map_buf(st: MapSerializerState) -> Seq<u8> {
    match st { MapSerializerState::Init(_) => Seq::empty(), MapSerializerState::KeyInit { len, buf } => buf@, MapSerializerState::Buffer(b) => b@ }
}
/// `std::mem::replace(self, MapSerializerState::Init(None))`
#[verifier::external_body]
pub fn mem_replace_state(dest: &mut MapSerializerState, src: MapSerializerState) -> (r: MapSerializerState) ensures r == *old(dest), *final(dest) == src { unimplemented!() }
/// `buf.reserve(n)`: a reservation, the content stays
#[verifier::external_body]
pub fn vec_reserve(v: &mut Vec<u8>, n: usize) ensures final(v)@ == old(v)@ { unimplemented!() }

impl MapSerializerState {
//@@ fn file=serde_amqp/src/ser.rs impl=`impl MapSerializerState` name=take
//@@ subst `std::mem::replace(self, MapSerializerState::Init(None))` => `mem_replace_state(self, MapSerializerState::Init(None))` rule=R14
//@@ spec
    ensures r == *old(self), *final(self) == MapSerializerState::Init(None),
//@@ end
}

impl<'w> Serializer<'w> {
//@@ fn file=serde_amqp/src/ser.rs impl=`~ser::Serializer for &'a mut Serializer<W>` name=serialize_map
//@@ selfmut
//@@ ret Result<MapSerializer<'_, 'w>, Error>
//@@ spec
    ensures r is Ok, *r->Ok_0.se == *old(self), *final(self) == *final(r->Ok_0.se), r->Ok_0.num == 0, map_buf(r->Ok_0.state) =~= Seq::empty(),
//@@ end
}
impl<'a, 'w> MapSerializer<'a, 'w> {
//@@ fn file=serde_amqp/src/ser.rs impl=`impl<'a, W: 'a> MapSerializer<'a, W>` name=new id=MapSerializer::new
//@@ subst `Serializer<W>` => `Serializer<'w>` rule=R13
//@@ spec
    ensures *r.se == *old(se), *final(se) == *final(r.se), r.num == 0, r.state == MapSerializerState::Init(len),
//@@ end

//@@ fn file=serde_amqp/src/ser.rs impl=`impl<'a, W: 'a> MapSerializer<'a, W>` name=get_buffer_or_alloc_for_entry
//@@ generics
//@@ nowhere
//@@ blockarms
//@@ param key : &ValS
//@@ param value : &ValS
//@@ subst `Vec::with_capacity(cap)` => `vec_with_capacity(cap)` rule=R14
//@@ subst `len * (serialized_size(key)? + serialized_size(value)?)` => `cap_hint(len, cap_hint(serialized_size(key)?, serialized_size(value)?))` rule=optional-R14
//@@ subst `cap_hint(len, cap_hint(serialized_size(key)?, serialized_size(value)?)) - buf.len()` => `cap_hint(cap_hint(len, cap_hint(serialized_size(key)?, serialized_size(value)?)), buf.len())` rule=optional-R14
//@@ subst `buf.reserve(reserve)` => `vec_reserve(&mut buf, reserve)` rule=R14
//@@ subst `unreachable!("MapSerializerState::Init should have been handled")` => `{ unreachable_here(); Err(Error::Other) }` rule=R12
//@@ spec
    ensures r is Ok ==> r->Ok_0@ =~= map_buf(old(self).state) && final(self).state == MapSerializerState::Buffer(*final(r->Ok_0)),        // [C03.map.nothing-lost-between-key-and-value] whatever state the map is in (nothing yet, a first key already buffered, entries buffered): the buffer handed out holds exactly what was buffered before
        final(self).num == old(self).num, *final(self).se == *old(self).se, *final(final(self).se) == *final(old(self).se),
//@@ end

//@@ fn file=serde_amqp/src/ser.rs impl=`impl<'a, W: 'a> MapSerializer<'a, W>` name=get_buffer_or_alloc_for_key
//@@ generics
//@@ nowhere
//@@ blockarms
//@@ param key : &ValS
//@@ subst `Vec::with_capacity(cap)` => `vec_with_capacity(cap)` rule=R14
//@@ subst `unreachable!("MapSerializerState::Init should have been handled")` => `{ unreachable_here(); Err(Error::Other) }` rule=R12
//@@ spec
    ensures r is Ok ==> r->Ok_0@ =~= map_buf(old(self).state) && map_buf(final(self).state) == final(r->Ok_0)@,        // [C03.map.nothing-lost-between-key-and-value]
        final(self).num == old(self).num, *final(self).se == *old(self).se, *final(final(self).se) == *final(old(self).se),
//@@ end

//@@ fn file=serde_amqp/src/ser.rs impl=`impl<'a, W: 'a> MapSerializer<'a, W>` name=get_buffer_or_alloc_for_value
//@@ generics
//@@ nowhere
//@@ blockarms
//@@ param value : &ValS
//@@ subst `Vec::with_capacity(cap)` => `vec_with_capacity(cap)` rule=R14
//@@ subst `len * serialized_size(value)?` => `cap_hint(len, serialized_size(value)?)` rule=optional-R14
//@@ subst `len * (key_len + val_len) - key_len` => `cap_hint(len, cap_hint(key_len, val_len))` rule=optional-R14
//@@ subst `buf.reserve(reserve)` => `vec_reserve(&mut buf, reserve)` rule=R14
//@@ subst `unreachable!("MapSerializerState::KeyInit should have been handled")` => `{ unreachable_here(); Err(Error::Other) }` rule=R12
//@@ spec
    ensures r is Ok ==> r->Ok_0@ =~= map_buf(old(self).state) && final(self).state == MapSerializerState::Buffer(*final(r->Ok_0)),        // [C03.map.nothing-lost-between-key-and-value] the first key, buffered on its own, is still in front of its value
        final(self).num == old(self).num, *final(self).se == *old(self).se, *final(final(self).se) == *final(old(self).se),
//@@ end

//@@ fn file=serde_amqp/src/ser.rs impl=`~ser::SerializeMap for MapSerializer<'a, W>` name=serialize_entry
//@@ generics
//@@ nowhere
//@@ param key : &ValS
//@@ param value : &ValS
//@@ ret Result<(), Error>
//@@ spec
    requires old(self).num < usize::MAX - 1,
    ensures *final(self).se == *old(self).se, *final(final(self).se) == *final(old(self).se),
        r is Ok ==> final(self).num == old(self).num + 2
            && map_buf(final(self).state) =~= map_buf(old(self).state) + enc(*key, plain_mode()) + enc(*value, plain_mode()),       // [C05.map.count-is-twice-the-entries] [C03.map.entries-in-order] an entry is its key then its value, each with its own constructor, appended behind the earlier entries; it counts as TWO items (AMQP 1.0 part 1, 1.6.23: the count of a map is the number of keys plus values)
//@@ end

//@@ fn file=serde_amqp/src/ser.rs impl=`~ser::SerializeMap for MapSerializer<'a, W>` name=serialize_key
//@@ generics
//@@ nowhere
//@@ param key : &ValS
//@@ ret Result<(), Error>
//@@ spec
    requires old(self).num < usize::MAX,
    ensures *final(self).se == *old(self).se, *final(final(self).se) == *final(old(self).se),
        r is Ok ==> final(self).num == old(self).num + 1 && map_buf(final(self).state) == map_buf(old(self).state) + enc(*key, plain_mode()),       // [C05.map.count-is-twice-the-entries] [C03.map.entries-in-order]
//@@ end

//@@ fn file=serde_amqp/src/ser.rs impl=`~ser::SerializeMap for MapSerializer<'a, W>` name=serialize_value
//@@ generics
//@@ nowhere
//@@ param value : &ValS
//@@ ret Result<(), Error>
//@@ spec
    requires old(self).num < usize::MAX,
    ensures *final(self).se == *old(self).se, *final(final(self).se) == *final(old(self).se),
        r is Ok ==> final(self).num == old(self).num + 1 && map_buf(final(self).state) == map_buf(old(self).state) + enc(*value, plain_mode()),       // [C05.map.count-is-twice-the-entries] [C03.map.entries-in-order]
//@@ end

//@@ fn file=serde_amqp/src/ser.rs impl=`~ser::SerializeMap for MapSerializer<'a, W>` name=end id=MapSerializer::end
//@@ ret Result<(), Error>
//@@ blockarms
//@@ spec
    ensures *final(final(self.se).writer) == *final(old(self.se).writer),
        mode_of(*final(self.se)) == mode_of(*old(self.se)),
        r is Ok ==> final(self.se).writer@ == old(self.se).writer@ + map_enc(self.num as int, map_buf(self.state), old(self.se).is_array_elem),      // [C05.map.header-counts-items] [C03.map.header-counts-items] the finished map is one compound value: the number of keys plus values as count, the buffered entries as body, in the enclosing position
//@@ end
}

// ================================================================ composites: struct / tuple struct serializers and the stack of pending struct encodings
/// the innermost pending struct encoding
pub open spec fn top_enc(encs: Seq<StructEncoding>) -> StructEncoding { if encs.len() == 0 { StructEncoding::None } else { encs.last() } }
impl<'w> Serializer<'w> {
//@@ fn file=serde_amqp/src/ser.rs impl=`impl<W: Write> Serializer<W>` name=struct_encoding as=struct_encoding
//@@ subst `self.struct_encoding.last().unwrap_or(&StructEncoding::None)` => `last_or_none(&self.struct_encoding)` rule=R15
//@@ spec
    ensures *r == top_enc(self.struct_encoding@),
//@@ end
}
/// `v.last().unwrap_or(&StructEncoding::None)`
pub fn last_or_none(v: &Vec<StructEncoding>) -> (r: &StructEncoding) ensures *r == top_enc(v@) { if v.len() == 0 { &StructEncoding::None } else { &v[v.len() - 1] } }

//@@ type file=serde_amqp/src/ser.rs kind=struct name=TupleStructSerializer
//@@ subst `TupleStructSerializer<'a, W: 'a>` => `TupleStructSerializer<'a, 'w>` rule=R13
//@@ subst `Serializer<W>` => `Serializer<'w>` rule=R13
//@@ end
//@@ type file=serde_amqp/src/ser.rs kind=struct name=StructSerializer
//@@ subst `StructSerializer<'a, W: 'a>` => `StructSerializer<'a, 'w>` rule=R13
//@@ subst `Serializer<W>` => `Serializer<'w>` rule=R13
//@@ end

impl<'w> Serializer<'w> {
//@@ fn file=serde_amqp/src/ser.rs impl=`~ser::Serializer for &'a mut Serializer<W>` name=serialize_struct
//@@ selfmut
//@@ ret Result<StructSerializer<'_, 'w>, Error>
//@@ entry
    proof { lemma_names_distinct(); }
//@@ spec
    ensures r is Ok, *final(self) == *final(r->Ok_0.se), r->Ok_0.count == 0, r->Ok_0.buf@ =~= Seq::empty(),
        r->Ok_0.se.writer == old(self).writer, r->Ok_0.se.non_native_type == old(self).non_native_type, r->Ok_0.se.seq_type == old(self).seq_type, r->Ok_0.se.is_array_elem == old(self).is_array_elem,
        ({
            let e1 = r->Ok_0.se.struct_encoding@;
            let e0 = old(self).struct_encoding@;
            // [C05.composite.encoding-by-name] [C03.composite.encoding-by-name] a composite declared as described list / map / basic makes THAT the innermost pending encoding for its own fields; a struct without such a name adds nothing
            &&& name@ == DESCRIBED_LIST@ ==> e1 == e0.push(StructEncoding::DescribedList)
            &&& name@ == DESCRIBED_MAP@ ==> e1 == e0.push(StructEncoding::DescribedMap)
            &&& name@ == DESCRIBED_BASIC@ ==> e1 == e0.push(StructEncoding::DescribedBasic)
            &&& name@ != DESCRIBED_LIST@ && name@ != DESCRIBED_MAP@ && name@ != DESCRIBED_BASIC@ ==> e1 == e0
        }),
//@@ end

//@@ fn file=serde_amqp/src/ser.rs impl=`~ser::Serializer for &'a mut Serializer<W>` name=serialize_tuple_struct
//@@ selfmut
//@@ ret Result<TupleStructSerializer<'_, 'w>, Error>
//@@ entry
    proof { lemma_names_distinct(); }
//@@ spec
    ensures r is Ok, *final(self) == *final(r->Ok_0.se), r->Ok_0.count == 0, r->Ok_0.buf@ =~= Seq::empty(),
        r->Ok_0.se.writer == old(self).writer, r->Ok_0.se.non_native_type == old(self).non_native_type, r->Ok_0.se.seq_type == old(self).seq_type, r->Ok_0.se.is_array_elem == old(self).is_array_elem,
        ({
            let e1 = r->Ok_0.se.struct_encoding@;
            let e0 = old(self).struct_encoding@;
            &&& name@ == DESCRIBED_BASIC@ ==> e1 == e0.push(StructEncoding::DescribedBasic) && r->Ok_0.field_role is Descriptor       // [C05.composite.descriptor-first] a described tuple struct starts with its descriptor
            &&& name@ == DESCRIBED_LIST@ ==> e1 == e0.push(StructEncoding::DescribedList) && r->Ok_0.field_role is Descriptor
            &&& name@ != DESCRIBED_LIST@ && name@ != DESCRIBED_BASIC@ ==> e1 == e0 && r->Ok_0.field_role is Fields
        }),
//@@ end
}

impl<'a, 'w> StructSerializer<'a, 'w> {
//@@ fn file=serde_amqp/src/ser.rs impl=`impl<'a, W: 'a> StructSerializer<'a, W>` name=new id=StructSerializer::new
//@@ subst `Serializer<W>` => `Serializer<'w>` rule=R13
//@@ subst `vec![]` => `Vec::new()` rule=R14
//@@ spec
    ensures *r.se == *old(se), *final(se) == *final(r.se), r.count == 0, r.buf@ =~= Seq::empty(),
//@@ end

//@@ fn file=serde_amqp/src/ser.rs impl=`impl<'a, W: 'a> AsMut<Serializer<W>> for StructSerializer<'a, W>` name=as_mut id=StructSerializer::as_mut
//@@ subst `Serializer<W>` => `Serializer<'w>` rule=R13
//@@ spec
    ensures *r == *old(self).se, *final(r) == *final(self).se, final(self).count == old(self).count, final(self).buf == old(self).buf,
        *final(final(self).se) == *final(old(self).se),
//@@ end

//@@ fn file=serde_amqp/src/ser.rs impl=`~ser::SerializeStruct for StructSerializer<'a, W>` name=end id=StructSerializer::end
//@@ ret Result<(), Error>
//@@ blockarms
//@@ spec
    requires self.count <= usize::MAX / 2,
    ensures *final(final(self.se).writer) == *final(old(self.se).writer),
        final(self.se).non_native_type == old(self.se).non_native_type, final(self.se).seq_type == old(self.se).seq_type, final(self.se).is_array_elem == old(self.se).is_array_elem,
        ({
            let e0 = old(self.se).struct_encoding@;
            let e1 = final(self.se).struct_encoding@;
            let out = final(self.se).writer@;
            let before = old(self.se).writer@;
            let pos = old(self.se).is_array_elem;
            match top_enc(e0) {
                StructEncoding::None => e1 == e0 && (r is Ok ==> out == before + list_enc(self.count as int, self.buf@, pos)),        // [C05.struct.plain-struct-is-a-list] a struct without descriptor is a list of its fields
                StructEncoding::DescribedBasic => e1 == e0.drop_last() && (r is Ok ==> out == before),                                          // the single field of a basic wrapper went straight to the output (serialize_field)
                StructEncoding::DescribedList => e1 == e0.drop_last() && (r is Ok ==> out == before + list_enc(self.count as int, self.buf@, pos)),     // [C05.composite.list-form] [C03.composite.list-form] descriptor (already written), then ONE list: as many items as fields were serialized, their octets as body
                StructEncoding::DescribedMap => e1 == e0.drop_last() && (r is Ok ==> out == before + map_enc(2 * self.count as int, self.buf@, pos)),   // [C05.composite.map-form] the map form counts keys and values
            }
            // [C03.struct.encoding-popped] in every described form the composite takes ITS pending encoding off the stack when it ends: the fields of the enclosing composite that follow are written under the enclosing composite's encoding
        }),
//@@ end
}

/// the mode a field of a composite is written under, by the innermost pending encoding of the enclosing serializer
pub open spec fn field_mode_struct(e: StructEncoding, pos: IsArrayElement) -> Mode {
    match e {
        StructEncoding::None => Mode { pos: pos, ..plain_mode() },
        StructEncoding::DescribedBasic => plain_mode(),     // (not used: a basic wrapper writes straight to the enclosing serializer)
        StructEncoding::DescribedList => Mode { encs: seq![StructEncoding::DescribedList], ..plain_mode() },
        StructEncoding::DescribedMap => Mode { encs: seq![StructEncoding::DescribedMap], ..plain_mode() },
    }
}
/// a field name as a map key (the `key.serialize(..)` of the map form: a str, unit SERSTR)
pub uninterp spec fn key_enc(k: Seq<char>, m: Mode) -> Seq<u8>;
#[verifier::external_body]
pub fn str_serialize<'w>(key: &str, se: &mut Serializer<'w>) -> (r: Result<(), Error>)
    ensures *final(final(se).writer) == *final(old(se).writer),
        r is Ok ==> final(se).writer@ == old(se).writer@ + key_enc(key@, mode_of(*old(se))),
        final(se).non_native_type is None, final(se).seq_type is None, final(se).struct_encoding@ == old(se).struct_encoding@, final(se).is_array_elem == old(se).is_array_elem,
{ unimplemented!() }

impl<'a, 'w> StructSerializer<'a, 'w> {
//@@ fn file=serde_amqp/src/ser.rs impl=`~ser::SerializeStruct for StructSerializer<'a, W>` name=serialize_field id=StructSerializer::serialize_field
//@@ generics
//@@ nowhere
//@@ blockarms
//@@ param value : &ValS
//@@ ret Result<(), Error>
//@@ subst `key.serialize(&mut serializer)?` => `str_serialize(key, &mut serializer)?` rule=R28
//@@ entry
    proof { lemma_names_distinct(); }
//@@ spec
    requires old(self).count < usize::MAX,
    ensures *final(final(self).se) == *final(old(self).se), *final(final(self).se.writer) == *final(old(self).se.writer),
        final(self).se.struct_encoding@ == old(self).se.struct_encoding@, final(self).se.is_array_elem == old(self).se.is_array_elem,
        r is Ok ==> ({
            let se0 = *old(self).se;
            let e = top_enc(se0.struct_encoding@);
            // [C05.composite.descriptor-then-fields] [C03.composite.descriptor-then-fields] the descriptor goes straight to the output (it stands in front of the list / map, outside its size and count) and is not counted
            &&& key@ == DESCRIPTOR@ ==> final(self).count == old(self).count && final(self).buf@ == old(self).buf@
                    && final(self).se.writer@ == se0.writer@ + enc(*value, mode_of(se0))
            // every other field is counted once and buffered behind the fields before it, under the mode of the composite's form; nothing reaches the output before `end` (a basic wrapper has no list around its single field: that one goes straight out)
            &&& key@ != DESCRIPTOR@ ==> final(self).count == old(self).count + 1 && (match e {
                    StructEncoding::DescribedBasic => final(self).buf@ == old(self).buf@ && final(self).se.writer@ == se0.writer@ + enc(*value, mode_of(se0)),
                    StructEncoding::DescribedMap => final(self).se.writer@ == se0.writer@
                        && final(self).buf@ =~= old(self).buf@ + key_enc(key@, field_mode_struct(e, se0.is_array_elem)) + enc(*value, field_mode_struct(e, se0.is_array_elem)),       // [C05.composite.map-form] in the map form a field is its name, then its value
                    _ => final(self).se.writer@ == se0.writer@ && final(self).buf@ == old(self).buf@ + enc(*value, field_mode_struct(e, se0.is_array_elem)),
                })
        }),
//@@ end
}

impl<'a, 'w> TupleStructSerializer<'a, 'w> {
//@@ fn file=serde_amqp/src/ser.rs impl=`impl<'a, W: 'a> TupleStructSerializer<'a, W>` name=descriptor
//@@ subst `Serializer<W>` => `Serializer<'w>` rule=R13
//@@ spec
    ensures *r.se == *old(se), *final(se) == *final(r.se), r.count == 0, r.buf@ =~= Seq::empty(), r.field_role is Descriptor,
//@@ end

//@@ fn file=serde_amqp/src/ser.rs impl=`impl<'a, W: 'a> TupleStructSerializer<'a, W>` name=fields
//@@ subst `Serializer<W>` => `Serializer<'w>` rule=R13
//@@ spec
    ensures *r.se == *old(se), *final(se) == *final(r.se), r.count == 0, r.buf@ =~= Seq::empty(), r.field_role is Fields,
//@@ end

//@@ fn file=serde_amqp/src/ser.rs impl=`impl<'a, W: 'a> AsMut<Serializer<W>> for TupleStructSerializer<'a, W>` name=as_mut id=TupleStructSerializer::as_mut
//@@ subst `Serializer<W>` => `Serializer<'w>` rule=R13
//@@ spec
    ensures *r == *old(self).se, *final(r) == *final(self).se, final(self).count == old(self).count, final(self).buf == old(self).buf, final(self).field_role == old(self).field_role,
        *final(final(self).se) == *final(old(self).se),
//@@ end

//@@ fn file=serde_amqp/src/ser.rs impl=`~ser::SerializeTupleStruct for TupleStructSerializer<'a, W>` name=serialize_field id=TupleStructSerializer::serialize_field
//@@ generics
//@@ nowhere
//@@ blockarms
//@@ param value : &ValS
//@@ ret Result<(), Error>
//@@ subst `unreachable!()` => `{ unreachable_here(); Err(Error::Other) }` rule=R12
//@@ spec
    requires old(self).count < usize::MAX,
        !(old(self).field_role is Fields && top_enc(old(self).se.struct_encoding@) is DescribedMap),      // (serialize_tuple_struct never pushes the map form: see its contract; an enclosing map-form composite writes its fields through a fresh serializer)
    ensures *final(final(self).se) == *final(old(self).se), *final(final(self).se.writer) == *final(old(self).se.writer),
        final(self).se.struct_encoding@ == old(self).se.struct_encoding@, final(self).se.is_array_elem == old(self).se.is_array_elem,
        final(self).field_role is Fields,
        r is Ok ==> ({
            let se0 = *old(self).se;
            let e = top_enc(se0.struct_encoding@);
            // [C05.composite.descriptor-then-fields] [C03.composite.descriptor-then-fields] the FIRST field of a described tuple struct is its descriptor: straight to the output, not counted; every later field is counted and buffered in order
            &&& old(self).field_role is Descriptor ==> final(self).count == old(self).count && final(self).buf@ == old(self).buf@ && final(self).se.writer@ == se0.writer@ + enc(*value, mode_of(se0))
            &&& old(self).field_role is Fields ==> final(self).count == old(self).count + 1 && final(self).se.writer@ == se0.writer@
                    && final(self).buf@ == old(self).buf@ + enc(*value, if e is DescribedList { field_mode_struct(e, se0.is_array_elem) } else { Mode { pos: se0.is_array_elem, ..plain_mode() } })
        }),
//@@ end

//@@ fn file=serde_amqp/src/ser.rs impl=`~ser::SerializeTupleStruct for TupleStructSerializer<'a, W>` name=end id=TupleStructSerializer::end
//@@ ret Result<(), Error>
//@@ blockarms
//@@ subst `unreachable!()` => `{ unreachable_here(); Err(Error::Other) }` rule=R12
//@@ subst `self.se.writer.write_all(&self.buf)?` => `self.se.writer.write_all(self.buf.as_slice())?` rule=R22
//@@ qmark
//@@ spec
    requires !(top_enc(old(self.se).struct_encoding@) is DescribedMap),
    ensures *final(final(self.se).writer) == *final(old(self.se).writer),
        final(self.se).non_native_type == old(self.se).non_native_type, final(self.se).seq_type == old(self.se).seq_type, final(self.se).is_array_elem == old(self.se).is_array_elem,
        ({
            let e0 = old(self.se).struct_encoding@;
            let e1 = final(self.se).struct_encoding@;
            let out = final(self.se).writer@;
            let before = old(self.se).writer@;
            match top_enc(e0) {
                StructEncoding::None => e1 == e0 && (r is Ok ==> out == before + list_enc(self.count as int, self.buf@, IsArrayElement::False)),
                StructEncoding::DescribedBasic => e1 == e0.drop_last() && (r is Ok ==> out == before + self.buf@),                              // [C05.composite.basic-form] descriptor, then the wrapped value's own encoding, no list around it
                StructEncoding::DescribedList => e1 == e0.drop_last() && (r is Ok ==> out == before + list_enc(self.count as int, self.buf@, IsArrayElement::False)),       // [C05.composite.list-form] [C03.composite.list-form]
                StructEncoding::DescribedMap => true,
            }
            // [C03.struct.encoding-popped] as for structs
        }),
//@@ end
}

// ================================================================ enum variants
//@@ type file=serde_amqp/src/ser.rs kind=struct name=VariantSerializer
//@@ subst `VariantSerializer<'a, W: 'a>` => `VariantSerializer<'a, 'w>` rule=R13
//@@ subst `Serializer<W>` => `Serializer<'w>` rule=R13
//@@ end
/// `&variant_index` as the key of a map entry (u32's Serialize impl calls serialize_u32: unit SERFIX)
#[verifier::external_body]
pub fn u32_as_val(v: &u32) -> (r: &ValS) ensures forall|m: Mode| #[trigger] enc(*r, m) == u32_enc(*v, m.pos) { unimplemented!() }
impl<'w> Serializer<'w> {
//@@ fn file=serde_amqp/src/ser.rs impl=`~ser::Serializer for &'a mut Serializer<W>` name=serialize_newtype_variant
//@@ selfmut
//@@ qmark
//@@ generics
//@@ nowhere
//@@ param value : &ValS
//@@ ret Result<(), Error>
//@@ subst `state.serialize_entry(&variant_index, value)?` => `state.serialize_entry(u32_as_val(&variant_index), value)?` rule=R28
//@@ subst `self.writer.write_all(&code)?` => `self.writer.write_all(code.as_slice())?` rule=R22
//@@ entry
    proof { lemma_names_distinct(); }
//@@ spec
    ensures *final(final(self).writer) == *final(old(self).writer),
        r is Ok ==> ({
            let m0 = mode_of(*old(self));
            &&& name@ == DESCRIPTOR@ ==> final(self).writer@ =~= old(self).writer@ + seq![0x00u8] + enc(*value, m0)        // [C05.described.constructor-then-descriptor] [C03.described.constructor-then-descriptor] a described value starts with the described-type constructor 0x00, followed by the descriptor (symbol or ulong) as an ordinary value
            &&& name@ != DESCRIPTOR@ ==> final(self).writer@ =~= old(self).writer@ + map_enc(2, u32_enc(variant_index, IsArrayElement::False) + enc(*value, plain_mode()), m0.pos)     // [C03.enum.newtype-variant-is-index-and-content] any other newtype variant is a two-item compound: the variant's index, then its content -- what deserialize_enum's list8 / map8 arms (count == 2) read back (unit DEENTRY)
        }),
//@@ end

//@@ fn file=serde_amqp/src/ser.rs impl=`~ser::Serializer for &'a mut Serializer<W>` name=serialize_tuple_variant
//@@ selfmut
//@@ ret Result<VariantSerializer<'_, 'w>, Error>
//@@ spec
    ensures r is Ok, *r->Ok_0.se == *old(self), *final(self) == *final(r->Ok_0.se), r->Ok_0.num == len, r->Ok_0.variant_index == variant_index, r->Ok_0.buf@ =~= Seq::empty(),
//@@ end

//@@ fn file=serde_amqp/src/ser.rs impl=`~ser::Serializer for &'a mut Serializer<W>` name=serialize_struct_variant
//@@ selfmut
//@@ ret Result<VariantSerializer<'_, 'w>, Error>
//@@ spec
    ensures r is Ok, *r->Ok_0.se == *old(self), *final(self) == *final(r->Ok_0.se), r->Ok_0.num == len, r->Ok_0.variant_index == variant_index, r->Ok_0.buf@ =~= Seq::empty(),
//@@ end

//@@ fn file=serde_amqp/src/ser.rs impl=`impl<W: Write> Serializer<W>` name=described_basic
//@@ param writer : &'w mut Vec<u8>
//@@ subst `vec![StructEncoding::DescribedBasic]` => `vec_one(StructEncoding::DescribedBasic)` rule=R14
//@@ spec
    ensures *r.writer == *old(writer), *final(writer) == *final(r.writer),
        mode_of(r) == (Mode { encs: seq![StructEncoding::DescribedBasic], ..plain_mode() }),
//@@ end

//@@ fn file=serde_amqp/src/ser.rs impl=`impl<W: Write> Serializer<W>` name=symbol
//@@ param writer : &'w mut Vec<u8>
//@@ subst `Default::default()` => `Vec::new()` rule=R16
//@@ spec
    ensures *r.writer == *old(writer), *final(writer) == *final(r.writer),
        mode_of(r) == (Mode { marker: Some(NonNativeType::Symbol), ..plain_mode() }),
//@@ end
}
impl<'a, 'w> VariantSerializer<'a, 'w> {
//@@ fn file=serde_amqp/src/ser.rs impl=`impl<'a, W: 'a> VariantSerializer<'a, W>` name=new id=VariantSerializer::new
//@@ subst `Serializer<W>` => `Serializer<'w>` rule=R13
//@@ spec
    ensures *r.se == *old(se), *final(se) == *final(r.se), r.num == num, r.variant_index == variant_index, r.buf@ =~= Seq::empty(),
//@@ end

//@@ fn file=serde_amqp/src/ser.rs impl=`~ser::SerializeTupleVariant for VariantSerializer<'a, W>` name=serialize_field id=VariantSerializer::serialize_field
//@@ generics
//@@ nowhere
//@@ param value : &ValS
//@@ ret Result<(), Error>
//@@ spec
    ensures final(self).num == old(self).num, final(self).variant_index == old(self).variant_index, *final(self).se == *old(self).se, *final(final(self).se) == *final(old(self).se),
        r is Ok ==> final(self).buf@ == old(self).buf@ + enc(*value, plain_mode()),      // [C03.enum.variant-fields-in-order] the fields of a tuple / struct variant are buffered in order, each with its own constructor
//@@ end
//@@ fn file=serde_amqp/src/ser.rs impl=`~ser::SerializeTupleVariant for VariantSerializer<'a, W>` name=end id=VariantSerializer::end dropuses
//@@ qmark
//@@ ret Result<(), Error>
//@@ subst `let kv_buf = BytesMut::new();` => `let mut kv_buf: Vec<u8> = Vec::new();` rule=R13
//@@ subst `let mut writer = kv_buf.writer();` => `let mut writer = &mut kv_buf;` rule=R13
//@@ subst `let buf = writer.into_inner().freeze();` => `let buf = kv_buf;` rule=R13
//@@ subst `ser::Serialize::serialize(&self.variant_index, &mut key_se)?` => `u32_as_val(&self.variant_index).serialize(&mut key_se)?` rule=R28
//@@ spec
    ensures *final(final(self.se).writer) == *final(old(self.se).writer),
        final(self.se).non_native_type == old(self.se).non_native_type, final(self.se).seq_type == old(self.se).seq_type, final(self.se).struct_encoding@ == old(self.se).struct_encoding@, final(self.se).is_array_elem == old(self.se).is_array_elem,
        r is Ok && old(self.se).is_array_elem is False ==> final(self.se).writer@ == old(self.se).writer@
            + map_enc(2, u32_enc(self.variant_index, IsArrayElement::False) + list_enc(self.num as int, self.buf@, IsArrayElement::False), IsArrayElement::False),       // [C03.enum.tuple-variant-is-index-and-field-list] [C05.enum.tuple-variant-is-index-and-field-list] a tuple / struct variant is ONE two-item map: the variant's index, then the list of its fields (every field buffered by serialize_field, counted as announced) -- what deserialize_enum / tuple_variant (unit DEENTRY) read back; the second writer (a BytesMut in the code) is a byte buffer here. Nothing is claimed for a variant that is itself an array element: the inner list is then written under the enclosing array position (user enums only; section 8)
//@@ end
}

//@@ fn file=serde_amqp/src/ser.rs name=to_vec id=to_vec
//@@ qmark
//@@ generics
//@@ nowhere
//@@ param value : &ValS
//@@ spec
    ensures r is Ok ==> r->Ok_0@ == enc(*value, plain_mode()),       // [C03.ser.entry-starts-unmarked] [C05.ser.entry-starts-unmarked] [C20.ser.entry-starts-unmarked] to_vec returns exactly the octets the value writes into a fresh serializer (no marker pending, no struct encoding, outside any array): nothing before them, nothing after
//@@ end

} // verus!
fn main() {}
