//@@ unit ENUMCODES
#![feature(allocator_api)]
#![allow(unused_imports, unused_variables, dead_code, unused_mut, unused_parens)]
use vstd::prelude::*;

verus! {

//@@ gsubst `de::Error::custom(__E1)` => `err_custom()` rule=R9
//@@ trusted written by tools/mkenumcodes.py from a table: the wire values of each restricted type are taken from the AMQP 1.0 specification text, not from the code; Symbol is a stand-in holding its text; the error value of a refusing visitor is a stand-in; R39 for matches over string literals
pub struct ErrS { pub k: u8 }
#[verifier::external_body]
pub fn err_custom() -> (r: ErrS) { unimplemented!() }
pub struct Symbol { pub text: Ghost<Seq<char>> }
impl Symbol { #[verifier::external_body] pub fn from(v: &str) -> (r: Symbol) ensures r.text@ == v@ { unimplemented!() } }

// ================================================================ SenderSettleMode (fe2o3-amqp-types/src/definitions/snd_settle_mode.rs)
pub mod m_sendersettlemode {
use super::*;
//@@ type file=fe2o3-amqp-types/src/definitions/snd_settle_mode.rs kind=enum name=SenderSettleMode
//@@ end
pub open spec fn wire(e: SenderSettleMode) -> u8 { match e { SenderSettleMode::Unsettled => 0, SenderSettleMode::Settled => 1, SenderSettleMode::Mixed => 2 } }
//@@ fn file=fe2o3-amqp-types/src/definitions/snd_settle_mode.rs impl=`impl From<SenderSettleMode> for u8` name=from as=to_u8
//@@ ret u8
//@@ spec
    ensures r == wire(mode),       // [C02.restricted.value-written] [C03.restricted.value-written] [C05.restricted.value-written] AMQP 1.0 part 2, 2.8.2 sender-settle-mode: the value written for each choice
//@@ end
//@@ fn file=fe2o3-amqp-types/src/definitions/snd_settle_mode.rs impl=`impl From<&SenderSettleMode> for u8` name=from as=ref_to_u8
//@@ ret u8
//@@ spec
    ensures r == wire(*mode),       // [C02.restricted.value-written] [C03.restricted.value-written] [C05.restricted.value-written] AMQP 1.0 part 2, 2.8.2 sender-settle-mode: the value written for each choice
//@@ end
pub struct Visitor {}
impl Visitor {
//@@ fn file=fe2o3-amqp-types/src/definitions/snd_settle_mode.rs impl=`impl de::Visitor<'_> for Visitor` name=visit_u8 id=SenderSettleMode::visit_u8
//@@ generics
//@@ nowhere
//@@ orsplit
//@@ blockarms
//@@ ret Result<SenderSettleMode, ErrS>
//@@ spec
    ensures
        r is Ok ==> wire(r->Ok_0) == v,       // [C02.restricted.value-read] [C03.restricted.value-read] [C05.restricted.value-read] AMQP 1.0 part 2, 2.8.2 sender-settle-mode: a value decodes as the choice that is written as that value, and as no other
        v == 0 || v == 1 || v == 2 ==> r is Ok,       // [C02.restricted.every-value-accepted] [C03.restricted.every-value-accepted] [C05.restricted.every-value-accepted] every value the specification defines is accepted
//@@ end
}
} // mod

// ================================================================ ReceiverSettleMode (fe2o3-amqp-types/src/definitions/rcv_settle_mode.rs)
pub mod m_receiversettlemode {
use super::*;
//@@ type file=fe2o3-amqp-types/src/definitions/rcv_settle_mode.rs kind=enum name=ReceiverSettleMode
//@@ end
pub open spec fn wire(e: ReceiverSettleMode) -> u8 { match e { ReceiverSettleMode::First => 0, ReceiverSettleMode::Second => 1 } }
//@@ fn file=fe2o3-amqp-types/src/definitions/rcv_settle_mode.rs impl=`impl From<ReceiverSettleMode> for u8` name=from as=to_u8
//@@ ret u8
//@@ spec
    ensures r == wire(mode),       // [C02.restricted.value-written] [C03.restricted.value-written] [C05.restricted.value-written] AMQP 1.0 part 2, 2.8.3 receiver-settle-mode: the value written for each choice
//@@ end
//@@ fn file=fe2o3-amqp-types/src/definitions/rcv_settle_mode.rs impl=`impl From<&ReceiverSettleMode> for u8` name=from as=ref_to_u8
//@@ ret u8
//@@ spec
    ensures r == wire(*mode),       // [C02.restricted.value-written] [C03.restricted.value-written] [C05.restricted.value-written] AMQP 1.0 part 2, 2.8.3 receiver-settle-mode: the value written for each choice
//@@ end
pub struct Visitor {}
impl Visitor {
//@@ fn file=fe2o3-amqp-types/src/definitions/rcv_settle_mode.rs impl=`impl de::Visitor<'_> for Visitor` name=visit_u8 id=ReceiverSettleMode::visit_u8
//@@ generics
//@@ nowhere
//@@ orsplit
//@@ blockarms
//@@ ret Result<ReceiverSettleMode, ErrS>
//@@ spec
    ensures
        r is Ok ==> wire(r->Ok_0) == v,       // [C02.restricted.value-read] [C03.restricted.value-read] [C05.restricted.value-read] AMQP 1.0 part 2, 2.8.3 receiver-settle-mode: a value decodes as the choice that is written as that value, and as no other
        v == 0 || v == 1 ==> r is Ok,       // [C02.restricted.every-value-accepted] [C03.restricted.every-value-accepted] [C05.restricted.every-value-accepted] every value the specification defines is accepted
//@@ end
}
} // mod

// ================================================================ Role (fe2o3-amqp-types/src/definitions/role.rs)
pub mod m_role {
use super::*;
//@@ type file=fe2o3-amqp-types/src/definitions/role.rs kind=enum name=Role
//@@ end
/// AMQP 1.0 part 2, 2.8.1 role: false = sender, true = receiver
pub open spec fn wire(e: Role) -> bool { match e { Role::Sender => false, Role::Receiver => true } }
//@@ fn file=fe2o3-amqp-types/src/definitions/role.rs impl=`impl From<Role> for bool` name=from as=to_bool
//@@ ret bool
//@@ spec
    ensures r == wire(role),       // [C02.restricted.value-written] [C03.restricted.value-written] [C05.restricted.value-written] [C11.restricted.value-written]
//@@ end
//@@ fn file=fe2o3-amqp-types/src/definitions/role.rs impl=`impl From<&Role> for bool` name=from as=ref_to_bool
//@@ ret bool
//@@ spec
    ensures r == wire(*role),       // [C02.restricted.value-written] [C03.restricted.value-written] [C05.restricted.value-written] [C11.restricted.value-written]
//@@ end
impl Role {
//@@ fn file=fe2o3-amqp-types/src/definitions/role.rs impl=`impl From<bool> for Role` name=from
//@@ ret Role
//@@ spec
    ensures wire(r) == b,       // [C02.restricted.value-read] [C03.restricted.value-read] [C05.restricted.value-read] [C11.restricted.value-read]
//@@ end
}
} // mod

// ================================================================ TerminusExpiryPolicy (fe2o3-amqp-types/src/messaging/term_expiry_policy.rs)
pub mod m_terminusexpirypolicy {
use super::*;
//@@ type file=fe2o3-amqp-types/src/messaging/term_expiry_policy.rs kind=enum name=TerminusExpiryPolicy
//@@ end
//@@ strlits lemma=lemma_names_distinct `[C03.restricted.names-distinct] [C05.restricted.names-distinct] the symbols of this type are pairwise different` `link-detach|session-end|connection-close|never`
pub open spec fn wire(e: TerminusExpiryPolicy) -> Seq<char> { match e { TerminusExpiryPolicy::LinkDetach => "link-detach"@, TerminusExpiryPolicy::SessionEnd => "session-end"@, TerminusExpiryPolicy::ConnectionClose => "connection-close"@, TerminusExpiryPolicy::Never => "never"@ } }
impl TerminusExpiryPolicy {
//@@ fn file=fe2o3-amqp-types/src/messaging/term_expiry_policy.rs impl=`impl<'a> TryFrom<&'a str> for TerminusExpiryPolicy` name=try_from
//@@ orsplit
//@@ blockarms
//@@ generics <'a>
//@@ ret Result<TerminusExpiryPolicy, &'a str>
//@@ entry
    proof { lemma_names_distinct(); }
//@@ spec
    ensures
        r is Ok ==> wire(r->Ok_0) == value@,       // [C03.restricted.value-read] [C05.restricted.value-read] AMQP 1.0 part 3, 3.5.6 terminus-expiry-policy
        value@ == "link-detach"@ || value@ == "session-end"@ || value@ == "connection-close"@ || value@ == "never"@ ==> r is Ok,       // [C03.restricted.every-value-accepted] [C05.restricted.every-value-accepted]
//@@ end
}
impl Symbol {
//@@ fn file=fe2o3-amqp-types/src/messaging/term_expiry_policy.rs impl=`impl From<&TerminusExpiryPolicy> for Symbol` name=from as=terminusexpirypolicy_ref_to_symbol
//@@ ret Symbol
//@@ spec
    ensures r.text@ == wire(*value),       // [C03.restricted.value-written] [C05.restricted.value-written] AMQP 1.0 part 3, 3.5.6 terminus-expiry-policy
//@@ end
}
} // mod

// ================================================================ DistributionMode (fe2o3-amqp-types/src/messaging/dist_mode.rs)
pub mod m_distributionmode {
use super::*;
//@@ type file=fe2o3-amqp-types/src/messaging/dist_mode.rs kind=enum name=DistributionMode
//@@ end
//@@ strlits lemma=lemma_names_distinct `[C03.restricted.names-distinct] [C05.restricted.names-distinct] the symbols of this type are pairwise different` `move|copy`
pub open spec fn wire(e: DistributionMode) -> Seq<char> { match e { DistributionMode::Move => "move"@, DistributionMode::Copy => "copy"@ } }
impl DistributionMode {
//@@ fn file=fe2o3-amqp-types/src/messaging/dist_mode.rs impl=`impl<'a> TryFrom<&'a str> for DistributionMode` name=try_from
//@@ orsplit
//@@ blockarms
//@@ generics <'a>
//@@ ret Result<DistributionMode, &'a str>
//@@ entry
    proof { lemma_names_distinct(); }
//@@ spec
    ensures
        r is Ok ==> wire(r->Ok_0) == value@,       // [C03.restricted.value-read] [C05.restricted.value-read] AMQP 1.0 part 3, 3.5.7 std-dist-mode
        value@ == "move"@ || value@ == "copy"@ ==> r is Ok,       // [C03.restricted.every-value-accepted] [C05.restricted.every-value-accepted]
//@@ end
}
impl Symbol {
//@@ fn file=fe2o3-amqp-types/src/messaging/dist_mode.rs impl=`impl From<DistributionMode> for Symbol` name=from as=distributionmode_to_symbol
//@@ ret Symbol
//@@ spec
    ensures r.text@ == wire(v),       // [C03.restricted.value-written] [C05.restricted.value-written] AMQP 1.0 part 3, 3.5.7 std-dist-mode
//@@ end
//@@ fn file=fe2o3-amqp-types/src/messaging/dist_mode.rs impl=`impl From<&DistributionMode> for Symbol` name=from as=distributionmode_ref_to_symbol
//@@ ret Symbol
//@@ spec
    ensures r.text@ == wire(*v),       // [C03.restricted.value-written] [C05.restricted.value-written] AMQP 1.0 part 3, 3.5.7 std-dist-mode
//@@ end
}
} // mod

// ================================================================ SaslCode (fe2o3-amqp-types/src/sasl/mod.rs): #[repr(u8)] + Serialize_repr / Deserialize_repr -- the discriminant IS the wire value
//@@ type file=fe2o3-amqp-types/src/sasl/mod.rs kind=enum name=SaslCode keeprepr clone
//@@ end
impl Copy for SaslCode {}
pub proof fn lemma_sasl_codes()
    ensures SaslCode::Ok as u8 == 0, SaslCode::Auth as u8 == 1, SaslCode::Sys as u8 == 2, SaslCode::SysPerm as u8 == 3, SaslCode::SysTemp as u8 == 4,       // [C19.sasl-code.values] [C03.restricted.value-written] [C05.restricted.value-written] AMQP 1.0 part 5, 5.3.3.6 sasl-code: 0 = ok (authentication succeeded), 1 = auth, 2 = sys, 3 = sys-perm, 4 = sys-temp
{}

// ================================================================ defaults: what an absent (or null) field stands for -- AMQP 1.0 field tables, `default=` attributes
//@@ enumorder file=fe2o3-amqp-types/src/definitions/snd_settle_mode.rs enum=SenderSettleMode default=mixed noorder `unsettled,settled,mixed` `[C05.default.specification-default] [C03.default.specification-default] attach.snd-settle-mode defaults to mixed (part 2, 2.7.3)`
//@@ enumorder file=fe2o3-amqp-types/src/definitions/rcv_settle_mode.rs enum=ReceiverSettleMode default=first noorder `first,second` `[C05.default.specification-default] [C03.default.specification-default] attach.rcv-settle-mode defaults to first (part 2, 2.7.3)`
//@@ enumorder file=fe2o3-amqp-types/src/messaging/term_expiry_policy.rs enum=TerminusExpiryPolicy default=session-end noorder `link-detach,session-end,connection-close,never` `[C05.default.specification-default] [C03.default.specification-default] source / target expiry-policy defaults to session-end (part 3, 3.5.3)`
pub struct Handle(pub u32);
pub struct Priority(pub u8);
pub struct MaxFrameSize(pub u32);
pub struct ChannelMax(pub u16);
impl Handle {
//@@ fn file=fe2o3-amqp-types/src/definitions/mod.rs impl=`impl Default for Handle` name=default id=Handle::default
//@@ ret Handle
//@@ spec
    ensures r.0 == 0xffff_ffffu32,       // [C05.default.specification-default] [C03.default.specification-default] [C11.default.specification-default] begin.handle-max defaults to 4294967295 (part 2, 2.7.2): a peer that leaves the field out means exactly this value, and this end leaves it out only for this value
//@@ end
}
impl Priority {
//@@ fn file=fe2o3-amqp-types/src/messaging/format/mod.rs impl=`impl Default for Priority` name=default id=Priority::default
//@@ ret Priority
//@@ spec
    ensures r.0 == 4u8,       // [C05.default.specification-default] [C03.default.specification-default] [C01.default.specification-default] header.priority defaults to 4 (part 3, 3.2.1): a peer that leaves the field out means exactly this value, and this end leaves it out only for this value
//@@ end
}
impl MaxFrameSize {
//@@ fn file=fe2o3-amqp-types/src/performatives/open.rs impl=`impl Default for MaxFrameSize` name=default id=MaxFrameSize::default
//@@ ret MaxFrameSize
//@@ spec
    ensures r.0 == 0xffff_ffffu32,       // [C05.default.specification-default] [C03.default.specification-default] [C06.default.specification-default] open.max-frame-size defaults to 4294967295 (part 2, 2.7.1): a peer that leaves the field out means exactly this value, and this end leaves it out only for this value
//@@ end
}
impl ChannelMax {
//@@ fn file=fe2o3-amqp-types/src/performatives/open.rs impl=`impl Default for ChannelMax` name=default id=ChannelMax::default
//@@ ret ChannelMax
//@@ spec
    ensures r.0 == 0xffffu16,       // [C05.default.specification-default] [C03.default.specification-default] [C17.default.specification-default] open.channel-max defaults to 65535 (part 2, 2.7.1): a peer that leaves the field out means exactly this value, and this end leaves it out only for this value
//@@ end
}
// ================================================================ TerminusDurability: serde derive on a fieldless enum
//@@ enumorder file=fe2o3-amqp-types/src/messaging/terminus_durability.rs enum=TerminusDurability default=none `none,configuration,unsettled-state` `[C03.restricted.value-written] [C05.restricted.value-written] AMQP 1.0 part 3, 3.5.5 terminus-durability: 0 = none, 1 = configuration, 2 = unsettled-state`

} // verus!
fn main() {}
