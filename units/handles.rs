//@@ unit HANDLES
#![feature(allocator_api)]
#![allow(unused_imports, unused_variables, dead_code, unused_mut, unused_parens)]
use vstd::prelude::*;

verus! {

//@@ trusted the handle's channel to its engine (tokio mpsc::Sender<..Control>) is a stand-in with a ghost log of what was accepted and a `closed` flag (R9): send / try_send append or fail, is_closed() reads the flag; nothing relates the flag to the engine's life -- the contracts below hold for either value
//@@ trusted the outcome channel (tokio oneshot::Receiver<Result<(), Error>>, written once by the engine's event_loop tail -- units SESSENG / CONNENG state WHAT it writes) is a stand-in with the ghost value `resolved` (None: the engine dropped its end without writing): awaiting it yields Ok(value) or Err(closed); try_recv may also report Empty while `ready` is false. `.await` is erased (R3): the contracts say what a call returns WHEN it returns, not that it returns
//@@ trusted Error (session / connection error enums) reduced to the variants the handles build (R11); definitions::Error, the frames and JoinHandle are opaque

#[verifier::external_body]
pub struct AmqpError { _p: u8 }
#[verifier::external_body]
pub struct ErrRest { _p: u8 }
pub enum Error { IllegalState, Other(ErrRest) }
pub enum SessionControl { End(Option<AmqpError>), Other(ErrRest) }
pub enum ConnectionControl { Close(Option<AmqpError>), Other(ErrRest) }
pub enum TryEndError { AlreadyEnded, RemoteEndNotReceived }
pub enum TryCloseError { AlreadyClosed, RemoteCloseNotReceived }
pub enum TryRecvError { Empty, Closed }
pub struct SendErr {}
pub struct RecvErr {}

pub struct ControlTx<T> { pub sent: Ghost<Seq<T>>, pub closed: Ghost<bool> }
impl<T> ControlTx<T> {
    #[verifier::external_body]
    pub fn send(&mut self, v: T) -> (r: Result<(), SendErr>)
        ensures final(self).closed == old(self).closed,
            r is Ok ==> final(self).sent@ == old(self).sent@.push(v), r is Err ==> final(self).sent@ == old(self).sent@,
            !old(self).closed@ ==> r is Ok, old(self).closed@ ==> r is Err,          // an (awaited) send on an open channel succeeds once there is room; on a closed one it fails
    { unimplemented!() }
    #[verifier::external_body]
    pub fn try_send(&mut self, v: T) -> (r: Result<(), SendErr>)
        ensures final(self).closed == old(self).closed,
            r is Ok ==> final(self).sent@ == old(self).sent@.push(v), r is Err ==> final(self).sent@ == old(self).sent@,
            old(self).closed@ ==> r is Err,
    { unimplemented!() }
    #[verifier::external_body]
    pub fn is_closed(&self) -> (r: bool) ensures r == self.closed@ { unimplemented!() }
}
pub struct OutcomeRx { pub resolved: Ghost<Option<Result<(), Error>>>, pub ready: Ghost<bool>, pub taken: Ghost<bool> }
impl OutcomeRx {
    /// `(&mut self.outcome).await`
    #[verifier::external_body]
    pub fn recv_s(&mut self) -> (r: Result<Result<(), Error>, RecvErr>)
        requires !old(self).taken@,       // [C13.handle.outcome-read-at-most-once] the oneshot is awaited at most once: a second await of a completed oneshot::Receiver panics
        ensures final(self).taken@, final(self).resolved == old(self).resolved,
            (match old(self).resolved@ { Some(x) => r == Ok::<Result<(), Error>, RecvErr>(x), None => r is Err }),
    { unimplemented!() }
    /// `self.outcome.try_recv()`
    #[verifier::external_body]
    pub fn try_recv(&mut self) -> (r: Result<Result<(), Error>, TryRecvError>)
        requires !old(self).taken@,
        ensures final(self).resolved == old(self).resolved, final(self).ready == old(self).ready,
            !old(self).ready@ ==> r == Err::<Result<(), Error>, TryRecvError>(TryRecvError::Empty) && !final(self).taken@,
            old(self).ready@ ==> final(self).taken@ && (match old(self).resolved@ { Some(x) => r == Ok::<Result<(), Error>, TryRecvError>(x), None => r == Err::<Result<(), Error>, TryRecvError>(TryRecvError::Closed) }),
    { unimplemented!() }
}
pub fn amqp_error_from(e: AmqpError) -> (r: AmqpError) ensures r == e { e }

/// what the engine left for the handle: its result, or IllegalState when it went away without writing one
pub open spec fn engine_outcome(rx: OutcomeRx) -> Result<(), Error> {
    match rx.resolved@ { Some(x) => x, None => Err(Error::IllegalState) }
}

// SessionHandle<R>: the fields these methods touch (R11)
pub struct SessionHandle { pub is_ended: bool, pub control: ControlTx<SessionControl>, pub outcome: OutcomeRx }
impl SessionHandle {
    /// the handle's own invariant: the outcome has been read exactly when is_ended is set
    pub open spec fn wf(&self) -> bool { self.is_ended == self.outcome.taken@ }

//@@ fn file=fe2o3-amqp/src/session/mod.rs impl=`impl<R> SessionHandle<R>` name=is_ended
//@@ selfmut
//@@ spec
    ensures *final(self) == *old(self), old(self).is_ended ==> r,
//@@ end

//@@ fn file=fe2o3-amqp/src/session/mod.rs impl=`impl<R> SessionHandle<R>` name=on_end
//@@ subst `(&mut self.outcome)` => `self.outcome.recv_s()` rule=R3
//@@ spec
    requires old(self).wf(),
    ensures
        final(self).wf(), final(self).control == old(self).control,
        old(self).is_ended ==> r == Err::<(), Error>(Error::IllegalState) && *final(self) == *old(self),     // [C13.handle.outcome-consumed-once] only a handle whose outcome has been taken already answers IllegalState
        !old(self).is_ended ==> final(self).is_ended && r == engine_outcome(old(self).outcome),                // [C13.handle.end-reports-the-engines-outcome] [C14.handle.end-reports-why-the-session-stopped] whatever else is true of the handle (the engine may have stopped long ago, its control channel may be closed): the first teardown call that completes returns what the ENGINE reported -- a clean Ok, the peer's End error, the connection's fate -- not a constant
//@@ end

//@@ fn file=fe2o3-amqp/src/session/mod.rs impl=`impl<R> SessionHandle<R>` name=try_end
//@@ spec
    requires old(self).wf(),
    ensures
        final(self).wf(),
        old(self).is_ended ==> r == Err::<Result<(), Error>, TryEndError>(TryEndError::AlreadyEnded) && *final(self) == *old(self),
        !old(self).is_ended && !old(self).outcome.ready@ ==> r == Err::<Result<(), Error>, TryEndError>(TryEndError::RemoteEndNotReceived) && !final(self).is_ended,   // [C13.handle.try-end-keeps-the-outcome] while the engine has not reported, nothing is consumed: a later call still gets the outcome
        !old(self).is_ended && old(self).outcome.ready@ ==> final(self).is_ended && r == Ok::<Result<(), Error>, TryEndError>(engine_outcome(old(self).outcome)),    // [C13.handle.end-reports-the-engines-outcome] [C14.handle.end-reports-why-the-session-stopped]
        !old(self).is_ended && !old(self).control.closed@ ==> final(self).control.sent@.len() <= old(self).control.sent@.len() + 1
            && (final(self).control.sent@.len() == old(self).control.sent@.len() + 1 ==> final(self).control.sent@.last() == SessionControl::End(None)),               // [C13.handle.requests-a-clean-end] what it asks the engine for is an End without error
//@@ end

//@@ fn file=fe2o3-amqp/src/session/mod.rs impl=`impl<R> SessionHandle<R>` name=end
//@@ spec
    requires old(self).wf(),
    ensures
        final(self).wf(),
        !old(self).is_ended ==> final(self).is_ended && r == engine_outcome(old(self).outcome),                // [C13.handle.end-reports-the-engines-outcome] [C14.handle.end-reports-why-the-session-stopped]
        old(self).is_ended ==> r == Err::<(), Error>(Error::IllegalState),
        !old(self).control.closed@ ==> final(self).control.sent@ == old(self).control.sent@.push(SessionControl::End(None)),   // [C13.handle.requests-a-clean-end] end() asks the engine for exactly one End, without error, before it waits
        old(self).control.closed@ ==> final(self).control.sent@ == old(self).control.sent@,
//@@ end

//@@ fn file=fe2o3-amqp/src/session/mod.rs impl=`impl<R> SessionHandle<R>` name=end_with_error
//@@ generics
//@@ param error : AmqpError
//@@ subst `error.into()` => `amqp_error_from(error)` rule=R16
//@@ spec
    requires old(self).wf(),
    ensures
        final(self).wf(),
        !old(self).is_ended ==> final(self).is_ended && r == engine_outcome(old(self).outcome),                // [C13.handle.end-reports-the-engines-outcome] [C14.handle.end-reports-why-the-session-stopped]
        !old(self).control.closed@ ==> final(self).control.sent@ == old(self).control.sent@.push(SessionControl::End(Some(error))),   // [C13.handle.end-with-error-carries-the-error] the error the application gave is the one the engine is asked to end with
//@@ end
}

// ConnectionHandle<R>: the fields these methods touch (R11)
pub struct ConnectionHandle { pub is_closed: bool, pub control: ControlTx<ConnectionControl>, pub outcome: OutcomeRx }
impl ConnectionHandle {
    pub open spec fn wf(&self) -> bool { self.is_closed == self.outcome.taken@ }

//@@ fn file=fe2o3-amqp/src/connection/mod.rs impl=`impl<R> ConnectionHandle<R>` name=is_closed
//@@ selfmut
//@@ spec
    ensures *final(self) == *old(self), old(self).is_closed ==> r,
//@@ end

//@@ fn file=fe2o3-amqp/src/connection/mod.rs impl=`impl<R> ConnectionHandle<R>` name=on_close
//@@ subst `(&mut self.outcome)` => `self.outcome.recv_s()` rule=R3
//@@ spec
    requires old(self).wf(),
    ensures
        final(self).wf(), final(self).control == old(self).control,
        old(self).is_closed ==> r == Err::<(), Error>(Error::IllegalState) && *final(self) == *old(self),
        !old(self).is_closed ==> final(self).is_closed && r == engine_outcome(old(self).outcome),              // [C12.handle.close-reports-the-engines-outcome] [C14.handle.close-reports-why-the-connection-stopped] the connection handle reports a clean result for a clean close and the peer's error (or the transport / protocol error itself) when there was one: exactly what the engine's event loop reported, whatever state the control channel is in
//@@ end

//@@ fn file=fe2o3-amqp/src/connection/mod.rs impl=`impl<R> ConnectionHandle<R>` name=try_close
//@@ spec
    requires old(self).wf(),
    ensures
        final(self).wf(),
        old(self).is_closed ==> r == Err::<Result<(), Error>, TryCloseError>(TryCloseError::AlreadyClosed) && *final(self) == *old(self),
        !old(self).is_closed && !old(self).outcome.ready@ ==> r == Err::<Result<(), Error>, TryCloseError>(TryCloseError::RemoteCloseNotReceived) && !final(self).is_closed,
        !old(self).is_closed && old(self).outcome.ready@ ==> final(self).is_closed && r == Ok::<Result<(), Error>, TryCloseError>(engine_outcome(old(self).outcome)),   // [C12.handle.close-reports-the-engines-outcome] [C14.handle.close-reports-why-the-connection-stopped]
        !old(self).is_closed && !old(self).control.closed@ ==> final(self).control.sent@.len() <= old(self).control.sent@.len() + 1
            && (final(self).control.sent@.len() == old(self).control.sent@.len() + 1 ==> final(self).control.sent@.last() == ConnectionControl::Close(None)),
//@@ end

//@@ fn file=fe2o3-amqp/src/connection/mod.rs impl=`impl<R> ConnectionHandle<R>` name=close
//@@ spec
    requires old(self).wf(),
    ensures
        final(self).wf(),
        !old(self).is_closed ==> final(self).is_closed && r == engine_outcome(old(self).outcome),              // [C12.handle.close-reports-the-engines-outcome] [C14.handle.close-reports-why-the-connection-stopped]
        old(self).is_closed ==> r == Err::<(), Error>(Error::IllegalState),
        !old(self).control.closed@ ==> final(self).control.sent@ == old(self).control.sent@.push(ConnectionControl::Close(None)),   // [C12.handle.requests-a-clean-close] close() asks the engine for exactly one Close, without error, before it waits
        old(self).control.closed@ ==> final(self).control.sent@ == old(self).control.sent@,
//@@ end

//@@ fn file=fe2o3-amqp/src/connection/mod.rs impl=`impl<R> ConnectionHandle<R>` name=close_with_error
//@@ generics
//@@ param error : AmqpError
//@@ subst `error.into()` => `amqp_error_from(error)` rule=R16
//@@ spec
    requires old(self).wf(),
    ensures
        final(self).wf(),
        !old(self).is_closed ==> final(self).is_closed && r == engine_outcome(old(self).outcome),              // [C12.handle.close-reports-the-engines-outcome] [C14.handle.close-reports-why-the-connection-stopped]
        !old(self).control.closed@ ==> final(self).control.sent@ == old(self).control.sent@.push(ConnectionControl::Close(Some(error))),   // [C12.handle.close-with-error-carries-the-error]
//@@ end
}

} // verus!
fn main() {}
