//@@ unit HANDLES
#![feature(allocator_api)]
#![allow(unused_imports, unused_variables, dead_code, unused_mut, unused_parens)]
use vstd::prelude::*;

verus! {

//@@ trusted the handle's channel to its engine (tokio mpsc::Sender<..Control>) is a stand-in with a ghost log of what was accepted and a `closed` flag (R9): send / try_send append or fail, is_closed() reads the flag; nothing relates the flag to the engine's life -- the contracts below hold for either value
//@@ trusted the outcome channel (tokio oneshot::Receiver<Result<(), Error>>, written once by the engine's event_loop tail -- units SESSENG / CONNENG state WHAT it writes) is a stand-in with the ghost value `resolved` (None: the engine dropped its end without writing): awaiting it yields Ok(value) or Err(closed); try_recv may also report Empty while `ready` is false. `.await` is erased (R3): the contracts say what a call returns WHEN it returns, not that it returns
//@@ trusted Error (session / connection error enums) reduced to the variants the handles build (R11); definitions::Error, the frames and JoinHandle are opaque

#[verifier::external_body]
pub struct AmqpError { _p: u8 }
#[verifier::external_body]
pub struct ErrRest { _p: u8 }
pub enum Error { IllegalState, Other(ErrRest) }
pub enum SessionControl { End(Option<AmqpError>), Other(ErrRest) }
pub enum ConnectionControl { Close(Option<AmqpError>), Other(ErrRest) }
pub enum TryEndError { AlreadyEnded, RemoteEndNotReceived }
pub enum TryCloseError { AlreadyClosed, RemoteCloseNotReceived }
pub enum TryRecvError { Empty, Closed }
pub struct SendErr {}
pub struct RecvErr {}

pub struct ControlTx<T> { pub sent: Ghost<Seq<T>>, pub closed: Ghost<bool> }
impl<T> ControlTx<T> {
    #[verifier::external_body]
    pub fn send(&mut self, v: T) -> (r: Result<(), SendErr>)
        ensures final(self).closed == old(self).closed,
            r is Ok ==> final(self).sent@ == old(self).sent@.push(v), r is Err ==> final(self).sent@ == old(self).sent@,
            !old(self).closed@ ==> r is Ok, old(self).closed@ ==> r is Err,          // an (awaited) send on an open channel succeeds once there is room; on a closed one it fails
    { unimplemented!() }
    #[verifier::external_body]
    pub fn try_send(&mut self, v: T) -> (r: Result<(), SendErr>)
        ensures final(self).closed == old(self).closed,
            r is Ok ==> final(self).sent@ == old(self).sent@.push(v), r is Err ==> final(self).sent@ == old(self).sent@,
            old(self).closed@ ==> r is Err,
    { unimplemented!() }
    #[verifier::external_body]
    pub fn is_closed(&self) -> (r: bool) ensures r == self.closed@ { unimplemented!() }
}
pub struct OutcomeRx { pub resolved: Ghost<Option<Result<(), Error>>>, pub ready: Ghost<bool>, pub taken: Ghost<bool> }
impl OutcomeRx {
    /// `(&mut self.outcome).await`
    #[verifier::external_body]
    pub fn recv_s(&mut self) -> (r: Result<Result<(), Error>, RecvErr>)
        requires !old(self).taken@,       // [C13.handle.outcome-read-at-most-once] the oneshot is awaited at most once: a second await of a completed oneshot::Receiver panics
        ensures final(self).taken@, final(self).resolved == old(self).resolved,
            (match old(self).resolved@ { Some(x) => r == Ok::<Result<(), Error>, RecvErr>(x), None => r is Err }),
    { unimplemented!() }
    /// `self.outcome.try_recv()`
    #[verifier::external_body]
    pub fn try_recv(&mut self) -> (r: Result<Result<(), Error>, TryRecvError>)
        requires !old(self).taken@,
        ensures final(self).resolved == old(self).resolved, final(self).ready == old(self).ready,
            !old(self).ready@ ==> r == Err::<Result<(), Error>, TryRecvError>(TryRecvError::Empty) && !final(self).taken@,
            old(self).ready@ ==> final(self).taken@ && (match old(self).resolved@ { Some(x) => r == Ok::<Result<(), Error>, TryRecvError>(x), None => r == Err::<Result<(), Error>, TryRecvError>(TryRecvError::Closed) }),
    { unimplemented!() }
}
pub fn amqp_error_from(e: AmqpError) -> (r: AmqpError) ensures r == e { e }

/// what the engine left for the handle: its result, or IllegalState when it went away without writing one
pub open spec fn engine_outcome(rx: OutcomeRx) -> Result<(), Error> {
    match rx.resolved@ { Some(x) => x, None => Err(Error::IllegalState) }
}

// SessionHandle<R>: the fields these methods touch (R11)
pub struct SessionHandle { pub is_ended: bool, pub control: ControlTx<SessionControl>, pub outcome: OutcomeRx }
impl SessionHandle {
    /// the handle's own invariant: the outcome has been read exactly when is_ended is set
    pub open spec fn wf(&self) -> bool { self.is_ended == self.outcome.taken@ }

//@@ fn file=fe2o3-amqp/src/session/mod.rs impl=`impl<R> SessionHandle<R>` name=is_ended
//@@ selfmut
//@@ spec
    ensures *final(self) == *old(self), old(self).is_ended ==> r,
//@@ end

//@@ fn file=fe2o3-amqp/src/session/mod.rs impl=`impl<R> SessionHandle<R>` name=on_end
//@@ subst `(&mut self.outcome)` => `self.outcome.recv_s()` rule=R3
//@@ spec
    requires old(self).wf(),
    ensures
        final(self).wf(), final(self).control == old(self).control,
        old(self).is_ended ==> r == Err::<(), Error>(Error::IllegalState) && *final(self) == *old(self),     // [C13.handle.outcome-consumed-once] only a handle whose outcome has been taken already answers IllegalState
        !old(self).is_ended ==> final(self).is_ended && r == engine_outcome(old(self).outcome),                // [C13.handle.end-reports-the-engines-outcome] [C14.handle.end-reports-why-the-session-stopped] whatever else is true of the handle (the engine may have stopped long ago, its control channel may be closed): the first teardown call that completes returns what the ENGINE reported -- a clean Ok, the peer's End error, the connection's fate -- not a constant
//@@ end

//@@ fn file=fe2o3-amqp/src/session/mod.rs impl=`impl<R> SessionHandle<R>` name=try_end
//@@ spec
    requires old(self).wf(),
    ensures
        final(self).wf(),
        old(self).is_ended ==> r == Err::<Result<(), Error>, TryEndError>(TryEndError::AlreadyEnded) && *final(self) == *old(self),
        !old(self).is_ended && !old(self).outcome.ready@ ==> r == Err::<Result<(), Error>, TryEndError>(TryEndError::RemoteEndNotReceived) && !final(self).is_ended,   // [C13.handle.try-end-keeps-the-outcome] while the engine has not reported, nothing is consumed: a later call still gets the outcome
        !old(self).is_ended && old(self).outcome.ready@ ==> final(self).is_ended && r == Ok::<Result<(), Error>, TryEndError>(engine_outcome(old(self).outcome)),    // [C13.handle.end-reports-the-engines-outcome] [C14.handle.end-reports-why-the-session-stopped]
        !old(self).is_ended && !old(self).control.closed@ ==> final(self).control.sent@.len() <= old(self).control.sent@.len() + 1
            && (final(self).control.sent@.len() == old(self).control.sent@.len() + 1 ==> final(self).control.sent@.last() == SessionControl::End(None)),               // [C13.handle.requests-a-clean-end] what it asks the engine for is an End without error
//@@ end

//@@ fn file=fe2o3-amqp/src/session/mod.rs impl=`impl<R> SessionHandle<R>` name=end
//@@ spec
    requires old(self).wf(),
    ensures
        final(self).wf(),
        !old(self).is_ended ==> final(self).is_ended && r == engine_outcome(old(self).outcome),                // [C13.handle.end-reports-the-engines-outcome] [C14.handle.end-reports-why-the-session-stopped]
        old(self).is_ended ==> r == Err::<(), Error>(Error::IllegalState),
        !old(self).control.closed@ ==> final(self).control.sent@ == old(self).control.sent@.push(SessionControl::End(None)),   // [C13.handle.requests-a-clean-end] end() asks the engine for exactly one End, without error, before it waits
        old(self).control.closed@ ==> final(self).control.sent@ == old(self).control.sent@,
//@@ end

//@@ fn file=fe2o3-amqp/src/session/mod.rs impl=`impl<R> SessionHandle<R>` name=end_with_error
//@@ generics
//@@ param error : AmqpError
//@@ subst `error.into()` => `amqp_error_from(error)` rule=R16
//@@ spec
    requires old(self).wf(),
    ensures
        final(self).wf(),
        !old(self).is_ended ==> final(self).is_ended && r == engine_outcome(old(self).outcome),                // [C13.handle.end-reports-the-engines-outcome] [C14.handle.end-reports-why-the-session-stopped]
        !old(self).control.closed@ ==> final(self).control.sent@ == old(self).control.sent@.push(SessionControl::End(Some(error))),   // [C13.handle.end-with-error-carries-the-error] the error the application gave is the one the engine is asked to end with
//@@ end
//@@ fn file=fe2o3-amqp/src/session/mod.rs impl=`impl<R> Drop for SessionHandle<R>` name=drop id=SessionHandle::drop
//@@ ret ()
//@@ spec
    ensures final(self).control.sent@.len() <= old(self).control.sent@.len() + 1,
        final(self).control.sent@.len() == old(self).control.sent@.len() + 1 ==> final(self).control.sent@.last() == SessionControl::End(None),       // [C13.drop.session-handle-asks-for-a-clean-end] dropping a session handle asks ITS session engine -- and nobody else -- for a clean end (no error), without waiting: what was queued before is in front of the request, the connection is not touched
        final(self).is_ended == old(self).is_ended, final(self).outcome == old(self).outcome,
//@@ end

}

// ConnectionHandle<R>: the fields these methods touch (R11)
pub struct ConnectionHandle { pub is_closed: bool, pub control: ControlTx<ConnectionControl>, pub outcome: OutcomeRx }
impl ConnectionHandle {
    pub open spec fn wf(&self) -> bool { self.is_closed == self.outcome.taken@ }

//@@ fn file=fe2o3-amqp/src/connection/mod.rs impl=`impl<R> ConnectionHandle<R>` name=is_closed
//@@ selfmut
//@@ spec
    ensures *final(self) == *old(self), old(self).is_closed ==> r,
//@@ end

//@@ fn file=fe2o3-amqp/src/connection/mod.rs impl=`impl<R> ConnectionHandle<R>` name=on_close
//@@ subst `(&mut self.outcome)` => `self.outcome.recv_s()` rule=R3
//@@ spec
    requires old(self).wf(),
    ensures
        final(self).wf(), final(self).control == old(self).control,
        old(self).is_closed ==> r == Err::<(), Error>(Error::IllegalState) && *final(self) == *old(self),
        !old(self).is_closed ==> final(self).is_closed && r == engine_outcome(old(self).outcome),              // [C12.handle.close-reports-the-engines-outcome] [C14.handle.close-reports-why-the-connection-stopped] the connection handle reports a clean result for a clean close and the peer's error (or the transport / protocol error itself) when there was one: exactly what the engine's event loop reported, whatever state the control channel is in
//@@ end

//@@ fn file=fe2o3-amqp/src/connection/mod.rs impl=`impl<R> ConnectionHandle<R>` name=try_close
//@@ spec
    requires old(self).wf(),
    ensures
        final(self).wf(),
        old(self).is_closed ==> r == Err::<Result<(), Error>, TryCloseError>(TryCloseError::AlreadyClosed) && *final(self) == *old(self),
        !old(self).is_closed && !old(self).outcome.ready@ ==> r == Err::<Result<(), Error>, TryCloseError>(TryCloseError::RemoteCloseNotReceived) && !final(self).is_closed,
        !old(self).is_closed && old(self).outcome.ready@ ==> final(self).is_closed && r == Ok::<Result<(), Error>, TryCloseError>(engine_outcome(old(self).outcome)),   // [C12.handle.close-reports-the-engines-outcome] [C14.handle.close-reports-why-the-connection-stopped]
        !old(self).is_closed && !old(self).control.closed@ ==> final(self).control.sent@.len() <= old(self).control.sent@.len() + 1
            && (final(self).control.sent@.len() == old(self).control.sent@.len() + 1 ==> final(self).control.sent@.last() == ConnectionControl::Close(None)),
//@@ end

//@@ fn file=fe2o3-amqp/src/connection/mod.rs impl=`impl<R> ConnectionHandle<R>` name=close
//@@ spec
    requires old(self).wf(),
    ensures
        final(self).wf(),
        !old(self).is_closed ==> final(self).is_closed && r == engine_outcome(old(self).outcome),              // [C12.handle.close-reports-the-engines-outcome] [C14.handle.close-reports-why-the-connection-stopped]
        old(self).is_closed ==> r == Err::<(), Error>(Error::IllegalState),
        !old(self).control.closed@ ==> final(self).control.sent@ == old(self).control.sent@.push(ConnectionControl::Close(None)),   // [C12.handle.requests-a-clean-close] close() asks the engine for exactly one Close, without error, before it waits
        old(self).control.closed@ ==> final(self).control.sent@ == old(self).control.sent@,
//@@ end

//@@ fn file=fe2o3-amqp/src/connection/mod.rs impl=`impl<R> ConnectionHandle<R>` name=close_with_error
//@@ generics
//@@ param error : AmqpError
//@@ subst `error.into()` => `amqp_error_from(error)` rule=R16
//@@ spec
    requires old(self).wf(),
    ensures
        final(self).wf(),
        !old(self).is_closed ==> final(self).is_closed && r == engine_outcome(old(self).outcome),              // [C12.handle.close-reports-the-engines-outcome] [C14.handle.close-reports-why-the-connection-stopped]
        !old(self).control.closed@ ==> final(self).control.sent@ == old(self).control.sent@.push(ConnectionControl::Close(Some(error))),   // [C12.handle.close-with-error-carries-the-error]
//@@ end

//@@ fn file=fe2o3-amqp/src/connection/mod.rs impl=`impl<R> Drop for ConnectionHandle<R>` name=drop id=ConnectionHandle::drop
//@@ ret ()
//@@ spec
    ensures final(self).control.sent@.len() <= old(self).control.sent@.len() + 1,
        final(self).control.sent@.len() == old(self).control.sent@.len() + 1 ==> final(self).control.sent@.last() == ConnectionControl::Close(None),       // [C12.drop.connection-handle-asks-for-a-clean-close] dropping the connection handle asks the engine for a clean close (no error), without waiting
        final(self).is_closed == old(self).is_closed, final(self).outcome == old(self).outcome,
//@@ end

}

// ---------------------------------------------------------------------------------------------------------------
// asking the engine for a link handle / a session channel: what the caller is told when the engine is gone
//@@ trusted oneshot::channel() yields a responder and a receiving end whose awaited result (`.await` erased, R3) is either what the engine answered or `closed`; the request carries the responder; link name / relay / session sender are opaque
#[verifier::external_body]
pub struct LinkRelayIn { _p: u8 }
#[verifier::external_body]
pub struct OutputHandle { _p: u8 }
#[verifier::external_body]
pub struct OutgoingChannel { _p: u8 }
#[verifier::external_body]
pub struct SessionTx { _p: u8 }
#[verifier::external_body]
pub struct ConnStopRest { _p: u8 }
#[verifier::external_body]
pub struct SessStopRest { _p: u8 }
pub enum ConnectionStopReason { Closed, Other(ConnStopRest) }
impl Clone for ConnectionStopReason { #[verifier::external_body] fn clone(&self) -> (r: Self) ensures r == *self { unimplemented!() } }
pub enum SessionStopReason { Ended, Other(SessStopRest) }
impl Clone for SessionStopReason { #[verifier::external_body] fn clone(&self) -> (r: Self) ensures r == *self { unimplemented!() } }
//@@ type file=fe2o3-amqp/src/session/error.rs kind=enum name=AllocLinkError
//@@ subst `crate::link::SessionStopReason` => `SessionStopReason` rule=R11
//@@ end
//@@ type file=fe2o3-amqp/src/connection/error.rs kind=enum name=AllocSessionError
//@@ end
pub struct Responder<T> { pub g: Ghost<T> }
pub struct RespRx<T> { pub answer: Ghost<Option<T>> }
impl<T> RespRx<T> {
    /// `resp_rx.await.map_err(f)`: Ok(what the engine answered) or Err(f(closed)) when the engine dropped the responder
    #[verifier::external_body]
    pub fn map_err<E, F: FnOnce(RecvErr) -> E>(self, f: F) -> (r: Result<T, E>)
        requires forall|e: RecvErr| call_requires(f, (e,)),
        ensures (match r { Ok(v) => self.answer@ == Some(v), Err(x) => self.answer@ is None && exists|e: RecvErr| call_ensures(f, (e,), x) }),
    { unimplemented!() }
}
pub mod oneshot {
    use super::*;
    #[verifier::external_body]
    pub fn channel<T>() -> (r: (Responder<T>, RespRx<T>)) { unimplemented!() }
}
pub enum SessionControl2 { AllocateLink { link_name: String, link_relay: LinkRelayIn, responder: Responder<Result<OutputHandle, AllocLinkError>> }, Other(ErrRest) }
pub enum ConnectionControl2 { AllocateSession { tx: SessionTx, responder: Responder<Result<OutgoingChannel, AllocSessionError>> }, Other(ErrRest) }
pub struct Cell<T> { pub v: Ghost<Option<T>> }
impl<T> Cell<T> {
    #[verifier::external_body]
    pub fn get(&self) -> (r: Option<&T>) ensures (match r { Some(x) => self.v@ == Some(*x), None => self.v@ is None }) { unimplemented!() }
}
pub open spec fn sess_reason_or_ended(c: Cell<SessionStopReason>) -> SessionStopReason { match c.v@ { Some(r) => r, None => SessionStopReason::Ended } }
pub open spec fn conn_reason_or_closed(c: Cell<ConnectionStopReason>) -> ConnectionStopReason { match c.v@ { Some(r) => r, None => ConnectionStopReason::Closed } }

//@@ fn file=fe2o3-amqp/src/session/error.rs name=connection_stop_reason_or_closed
//@@ param cell : &Cell<ConnectionStopReason>
//@@ spec
    ensures r == conn_reason_or_closed(*cell),        // [C14.stop-reason.read-from-the-published-cell]
//@@ end

//@@ fn file=fe2o3-amqp/src/session/mod.rs name=allocate_link
//@@ param control : &mut ControlTx<SessionControl2>
//@@ param link_relay : LinkRelayIn
//@@ param session_stop_reason : &Cell<SessionStopReason>
//@@ subst `SessionControl::AllocateLink` => `SessionControl2::AllocateLink` rule=R11
//@@ subst `let reason = || match session_stop_reason.get() { __E1 };` => `let reason = || -> (o: SessionStopReason) ensures o == sess_reason_or_ended(*session_stop_reason) { match session_stop_reason.get() { __E1 } };` rule=R18
//@@ subst `.map_err(|_v0| AllocLinkError::SessionStopped(reason()))` => `.map_err(|_v0| -> (o: AllocLinkError) ensures o == AllocLinkError::SessionStopped(sess_reason_or_ended(*session_stop_reason)) { AllocLinkError::SessionStopped(reason()) })` rule=R18 unless `\.map_err\(`
//@@ subst `.map_err(|_v1| AllocLinkError::SessionStopped(reason()))` => `.map_err(|_v1| -> (o: AllocLinkError) ensures o == AllocLinkError::SessionStopped(sess_reason_or_ended(*session_stop_reason)) { AllocLinkError::SessionStopped(reason()) })` rule=R18 unless `\.map_err\(`
//@@ spec
    ensures
        old(control).closed@ ==> r == Err::<OutputHandle, AllocLinkError>(AllocLinkError::SessionStopped(sess_reason_or_ended(*session_stop_reason))),     // [C14.attach.stopped-session-says-why] an attach issued after (or while) the session stopped fails with SessionStopped carrying the PUBLISHED reason -- the peer's End error, the connection's fate; `Ended` only if none was recorded
        !old(control).closed@ ==> final(control).sent@.len() == old(control).sent@.len() + 1 && final(control).sent@.last() is AllocateLink,
//@@ end

pub enum SessionControl3 { AllocateIncomingLink { link_name: String, link_relay: LinkRelayIn, input_handle: InputHandleS, responder: Responder<Result<OutputHandle, AllocLinkError>> }, Other(ErrRest) }
#[verifier::external_body]
pub struct InputHandleS { _p: u8 }
//@@ fn file=fe2o3-amqp/src/acceptor/session.rs name=allocate_incoming_link
//@@ param control : &mut ControlTx<SessionControl3>
//@@ param link_relay : LinkRelayIn
//@@ param input_handle : InputHandleS
//@@ param session_stop_reason : &Cell<SessionStopReason>
//@@ subst `SessionControl::AllocateIncomingLink` => `SessionControl3::AllocateIncomingLink` rule=R11
//@@ subst `let reason = || match session_stop_reason.get() { __E1 };` => `let reason = || -> (o: SessionStopReason) ensures o == sess_reason_or_ended(*session_stop_reason) { match session_stop_reason.get() { __E1 } };` rule=R18
//@@ subst `.map_err(|_v0| AllocLinkError::SessionStopped(reason()))` => `.map_err(|_v0| -> (o: AllocLinkError) ensures o == AllocLinkError::SessionStopped(sess_reason_or_ended(*session_stop_reason)) { AllocLinkError::SessionStopped(reason()) })` rule=R18 unless `\.map_err\(`
//@@ subst `.map_err(|_v1| AllocLinkError::SessionStopped(reason()))` => `.map_err(|_v1| -> (o: AllocLinkError) ensures o == AllocLinkError::SessionStopped(sess_reason_or_ended(*session_stop_reason)) { AllocLinkError::SessionStopped(reason()) })` rule=R18 unless `\.map_err\(`
//@@ spec
    ensures
        old(control).closed@ ==> r == Err::<OutputHandle, AllocLinkError>(AllocLinkError::SessionStopped(sess_reason_or_ended(*session_stop_reason))),     // [C14.attach.stopped-session-says-why] (listener) accepting a link on a session that has stopped fails with SessionStopped carrying the published reason
        !old(control).closed@ ==> final(control).sent@.len() == old(control).sent@.len() + 1 && final(control).sent@.last() is AllocateIncomingLink,
//@@ end

impl ConnectionHandle2 {
//@@ fn file=fe2o3-amqp/src/connection/mod.rs impl=`impl<R> ConnectionHandle<R>` name=allocate_session
//@@ param tx : SessionTx
//@@ subst `ConnectionControl::AllocateSession` => `ConnectionControl2::AllocateSession` rule=R11
//@@ subst `.map_err(|_v0| { __E1 })` => `.map_err(|_v0| -> (o: AllocSessionError) ensures o == AllocSessionError::ConnectionStopped(conn_reason_or_closed(self.connection_stop_reason)) { __E1 })` rule=R18 unless `\.map_err\(`
//@@ subst `.map_err(|_v1| { __E1 })` => `.map_err(|_v1| -> (o: AllocSessionError) ensures o == AllocSessionError::ConnectionStopped(conn_reason_or_closed(self.connection_stop_reason)) { __E1 })` rule=R18 unless `\.map_err\(`
//@@ spec
    ensures
        old(self).control.closed@ ==> r == Err::<OutgoingChannel, AllocSessionError>(AllocSessionError::ConnectionStopped(conn_reason_or_closed(old(self).connection_stop_reason))),   // [C14.begin.stopped-connection-says-why] a begin issued after the connection stopped fails with ConnectionStopped carrying the published reason (the peer's Close error, the transport's fate)
        final(self).connection_stop_reason == old(self).connection_stop_reason,
//@@ end

}
pub struct ConnectionHandle2 { pub control: ControlTx<ConnectionControl2>, pub connection_stop_reason: Cell<ConnectionStopReason> }

} // verus!
fn main() {}
