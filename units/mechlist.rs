//@@ unit MECHLIST
#![feature(allocator_api)]
#![allow(unused_imports, unused_variables, dead_code, unused_mut, unused_parens, non_camel_case_types)]
use vstd::prelude::*;

verus! {

//@@ trusted the serde Serializer / SerializeStruct handed to SaslMechanisms::serialize is a recording stand-in: serialize_struct, serialize_field and end append WHICH call was made with WHICH name / length / value to a ghost log (or fail); what the real byte serializer does with these calls is under contract in unit SERENTRY
//@@ trusted the serde SeqAccess handed to Visitor::visit_seq is a stand-in over a ghost sequence of items: next_element yields the next item decoded as the type asked for (descriptor or symbol array), fails, or reports the end; the real accessors are under contract in units DEENTRY / SEQACCESS
//@@ trusted SaslMechanisms::deserialize itself (the function that contains the visitor as nested items and refuses an empty array after decoding) and visit_map are not extracted: nested items in a function body are outside the extractor's reach; the bounded round-trip probes of C19 run them

pub struct SerError {}
impl SerError { pub fn custom(msg: &str) -> (r: SerError) { SerError {} } }
pub struct DeError {}
impl DeError { pub fn custom(msg: &str) -> (r: DeError) { DeError {} } }
pub trait ErrInto<T>: Sized { spec fn conv(self) -> T; fn err_into(self) -> (r: T) ensures r == self.conv(); }
impl ErrInto<SerError> for SerError { open spec fn conv(self) -> SerError { self } fn err_into(self) -> (r: SerError) { let e = self; assert(e == <SerError as ErrInto<SerError>>::conv(self)); e } }
impl ErrInto<DeError> for DeError { open spec fn conv(self) -> DeError { self } fn err_into(self) -> (r: DeError) { let e = self; assert(e == <DeError as ErrInto<DeError>>::conv(self)); e } }

#[verifier::external_body]
pub struct Symbol { _p: u8 }
impl Symbol {
    pub uninterp spec fn view(&self) -> Seq<char>;
    #[verifier::external_body]
    pub fn from(s: &str) -> (r: Symbol) ensures r@ == s@ { unimplemented!() }
}
/// `symbol.into_inner() != "literal"`: String against &str
#[verifier::external_body]
pub fn sym_differs(s: Symbol, lit: &str) -> (r: bool) ensures r == (s@ != lit@) { unimplemented!() }

//@@ type file=serde_amqp/src/descriptor.rs kind=enum name=Descriptor
//@@ end
//@@ type file=serde_amqp/src/primitives/array.rs kind=struct name=Array
//@@ end
impl<T> Array<T> {
//@@ fn file=serde_amqp/src/primitives/array.rs impl=`impl<T> From<Vec<T>> for Array<T>` name=from id=Array::from
//@@ spec
    ensures r.0 == val,
//@@ end
}
pub fn vec_one(e: Symbol) -> (r: Vec<Symbol>) ensures r@ == seq![e] { let mut v = Vec::new(); v.push(e); v }
//@@ type file=fe2o3-amqp-types/src/sasl/mod.rs kind=struct name=SaslMechanisms
//@@ end
//@@ strconsts file=serde_amqp/src/constants.rs names=DESCRIBED_LIST,DESCRIPTOR lemma=lemma_names_distinct label=`[C19.mechanisms.constants-distinct] the names are different strings`
//@@ strconsts file=fe2o3-amqp-types/src/sasl/mechanisms.rs names=ANONYMOUS lemma=lemma_anonymous label=`[C19.mechanisms.anonymous-name] the constant`

// ---- recording serializer ----
pub enum FieldVal { Desc(Descriptor), Mechs(Array<Symbol>) }
pub enum Ev { Struct(Seq<char>, usize), Field(Seq<char>, FieldVal), End }
pub trait FieldValOf { spec fn fv(&self) -> FieldVal; }
impl FieldValOf for Descriptor { open spec fn fv(&self) -> FieldVal { FieldVal::Desc(*self) } }
impl FieldValOf for Array<Symbol> { open spec fn fv(&self) -> FieldVal { FieldVal::Mechs(*self) } }
pub struct SerializerS { pub log: Ghost<Seq<Ev>> }
pub struct StructS { pub log: Ghost<Seq<Ev>> }
pub struct Done { pub log: Ghost<Seq<Ev>> }
impl SerializerS {
    #[verifier::external_body]
    pub fn serialize_struct(self, name: &'static str, len: usize) -> (r: Result<StructS, SerError>) ensures r is Ok ==> r->Ok_0.log@ == self.log@.push(Ev::Struct(name@, len)) { unimplemented!() }
}
impl StructS {
    #[verifier::external_body]
    pub fn serialize_field<T: FieldValOf>(&mut self, key: &'static str, value: &T) -> (r: Result<(), SerError>) ensures r is Ok ==> final(self).log@ == old(self).log@.push(Ev::Field(key@, value.fv())) { unimplemented!() }
    #[verifier::external_body]
    pub fn end(self) -> (r: Result<Done, SerError>) ensures r is Ok ==> r->Ok_0.log@ == self.log@.push(Ev::End) { unimplemented!() }
}

impl SaslMechanisms {
//@@ fn file=fe2o3-amqp-types/src/sasl/mechanisms.rs impl=`impl Default for SaslMechanisms` name=default
//@@ subst `vec![Symbol::from(ANONYMOUS)]` => `vec_one(Symbol::from(ANONYMOUS))` rule=R14
//@@ spec
    ensures r.sasl_server_mechanisms.0@.len() == 1 && r.sasl_server_mechanisms.0@[0]@ == ANONYMOUS@,       // [C19.mechanisms.default-offers-anonymous] AMQP 1.0 part 5, 5.3.3.1: a peer that does not require authentication sends the one-element list ANONYMOUS -- never an empty one
//@@ end

}
/// a listener's SASL acceptor, as far as the advertisement goes: the mechanisms it is configured with
pub struct AcceptorS { pub mechs: Array<Symbol> }
impl AcceptorS {
    #[verifier::external_body]
    pub fn mechanisms(&self) -> (r: Array<Symbol>) ensures r == self.mechs { unimplemented!() }
//@@ fn file=fe2o3-amqp/src/acceptor/sasl_acceptor.rs impl=`~SaslAcceptorExt:SaslAcceptor` name=sasl_mechanisms
//@@ subst `server_mechanisms.0.is_empty()` => `(server_mechanisms.0.len() == 0)` rule=R9
//@@ subst `SaslMechanisms::default()` => `SaslMechanisms::default()` rule=optional
//@@ spec
    ensures
        self.mechs.0@.len() > 0 ==> r.sasl_server_mechanisms == self.mechs,       // [C19.listener.advertises-exactly-its-mechanisms] a listener configured with SASL mechanisms advertises exactly those: ANONYMOUS is not added to them (a peer is never invited to skip authentication on a listener that requires it)
        self.mechs.0@.len() == 0 ==> r.sasl_server_mechanisms.0@.len() == 1 && r.sasl_server_mechanisms.0@[0]@ == ANONYMOUS@,       // [C19.mechanisms.default-offers-anonymous] only an acceptor with NO mechanism offers the one-element list ANONYMOUS (the list must not be empty, 5.3.3.1)
//@@ end
}
impl SaslMechanisms {
//@@ fn file=fe2o3-amqp-types/src/sasl/mechanisms.rs impl=`impl serde_amqp::serde::ser::Serialize for SaslMechanisms` name=serialize dropuses
//@@ qmark
//@@ generics
//@@ nowhere
//@@ param serializer : SerializerS
//@@ ret Result<Done, SerError>
//@@ subst `ser::Error::custom(` => `SerError::custom(` rule=R11
//@@ subst `serde_amqp::__constants::DESCRIBED_LIST` => `DESCRIBED_LIST` rule=R11
//@@ subst `serde_amqp::__constants::DESCRIPTOR` => `DESCRIPTOR` rule=R11
//@@ subst `serde_amqp::descriptor::Descriptor::Code(__E1)` => `Descriptor::Code(__E1)` rule=R11
//@@ spec
    requires serializer.log@ == Seq::<Ev>::empty(),
    ensures
        self.sasl_server_mechanisms.0@.len() == 0 ==> r is Err,       // [C19.mechanisms.never-empty-on-the-wire] [C05.mechanisms.never-empty-on-the-wire] AMQP 1.0 part 1, 1.4: a field that is both multiple and mandatory must contain at least one value: an empty mechanism list is refused, not written
        r is Ok ==> r->Ok_0.log@ =~= seq![
            Ev::Struct(DESCRIBED_LIST@, 2),
            Ev::Field(DESCRIPTOR@, FieldVal::Desc(Descriptor::Code(0x40))),
            Ev::Field("sasl-server-mechanisms"@, FieldVal::Mechs(self.sasl_server_mechanisms)),
            Ev::End],       // [C19.mechanisms.wire-layout] [C05.mechanisms.wire-layout] [C03.mechanisms.wire-layout] AMQP 1.0 part 5, 5.3.3.1: sasl-mechanisms is the described list 0x00000000:0x00000040 whose one field is the mechanisms this value holds -- descriptor first, then the field, nothing else
//@@ end
}

// ---- the visitor ----
pub enum Item { Desc(Descriptor), Mechs(Array<Symbol>), Other }
pub trait Elem: Sized { spec fn of(i: Item) -> Option<Self>; }
impl Elem for Descriptor { open spec fn of(i: Item) -> Option<Self> { match i { Item::Desc(d) => Some(d), _ => None } } }
impl Elem for Array<Symbol> { open spec fn of(i: Item) -> Option<Self> { match i { Item::Mechs(m) => Some(m), _ => None } } }
pub struct SeqS { pub items: Ghost<Seq<Item>>, pub pos: Ghost<nat> }
impl SeqS {
    #[verifier::external_body]
    pub fn next_element<T: Elem>(&mut self) -> (r: Result<Option<T>, DeError>)
        ensures final(self).items == old(self).items,
            (match r {
                Ok(Some(v)) => old(self).pos@ < old(self).items@.len() && T::of(old(self).items@[old(self).pos@ as int]) == Some(v) && final(self).pos@ == old(self).pos@ + 1,
                Ok(None) => old(self).pos@ >= old(self).items@.len() && final(self).pos@ == old(self).pos@,
                Err(_) => true,
            }),
    { unimplemented!() }
}
pub struct Visitor {}
impl Visitor {
//@@ fn file=fe2o3-amqp-types/src/sasl/mechanisms.rs impl=`impl<'de> serde_amqp::serde::de::Visitor<'de> for Visitor` name=visit_seq
//@@ qmark
//@@ generics
//@@ nowhere
//@@ blockarms
//@@ param __seq : SeqS
//@@ ret Result<SaslMechanisms, DeError>
//@@ subst `serde_amqp::serde::de::Error::custom(` => `DeError::custom(` rule=R11
//@@ subst `serde_amqp::descriptor::Descriptor` => `Descriptor` rule=R11
//@@ subst `if __symbol.into_inner() != __E1 {` => `if sym_differs(__symbol, __E1) {` rule=optional-R16
//@@ subst `if __symbol.into_inner() == __E1 {` => `if !sym_differs(__symbol, __E1) {` rule=optional-R16
//@@ spec
    requires __seq.pos@ == 0,
    ensures
        r is Ok ==> ({
            let it = __seq.items@;
            &&& it.len() >= 2
            &&& (it[0] == Item::Desc(Descriptor::Code(0x40)) || (it[0] is Desc && it[0]->Desc_0 is Name && it[0]->Desc_0->Name_0@ == "amqp:sasl-mechanisms:list"@))       // [C19.mechanisms.descriptor-checked] [C05.mechanisms.descriptor-checked] only the descriptor of sasl-mechanisms -- by code 0x40 or by name amqp:sasl-mechanisms:list -- introduces a mechanism list: any other described list is refused
            &&& it[1] == Item::Mechs(r->Ok_0.sasl_server_mechanisms)       // [C19.mechanisms.field-is-the-list-decoded] [C03.mechanisms.field-is-the-list-decoded] the mechanisms offered are the first field, as decoded
        }),
        __seq.items@.len() < 2 ==> r is Err,       // [C19.mechanisms.absent-list-refused] a mechanisms frame without its mandatory field is refused
//@@ end
}

} // verus!
fn main() {}
