//@@ unit CONVERSIONS
#![feature(allocator_api)]
#![allow(unused_imports, unused_variables, dead_code, unused_mut, unused_parens)]
use vstd::prelude::*;

verus! {

//@@ trusted none beyond the common ones: the newtype conversions of endpoint/mod.rs are verified as written; every other unit uses them through stand-ins (`handle_to_input`, `output_to_handle`, `InputHandle::from`, `.0`) that assume exactly what is proved here: the number is unchanged

pub type Uint = u32;
pub struct Handle(pub Uint);
pub struct OutputHandle(pub Uint);
pub struct InputHandle(pub Uint);
pub struct OutgoingChannel(pub u16);
pub struct IncomingChannel(pub u16);

//@@ fn file=fe2o3-amqp/src/endpoint/mod.rs impl=`impl From<OutgoingChannel> for u16` name=from as=outgoing_channel_into_u16
//@@ ret u16
//@@ spec
    ensures r == channel.0,      // [C11.conversion.channel-number-unchanged] a channel number is the same number in every representation
//@@ end
//@@ fn file=fe2o3-amqp/src/endpoint/mod.rs impl=`impl From<IncomingChannel> for u16` name=from as=incoming_channel_into_u16
//@@ ret u16
//@@ spec
    ensures r == channel.0,      // [C11.conversion.channel-number-unchanged]
//@@ end
//@@ fn file=fe2o3-amqp/src/endpoint/mod.rs impl=`impl From<Handle> for OutputHandle` name=from as=output_handle_from_handle
//@@ ret OutputHandle
//@@ subst `Self(` => `OutputHandle(` rule=R16
//@@ spec
    ensures r.0 == handle.0,     // [C11.conversion.handle-number-unchanged] [C13.conversion.handle-number-unchanged] a link handle is the same number as a wire handle, an output handle and an input handle: frames carry the handle the link was given, and are routed by the handle they carry
//@@ end
//@@ fn file=fe2o3-amqp/src/endpoint/mod.rs impl=`impl From<OutputHandle> for Handle` name=from as=handle_from_output_handle
//@@ ret Handle
//@@ subst `Self(` => `Handle(` rule=R16
//@@ spec
    ensures r.0 == handle.0,     // [C11.conversion.handle-number-unchanged] [C13.conversion.handle-number-unchanged]
//@@ end
//@@ fn file=fe2o3-amqp/src/endpoint/mod.rs impl=`impl From<Handle> for InputHandle` name=from as=input_handle_from_handle
//@@ ret InputHandle
//@@ subst `Self(` => `InputHandle(` rule=R16
//@@ spec
    ensures r.0 == handle.0,     // [C11.conversion.handle-number-unchanged] [C13.conversion.handle-number-unchanged]
//@@ end
//@@ fn file=fe2o3-amqp/src/endpoint/mod.rs impl=`impl From<InputHandle> for Handle` name=from as=handle_from_input_handle
//@@ ret Handle
//@@ subst `Self(` => `Handle(` rule=R16
//@@ spec
    ensures r.0 == handle.0,     // [C11.conversion.handle-number-unchanged] [C13.conversion.handle-number-unchanged]
//@@ end

} // verus!
fn main() {}
