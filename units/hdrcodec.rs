//@@ unit HDRCODEC
#![feature(allocator_api)]
#![allow(unused_imports, unused_variables, dead_code, unused_mut, unused_parens)]
use vstd::prelude::*;

verus! {

//@@ trusted bytes::{BytesMut, Bytes} are stand-ins with a Seq<u8> view: remaining/len, split_to(n) (panics beyond the end: a precondition), split, freeze, put, indexing
//@@ trusted the comparison of the first four octets with b"AMQP" (`value[..4] != b"AMQP"[..]`, slice inequality) is routed to a helper whose spec spells out the four octets 41 4d 51 50 (R9); `PROTOCOL_HEADER_PREFIX[i]` are those octets
//@@ trusted tokio_util's Framed calls decode repeatedly on the read buffer and encode on the write buffer (not under contract)

#[verifier::external_body]
pub struct BytesMut { v: Vec<u8> }
impl View for BytesMut { type V = Seq<u8>; uninterp spec fn view(&self) -> Seq<u8>; }
#[verifier::external_body]
pub struct Bytes { v: Vec<u8> }
impl View for Bytes { type V = Seq<u8>; uninterp spec fn view(&self) -> Seq<u8>; }
impl BytesMut {
    #[verifier::external_body]
    pub fn remaining(&self) -> (r: usize) ensures r == self@.len() { unimplemented!() }
    #[verifier::external_body]
    pub fn split_to(&mut self, n: usize) -> (r: BytesMut)
        requires n <= old(self)@.len(),     // bytes::BytesMut::split_to panics otherwise
        ensures r@ == old(self)@.take(n as int), final(self)@ == old(self)@.skip(n as int),
    { unimplemented!() }
    #[verifier::external_body]
    pub fn split(&mut self) -> (r: BytesMut) ensures r@ == old(self)@, final(self)@ == Seq::<u8>::empty() { unimplemented!() }
    #[verifier::external_body]
    pub fn freeze(self) -> (r: Bytes) ensures r@ == self@ { unimplemented!() }
    #[verifier::external_body]
    pub fn put(&mut self, b: &[u8]) ensures final(self)@ == old(self)@ + b@ { unimplemented!() }
}
impl Bytes {
    #[verifier::external_body]
    pub fn len(&self) -> (r: usize) ensures r == self@.len() { unimplemented!() }
    /// Bytes::slice(..n) (not used by the code under contract today: present so that a change introducing it is decided)
    #[verifier::external_body]
    pub fn slice(&self, r: core::ops::RangeTo<usize>) -> (o: Bytes)
        requires r.end <= self@.len(),      // bytes::Bytes::slice panics otherwise
        ensures o@ == self@.take(r.end as int),
    { unimplemented!() }
}
impl vstd::std_specs::core::IndexSpecImpl<usize> for Bytes {
    open spec fn index_req(&self, i: &usize) -> bool { *i < self@.len() }
}
impl core::ops::Index<usize> for Bytes {
    type Output = u8;
    #[verifier::external_body]
    fn index(&self, i: usize) -> (r: &u8) ensures *r == self@[i as int] { unimplemented!() }
}
/// `value[..4] != b"AMQP"[..]`
#[verifier::external_body]
pub fn prefix_is_not_amqp(value: &Bytes) -> (r: bool)
    requires value@.len() >= 4,
    ensures r == !(value@[0] == 0x41 && value@[1] == 0x4d && value@[2] == 0x51 && value@[3] == 0x50),
{ unimplemented!() }
pub const PROTOCOL_HEADER_PREFIX: [u8; 4] = [0x41, 0x4d, 0x51, 0x50];
//@@ type file=fe2o3-amqp-types/src/definitions/constant_def.rs kind=const name=MAJOR
//@@ end
//@@ type file=fe2o3-amqp-types/src/definitions/constant_def.rs kind=const name=MINOR
//@@ end
//@@ type file=fe2o3-amqp-types/src/definitions/constant_def.rs kind=const name=REVISION
//@@ end
proof fn spec_version_constants() ensures MAJOR == 1 && MINOR == 0 && REVISION == 0 {}      // [C06.constants.protocol-version] [C12.constants.protocol-version]

//@@ type file=fe2o3-amqp/src/transport/protocol_header.rs kind=enum name=ProtocolId keeprepr clone
//@@ end
//@@ type file=fe2o3-amqp/src/transport/protocol_header.rs kind=struct name=ProtocolHeader clone
//@@ end
pub open spec fn id_code(id: ProtocolId) -> u8 { match id { ProtocolId::Amqp => 0u8, ProtocolId::Tls => 2u8, ProtocolId::Sasl => 3u8 } }
/// AMQP 1.0 part 2, 2.2: "AMQP" protocol-id major minor revision
pub open spec fn hdr_bytes(h: ProtocolHeader) -> Seq<u8> { seq![0x41u8, 0x4du8, 0x51u8, 0x50u8, id_code(h.id), h.major, h.minor, h.revision] }
pub open spec fn hdr_parse(b: Seq<u8>) -> Option<ProtocolHeader> {
    if b.len() == 8 && b[0] == 0x41 && b[1] == 0x4d && b[2] == 0x51 && b[3] == 0x50 && (b[4] == 0 || b[4] == 2 || b[4] == 3) {
        Some(ProtocolHeader { id: if b[4] == 0 { ProtocolId::Amqp } else if b[4] == 2 { ProtocolId::Tls } else { ProtocolId::Sasl }, major: b[5], minor: b[6], revision: b[7] })
    } else { None }
}
pub proof fn lemma_header_round_trip(h: ProtocolHeader)
    ensures hdr_parse(hdr_bytes(h)) == Some(h), hdr_bytes(h).len() == 8,
{}

impl ProtocolId {
//@@ fn file=fe2o3-amqp/src/transport/protocol_header.rs impl=`impl TryFrom<u8> for ProtocolId` name=try_from
//@@ ret Result<ProtocolId, u8>
//@@ spec
    ensures
        (match r { Ok(id) => id_code(id) == value, Err(v) => v == value && value != 0 && value != 2 && value != 3 }),   // [C12.header.protocol-ids] 0 AMQP, 2 TLS, 3 SASL, nothing else
//@@ end
}

impl ProtocolHeader {
//@@ fn file=fe2o3-amqp/src/transport/protocol_header.rs impl=`impl ProtocolHeader` name=new
//@@ spec
    ensures r == (ProtocolHeader { id, major, minor, revision }),
//@@ end

//@@ fn file=fe2o3-amqp/src/transport/protocol_header.rs impl=`impl From<ProtocolHeader> for [u8; 8]` name=from as=into_array
//@@ ret [u8; 8]
//@@ spec
    ensures r@ =~= hdr_bytes(value),                           // [C12.header.wire-format] the eight octets of a protocol header
//@@ end

//@@ fn file=fe2o3-amqp/src/transport/protocol_header.rs impl=`impl TryFrom<Bytes> for ProtocolHeader` name=try_from as=try_from_bytes
//@@ ret Result<ProtocolHeader, Bytes>
//@@ subst `value[..4] != b"AMQP"[..]` => `prefix_is_not_amqp(&value)` rule=R9
//@@ subst `value[4].try_into()` => `ProtocolId::try_from(value[4])` rule=R16
//@@ spec
    ensures
        (match hdr_parse(value@) { Some(h) => r == Ok::<ProtocolHeader, Bytes>(h), None => r == Err::<ProtocolHeader, Bytes>(value) }),   // [C12.header.wire-format] accepted exactly when: 8 octets, "AMQP", a known protocol id
//@@ end
}

pub enum NegotiationError { ProtocolHeaderMismatch(Bytes), Other }
#[verifier::external_body]
pub struct IoError { _p: u8 }
pub struct ProtocolHeaderCodec {}
impl ProtocolHeaderCodec {
//@@ fn file=fe2o3-amqp/src/transport/protocol_header.rs impl=`impl Encoder<ProtocolHeader> for ProtocolHeaderCodec` name=encode
//@@ ret Result<(), IoError>
//@@ param dst : &mut BytesMut
//@@ subst `let buf: [u8; 8] = item.into();` => `let buf: [u8; 8] = ProtocolHeader::into_array(item);` rule=R16
//@@ subst `&buf[..]` => `buf.as_slice()` rule=R22
//@@ spec
    ensures r is Ok, final(dst)@ =~= old(dst)@ + hdr_bytes(item),            // [C06.header.encoded-as-eight-octets] exactly the eight header octets are appended to the write buffer
//@@ end

//@@ fn file=fe2o3-amqp/src/transport/protocol_header.rs impl=`impl Decoder for ProtocolHeaderCodec` name=decode
//@@ ret Result<Option<ProtocolHeader>, NegotiationError>
//@@ param src : &mut BytesMut
//@@ subst `ProtocolHeader::try_from(__E1) .map(Some) .map_err(NegotiationError::ProtocolHeaderMismatch)` => `ProtocolHeader::try_from_bytes(__E1).map(|h: ProtocolHeader| -> (o: Option<ProtocolHeader>) ensures o == Some(h) { Some(h) }).map_err(|b: Bytes| -> (o: NegotiationError) ensures o == NegotiationError::ProtocolHeaderMismatch(b) { NegotiationError::ProtocolHeaderMismatch(b) })` rule=R16,R18
//@@ spec
    ensures
        old(src)@.len() < 8 ==> r == Ok::<Option<ProtocolHeader>, NegotiationError>(None) && final(src)@ == old(src)@,       // [C06.header.waits-for-eight-octets] fewer than 8 octets: nothing is consumed, the codec waits (however the stream is fragmented)
        old(src)@.len() >= 8 ==> final(src)@ == old(src)@.skip(8)                                                            // [C06.header.exactly-eight-octets] exactly the 8 header octets are consumed: whatever follows them in the same read (a pipelined first frame) stays in the buffer for the frame decoder
            && (match hdr_parse(old(src)@.take(8)) { Some(h) => r == Ok::<Option<ProtocolHeader>, NegotiationError>(Some(h)), None => r is Err }),   // [C19.header.peer-octets-parsed] the header handed to the negotiation is what the peer's eight octets say
//@@ end
}

} // verus!
fn main() {}
