//@@ unit SEQACCESS
#![feature(allocator_api)]
#![allow(unused_imports, unused_variables, dead_code, unused_mut, unused_parens)]
use vstd::prelude::*;

verus! {

//@@ trusted R30: the access structs' field `de: &'a mut Deserializer<R>` is verified as an owned Deserializer (the struct holds the exclusive borrow for its whole life, nobody else can touch the deserializer between two calls; what the caller sees after the access object is dropped is not covered) and `self.as_mut()` is `&mut self.de`
//@@ trusted the element decoder (`seed.deserialize(&mut *de)`: the element type's serde Deserialize impl, through Deserializer's deserialize_* methods) is a stand-in: one call reads some octets, records under which element constructor (elem_format_code) it ran, and leaves elem_format_code either as it was or None -- lists and maps clear it (unit READERS), a nested array sets its own and clears it when its access is exhausted (serde's and this crate's sequence visitors always read to the end)
//@@ trusted the reader is reduced to its bytes_consumed() counter (unit READERS has the Read contract)

#[verifier::external_body]
pub struct EncodingCodes { _p: u8 }
impl Clone for EncodingCodes { #[verifier::external_body] fn clone(&self) -> (r: Self) ensures r == *self { unimplemented!() } }
pub enum Error { InvalidValue, InvalidLength, Other }
/// `remaining` (ghost): the octets of input not yet consumed
pub struct ReaderS { pub consumed: usize, pub remaining: Ghost<nat> }
impl ReaderS {
    pub fn bytes_consumed(&self) -> (r: usize) ensures r == self.consumed { self.consumed }
    /// Read::peek (unit READERS): the next octet, if any, without consuming it
    #[verifier::external_body]
    pub fn peek(&mut self) -> (r: Option<u8>) ensures final(self).consumed == old(self).consumed { unimplemented!() }
    #[verifier::external_body]
    pub fn next(&mut self) -> (r: Result<Option<u8>, Error>) ensures final(self).consumed >= old(self).consumed { unimplemented!() }
}
/// `byte.try_into()` (TryFrom<u8> for EncodingCodes, unit READERS) and the codes tested here
#[verifier::external_body]
pub fn code_try_from(b: u8) -> (r: Result<Code, Error>) { unimplemented!() }
pub enum Code { DescribedType, Null, Other }
//@@ type file=serde_amqp/src/util.rs kind=enum name=StructEncoding
//@@ end
//@@ type file=serde_amqp/src/util.rs kind=enum name=EnumType
//@@ end
/// `seed_errs` (ghost): how many element decoders (seeds) driven through this deserializer failed
pub struct Deserializer { pub reader: ReaderS, pub elem_format_code: Option<EncodingCodes>, pub decoded: Ghost<Seq<Option<EncodingCodes>>>, pub struct_encoding: StructEncoding, pub enum_type: EnumType, pub seed_errs: Ghost<nat> }
pub struct SeedS { pub g: Ghost<int> }
#[verifier::external_body]
pub struct ElemV { _p: u8 }
#[verifier::external_body]
pub fn seed_deserialize(seed: SeedS, de: &mut Deserializer) -> (r: Result<ElemV, Error>)
    ensures
        final(de).decoded@ == old(de).decoded@.push(old(de).elem_format_code),
        final(de).elem_format_code is None || final(de).elem_format_code == old(de).elem_format_code,
        final(de).reader.consumed >= old(de).reader.consumed,
        final(de).seed_errs@ == old(de).seed_errs@ + (if r is Err { 1nat } else { 0nat }),
{ unimplemented!() }
/// consume_list_header / consume_map_header (compound header readers: the contracts of deserialize_seq / deserialize_map in unit READERS): the count read
/// from the wire is ANY 32-bit number the peer cares to send
#[verifier::external_body]
pub fn consume_header(de: &mut Deserializer) -> (r: Result<u32, Error>) { unimplemented!() }
pub trait ErrInto<T>: Sized { spec fn conv(self) -> T; fn err_into(self) -> (r: T) ensures r == self.conv(); }
impl ErrInto<Error> for Error { open spec fn conv(self) -> Error { self } fn err_into(self) -> (r: Error) { let e = self; assert(e == <Error as ErrInto<Error>>::conv(self)); e } }

//@@ type file=serde_amqp/src/de.rs kind=struct name=ArrayAccess
//@@ subst `ArrayAccess<'a, R>` => `ArrayAccess` rule=R7
//@@ subst `de: &'a mut Deserializer<R>` => `de: Deserializer` rule=R30
//@@ end
//@@ type file=serde_amqp/src/de.rs kind=struct name=ListAccess
//@@ subst `ListAccess<'a, R>` => `ListAccess` rule=R7
//@@ subst `de: &'a mut Deserializer<R>` => `de: Deserializer` rule=R30
//@@ end
//@@ type file=serde_amqp/src/de.rs kind=struct name=MapAccess
//@@ subst `MapAccess<'a, R>` => `MapAccess` rule=R7
//@@ subst `de: &'a mut Deserializer<R>` => `de: Deserializer` rule=R30
//@@ end

impl ArrayAccess {
//@@ fn file=serde_amqp/src/de.rs impl=`impl<'a, 'de, R: Read<'de>> ArrayAccess<'a, R>` name=new
//@@ param de : Deserializer
//@@ spec
    ensures r.de == de, r.size == size, r.count == count, r.start_pos == de.reader.consumed,
        r.elem_format_code == de.elem_format_code,       // [C03.array.constructor-kept] the array's element constructor (set by deserialize_seq, unit READERS) is remembered by the access
//@@ end

//@@ fn file=serde_amqp/src/de.rs impl=`~impl<'de,R:Read<'de>>de::SeqAccess<'de>forArrayAccess<'_,R>` name=next_element_seed
//@@ qmark
//@@ generics
//@@ nowhere
//@@ param seed : SeedS
//@@ ret Result<Option<ElemV>, Error>
//@@ subst `seed.deserialize(self.as_mut())` => `seed_deserialize(seed, &mut self.de)` rule=R30
//@@ spec
    ensures
        final(self).elem_format_code == old(self).elem_format_code, final(self).size == old(self).size, final(self).start_pos == old(self).start_pos,
        old(self).count == 0 ==> r == Ok::<Option<ElemV>, Error>(None) && final(self).de.decoded@ == old(self).de.decoded@ && final(self).de.elem_format_code is None && final(self).count == 0,
        old(self).count > 0 ==> final(self).count == old(self).count - 1
            && final(self).de.decoded@ == old(self).de.decoded@.push(old(self).elem_format_code),   // [C05.array.one-constructor-decoded-for-every-element] [C03.array.every-element-under-array-constructor] EVERY element of an array -- the second and later ones too, whatever the earlier elements were (lists, maps, nested arrays clear or replace the deserializer's current element constructor) -- is decoded under the array's element constructor
        old(self).count > 0 && r is Ok ==> r->Ok_0 is Some && final(self).de.reader.consumed - old(self).start_pos <= old(self).size,   // [C04.array.body-overrun] an element that reads past the announced body is refused
        old(self).count > 0 && r is Err && final(self).de.seed_errs@ == old(self).de.seed_errs@ && old(self).start_pos <= old(self).de.reader.consumed
            ==> final(self).de.reader.consumed - old(self).start_pos > old(self).size,                           // [C03.array.element-within-body-accepted] an element that decodes and stays within the announced body (ending exactly at its end included) is accepted: the overrun guard refuses nothing else
//@@ end
}

impl ListAccess {
//@@ fn file=serde_amqp/src/de.rs impl=`~impl<'de,R:Read<'de>>de::SeqAccess<'de>forListAccess<'_,R>` name=next_element_seed
//@@ generics
//@@ nowhere
//@@ param seed : SeedS
//@@ ret Result<Option<ElemV>, Error>
//@@ subst `seed.deserialize(self.as_mut()).map(Some)` => `seed_deserialize(seed, &mut self.de).map(|v: ElemV| -> (o: Option<ElemV>) ensures o == Some(v) { Some(v) })` rule=R30,R18
//@@ spec
    requires old(self).count > 0 ==> old(self).de.elem_format_code is None,          // (established by deserialize_seq / deserialize_tuple at hand-off, unit READERS [C03.compound.body-own-constructors])
    ensures
        old(self).count == 0 ==> r == Ok::<Option<ElemV>, Error>(None) && final(self).de == old(self).de && final(self).count == 0,
        old(self).count > 0 ==> final(self).count == old(self).count - 1
            && final(self).de.decoded@ == old(self).de.decoded@.push(None)           // [C03.list.every-element-own-constructor] every element of a list is decoded with its own constructor read from the wire
            && final(self).de.elem_format_code is None,
//@@ end
}

impl MapAccess {
//@@ fn file=serde_amqp/src/de.rs impl=`~impl<'de,R:Read<'de>>de::MapAccess<'de>forMapAccess<'_,R>` name=next_key_seed
//@@ generics
//@@ nowhere
//@@ param seed : SeedS
//@@ ret Result<Option<ElemV>, Error>
//@@ subst `seed.deserialize(self.as_mut()).map(Some)` => `seed_deserialize(seed, &mut self.de).map(|v: ElemV| -> (o: Option<ElemV>) ensures o == Some(v) { Some(v) })` rule=R30,R18
//@@ spec
    requires old(self).count > 0 ==> old(self).de.elem_format_code is None,
    ensures
        old(self).count == 0 ==> r == Ok::<Option<ElemV>, Error>(None) && final(self).de == old(self).de && final(self).count == 0,
        old(self).count > 0 ==> final(self).count == old(self).count - 1
            && final(self).de.decoded@ == old(self).de.decoded@.push(None)           // [C03.map.every-entry-own-constructor]
            && final(self).de.elem_format_code is None,
//@@ end

//@@ fn file=serde_amqp/src/de.rs impl=`~impl<'de,R:Read<'de>>de::MapAccess<'de>forMapAccess<'_,R>` name=next_value_seed
//@@ qmark
//@@ generics
//@@ nowhere
//@@ param seed : SeedS
//@@ ret Result<ElemV, Error>
//@@ subst `seed.deserialize(self.as_mut())` => `seed_deserialize(seed, &mut self.de)` rule=R30
//@@ subst `.ok_or(Error::InvalidLength)` => `.ok_or(Error::InvalidLength)` rule=optional
//@@ spec
    requires old(self).de.elem_format_code is None,
    ensures
        old(self).count == 0 ==> r is Err && final(self).de == old(self).de,         // [C04.map.odd-count] a key without a value (odd count) is refused, not underflowed
        old(self).count > 0 ==> final(self).count == old(self).count - 1
            && final(self).de.decoded@ == old(self).de.decoded@.push(None)           // [C03.map.every-entry-own-constructor]
            && final(self).de.elem_format_code is None,
//@@ end

//@@ fn file=serde_amqp/src/de.rs impl=`~impl<'de,R:Read<'de>>de::MapAccess<'de>forMapAccess<'_,R>` name=next_entry_seed
//@@ qmark
//@@ generics
//@@ nowhere
//@@ param kseed : SeedS
//@@ param vseed : SeedS
//@@ ret Result<Option<(ElemV, ElemV)>, Error>
//@@ subst `kseed.deserialize(self.as_mut())` => `seed_deserialize(kseed, &mut self.de)` rule=R30
//@@ subst `vseed.deserialize(self.as_mut())` => `seed_deserialize(vseed, &mut self.de)` rule=R30
//@@ spec
    requires old(self).count > 0 ==> old(self).de.elem_format_code is None,
    ensures
        old(self).count == 0 ==> r == Ok::<Option<(ElemV, ElemV)>, Error>(None) && final(self).de == old(self).de,
        old(self).count == 1 ==> r is Err && final(self).de == old(self).de,         // [C04.map.odd-count]
        old(self).count >= 2 && r is Ok ==> r->Ok_0 is Some && final(self).count == old(self).count - 2
            && final(self).de.decoded@ == old(self).de.decoded@.push(None).push(None)   // [C03.map.every-entry-own-constructor] key and value each with its own constructor
            && final(self).de.elem_format_code is None,
//@@ end
}

//@@ type file=serde_amqp/src/de.rs kind=struct name=DescribedAccess
//@@ subst `DescribedAccess<'a, R>` => `DescribedAccess` rule=R7
//@@ subst `de: &'a mut Deserializer<R>` => `de: Deserializer` rule=R30
//@@ end
impl DescribedAccess {
    pub fn consume_list_header(&mut self) -> (r: Result<u32, Error>) ensures final(self).counter == old(self).counter, final(self).field_count == old(self).field_count { consume_header(&mut self.de) }
    pub fn consume_map_header(&mut self) -> (r: Result<u32, Error>) ensures final(self).counter == old(self).counter, final(self).field_count == old(self).field_count { consume_header(&mut self.de) }

//@@ fn file=serde_amqp/src/de.rs impl=`~impl<'de,R:Read<'de>>de::SeqAccess<'de>forDescribedAccess<'_,R>` name=next_element_seed id=described_next_element_seed
//@@ qmark
//@@ generics
//@@ nowhere
//@@ param seed : SeedS
//@@ ret Result<Option<ElemV>, Error>
//@@ subst `byte.try_into()` => `code_try_from(byte)` rule=R16
//@@ subst `EncodingCodes::DescribedType` => `Code::DescribedType` rule=R11
//@@ subst `seed.deserialize(self.as_mut()).map(Some)` => `seed_deserialize(seed, &mut self.de).map(|v: ElemV| -> (o: Option<ElemV>) ensures o == Some(v) { Some(v) })` rule=R30,R18
//@@ spec
    ensures
        old(self).counter >= old(self).field_count ==> r == Ok::<Option<ElemV>, Error>(None) && final(self).de == old(self).de,   // [C05.composite.trailing-fields-elided] no more fields than the (wire-declared) field count are read
        final(self).field_count >= old(self).field_count,            // [C04.described.field-count-checked] the field count announced on the wire is added with an overflow check (the arithmetic obligation at that addition is what pins D27) [C15.described.field-count-checked]
        r is Ok && r->Ok_0 is Some ==> final(self).counter == old(self).counter + 1,       // [C05.composite.fields-counted-once] every field handed to the visitor is counted exactly once against the field count: the composite's trailing fields are elided at the right place
        old(self).counter != 0 ==> final(self).field_count == old(self).field_count,       // [C05.composite.header-consumed-once] the list header of the composite is consumed with its FIRST element (the descriptor) and never again: a later field is not mistaken for a header
//@@ end

//@@ fn file=serde_amqp/src/de.rs impl=`~impl<'de,R:Read<'de>>de::MapAccess<'de>forDescribedAccess<'_,R>` name=next_key_seed id=described_next_key_seed
//@@ qmark
//@@ generics
//@@ nowhere
//@@ param seed : SeedS
//@@ ret Result<Option<ElemV>, Error>
//@@ subst `byte.try_into()` => `code_try_from(byte)` rule=R16
//@@ subst `EncodingCodes::DescribedType` => `Code::DescribedType` rule=R11
//@@ subst `EncodingCodes::Null` => `Code::Null` rule=R11
//@@ subst `seed.deserialize(self.as_mut()).map(Some)` => `seed_deserialize(seed, &mut self.de).map(|v: ElemV| -> (o: Option<ElemV>) ensures o == Some(v) { Some(v) })` rule=R30,R18
//@@ spec
    ensures
        old(self).counter >= old(self).field_count ==> r == Ok::<Option<ElemV>, Error>(None) && final(self).de == old(self).de,
        final(self).field_count >= old(self).field_count,            // [C04.described.field-count-checked] [C15.described.field-count-checked]
        r is Ok && r->Ok_0 is Some ==> final(self).counter == old(self).counter + 1,       // [C05.composite.fields-counted-once]
        old(self).counter != 0 ==> final(self).field_count == old(self).field_count,       // [C05.composite.header-consumed-once]
//@@ end
}


// ---- size hints (serde pre-allocates `Vec::with_capacity(min(hint, 1 MiB / size_of::<T>()))` from SeqAccess::size_hint / MapAccess::size_hint): the access structs give none today
// (the trait default, None); if one is added it must not promise more elements than there are octets of input left -- every element costs at least one octet except inside
// an array of zero-width elements, whose count deserialize_seq has already bounded by the input (READERS [C04.array.count-bounded-by-input])
impl ArrayAccess {
//@@ fn file=serde_amqp/src/de.rs impl=`~impl<'de,R:Read<'de>>de::SeqAccess<'de>forArrayAccess<'_,R>` name=size_hint optional id=ArrayAccess::size_hint
//@@ ret Option<usize>
//@@ spec
    ensures r is Some ==> r->Some_0 <= self.de.reader.remaining@,       // [C04.alloc.size-hint-bounded-by-input] a count read from the wire is not handed to serde as a pre-allocation hint unless the input still holds that many octets
//@@ end
}
impl ListAccess {
//@@ fn file=serde_amqp/src/de.rs impl=`~impl<'de,R:Read<'de>>de::SeqAccess<'de>forListAccess<'_,R>` name=size_hint optional id=ListAccess::size_hint
//@@ ret Option<usize>
//@@ spec
    ensures r is Some ==> r->Some_0 <= self.de.reader.remaining@,       // [C04.alloc.size-hint-bounded-by-input]
//@@ end
}
impl MapAccess {
//@@ fn file=serde_amqp/src/de.rs impl=`~impl<'de,R:Read<'de>>de::MapAccess<'de>forMapAccess<'_,R>` name=size_hint optional id=MapAccess::size_hint
//@@ ret Option<usize>
//@@ spec
    ensures r is Some ==> r->Some_0 <= self.de.reader.remaining@,       // [C04.alloc.size-hint-bounded-by-input]
//@@ end
}

} // verus!
fn main() {}
