//@@ unit LINKAPI
#![feature(allocator_api)]
#![allow(unused_imports, unused_variables, dead_code, unused_mut, unused_parens)]
use vstd::prelude::*;

verus! {

//@@ trusted the public Sender / Receiver wrappers are verified against stand-ins of the inner endpoints that RECORD the calls they receive (SenderInner::{send_with_state, send_ref_with_state, detach_with_error, close_with_error}, ReceiverInner::{recv, set_credit, detach_with_error, close_with_error}: under contract in units SENDSPLIT, LINKDETACH, RECVLOOP, LINKFLOW); `.await` is kept as a call `.await_s()` (R3b): on a Result it is the identity, on a DeliveryFut it yields what polling that future to completion yields (unit DELIVFUT)
//@@ trusted `impl Into<Sendable<T>>` / `impl Into<definitions::Error>` parameters are taken as already converted (R7); messages, errors, settlements are opaque

macro_rules! opaque {
    ($($n:ident),*) => { verus!{ $(
        #[verifier::external_body]
        pub struct $n { _p: u8 }
    )* } }
}
opaque!(Sendable, AmqpError, DetachError, SendError, Settlement, StopCell, Outcome, DeliveryState, Delivery, RecvError, IllegalLinkStateError);
impl Clone for StopCell { #[verifier::external_body] fn clone(&self) -> (r: Self) ensures r == *self { unimplemented!() } }
pub fn sendable_into(s: Sendable) -> (r: Sendable) ensures r == s { s }
pub fn error_into(e: AmqpError) -> (r: AmqpError) ensures r == e { e }
pub trait AwaitS: Sized { type Out; spec fn resolved(self) -> Self::Out; fn await_s(self) -> (r: Self::Out) ensures r == self.resolved(); }
impl<T, E> AwaitS for Result<T, E> { type Out = Result<T, E>; open spec fn resolved(self) -> Result<T, E> { self } fn await_s(self) -> (r: Result<T, E>) { self } }
pub struct DeliveryFut { pub settlement: Settlement, pub stop: StopCell }
pub uninterp spec fn fut_outcome(f: DeliveryFut) -> Result<Outcome, SendError>;
impl AwaitS for DeliveryFut { type Out = Result<Outcome, SendError>; open spec fn resolved(self) -> Result<Outcome, SendError> { fut_outcome(self) } #[verifier::external_body] fn await_s(self) -> (r: Result<Outcome, SendError>) { unimplemented!() } }
impl DeliveryFut { pub fn new(settlement: Settlement, stop: StopCell) -> (r: Self) ensures r.settlement == settlement, r.stop == stop { DeliveryFut { settlement, stop } } }

pub struct SLink { pub session_stop_reason: StopCell }
pub struct SenderInner { pub link: SLink, pub sends: Ghost<Seq<(Sendable, Option<DeliveryState>, bool)>>, pub detaches: Ghost<Seq<(bool, Option<AmqpError>)>> }
/// what the detach handshake (closing or not, with this error) returns on this endpoint (units LINKDETACH / LINK)
pub uninterp spec fn detach_result(inner: SenderInner, closed: bool, error: Option<AmqpError>) -> Result<(), DetachError>;
pub uninterp spec fn settlement_of(inner: SenderInner, s: Sendable, batchable: bool) -> Result<Settlement, SendError>;
impl SenderInner {
    #[verifier::external_body]
    pub fn send_with_state(&mut self, sendable: Sendable, state: Option<DeliveryState>, batchable: bool) -> (r: Result<Settlement, SendError>)
        ensures final(self).sends@ == old(self).sends@.push((sendable, state, batchable)), final(self).link == old(self).link, final(self).detaches == old(self).detaches,
            r == settlement_of(*old(self), sendable, batchable),
    { unimplemented!() }
    /// send_ref_with_state: the same send, the sendable borrowed (unit SENDINNER)
    #[verifier::external_body]
    pub fn send_ref_with_state(&mut self, sendable: &Sendable, state: Option<DeliveryState>, batchable: bool) -> (r: Result<Settlement, SendError>)
        ensures final(self).sends@ == old(self).sends@.push((*sendable, state, batchable)), final(self).link == old(self).link, final(self).detaches == old(self).detaches,
            r == settlement_of(*old(self), *sendable, batchable),
    { unimplemented!() }
    #[verifier::external_body]
    pub fn detach_with_error(&mut self, error: Option<AmqpError>) -> (r: Result<(), DetachError>)
        ensures final(self).detaches@ == old(self).detaches@.push((false, error)), final(self).sends == old(self).sends, r == detach_result(*old(self), false, error),
    { unimplemented!() }
    #[verifier::external_body]
    pub fn close_with_error(&mut self, error: Option<AmqpError>) -> (r: Result<(), DetachError>)
        ensures final(self).detaches@ == old(self).detaches@.push((true, error)), final(self).sends == old(self).sends, r == detach_result(*old(self), true, error),
    { unimplemented!() }
}
pub struct Sender { pub inner: SenderInner }
pub struct DetachedSender { pub inner: SenderInner }
impl DetachedSender { pub fn new(inner: SenderInner) -> (r: Self) ensures r.inner == inner { DetachedSender { inner } } }

impl Sender {
//@@ fn file=fe2o3-amqp/src/link/sender.rs impl=`impl Sender` name=send
//@@ awaitcall
//@@ generics
//@@ param sendable : Sendable
//@@ subst `.send_with_state::<T, SendError>(sendable.into(), __E1)` => `.send_with_state(sendable_into(sendable), __E1)` rule=R7
//@@ subst `.map(|settlement| { __E1 })` => `.map(|settlement: Settlement| -> (o: DeliveryFut) ensures o.settlement == settlement && o.stop == self.inner.link.session_stop_reason { __E1 })` rule=R18 unless `\.map\(`
//@@ spec
    ensures
        final(self).inner.sends@ == old(self).inner.sends@.push((sendable, None::<DeliveryState>, false)),          // [C02.sender-api.send-sends-once] one delivery, without a preset state
        settlement_of(old(self).inner, sendable, false) is Ok ==> r == fut_outcome(DeliveryFut { settlement: settlement_of(old(self).inner, sendable, false)->Ok_0, stop: old(self).inner.link.session_stop_reason }),   // [C02.sender-api.send-completes-with-its-own-settlement] send() waits for -- and returns the outcome of -- the settlement of THE delivery it has just sent (and reads the link's own stop-reason cell if that settlement never comes: [C14.send.outcome-reports-the-stop-reason])
        settlement_of(old(self).inner, sendable, false) is Err ==> r is Err,
//@@ end

//@@ fn file=fe2o3-amqp/src/link/sender.rs impl=`impl Sender` name=send_batchable
//@@ awaitcall
//@@ generics
//@@ param sendable : Sendable
//@@ ret Result<DeliveryFut, SendError>
//@@ subst `.send_with_state(sendable.into(), __E1)` => `.send_with_state(sendable_into(sendable), __E1)` rule=R7
//@@ subst `.map(|settlement| { __E1 })` => `.map(|settlement: Settlement| -> (o: DeliveryFut) ensures o.settlement == settlement && o.stop == self.inner.link.session_stop_reason { __E1 })` rule=R18 unless `\.map\(`
//@@ spec
    ensures
        final(self).inner.sends@ == old(self).inner.sends@.push((sendable, None::<DeliveryState>, true)),
        r is Ok ==> settlement_of(old(self).inner, sendable, true) is Ok && r->Ok_0.settlement == settlement_of(old(self).inner, sendable, true)->Ok_0
            && r->Ok_0.stop == old(self).inner.link.session_stop_reason,       // [C02.sender-api.batchable-future-is-this-deliverys] the future handed back resolves with this delivery's settlement
//@@ end

//@@ fn file=fe2o3-amqp/src/link/sender.rs impl=`impl Sender` name=send_ref
//@@ awaitcall
//@@ generics
//@@ param sendable : &Sendable
//@@ subst `.send_ref_with_state::<T, SendError>(` => `.send_ref_with_state(` rule=R7
//@@ subst `.map(|settlement| { __E1 })` => `.map(|settlement: Settlement| -> (o: DeliveryFut) ensures o.settlement == settlement && o.stop == self.inner.link.session_stop_reason { __E1 })` rule=R18 unless `\.map\(`
//@@ spec
    ensures
        final(self).inner.sends@ == old(self).inner.sends@.push((*sendable, None::<DeliveryState>, false)),          // [C02.sender-api.send-sends-once] (the borrowed form: the same one delivery, without a preset state, not batchable)
        settlement_of(old(self).inner, *sendable, false) is Ok ==> r == fut_outcome(DeliveryFut { settlement: settlement_of(old(self).inner, *sendable, false)->Ok_0, stop: old(self).inner.link.session_stop_reason }),   // [C02.sender-api.send-completes-with-its-own-settlement]
        settlement_of(old(self).inner, *sendable, false) is Err ==> r is Err,
//@@ end

//@@ fn file=fe2o3-amqp/src/link/sender.rs impl=`impl Sender` name=send_batchable_ref
//@@ awaitcall
//@@ generics
//@@ param sendable : &Sendable
//@@ ret Result<DeliveryFut, SendError>
//@@ subst `.map(|settlement| { __E1 })` => `.map(|settlement: Settlement| -> (o: DeliveryFut) ensures o.settlement == settlement && o.stop == self.inner.link.session_stop_reason { __E1 })` rule=R18 unless `\.map\(`
//@@ spec
    ensures
        final(self).inner.sends@ == old(self).inner.sends@.push((*sendable, None::<DeliveryState>, true)),
        r is Ok ==> settlement_of(old(self).inner, *sendable, true) is Ok && r->Ok_0.settlement == settlement_of(old(self).inner, *sendable, true)->Ok_0
            && r->Ok_0.stop == old(self).inner.link.session_stop_reason,       // [C02.sender-api.batchable-future-is-this-deliverys]
//@@ end

//@@ fn file=fe2o3-amqp/src/link/sender.rs impl=`impl Sender` name=detach_with_error
//@@ awaitcall
//@@ generics
//@@ subst `(mut self,` => `(mut this: Sender,` rule=R2
//@@ subst `self.` => `this.` rule=R2
//@@ param error : AmqpError
//@@ subst `error.into()` => `error_into(error)` rule=R16
//@@ spec
    ensures (r is Ok) == (detach_result(this.inner, false, Some(error)) is Ok),     // [C13.api.detach-with-error-carries-the-error] the non-closing handshake, with THIS error in the detach
        r is Err ==> Err::<(), DetachError>(r->Err_0.1) == detach_result(this.inner, false, Some(error)),   // [C13.api.detach-error-is-the-handshakes]
//@@ end

//@@ fn file=fe2o3-amqp/src/link/sender.rs impl=`impl Sender` name=close
//@@ awaitcall
//@@ subst `(mut self)` => `(mut this: Sender)` rule=R2
//@@ subst `self.` => `this.` rule=R2
//@@ spec
    ensures r == detach_result(this.inner, true, None::<AmqpError>),        // [C13.api.close-is-a-closing-detach] close() performs the CLOSING handshake (detach with closed=true, no error) and returns its result: the peer's answer, or its error
//@@ end

//@@ fn file=fe2o3-amqp/src/link/sender.rs impl=`impl Sender` name=close_with_error
//@@ awaitcall
//@@ generics
//@@ subst `(mut self,` => `(mut this: Sender,` rule=R2
//@@ subst `self.` => `this.` rule=R2
//@@ param error : AmqpError
//@@ subst `error.into()` => `error_into(error)` rule=R16
//@@ spec
    ensures r == detach_result(this.inner, true, Some(error)),              // [C13.api.close-with-error-carries-the-error]
//@@ end

//@@ fn file=fe2o3-amqp/src/link/sender.rs impl=`impl Sender` name=detach
//@@ awaitcall
//@@ subst `(mut self)` => `(mut this: Sender)` rule=R2
//@@ subst `self.` => `this.` rule=R2
//@@ spec
    ensures (r is Ok) == (detach_result(this.inner, false, None::<AmqpError>) is Ok),     // [C13.api.detach-is-a-non-closing-detach] detach() performs the NON-closing handshake and reports whether it completed
        r is Err ==> Err::<(), DetachError>(r->Err_0.1) == detach_result(this.inner, false, None::<AmqpError>),   // [C13.api.detach-error-is-the-handshakes]
//@@ end
}

pub struct ReceiverInner { pub credits: Ghost<Seq<u32>>, pub g: Ghost<int> }
pub uninterp spec fn rdetach_result(inner: ReceiverInner, closed: bool, error: Option<AmqpError>) -> Result<(), DetachError>;
pub uninterp spec fn recv_result(inner: ReceiverInner) -> Result<Delivery, RecvError>;
pub uninterp spec fn set_credit_result(inner: ReceiverInner, credit: u32) -> Result<(), IllegalLinkStateError>;
impl ReceiverInner {
    #[verifier::external_body]
    pub fn recv(&mut self) -> (r: Result<Delivery, RecvError>) ensures r == recv_result(*old(self)), final(self).credits == old(self).credits { unimplemented!() }
    #[verifier::external_body]
    pub fn set_credit(&mut self, credit: u32) -> (r: Result<(), IllegalLinkStateError>)
        ensures r == set_credit_result(*old(self), credit), final(self).credits@ == old(self).credits@.push(credit),
    { unimplemented!() }
    #[verifier::external_body]
    pub fn detach_with_error(&mut self, error: Option<AmqpError>) -> (r: Result<(), DetachError>) ensures r == rdetach_result(*old(self), false, error) { unimplemented!() }
    #[verifier::external_body]
    pub fn close_with_error(&mut self, error: Option<AmqpError>) -> (r: Result<(), DetachError>) ensures r == rdetach_result(*old(self), true, error) { unimplemented!() }
}
/// `From<IllegalLinkStateError> for DetachError` (link/error.rs: the same condition, the same stop reason); opaque here, the conversion uninterpreted
pub uninterp spec fn ills_to_detach(e: IllegalLinkStateError) -> DetachError;
pub trait ErrInto<T>: Sized { spec fn conv(self) -> T; fn err_into(self) -> (r: T) ensures r == self.conv(); }
impl ErrInto<DetachError> for IllegalLinkStateError { open spec fn conv(self) -> DetachError { ills_to_detach(self) } #[verifier::external_body] fn err_into(self) -> (r: DetachError) { unimplemented!() } }
pub struct Receiver { pub inner: ReceiverInner }
pub struct DetachedReceiver { pub inner: ReceiverInner }
impl Receiver {
//@@ fn file=fe2o3-amqp/src/link/receiver.rs impl=`impl Receiver` name=recv
//@@ awaitcall
//@@ generics
//@@ nowhere
//@@ ret Result<Delivery, RecvError>
//@@ spec
    ensures r == recv_result(old(self).inner),          // [C01.api.recv-hands-out-the-links-delivery] what recv() returns is what the link endpoint's receive loop produced, unchanged
//@@ end

//@@ fn file=fe2o3-amqp/src/link/receiver.rs impl=`impl Receiver` name=set_credit
//@@ awaitcall
//@@ param credit : u32
//@@ spec
    ensures final(self).inner.credits@ == old(self).inner.credits@.push(credit), r == set_credit_result(old(self).inner, credit),     // [C09.api.set-credit-as-asked]
//@@ end

//@@ fn file=fe2o3-amqp/src/link/receiver.rs impl=`impl Receiver` name=close
//@@ awaitcall
//@@ subst `(mut self)` => `(mut this: Receiver)` rule=R2
//@@ subst `self.` => `this.` rule=R2
//@@ spec
    ensures r == rdetach_result(this.inner, true, None::<AmqpError>),        // [C13.api.close-is-a-closing-detach] (receiver)
//@@ end

//@@ fn file=fe2o3-amqp/src/link/receiver.rs impl=`impl Receiver` name=close_with_error
//@@ awaitcall
//@@ qmark
//@@ generics
//@@ subst `(mut self,` => `(mut this: Receiver,` rule=R2
//@@ subst `self.` => `this.` rule=R2
//@@ param error : AmqpError
//@@ subst `error.into()` => `error_into(error)` rule=R16
//@@ spec
    ensures
        set_credit_result(this.inner, 0) is Err ==> r == Err::<(), DetachError>(ills_to_detach(set_credit_result(this.inner, 0)->Err_0)),       // [C13.api.close-with-error-definite-failure] when the flow that takes the credit back cannot be written the link is gone already: the caller gets that failure (with the session's stop reason), no closing handshake is attempted
        set_credit_result(this.inner, 0) is Ok ==> exists|mid: ReceiverInner| mid.credits@ == this.inner.credits@.push(0u32) && r == #[trigger] rdetach_result(mid, true, Some(error)),       // [C13.api.close-with-error-carries-the-error] (receiver) the credit is taken back first (no transfer is invited into a link that is closing), then the CLOSING handshake carries this error
//@@ end

//@@ fn file=fe2o3-amqp/src/link/receiver.rs impl=`impl Receiver` name=detach
//@@ awaitcall
//@@ subst `(mut self)` => `(mut this: Receiver)` rule=R2
//@@ subst `self.` => `this.` rule=R2
//@@ spec
    ensures (r is Ok) == (rdetach_result(this.inner, false, None::<AmqpError>) is Ok),     // [C13.api.detach-is-a-non-closing-detach] (receiver)
        r is Err ==> Err::<(), DetachError>(r->Err_0.1) == rdetach_result(this.inner, false, None::<AmqpError>),
//@@ end

//@@ fn file=fe2o3-amqp/src/link/receiver.rs impl=`impl Receiver` name=detach_with_error
//@@ awaitcall
//@@ generics
//@@ subst `(mut self,` => `(mut this: Receiver,` rule=R2
//@@ subst `self.` => `this.` rule=R2
//@@ param error : AmqpError
//@@ subst `error.into()` => `error_into(error)` rule=R16
//@@ spec
    ensures (r is Ok) == (rdetach_result(this.inner, false, Some(error)) is Ok),     // [C13.api.detach-with-error-carries-the-error] (receiver)
        r is Err ==> Err::<(), DetachError>(r->Err_0.1) == rdetach_result(this.inner, false, Some(error)),
//@@ end
}

} // verus!
fn main() {}
