//@@ unit NEWTYPES
#![feature(allocator_api)]
#![allow(unused_imports, unused_variables, dead_code, unused_mut, unused_parens)]
use vstd::prelude::*;

verus! {

//@@ trusted written by tools/mknewtypes.py from a table. serde's Serializer / Deserializer (serde_amqp's: units SERENTRY / DEENTRY, which dispatch on the name) are stand-ins that record the NAME a type announces itself with; the payload handed over (`&self.0`, `Bytes::new(&self.0)`) and the visitor are opaque; the name constants are extracted from serde_amqp/src/constants.rs with their distinctness lemma (R38)
//@@ strconsts file=serde_amqp/src/constants.rs names=ARRAY,DECIMAL32,DECIMAL64,DECIMAL128,SYMBOL,SYMBOL_REF,TIMESTAMP,UUID,TRANSPARENT_VEC,LAZY_VALUE lemma=lemma_names_distinct label=`[C03.constants.newtype-names-distinct] [C05.constants.newtype-names-distinct] the names are pairwise different strings`
pub struct ErrS { pub k: u8 }
/// what a serializer was asked: the name announced
pub struct SerOk { pub announced: Ghost<Seq<char>> }
pub struct SerS { pub p: u8 }
#[verifier::external_body] pub struct PayloadS { _p: u8 }
impl SerS {
    #[verifier::external_body]
    pub fn serialize_newtype_struct(self, name: &'static str, value: PayloadS) -> (r: Result<SerOk, ErrS>) ensures r is Ok ==> r->Ok_0.announced@ == name@ { unimplemented!() }
}
pub struct DeS<'a> { pub log: &'a mut Ghost<Seq<Seq<char>>> }
pub struct VisS {}
impl<'a> DeS<'a> {
    #[verifier::external_body]
    pub fn deserialize_newtype_struct<T>(self, name: &'static str, visitor: VisS) -> (r: Result<T, ErrS>) ensures (*final(self.log))@ == (*old(self.log))@.push(name@) { unimplemented!() }
}

// ================================================================ Symbol (serde_amqp/src/primitives/symbol.rs)
pub mod m_symbol {
use super::*;
pub struct Symbol { pub p: u8 }
impl Symbol {
//@@ fn file=serde_amqp/src/primitives/symbol.rs impl=`impl Serialize for Symbol` name=serialize id=Symbol::serialize
//@@ generics
//@@ nowhere
//@@ param serializer : SerS
//@@ ret Result<SerOk, ErrS>
//@@ subst `serializer.serialize_newtype_struct(__E1, __E2)` => `serializer.serialize_newtype_struct(__E1, payload_of(self))` rule=R9
//@@ spec
    ensures r is Ok ==> r->Ok_0.announced@ == SYMBOL@,       // [C03.newtype.own-name-written] [C05.newtype.own-name-written] a Symbol announces itself to the serializer under ITS name (and under no other type's): the serializer then writes it with the constructor of that type (unit SERENTRY)
//@@ end
}
#[verifier::external_body] pub fn payload_of(x: &Symbol) -> (r: PayloadS) { unimplemented!() }
impl Symbol {
//@@ fn file=serde_amqp/src/primitives/symbol.rs impl=`impl<'de> de::Deserialize<'de> for Symbol` name=deserialize id=Symbol::deserialize
//@@ generics <'a>
//@@ nowhere
//@@ param deserializer : DeS<'a>
//@@ ret Result<Symbol, ErrS>
//@@ subst `deserializer.deserialize_newtype_struct(__E1, __E2)` => `deserializer.deserialize_newtype_struct(__E1, VisS {})` rule=R9
//@@ spec
    ensures (*final(deserializer.log))@ == (*old(deserializer.log))@.push(SYMBOL@),       // [C03.newtype.own-name-read] [C05.newtype.own-name-read] and asks the deserializer for a value under the SAME name: the deserializer reads it with the decoder of that type (unit DEENTRY)
//@@ end
}
} // mod

// ================================================================ SymbolRef (serde_amqp/src/primitives/symbol.rs)
pub mod m_symbol_ref {
use super::*;
pub struct SymbolRef { pub p: u8 }
impl SymbolRef {
//@@ fn file=serde_amqp/src/primitives/symbol.rs impl=`impl Serialize for SymbolRef<'_>` name=serialize id=SymbolRef::serialize
//@@ generics
//@@ nowhere
//@@ param serializer : SerS
//@@ ret Result<SerOk, ErrS>
//@@ subst `serializer.serialize_newtype_struct(__E1, __E2)` => `serializer.serialize_newtype_struct(__E1, payload_of(self))` rule=R9
//@@ spec
    ensures r is Ok ==> r->Ok_0.announced@ == SYMBOL_REF@,       // [C03.newtype.own-name-written] [C05.newtype.own-name-written] a SymbolRef announces itself to the serializer under ITS name (and under no other type's): the serializer then writes it with the constructor of that type (unit SERENTRY)
//@@ end
}
#[verifier::external_body] pub fn payload_of(x: &SymbolRef) -> (r: PayloadS) { unimplemented!() }
impl SymbolRef {
//@@ fn file=serde_amqp/src/primitives/symbol.rs impl=`impl<'de> de::Deserialize<'de> for SymbolRef<'de>` name=deserialize id=SymbolRef::deserialize
//@@ generics <'a>
//@@ nowhere
//@@ param deserializer : DeS<'a>
//@@ ret Result<SymbolRef, ErrS>
//@@ subst `deserializer.deserialize_newtype_struct(__E1, __E2)` => `deserializer.deserialize_newtype_struct(__E1, VisS {})` rule=R9
//@@ spec
    ensures (*final(deserializer.log))@ == (*old(deserializer.log))@.push(SYMBOL_REF@),       // [C03.newtype.own-name-read] [C05.newtype.own-name-read] and asks the deserializer for a value under the SAME name: the deserializer reads it with the decoder of that type (unit DEENTRY)
//@@ end
}
} // mod

// ================================================================ Array (serde_amqp/src/primitives/array.rs)
pub mod m_array {
use super::*;
pub struct Array { pub p: u8 }
impl Array {
//@@ fn file=serde_amqp/src/primitives/array.rs impl=`impl<T: ser::Serialize> ser::Serialize for Array<T>` name=serialize id=Array::serialize
//@@ generics
//@@ nowhere
//@@ param serializer : SerS
//@@ ret Result<SerOk, ErrS>
//@@ subst `serializer.serialize_newtype_struct(__E1, __E2)` => `serializer.serialize_newtype_struct(__E1, payload_of(self))` rule=R9
//@@ spec
    ensures r is Ok ==> r->Ok_0.announced@ == ARRAY@,       // [C03.newtype.own-name-written] [C05.newtype.own-name-written] a Array announces itself to the serializer under ITS name (and under no other type's): the serializer then writes it with the constructor of that type (unit SERENTRY)
//@@ end
}
#[verifier::external_body] pub fn payload_of(x: &Array) -> (r: PayloadS) { unimplemented!() }
} // mod

// ================================================================ Timestamp (serde_amqp/src/primitives/timestamp.rs)
pub mod m_timestamp {
use super::*;
pub struct Timestamp { pub p: u8 }
impl Timestamp {
//@@ fn file=serde_amqp/src/primitives/timestamp.rs impl=`impl ser::Serialize for Timestamp` name=serialize id=Timestamp::serialize
//@@ generics
//@@ nowhere
//@@ param serializer : SerS
//@@ ret Result<SerOk, ErrS>
//@@ subst `serializer.serialize_newtype_struct(__E1, __E2)` => `serializer.serialize_newtype_struct(__E1, payload_of(self))` rule=R9
//@@ spec
    ensures r is Ok ==> r->Ok_0.announced@ == TIMESTAMP@,       // [C03.newtype.own-name-written] [C05.newtype.own-name-written] a Timestamp announces itself to the serializer under ITS name (and under no other type's): the serializer then writes it with the constructor of that type (unit SERENTRY)
//@@ end
}
#[verifier::external_body] pub fn payload_of(x: &Timestamp) -> (r: PayloadS) { unimplemented!() }
impl Timestamp {
//@@ fn file=serde_amqp/src/primitives/timestamp.rs impl=`impl<'de> de::Deserialize<'de> for Timestamp` name=deserialize id=Timestamp::deserialize
//@@ generics <'a>
//@@ nowhere
//@@ param deserializer : DeS<'a>
//@@ ret Result<Timestamp, ErrS>
//@@ subst `deserializer.deserialize_newtype_struct(__E1, __E2)` => `deserializer.deserialize_newtype_struct(__E1, VisS {})` rule=R9
//@@ spec
    ensures (*final(deserializer.log))@ == (*old(deserializer.log))@.push(TIMESTAMP@),       // [C03.newtype.own-name-read] [C05.newtype.own-name-read] and asks the deserializer for a value under the SAME name: the deserializer reads it with the decoder of that type (unit DEENTRY)
//@@ end
}
} // mod

// ================================================================ Uuid (serde_amqp/src/primitives/uuid.rs)
pub mod m_uuid {
use super::*;
pub struct Uuid { pub p: u8 }
impl Uuid {
//@@ fn file=serde_amqp/src/primitives/uuid.rs impl=`impl ser::Serialize for Uuid` name=serialize id=Uuid::serialize
//@@ generics
//@@ nowhere
//@@ param serializer : SerS
//@@ ret Result<SerOk, ErrS>
//@@ subst `serializer.serialize_newtype_struct(__E1, __E2)` => `serializer.serialize_newtype_struct(__E1, payload_of(self))` rule=R9
//@@ spec
    ensures r is Ok ==> r->Ok_0.announced@ == UUID@,       // [C03.newtype.own-name-written] [C05.newtype.own-name-written] a Uuid announces itself to the serializer under ITS name (and under no other type's): the serializer then writes it with the constructor of that type (unit SERENTRY)
//@@ end
}
#[verifier::external_body] pub fn payload_of(x: &Uuid) -> (r: PayloadS) { unimplemented!() }
impl Uuid {
//@@ fn file=serde_amqp/src/primitives/uuid.rs impl=`impl<'de> de::Deserialize<'de> for Uuid` name=deserialize id=Uuid::deserialize
//@@ generics <'a>
//@@ nowhere
//@@ param deserializer : DeS<'a>
//@@ ret Result<Uuid, ErrS>
//@@ subst `deserializer.deserialize_newtype_struct(__E1, __E2)` => `deserializer.deserialize_newtype_struct(__E1, VisS {})` rule=R9
//@@ spec
    ensures (*final(deserializer.log))@ == (*old(deserializer.log))@.push(UUID@),       // [C03.newtype.own-name-read] [C05.newtype.own-name-read] and asks the deserializer for a value under the SAME name: the deserializer reads it with the decoder of that type (unit DEENTRY)
//@@ end
}
} // mod

// ================================================================ Dec32 (serde_amqp/src/primitives/decimal.rs)
pub mod m_dec32 {
use super::*;
pub struct Dec32 { pub p: u8 }
impl Dec32 {
//@@ fn file=serde_amqp/src/primitives/decimal.rs impl=`impl ser::Serialize for Dec32` name=serialize id=Dec32::serialize
//@@ generics
//@@ nowhere
//@@ param serializer : SerS
//@@ ret Result<SerOk, ErrS>
//@@ subst `serializer.serialize_newtype_struct(__E1, __E2)` => `serializer.serialize_newtype_struct(__E1, payload_of(self))` rule=R9
//@@ spec
    ensures r is Ok ==> r->Ok_0.announced@ == DECIMAL32@,       // [C03.newtype.own-name-written] [C05.newtype.own-name-written] a Dec32 announces itself to the serializer under ITS name (and under no other type's): the serializer then writes it with the constructor of that type (unit SERENTRY)
//@@ end
}
#[verifier::external_body] pub fn payload_of(x: &Dec32) -> (r: PayloadS) { unimplemented!() }
impl Dec32 {
//@@ fn file=serde_amqp/src/primitives/decimal.rs impl=`impl<'de> de::Deserialize<'de> for Dec32` name=deserialize id=Dec32::deserialize
//@@ generics <'a>
//@@ nowhere
//@@ param deserializer : DeS<'a>
//@@ ret Result<Dec32, ErrS>
//@@ subst `deserializer.deserialize_newtype_struct(__E1, __E2)` => `deserializer.deserialize_newtype_struct(__E1, VisS {})` rule=R9
//@@ spec
    ensures (*final(deserializer.log))@ == (*old(deserializer.log))@.push(DECIMAL32@),       // [C03.newtype.own-name-read] [C05.newtype.own-name-read] and asks the deserializer for a value under the SAME name: the deserializer reads it with the decoder of that type (unit DEENTRY)
//@@ end
}
} // mod

// ================================================================ Dec64 (serde_amqp/src/primitives/decimal.rs)
pub mod m_dec64 {
use super::*;
pub struct Dec64 { pub p: u8 }
impl Dec64 {
//@@ fn file=serde_amqp/src/primitives/decimal.rs impl=`impl ser::Serialize for Dec64` name=serialize id=Dec64::serialize
//@@ generics
//@@ nowhere
//@@ param serializer : SerS
//@@ ret Result<SerOk, ErrS>
//@@ subst `serializer.serialize_newtype_struct(__E1, __E2)` => `serializer.serialize_newtype_struct(__E1, payload_of(self))` rule=R9
//@@ spec
    ensures r is Ok ==> r->Ok_0.announced@ == DECIMAL64@,       // [C03.newtype.own-name-written] [C05.newtype.own-name-written] a Dec64 announces itself to the serializer under ITS name (and under no other type's): the serializer then writes it with the constructor of that type (unit SERENTRY)
//@@ end
}
#[verifier::external_body] pub fn payload_of(x: &Dec64) -> (r: PayloadS) { unimplemented!() }
impl Dec64 {
//@@ fn file=serde_amqp/src/primitives/decimal.rs impl=`impl<'de> de::Deserialize<'de> for Dec64` name=deserialize id=Dec64::deserialize
//@@ generics <'a>
//@@ nowhere
//@@ param deserializer : DeS<'a>
//@@ ret Result<Dec64, ErrS>
//@@ subst `deserializer.deserialize_newtype_struct(__E1, __E2)` => `deserializer.deserialize_newtype_struct(__E1, VisS {})` rule=R9
//@@ spec
    ensures (*final(deserializer.log))@ == (*old(deserializer.log))@.push(DECIMAL64@),       // [C03.newtype.own-name-read] [C05.newtype.own-name-read] and asks the deserializer for a value under the SAME name: the deserializer reads it with the decoder of that type (unit DEENTRY)
//@@ end
}
} // mod

// ================================================================ Dec128 (serde_amqp/src/primitives/decimal.rs)
pub mod m_dec128 {
use super::*;
pub struct Dec128 { pub p: u8 }
impl Dec128 {
//@@ fn file=serde_amqp/src/primitives/decimal.rs impl=`impl ser::Serialize for Dec128` name=serialize id=Dec128::serialize
//@@ generics
//@@ nowhere
//@@ param serializer : SerS
//@@ ret Result<SerOk, ErrS>
//@@ subst `serializer.serialize_newtype_struct(__E1, __E2)` => `serializer.serialize_newtype_struct(__E1, payload_of(self))` rule=R9
//@@ spec
    ensures r is Ok ==> r->Ok_0.announced@ == DECIMAL128@,       // [C03.newtype.own-name-written] [C05.newtype.own-name-written] a Dec128 announces itself to the serializer under ITS name (and under no other type's): the serializer then writes it with the constructor of that type (unit SERENTRY)
//@@ end
}
#[verifier::external_body] pub fn payload_of(x: &Dec128) -> (r: PayloadS) { unimplemented!() }
impl Dec128 {
//@@ fn file=serde_amqp/src/primitives/decimal.rs impl=`impl<'de> de::Deserialize<'de> for Dec128` name=deserialize id=Dec128::deserialize
//@@ generics <'a>
//@@ nowhere
//@@ param deserializer : DeS<'a>
//@@ ret Result<Dec128, ErrS>
//@@ subst `deserializer.deserialize_newtype_struct(__E1, __E2)` => `deserializer.deserialize_newtype_struct(__E1, VisS {})` rule=R9
//@@ spec
    ensures (*final(deserializer.log))@ == (*old(deserializer.log))@.push(DECIMAL128@),       // [C03.newtype.own-name-read] [C05.newtype.own-name-read] and asks the deserializer for a value under the SAME name: the deserializer reads it with the decoder of that type (unit DEENTRY)
//@@ end
}
} // mod

// ================================================================ LazyValue (serde_amqp/src/lazy.rs)
pub mod m_lazy_value {
use super::*;
pub struct LazyValue { pub p: u8 }
impl LazyValue {
//@@ fn file=serde_amqp/src/lazy.rs impl=`impl Serialize for LazyValue` name=serialize id=LazyValue::serialize
//@@ generics
//@@ nowhere
//@@ param serializer : SerS
//@@ ret Result<SerOk, ErrS>
//@@ subst `serializer.serialize_newtype_struct(__E1, __E2)` => `serializer.serialize_newtype_struct(__E1, payload_of(self))` rule=R9
//@@ spec
    ensures r is Ok ==> r->Ok_0.announced@ == LAZY_VALUE@,       // [C03.newtype.own-name-written] [C05.newtype.own-name-written] a LazyValue announces itself to the serializer under ITS name (and under no other type's): the serializer then writes it with the constructor of that type (unit SERENTRY)
//@@ end
}
#[verifier::external_body] pub fn payload_of(x: &LazyValue) -> (r: PayloadS) { unimplemented!() }
impl LazyValue {
//@@ fn file=serde_amqp/src/lazy.rs impl=`impl<'de> Deserialize<'de> for LazyValue` name=deserialize id=LazyValue::deserialize
//@@ generics <'a>
//@@ nowhere
//@@ param deserializer : DeS<'a>
//@@ ret Result<LazyValue, ErrS>
//@@ subst `deserializer.deserialize_newtype_struct(__E1, __E2)` => `deserializer.deserialize_newtype_struct(__E1, VisS {})` rule=R9
//@@ spec
    ensures (*final(deserializer.log))@ == (*old(deserializer.log))@.push(LAZY_VALUE@),       // [C03.newtype.own-name-read] [C05.newtype.own-name-read] and asks the deserializer for a value under the SAME name: the deserializer reads it with the decoder of that type (unit DEENTRY)
//@@ end
}
} // mod

// ================================================================ TransparentVec (serde_amqp/src/extensions/transparent_vec.rs)
pub mod m_transparent_vec {
use super::*;
pub struct TransparentVec { pub p: u8 }
impl TransparentVec {
//@@ fn file=serde_amqp/src/extensions/transparent_vec.rs impl=`~impl<T>SerializeforTransparentVec<T>whereT:Serialize` name=serialize id=TransparentVec::serialize
//@@ generics
//@@ nowhere
//@@ param serializer : SerS
//@@ ret Result<SerOk, ErrS>
//@@ subst `serializer.serialize_newtype_struct(__E1, __E2)` => `serializer.serialize_newtype_struct(__E1, payload_of(self))` rule=R9
//@@ spec
    ensures r is Ok ==> r->Ok_0.announced@ == TRANSPARENT_VEC@,       // [C03.newtype.own-name-written] [C05.newtype.own-name-written] a TransparentVec announces itself to the serializer under ITS name (and under no other type's): the serializer then writes it with the constructor of that type (unit SERENTRY)
//@@ end
}
#[verifier::external_body] pub fn payload_of(x: &TransparentVec) -> (r: PayloadS) { unimplemented!() }
} // mod

} // verus!
fn main() {}
