//@@ unit FRAMEENC
//@@ gsubst `serde_amqp::Error` => `SerError` rule=R11
#![feature(allocator_api)]
#![allow(unused_imports, unused_variables, dead_code, unused_mut, unused_parens)]
use vstd::prelude::*;

verus! {

//@@ include common.rs
//@@ trusted bytes::BytesMut / bytes::Bytes stand-ins: byte sequences with new/len/clear/put_u8/put_u16(big-endian)/put/split_to/freeze/writer
//@@ trusted Transfer::serialize (serde derive + serde_amqp::Serializer) appends enc(t), an uninterpreted function of the performative's fields, or fails
//@@ trusted AXIOM enc_more_monotone: |enc(t[more:=false])| <= |enc(t[more:=true])| (default-valued trailing field elision); checked bounded on the real serializer by Kani harness `transfer_more_len`
//@@ trusted leaf stand-ins: DeliveryTag, DeliveryState, ReceiverSettleMode opaque; Handle one-field newtype

pub type DeliveryNumber = u32;
pub type MessageFormat = u32;
pub type Boolean = bool;

macro_rules! opaque {
    ($($n:ident),*) => { verus!{ $(
        #[verifier::external_body]
        pub struct $n { _p: u8 }
    )* } }
}
opaque!(DeliveryTag, DeliveryState, ReceiverSettleMode, SerOther);
/// serde_amqp::Error reduced to the variant the encoder constructs itself (R11)
pub enum SerError { InvalidLength, Other(SerOther) }
pub struct Handle(pub u32);

//@@ type file=fe2o3-amqp-types/src/performatives/transfer.rs kind=struct name=Transfer
//@@ end

//@@ type file=fe2o3-amqp/src/frames/mod.rs kind=const name=FRAME_TYPE_AMQP
//@@ end

// ---- bytes stand-ins -------------------------------------------------------------------------
pub trait BufSrc: Sized {
    spec fn bytes(&self) -> Seq<u8>;
}

#[verifier::external_body]
pub struct BytesMut { v: Vec<u8> }
impl View for BytesMut { type V = Seq<u8>; uninterp spec fn view(&self) -> Seq<u8>; }
#[verifier::external_body]
pub struct Bytes { v: Vec<u8> }
impl View for Bytes { type V = Seq<u8>; uninterp spec fn view(&self) -> Seq<u8>; }
pub type Payload = Bytes;

impl BufSrc for BytesMut { open spec fn bytes(&self) -> Seq<u8> { self@ } }
impl BufSrc for Bytes { open spec fn bytes(&self) -> Seq<u8> { self@ } }
impl<'a> BufSrc for &'a [u8] { open spec fn bytes(&self) -> Seq<u8> { self@ } }

pub struct Writer<'a> { pub buf: &'a mut BytesMut }
pub struct Serializer<'a> { pub writer: Writer<'a> }
impl<'a> Serializer<'a> {
    pub fn from(writer: Writer<'a>) -> (r: Self) ensures r.writer == writer { Serializer { writer } }
}

impl BytesMut {
    #[verifier::external_body]
    pub fn new() -> (r: Self) ensures r@ == Seq::<u8>::empty() { unimplemented!() }
    #[verifier::external_body]
    pub fn len(&self) -> (r: usize) ensures r == self@.len(), r <= isize::MAX as usize { unimplemented!() }
    #[verifier::external_body]
    pub fn clear(&mut self) ensures final(self)@ == Seq::<u8>::empty() { unimplemented!() }
    #[verifier::external_body]
    pub fn put_u8(&mut self, x: u8) ensures final(self)@ == old(self)@.push(x) { unimplemented!() }
    #[verifier::external_body]
    pub fn put_u16(&mut self, x: u16) ensures final(self)@ == old(self)@.push((x >> 8) as u8).push((x & 0xff) as u8) { unimplemented!() }
    #[verifier::external_body]
    pub fn put<B: BufSrc>(&mut self, b: B) ensures final(self)@ == old(self)@ + b.bytes() { unimplemented!() }
    #[verifier::external_body]
    pub fn as_slice(&self) -> (r: &[u8]) ensures r@ == self@ { unimplemented!() }
    #[verifier::external_body]
    pub fn split_to(&mut self, n: usize) -> (r: BytesMut)
        requires n <= old(self)@.len(),     // bytes::BytesMut::split_to panics otherwise
        ensures r@ == old(self)@.take(n as int), final(self)@ == old(self)@.skip(n as int),
    { unimplemented!() }
    #[verifier::external_body]
    pub fn freeze(self) -> (r: Bytes) ensures r@ == self@ { unimplemented!() }
    #[verifier::external_body]
    pub fn writer(&mut self) -> (w: Writer<'_>)
        ensures w.buf@ == old(self)@, final(self)@ == final(w.buf)@,
    { unimplemented!() }
}
impl Bytes {
    #[verifier::external_body]
    pub fn len(&self) -> (r: usize) ensures r == self@.len(), r <= isize::MAX as usize { unimplemented!() }
    #[verifier::external_body]
    pub fn split_to(&mut self, n: usize) -> (r: Bytes)
        requires n <= old(self)@.len(),     // bytes::Bytes::split_to panics otherwise
        ensures r@ == old(self)@.take(n as int), final(self)@ == old(self)@.skip(n as int),
    { unimplemented!() }
}

/// wire encoding of a transfer performative (serde_amqp derive output): a function of its fields only
pub uninterp spec fn enc(t: Transfer) -> Seq<u8>;

#[verifier::external_body]
pub broadcast proof fn enc_more_monotone(t: Transfer)
    ensures #[trigger] enc(Transfer { more: false, ..t }).len() <= enc(Transfer { more: true, ..t }).len(),
{}

impl Transfer {
    #[verifier::external_body]
    pub fn serialize<'a>(&self, s: &mut Serializer<'a>) -> (r: Result<(), SerError>)
        ensures
            r is Ok ==> final(s).writer.buf@ == old(s).writer.buf@ + enc(*self),
            *final(final(s).writer.buf) == *final(old(s).writer.buf),
    { unimplemented!() }
}

// ---- specification of the frame splitter ---------------------------------------------------
pub open spec fn header(ch: u16) -> Seq<u8> {
    seq![2u8, FRAME_TYPE_AMQP, (ch >> 8) as u8, (ch & 0xff) as u8]
}
pub open spec fn frame(ch: u16, f: (Transfer, Seq<u8>)) -> Seq<u8> {
    header(ch) + enc(f.0) + f.1
}
pub open spec fn flatten(ch: u16, fs: Seq<(Transfer, Seq<u8>)>) -> Seq<u8>
    decreases fs.len()
{
    if fs.len() == 0 { Seq::empty() } else { frame(ch, fs[0]) + flatten(ch, fs.skip(1)) }
}
pub open spec fn payloads(fs: Seq<(Transfer, Seq<u8>)>) -> Seq<u8>
    decreases fs.len()
{
    if fs.len() == 0 { Seq::empty() } else { fs[0].1 + payloads(fs.skip(1)) }
}

/// continuation frames: as long as performative + rest exceeds the frame body, cut k bytes
pub open spec fn mids(tm: Transfer, p: Seq<u8>, k: int, max: int) -> Seq<(Transfer, Seq<u8>)>
    decreases p.len()
{
    if 0 < k <= p.len() && enc(tm).len() + p.len() > max { seq![(tm, p.take(k))] + mids(tm, p.skip(k), k, max) } else { Seq::empty() }
}
pub open spec fn rest_after_mids(tm: Transfer, p: Seq<u8>, k: int, max: int) -> Seq<u8>
    decreases p.len()
{
    if 0 < k <= p.len() && enc(tm).len() + p.len() > max { rest_after_mids(tm, p.skip(k), k, max) } else { p }
}
pub open spec fn t_first(t: Transfer) -> Transfer { Transfer { more: true, ..t } }
pub open spec fn t_mid(t: Transfer) -> Transfer {
    Transfer { delivery_id: None, delivery_tag: None, message_format: None, settled: None, rcv_settle_mode: None, ..t_first(t) }
}
pub open spec fn t_last(t: Transfer) -> Transfer { Transfer { more: t.more, ..t_mid(t) } }

/// the frames encode_transfer must produce for (t, p) with frame-body limit max
pub open spec fn expected(max: int, t: Transfer, p: Seq<u8>) -> Seq<(Transfer, Seq<u8>)> {
    if enc(t).len() + p.len() > max {
        let k1 = max - enc(t_first(t)).len();
        let km = max - enc(t_mid(t)).len();
        let p1 = p.skip(k1);
        seq![(t_first(t), p.take(k1))] + mids(t_mid(t), p1, km, max) + seq![(t_last(t), rest_after_mids(t_mid(t), p1, km, max))]
    } else {
        seq![(t, p)]
    }
}

/// precondition under which the splitter is specified: the performative alone (in each of its three forms) is
/// smaller than the frame body, so every frame makes progress
pub open spec fn fits(max: int, t: Transfer) -> bool {
    enc(t_first(t)).len() <= max && enc(t_mid(t)).len() < max
}

pub proof fn lemma_flatten_append(ch: u16, a: Seq<(Transfer, Seq<u8>)>, b: Seq<(Transfer, Seq<u8>)>)
    ensures flatten(ch, a + b) =~= flatten(ch, a) + flatten(ch, b),
    decreases a.len(),
{
    if a.len() == 0 {
        assert(a + b =~= b);
    } else {
        assert((a + b).skip(1) =~= a.skip(1) + b);
        assert((a + b)[0] == a[0]);
        lemma_flatten_append(ch, a.skip(1), b);
    }
}
pub proof fn lemma_payloads_append(a: Seq<(Transfer, Seq<u8>)>, b: Seq<(Transfer, Seq<u8>)>)
    ensures payloads(a + b) =~= payloads(a) + payloads(b),
    decreases a.len(),
{
    if a.len() == 0 {
        assert(a + b =~= b);
    } else {
        assert((a + b).skip(1) =~= a.skip(1) + b);
        assert((a + b)[0] == a[0]);
        lemma_payloads_append(a.skip(1), b);
    }
}
pub proof fn lemma_flatten_one(ch: u16, f: (Transfer, Seq<u8>))
    ensures flatten(ch, seq![f]) =~= frame(ch, f),
{
    assert(seq![f].skip(1) =~= Seq::<(Transfer, Seq<u8>)>::empty());
    assert(flatten(ch, seq![f].skip(1)) =~= Seq::<u8>::empty());
}

pub proof fn lemma_payloads_one(f: (Transfer, Seq<u8>))
    ensures payloads(seq![f]) =~= f.1,
{
    assert(seq![f].skip(1) =~= Seq::<(Transfer, Seq<u8>)>::empty());
    assert(payloads(seq![f].skip(1)) =~= Seq::<u8>::empty());
}

// ---- property-level lemmas over `expected` (C06 a-e, C01, C11) -------------------------------

/// (c) the payload chunks of the continuation frames plus the rest concatenate to the input
pub proof fn lemma_mids_payload(tm: Transfer, p: Seq<u8>, k: int, max: int)
    ensures payloads(mids(tm, p, k, max)) + rest_after_mids(tm, p, k, max) =~= p,
    decreases p.len(),
{
    if 0 < k <= p.len() && enc(tm).len() + p.len() > max {
        lemma_mids_payload(tm, p.skip(k), k, max);
        let m = mids(tm, p.skip(k), k, max);
        lemma_payloads_append(seq![(tm, p.take(k))], m);
        lemma_payloads_one((tm, p.take(k)));
        assert(p.take(k) + p.skip(k) =~= p);
    }
}

/// (a)(b) every continuation frame body is exactly max; the rest fits in one frame body
pub proof fn lemma_mids_sizes(tm: Transfer, p: Seq<u8>, k: int, max: int)
    requires k == max - enc(tm).len(), k > 0,
    ensures
        forall|i: int| 0 <= i < mids(tm, p, k, max).len() ==>
            enc(#[trigger] mids(tm, p, k, max)[i].0).len() + mids(tm, p, k, max)[i].1.len() == max && mids(tm, p, k, max)[i].0 == tm,
        enc(tm).len() + rest_after_mids(tm, p, k, max).len() <= max,
    decreases p.len(),
{
    if 0 < k <= p.len() && enc(tm).len() + p.len() > max {
        lemma_mids_sizes(tm, p.skip(k), k, max);
        let m = mids(tm, p.skip(k), k, max);
        let all = seq![(tm, p.take(k))] + m;
        assert forall|i: int| 0 <= i < all.len() implies enc(#[trigger] all[i].0).len() + all[i].1.len() == max && all[i].0 == tm by {
            if i > 0 { assert(all[i] == m[i - 1]); }
        }
    }
}

/// C06 (a)-(e) / C01 / C11 for the whole split
pub proof fn lemma_expected_properties(max: int, t: Transfer, p: Seq<u8>)
    requires fits(max, t), enc(t).len() + p.len() > max,
    ensures
        ({
            let fs = expected(max, t, p);
            let n = fs.len();
            &&& n >= 2
            &&& payloads(fs) =~= p                                                               // (c) chunks concatenate to exactly the payload
            &&& (forall|i: int| 0 <= i < n - 1 ==> enc(#[trigger] fs[i].0).len() + fs[i].1.len() == max)   // (b) every frame but the last is exactly full
            &&& enc(fs[n - 1].0).len() + fs[n - 1].1.len() <= max                                // (a) the last fits
            &&& (forall|i: int| 0 <= i < n - 1 ==> (#[trigger] fs[i]).0.more)                     // (d) more on all but the last
            &&& fs[n - 1].0.more == t.more                                                       // (d) last keeps the caller's flag
            &&& fs[0].0 == t_first(t)                                                            // (e) identifiers only on frame 0
            &&& (forall|i: int| 1 <= i < n ==> (#[trigger] fs[i]).0.delivery_id is None && fs[i].0.delivery_tag is None
                    && fs[i].0.message_format is None && fs[i].0.settled is None && fs[i].0.rcv_settle_mode is None)
            &&& (forall|i: int| 0 <= i < n ==> (#[trigger] fs[i]).0.state == t.state && fs[i].0.handle == t.handle)   // (f) every frame carries the transfer's delivery state (the txn-id of a transactional post: the listener withholds a frame only if it names the transaction) and its handle
        }),
{
    broadcast use enc_more_monotone;
    let k1 = max - enc(t_first(t)).len();
    let km = max - enc(t_mid(t)).len();
    let p1 = p.skip(k1);
    let tm = t_mid(t);
    let m = mids(tm, p1, km, max);
    let r = rest_after_mids(tm, p1, km, max);
    let fs = expected(max, t, p);
    // enc(t) <= enc(t_first(t)) so the payload is longer than k1
    assert(t_first(t) == Transfer { more: true, ..t });
    if !t.more { assert(t == Transfer { more: false, ..t }); } else { assert(t == t_first(t)); }
    assert(enc(t).len() <= enc(t_first(t)).len());
    assert(k1 <= p.len());
    lemma_mids_payload(tm, p1, km, max);
    lemma_mids_sizes(tm, p1, km, max);
    lemma_payloads_append(seq![(t_first(t), p.take(k1))], m);
    lemma_payloads_append(seq![(t_first(t), p.take(k1))] + m, seq![(t_last(t), r)]);
    lemma_payloads_one((t_first(t), p.take(k1)));
    lemma_payloads_one((t_last(t), r));
    assert(p.take(k1) + p1 =~= p);
    assert(payloads(fs) =~= p.take(k1) + payloads(m) + r);
    // last frame: enc(t_last) <= enc(t_mid)
    assert(t_mid(t) == Transfer { more: true, ..t_last(t) });
    if !t.more { assert(t_last(t) == Transfer { more: false, ..t_last(t) }); } else { assert(t_last(t) == t_mid(t)); }
    assert(enc(t_last(t)).len() <= enc(tm).len());
    assert forall|i: int| 0 <= i < fs.len() - 1 implies enc(#[trigger] fs[i].0).len() + fs[i].1.len() == max && fs[i].0.more by {
        if i > 0 { assert(fs[i] == m[i - 1]); }
    }
    assert forall|i: int| 1 <= i < fs.len() implies (#[trigger] fs[i]).0.delivery_id is None && fs[i].0.delivery_tag is None
            && fs[i].0.message_format is None && fs[i].0.settled is None && fs[i].0.rcv_settle_mode is None by {
        if i < fs.len() - 1 { assert(fs[i] == m[i - 1]); }
    }
}

/// what Transport::start_send relies on: cutting the buffer every `max+4` bytes lands on frame boundaries
pub proof fn lemma_cut_points(ch: u16, max: int, t: Transfer, p: Seq<u8>)
    requires fits(max, t), enc(t).len() + p.len() > max,
    ensures
        forall|i: int| 0 <= i < expected(max, t, p).len() - 1 ==> frame(ch, #[trigger] expected(max, t, p)[i]).len() == max + 4,
        frame(ch, expected(max, t, p).last()).len() <= max + 4,
{
    lemma_expected_properties(max, t, p);
}

//@@ fn file=fe2o3-amqp/src/frames/amqp.rs name=write_header
//@@ spec
    ensures final(dst)@ == old(dst)@ + header(channel),     // [C06.header] doff=2, type=AMQP, big-endian channel
//@@ end

//@@ type file=fe2o3-amqp/src/frames/amqp.rs kind=struct name=FrameEncoder
//@@ end

impl FrameEncoder {
//@@ fn file=fe2o3-amqp/src/frames/amqp.rs impl=`impl FrameEncoder` name=new
//@@ spec
    requires max_frame_size >= 4,                            // [C06.encoder.new-pre] established by the call sites (max(MIN_MAX_FRAME_SIZE, n) - 4 >= 508)
    ensures r.max_frame_body_size == max_frame_size - 4,     // [C06.encoder.body-size]
//@@ end

//@@ fn file=fe2o3-amqp/src/frames/amqp.rs impl=`impl FrameEncoder` name=encode_transfer
//@@ shape loops=while;stmt-1=Ok (
//@@ subst `use serde_amqp::ser::Serializer;` => `` rule=R6
//@@ subst `&buf[..]` => `buf.as_slice()` rule=R22
//@@ spec
    // no precondition on the size of the performative: a transfer whose performative alone fills the frame body (a long delivery state: an error description, a peer-chosen txn-id) must be REFUSED, not panic the connection engine (`max - len` underflow) or loop for ever cutting zero-length chunks   [C15.encode.oversized-performative-refused]
    ensures
        r is Ok && enc(transfer).len() + payload@.len() > self.max_frame_body_size ==> fits(self.max_frame_body_size as int, transfer),   // [C15.encode.oversized-performative-refused]
        r is Ok ==> final(dst)@ == old(dst)@ + flatten(channel, expected(self.max_frame_body_size as int, transfer, payload@)),   // [C06.split.exact] the bytes appended are exactly the frames of `expected`: header + performative + chunk each [C01.split.payload-preserved] [C11.split.ids-first-frame-only] [C18.split.state-on-every-frame]
//@@ entry
        let ghost t0 = transfer;
        let ghost p0 = payload@;
        let ghost dst0 = dst@;
        let ghost maxg = self.max_frame_body_size as int;
        proof { broadcast use enc_more_monotone; }
//@@ stmt -1
        proof {
            if more {
                let k1 = maxg - enc(t_first(t0)).len();
                let km = maxg - enc(t_mid(t0)).len();
                let p1 = p0.skip(k1);
                let tm = t_mid(t0);
                let first = (t_first(t0), p0.take(k1));
                let m = mids(tm, p1, km, maxg);
                let last = (t_last(t0), rest_after_mids(tm, p1, km, maxg));
                lemma_flatten_append(channel, seq![first], m);
                lemma_flatten_append(channel, seq![first] + m, seq![last]);
                lemma_flatten_one(channel, first);
                lemma_flatten_one(channel, last);
                assert(expected(maxg, t0, p0) =~= seq![first] + m + seq![last]);
                assert(flatten(channel, expected(maxg, t0, p0)) =~= frame(channel, first) + flatten(channel, m) + frame(channel, last));
            } else {
                lemma_flatten_one(channel, (t0, p0));
            }
        }
//@@ loop 0
        invariant
            maxg == self.max_frame_body_size,
            transfer == t_mid(t0),
            buf@ == enc(t_mid(t0)),
            split_index == maxg - enc(t_mid(t0)).len(),
            split_index > 0,
            remaining_bytes == buf@.len() + payload@.len(),
            rest_after_mids(t_mid(t0), payload@, split_index as int, maxg) == rest_after_mids(t_mid(t0), p0.skip(maxg - enc(t_first(t0)).len()), split_index as int, maxg),
            dst@ + flatten(channel, mids(t_mid(t0), payload@, split_index as int, maxg))
                =~= dst0 + frame(channel, (t_first(t0), p0.take(maxg - enc(t_first(t0)).len())))
                    + flatten(channel, mids(t_mid(t0), p0.skip(maxg - enc(t_first(t0)).len()), split_index as int, maxg)),
        decreases payload@.len(),
//@@ loopstart 0
                let ghost pl = payload@;
                let ghost dl = dst@;
//@@ loopend 0
                proof {
                    let tm = t_mid(t0);
                    let k = split_index as int;
                    assert(mids(tm, pl, k, maxg) =~= seq![(tm, pl.take(k))] + mids(tm, pl.skip(k), k, maxg));
                    lemma_flatten_append(channel, seq![(tm, pl.take(k))], mids(tm, pl.skip(k), k, maxg));
                    lemma_flatten_one(channel, (tm, pl.take(k)));
                    assert(dst@ =~= dl + frame(channel, (tm, pl.take(k))));
                }
//@@ end
}

// ---- every other frame (Encoder<Frame> for FrameEncoder): header, then the performative ----
macro_rules! performative {
    ($($n:ident),*) => { verus!{ $(
        #[verifier::external_body]
        pub struct $n { _p: u8 }
        impl $n {
            /// wire encoding of this performative (serde_amqp derive output): a function of its fields only
            pub uninterp spec fn penc(&self) -> Seq<u8>;
            #[verifier::external_body]
            pub fn serialize<'a>(&self, s: &mut Serializer<'a>) -> (r: Result<(), SerError>)
                ensures r is Ok ==> final(s).writer.buf@ == old(s).writer.buf@ + self.penc(), *final(final(s).writer.buf) == *final(old(s).writer.buf),
            { unimplemented!() }
        }
    )* } }
}
performative!(Open, Begin, Attach, Flow, Disposition, Detach, End, Close);
pub enum FrameBody { Open(Open), Begin(Begin), Attach(Attach), Flow(Flow), Transfer { performative: Transfer, payload: Payload }, Disposition(Disposition), Detach(Detach), End(End), Close(Close), Empty }
pub struct Frame { pub channel: u16, pub body: FrameBody }
/// frames::Error (`#[from] serde_amqp::Error`)
pub enum FrameError { Ser(SerError), Other }
pub fn ser_into_frame_error(e: SerError) -> (r: FrameError) ensures r == FrameError::Ser(e) { FrameError::Ser(e) }
/// what one frame contributes to the byte stream handed to the length-delimited codec (which prepends the 4 size octets: unit TRANSPORT)
pub open spec fn frame_octets(maxb: int, f: Frame) -> Seq<u8> {
    match f.body {
        FrameBody::Open(p) => header(f.channel) + p.penc(), FrameBody::Begin(p) => header(f.channel) + p.penc(), FrameBody::Attach(p) => header(f.channel) + p.penc(),
        FrameBody::Flow(p) => header(f.channel) + p.penc(), FrameBody::Disposition(p) => header(f.channel) + p.penc(), FrameBody::Detach(p) => header(f.channel) + p.penc(),
        FrameBody::End(p) => header(f.channel) + p.penc(), FrameBody::Close(p) => header(f.channel) + p.penc(),
        FrameBody::Transfer { performative, payload } => flatten(f.channel, expected(maxb, performative, payload@)),
        FrameBody::Empty => header(f.channel),
    }
}
impl FrameEncoder {
//@@ fn file=fe2o3-amqp/src/frames/amqp.rs impl=`impl Encoder<Frame> for FrameEncoder` name=encode
//@@ ret Result<(), FrameError>
//@@ subst `use serde_amqp::ser::Serializer;` => `` rule=R6
//@@ subst `.map_err(Into::into)` => `.map_err(|e: SerError| -> (o: FrameError) ensures o == FrameError::Ser(e) { ser_into_frame_error(e) })` rule=R17 unless `\.map_err\(`
//@@ spec
    ensures
        r is Ok ==> final(dst)@ == old(dst)@ + frame_octets(old(self).max_frame_body_size as int, item),      // [C06.frame.layout] every frame handed to the codec is the 4 header octets that follow the size (doff = 2, type = AMQP, the frame's channel big-endian) followed by exactly the encoding of ITS performative -- an empty frame (heartbeat) is the header alone, a transfer is the frame sequence of [C06.split.exact] -- appended after whatever the buffer already held
//@@ end
}
// ---- SASL frames (frames/sasl.rs): Encoder<Frame> for FrameCodec ----
//@@ type file=fe2o3-amqp/src/frames/mod.rs kind=const name=FRAME_TYPE_SASL
//@@ end
proof fn spec_frame_types() ensures FRAME_TYPE_AMQP == 0x00, FRAME_TYPE_SASL == 0x01 {}      // [C06.constants.frame-types] [C19.constants.frame-types]
#[verifier::external_body]
pub struct SaslFrame { _p: u8 }
impl SaslFrame {
    pub uninterp spec fn penc(&self) -> Seq<u8>;
    #[verifier::external_body]
    pub fn serialize<'a>(&self, s: &mut Serializer<'a>) -> (r: Result<(), SerError>)
        ensures r is Ok ==> final(s).writer.buf@ == old(s).writer.buf@ + self.penc(), *final(final(s).writer.buf) == *final(old(s).writer.buf),
    { unimplemented!() }
}
pub struct FrameCodec {}
pub trait ErrInto<T>: Sized { spec fn conv(self) -> T; fn err_into(self) -> (r: T) ensures r == self.conv(); }
impl ErrInto<FrameError> for SerError { open spec fn conv(self) -> FrameError { FrameError::Ser(self) } fn err_into(self) -> (r: FrameError) { FrameError::Ser(self) } }
impl FrameCodec {
//@@ fn file=fe2o3-amqp/src/frames/sasl.rs impl=`impl Encoder<Frame> for FrameCodec` name=encode as=sasl_encode
//@@ qmark
//@@ param item : SaslFrame
//@@ param dst : &mut BytesMut
//@@ ret Result<(), FrameError>
//@@ subst `use bytes::BufMut;` => `` rule=R6
//@@ subst `use serde_amqp::ser::Serializer;` => `` rule=R6
//@@ entry
        assert((0u16 >> 8) as u8 == 0u8 && (0u16 & 0xff) as u8 == 0u8) by (bit_vector);
//@@ spec
    ensures
        r is Ok ==> final(dst)@ =~= old(dst)@ + seq![2u8, 1u8, 0u8, 0u8] + item.penc(),      // [C06.frame.layout] [C19.sasl.frame-layout] a SASL frame is doff = 2, type = 0x01, two zero octets, then the encoding of the SASL performative (AMQP 1.0 part 5.3.1); the size octets are prepended by the length-delimited codec
//@@ end
}

} // verus!
fn main() {}
