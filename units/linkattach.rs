//@@ unit LINKATTACH
#![feature(allocator_api)]
#![allow(unused_imports, unused_variables, dead_code, unused_mut, unused_parens)]
use vstd::prelude::*;

verus! {

//@@ trusted the Attach performative is reduced to the fields on_incoming_attach reads; Source / Target verification (verify_as_receiver / verify_as_sender), the conversion of the target archetype, the merge of link properties and handle_unsettled_in_attach (resumption bookkeeping) are stand-ins that may fail or succeed arbitrarily and touch nothing else
//@@ trusted the flow state (Arc<LinkFlowState>, a lock around initial_delivery_count / delivery_count / link_credit ...) is a plain struct; `x.as_ref().delivery_count_mut(|old| v)` is routed to `{ let old = x.delivery_count; x.delivery_count = v; }` (R4: what the accessor does under its lock)

macro_rules! opaque {
    ($($n:ident),*) => { verus!{ $(
        #[verifier::external_body]
        pub struct $n { _p: u8 }
        impl Clone for $n { #[verifier::external_body] fn clone(&self) -> (r: Self) ensures r == *self { unimplemented!() } }
    )* } }
}
opaque!(DesiredFilterNotSupported, AmqpError, SourceS, TargetS, TargetArch, Props, Unsettled, SessionStopReason, SenderAttachExchange, ReceiverSettleMode, VerifyErr);
//@@ type file=fe2o3-amqp/src/link/mod.rs kind=enum name=ReceiverAttachExchange
//@@ end
impl ReceiverAttachExchange {
//@@ fn file=fe2o3-amqp/src/link/mod.rs impl=`impl ReceiverAttachExchange` name=complete_or id=ReceiverAttachExchange::complete_or
//@@ spec
    ensures self is Complete ==> r is Ok, !(self is Complete) ==> r == Err::<(), E>(err),       // [C13.attach.only-a-complete-exchange-is-an-attached-link] a plain attach (not a resumption) succeeds only when the exchange completed: an exchange that found unsettled deliveries to resume is the error the caller passes, not a silently attached link (what unit WIRING assumes of it)
//@@ end
}
impl Unsettled {
    /// the number of deliveries the peer's attach lists as unsettled
    pub uninterp spec fn count(&self) -> nat;
    #[verifier::external_body]
    pub fn is_empty(&self) -> (r: bool) ensures r == (self.count() == 0) { unimplemented!() }
}
//@@ type file=fe2o3-amqp-types/src/definitions/snd_settle_mode.rs kind=enum name=SenderSettleMode clone
//@@ end
pub struct Handle(pub u32);
pub struct InputHandle(pub u32);
impl InputHandle { pub fn from(h: Handle) -> (r: Self) ensures r.0 == h.0 { InputHandle(h.0) } }
pub struct Attach {
    pub handle: Handle, pub incomplete_unsettled: bool, pub source: Option<Box<SourceS>>, pub target: Option<Box<TargetArch>>,
    pub snd_settle_mode: SenderSettleMode, pub rcv_settle_mode: ReceiverSettleMode, pub initial_delivery_count: Option<u32>,
    pub max_message_size: Option<u64>, pub properties: Option<Props>, pub unsettled: Option<Unsettled>,
}
//@@ type file=fe2o3-amqp/src/link/state.rs kind=enum name=LinkState
//@@ end
pub open spec fn terminus_cond_r(e: ReceiverAttachError) -> bool {
    e is SourceAddressIsNoneWhenDynamicIsTrue || e is TargetAddressIsSomeWhenDynamicIsTrue || e is DynamicNodePropertiesIsSomeWhenDynamicIsFalse || e is DesiredFilterNotSupported
}
//@@ type file=fe2o3-amqp/src/link/error.rs kind=enum name=ReceiverAttachError
//@@ subst `definitions::Error` => `AmqpError` rule=R11
//@@ end
pub trait ErrInto<T>: Sized { spec fn conv(self) -> T; fn err_into(self) -> (r: T) ensures r == self.conv(); }
impl ErrInto<ReceiverAttachError> for ReceiverAttachError { open spec fn conv(self) -> ReceiverAttachError { self } fn err_into(self) -> (r: ReceiverAttachError) { let e = self; assert(e == <ReceiverAttachError as ErrInto<ReceiverAttachError>>::conv(self)); e } }
impl SourceS {
    #[verifier::external_body]
    pub fn verify_as_receiver(&self, other: &SourceS) -> (r: Result<(), ReceiverAttachError>) ensures r is Err ==> terminus_cond_r(r->Err_0) { unimplemented!() }
}
/// `T::try_from(TargetArchetype)`: the link's own target type out of the archetype the attach carries (Target or Coordinator)
pub uninterp spec fn target_conv(t: TargetArch) -> TargetS;
impl TargetS {
    #[verifier::external_body]
    pub fn try_from(t: TargetArch) -> (r: Result<TargetS, VerifyErr>) ensures r is Ok ==> r->Ok_0 == target_conv(t) { unimplemented!() }
    #[verifier::external_body]
    pub fn verify_as_receiver(&self, other: &TargetS) -> (r: Result<(), ReceiverAttachError>) ensures r is Err ==> terminus_cond_r(r->Err_0) { unimplemented!() }
}
pub struct FlowS { pub initial_delivery_count: u32, pub delivery_count: u32, pub link_credit: u32 }
// the read accessors of LinkFlowState (link/state.rs) on the lock-erased state (R4)
impl FlowS {
    pub fn as_ref(&self) -> (r: &FlowS) ensures *r == *self { self }
    pub fn initial_delivery_count(&self) -> (r: u32) ensures r == self.initial_delivery_count { self.initial_delivery_count }
    pub fn delivery_count(&self) -> (r: u32) ensures r == self.delivery_count { self.delivery_count }
    pub fn link_credit(&self) -> (r: u32) ensures r == self.link_credit { self.link_credit }
}
pub struct ReceiverLink {
    pub local_state: LinkState, pub input_handle: Option<InputHandle>, pub snd_settle_mode: SenderSettleMode, pub rcv_settle_mode: ReceiverSettleMode,
    pub source: Option<SourceS>, pub target: Option<TargetS>, pub max_message_size: u64, pub flow_state: FlowS,
    pub verify_incoming_source: bool, pub verify_incoming_target: bool,
}
pub fn unbox<T>(b: Box<T>) -> (r: T) ensures r == *b { *b }

pub open spec fn mms(local: u64, remote: Option<u64>) -> u64 { match (local, remote) { (0, Some(x)) => x, (0, None) => 0, (l, Some(x)) => if x == 0 || l <= x { l } else { x }, (l, None) => l } }
//@@ fn file=fe2o3-amqp/src/link/mod.rs name=get_max_message_size
//@@ subst `u64::min(val, remote_max_msg_size)` => `(if val <= remote_max_msg_size { val } else { remote_max_msg_size })` rule=R9
//@@ spec
    ensures r == mms(local, remote),   // [C11.link.max-message-size] the smaller of the two limits; 0 / unset means no limit
//@@ end

impl ReceiverLink {
    #[verifier::external_body]
    pub fn merge_properties(&mut self, p: Props)
        ensures *final(self) == *old(self),
    { unimplemented!() }
//@@ fn file=fe2o3-amqp/src/link/receiver_link.rs impl=`impl<T> ReceiverLink<T>` name=handle_unsettled_in_attach id=ReceiverLink::handle_unsettled_in_attach
//@@ orsplit
//@@ param remote_unsettled : Option<Unsettled>
//@@ spec
    ensures *final(self) == *old(self),
        (remote_unsettled is None || remote_unsettled->Some_0.count() == 0) ==> r is Complete,       // [C02.resume.nothing-unsettled-at-the-sender-is-complete] when the sender's attach lists no unsettled delivery there is nothing to resume: the exchange is complete and deliveries flow at once
        (remote_unsettled is Some && remote_unsettled->Some_0.count() > 0) ==> (if old(self).local_state is IncompleteAttachReceived || old(self).local_state is IncompleteAttachSent || old(self).local_state is IncompleteAttachExchanged { r is IncompleteUnsettled } else { r is Resume }),       // [C02.resume.receiver-told-to-resume-or-retry] when it lists some, the application is told so -- resume them, or (one side sent an incomplete map) suspend and exchange again -- and is not told the link is ready
//@@ end

//@@ fn file=fe2o3-amqp/src/link/receiver_link.rs impl=`~impl<T>endpoint::LinkAttachforReceiverLink<T>` name=on_incoming_attach
//@@ qmark
//@@ orsplit
//@@ ret Result<ReceiverAttachExchange, ReceiverAttachError>
//@@ subst `use self::source::VerifySource;` => `` rule=R6
//@@ subst `self.source = Some(*remote_source);` => `self.source = Some(unbox(remote_source));` rule=R8
//@@ subst `.map(|t| T::try_from(*t)) .transpose() .map_err(|_v0| ReceiverAttachError::CoordinatorIsNotImplemented)?` => `;let target = match target { Some(t) => match TargetS::try_from(unbox(t)) { Ok(t) => Some(t), Err(_e) => return Err(ReceiverAttachError::CoordinatorIsNotImplemented) }, None => None }` rule=R19 unless `\.map_err\(`
//@@ subst `self.flow_state .as_ref() .initial_delivery_count_mut(|__E2| __E1);` => `{ let __E2 = self.flow_state.initial_delivery_count; self.flow_state.initial_delivery_count = __E1; }` rule=R4
//@@ subst `self.flow_state .as_ref() .delivery_count_mut(|__E2| __E1);` => `{ let __E2 = self.flow_state.delivery_count; self.flow_state.delivery_count = __E1; }` rule=R4
//@@ subst `self.properties_mut(|local_properties| { local_properties .get_or_insert(OrderedMap::new()) .as_inner_mut() .extend(remote_properties.into_inner()); });` => `self.merge_properties(remote_properties);` rule=R9
//@@ spec
    ensures
        // which states accept the peer's attach, and where they lead
        (match (old(self).local_state, remote_attach.incomplete_unsettled) {
            (LinkState::AttachSent, false) => final(self).local_state is Attached,
            (LinkState::IncompleteAttachSent, _) | (LinkState::AttachSent, true) => final(self).local_state is IncompleteAttachExchanged,
            (LinkState::Unattached, false) | (LinkState::Detached, false) => final(self).local_state is AttachReceived,
            (LinkState::Unattached, true) | (LinkState::Detached, true) => final(self).local_state is IncompleteAttachReceived,
            _ => r == Err::<ReceiverAttachExchange, ReceiverAttachError>(ReceiverAttachError::IllegalState) && *final(self) == *old(self),
        }),                                                                                          // [C13.link.attach-received-state] the peer's attach is accepted exactly in the states that expect one; [C15.link.duplicate-attach-refused] an attach for a link that is already attached (or detaching) is refused and changes nothing
        r is Ok ==> final(self).input_handle is Some && final(self).input_handle->Some_0.0 == remote_attach.handle.0,   // [C11.link.input-handle-from-attach] the peer's handle for this link is the one in ITS attach
        r is Ok ==> remote_attach.initial_delivery_count is Some
            && final(self).flow_state.delivery_count == remote_attach.initial_delivery_count->Some_0
            && final(self).flow_state.initial_delivery_count == remote_attach.initial_delivery_count->Some_0,          // [C09.attach.delivery-count-from-sender] the receiver's view of the sender's delivery-count starts from the initial-delivery-count the sender states in its attach
        r is Ok ==> final(self).flow_state.link_credit == old(self).flow_state.link_credit,
        r is Err && r->Err_0 is IllegalState ==> !(old(self).local_state is AttachSent || old(self).local_state is IncompleteAttachSent || old(self).local_state is Unattached || old(self).local_state is Detached),       // [C13.attach.refusal-names-its-reason]
        r is Err && r->Err_0 is IncomingSourceIsNone ==> remote_attach.source is None,
        r is Err && r->Err_0 is InitialDeliveryCountIsNone ==> remote_attach.initial_delivery_count is None,
        r is Ok ==> remote_attach.source is Some,                                                    // [C13.link.attach-without-source-refused] no source = the peer refuses to create the terminus: not attached
        r is Ok ==> final(self).max_message_size == mms(old(self).max_message_size, remote_attach.max_message_size),       // [C01.attach.max-message-size-negotiated] [C06.attach.max-message-size-negotiated] after the exchange the link's max-message-size is the smaller of its own and the peer's (0 / unset = no limit): it is what send() checks a message against and what the reassembly refuses beyond
//@@ end
}

/// the conditions the terminus checks (link/source.rs, link/target_archetype.rs: VerifySource / VerifyTargetArchetype) report: about addresses, dynamic nodes and transaction capabilities only
pub open spec fn terminus_cond_s(e: SenderAttachError) -> bool {
    e is SourceAddressIsSomeWhenDynamicIsTrue || e is TargetAddressIsNoneWhenDynamicIsTrue || e is DynamicNodePropertiesIsSomeWhenDynamicIsFalse || e is DesireTxnCapabilitiesNotSupported
}
//@@ type file=fe2o3-amqp/src/link/error.rs kind=enum name=SenderAttachError
//@@ subst `definitions::Error` => `AmqpError` rule=R11
//@@ end
impl ErrInto<SenderAttachError> for SenderAttachError { open spec fn conv(self) -> SenderAttachError { self } fn err_into(self) -> (r: SenderAttachError) { let e = self; assert(e == <SenderAttachError as ErrInto<SenderAttachError>>::conv(self)); e } }
impl SourceS {
    #[verifier::external_body]
    pub fn verify_as_sender(&self, other: &SourceS) -> (r: Result<(), SenderAttachError>) ensures r is Err ==> terminus_cond_s(r->Err_0) { unimplemented!() }
}
impl TargetS {
    #[verifier::external_body]
    pub fn verify_as_sender(&self, other: &TargetS) -> (r: Result<(), SenderAttachError>) ensures r is Err ==> terminus_cond_s(r->Err_0) { unimplemented!() }
}
pub struct SenderLink {
    pub local_state: LinkState, pub input_handle: Option<InputHandle>, pub snd_settle_mode: SenderSettleMode, pub rcv_settle_mode: ReceiverSettleMode,
    pub source: Option<SourceS>, pub target: Option<TargetS>, pub max_message_size: u64,
    pub verify_incoming_source: bool, pub verify_incoming_target: bool,
}
impl SenderLink {
    #[verifier::external_body]
    pub fn merge_properties(&mut self, p: Props)
        ensures *final(self) == *old(self),
    { unimplemented!() }
    #[verifier::external_body]
    pub fn handle_unsettled_in_attach(&mut self, u: Option<Unsettled>) -> (r: Result<SenderAttachExchange, SenderAttachError>)
        ensures *final(self) == *old(self), r is Ok,       // (unit UNSETTLED: it never fails)
    { unimplemented!() }

//@@ fn file=fe2o3-amqp/src/link/sender_link.rs impl=`~impl<T>endpoint::LinkAttachforSenderLink<T>` name=on_incoming_attach
//@@ qmark
//@@ orsplit
//@@ ret Result<SenderAttachExchange, SenderAttachError>
//@@ subst `use self::source::VerifySource;` => `` rule=R6
//@@ subst `.map(|t| T::try_from(*t)) .transpose() .map_err(|_v0| SenderAttachError::CoordinatorIsNotImplemented)?` => `;let target = match target { Some(t) => match TargetS::try_from(unbox(t)) { Ok(t) => Some(t), Err(_e) => return Err(SenderAttachError::CoordinatorIsNotImplemented) }, None => None }` rule=R19 unless `\.map_err\(`
//@@ subst `self.properties_mut(|local_properties| { local_properties .get_or_insert_with(Default::default) .as_inner_mut() .extend(remote_properties.into_inner()); })` => `self.merge_properties(remote_properties)` rule=R9
//@@ spec
    ensures
        (match (old(self).local_state, remote_attach.incomplete_unsettled) {
            (LinkState::AttachSent, false) => final(self).local_state is Attached,
            (LinkState::IncompleteAttachSent, _) | (LinkState::AttachSent, true) => final(self).local_state is IncompleteAttachExchanged,
            (LinkState::Unattached, false) | (LinkState::Detached, false) => final(self).local_state is AttachReceived,
            (LinkState::Unattached, true) | (LinkState::Detached, true) => final(self).local_state is IncompleteAttachReceived,
            _ => r == Err::<SenderAttachExchange, SenderAttachError>(SenderAttachError::IllegalState) && *final(self) == *old(self),
        }),                                                                                          // [C13.link.attach-received-state] [C15.link.duplicate-attach-refused]
        r is Ok ==> final(self).input_handle is Some && final(self).input_handle->Some_0.0 == remote_attach.handle.0,   // [C11.link.input-handle-from-attach]
        r is Err && r->Err_0 is IllegalState ==> !(old(self).local_state is AttachSent || old(self).local_state is IncompleteAttachSent || old(self).local_state is Unattached || old(self).local_state is Detached),       // [C13.attach.refusal-names-its-reason] the error an attach is refused with is the reason for it -- it decides what `handle_attach_error` does next (unit LINKEXCH): `IllegalState` = nothing is written; a missing terminus or an unsupported settle mode = the link is closed with a detach
        r is Err && r->Err_0 is IncomingTargetIsNone ==> remote_attach.target is None,
        r is Err && r->Err_0 is SndSettleModeNotSupported ==> ((old(self).snd_settle_mode is Settled && remote_attach.snd_settle_mode is Unsettled) || (old(self).snd_settle_mode is Unsettled && remote_attach.snd_settle_mode is Settled)),
        r is Ok ==> remote_attach.target is Some,                                                    // [C13.link.attach-without-target-refused] a null target in the receiver's attach = it refuses to create the terminus: the sender does not consider itself attached
        r is Ok ==> final(self).max_message_size == mms(old(self).max_message_size, remote_attach.max_message_size),       // [C01.attach.max-message-size-negotiated] [C06.attach.max-message-size-negotiated] after the exchange the link's max-message-size is the smaller of its own and the peer's (0 / unset = no limit): it is what send() checks a message against and what the reassembly refuses beyond
        r is Ok ==> final(self).target == (match remote_attach.target { Some(b) => Some(target_conv(*b)), None => None::<TargetS> }),       // [C01.attach.sender-takes-the-receivers-target] the sender's record of the target is the one the receiver's attach states (for a dynamic node: the address the peer created) -- what resumption and the application's `target()` go by
        r is Ok ==> final(self).rcv_settle_mode == remote_attach.rcv_settle_mode,                    // [C02.attach.rcv-settle-mode-from-receiver] the receiver's settle mode in use is the one ITS attach states (it decides whether the sender owes a settling disposition)
        r is Ok ==> !((old(self).snd_settle_mode is Settled && remote_attach.snd_settle_mode is Unsettled) || (old(self).snd_settle_mode is Unsettled && remote_attach.snd_settle_mode is Settled)),   // [C02.attach.snd-settle-mode-conflict-refused]
//@@ end
}

} // verus!
fn main() {}
