//@@ unit DESCDISPATCH
#![feature(allocator_api)]
#![allow(unused_imports, unused_variables, dead_code, unused_mut, unused_parens)]
use vstd::prelude::*;

verus! {

//@@ gsubst `serde_amqp::serde::de::Error::custom(__E1)` => `err_custom()` rule=R9
//@@ gsubst `de::Error::custom(__E1)` => `err_custom()` rule=R9
//@@ trusted written by tools/mkdispatch.py from a table: the descriptor codes and names of each group are taken from the AMQP 1.0 specification text (reference per group), not from the code; the error value a dispatcher builds (`de::Error::custom(..)`, with or without `format!`) is a stand-in; R39: a `match` over string-literal patterns is the chain of equality tests it denotes
//@@ trusted the Field enums are extracted with every `#[cfg(feature = "transaction")]` variant present (the units describe the build with `transaction` and `acceptor` on, R12)
pub struct ErrS { pub k: u8 }
#[verifier::external_body]
pub fn err_custom() -> (r: ErrS) { unimplemented!() }
pub trait ErrInto<T>: Sized { spec fn conv(self) -> T; fn err_into(self) -> (r: T) ensures r == self.conv(); }
impl ErrInto<ErrS> for ErrS { open spec fn conv(self) -> ErrS { self } fn err_into(self) -> (r: ErrS) { let e = self; assert(e == <ErrS as ErrInto<ErrS>>::conv(self)); e } }
//@@ type file=serde_amqp/src/format_code.rs kind=enum name=EncodingCodes keeprepr clone
//@@ end
impl Copy for EncodingCodes {}
/// `TryFrom<u8> for EncodingCodes` (under contract in units READERS / ANYDISPATCH: exact, and complete for every constructor of the type system); the constructors this unit speaks about
pub open spec fn known_code(c: u8) -> bool { c == 0xa3 || c == 0xb3 || c == 0x80 || c == 0x53 || c == 0x44 || c == 0x98 || c == 0xa0 || c == 0xb0 || c == 0xa1 || c == 0xb1 || c == 0xe0 || c == 0xf0 }
#[verifier::external_body]
pub fn try_code(v: u8) -> (r: Result<EncodingCodes, ErrS>) ensures r is Ok ==> r->Ok_0 as u8 == v, known_code(v) ==> r is Ok { unimplemented!() }

// ================================================================ performative (fe2o3-amqp-types/src/performatives/mod.rs)
pub mod performative {
use super::*;
//@@ type file=fe2o3-amqp-types/src/performatives/mod.rs kind=enum name=Field
//@@ end
//@@ strlits lemma=lemma_names_distinct `[C03.descriptor.names-distinct] [C05.descriptor.names-distinct] [C04.descriptor.names-distinct] the descriptor names of this group are pairwise different strings` `amqp:open:list|amqp:begin:list|amqp:attach:list|amqp:flow:list|amqp:transfer:list|amqp:disposition:list|amqp:detach:list|amqp:end:list|amqp:close:list`
pub struct FieldVisitor {}
impl FieldVisitor {
//@@ fn file=fe2o3-amqp-types/src/performatives/mod.rs impl=`impl de::Visitor<'_> for FieldVisitor` name=visit_u64 id=performative::visit_u64
//@@ generics
//@@ nowhere
//@@ orsplit
//@@ blockarms
//@@ ret Result<Field, ErrS>
//@@ spec
    ensures
        v == 0x10 ==> r == Ok::<Field, ErrS>(Field::Open),       // [C03.descriptor.by-code] [C05.descriptor.by-code] [C04.descriptor.by-code] AMQP 1.0 part 2, 2.7.1-2.7.9: descriptor code 0x00000000:0x00000010 is amqp:open:list -- decoded as that and as nothing else
        v == 0x11 ==> r == Ok::<Field, ErrS>(Field::Begin),       // [C03.descriptor.by-code] [C05.descriptor.by-code] [C04.descriptor.by-code] AMQP 1.0 part 2, 2.7.1-2.7.9: descriptor code 0x00000000:0x00000011 is amqp:begin:list -- decoded as that and as nothing else
        v == 0x12 ==> r == Ok::<Field, ErrS>(Field::Attach),       // [C03.descriptor.by-code] [C05.descriptor.by-code] [C04.descriptor.by-code] AMQP 1.0 part 2, 2.7.1-2.7.9: descriptor code 0x00000000:0x00000012 is amqp:attach:list -- decoded as that and as nothing else
        v == 0x13 ==> r == Ok::<Field, ErrS>(Field::Flow),       // [C03.descriptor.by-code] [C05.descriptor.by-code] [C04.descriptor.by-code] AMQP 1.0 part 2, 2.7.1-2.7.9: descriptor code 0x00000000:0x00000013 is amqp:flow:list -- decoded as that and as nothing else
        v == 0x14 ==> r == Ok::<Field, ErrS>(Field::Transfer),       // [C03.descriptor.by-code] [C05.descriptor.by-code] [C04.descriptor.by-code] AMQP 1.0 part 2, 2.7.1-2.7.9: descriptor code 0x00000000:0x00000014 is amqp:transfer:list -- decoded as that and as nothing else
        v == 0x15 ==> r == Ok::<Field, ErrS>(Field::Disposition),       // [C03.descriptor.by-code] [C05.descriptor.by-code] [C04.descriptor.by-code] AMQP 1.0 part 2, 2.7.1-2.7.9: descriptor code 0x00000000:0x00000015 is amqp:disposition:list -- decoded as that and as nothing else
        v == 0x16 ==> r == Ok::<Field, ErrS>(Field::Detach),       // [C03.descriptor.by-code] [C05.descriptor.by-code] [C04.descriptor.by-code] AMQP 1.0 part 2, 2.7.1-2.7.9: descriptor code 0x00000000:0x00000016 is amqp:detach:list -- decoded as that and as nothing else
        v == 0x17 ==> r == Ok::<Field, ErrS>(Field::End),       // [C03.descriptor.by-code] [C05.descriptor.by-code] [C04.descriptor.by-code] AMQP 1.0 part 2, 2.7.1-2.7.9: descriptor code 0x00000000:0x00000017 is amqp:end:list -- decoded as that and as nothing else
        v == 0x18 ==> r == Ok::<Field, ErrS>(Field::Close),       // [C03.descriptor.by-code] [C05.descriptor.by-code] [C04.descriptor.by-code] AMQP 1.0 part 2, 2.7.1-2.7.9: descriptor code 0x00000000:0x00000018 is amqp:close:list -- decoded as that and as nothing else
//@@ end

//@@ fn file=fe2o3-amqp-types/src/performatives/mod.rs impl=`impl de::Visitor<'_> for FieldVisitor` name=visit_str id=performative::visit_str
//@@ generics
//@@ nowhere
//@@ orsplit
//@@ blockarms
//@@ ret Result<Field, ErrS>
//@@ entry
    proof { lemma_names_distinct(); }
//@@ spec
    ensures
        v@ == "amqp:open:list"@ ==> r == Ok::<Field, ErrS>(Field::Open),       // [C03.descriptor.by-name] [C05.descriptor.by-name] [C04.descriptor.by-name] AMQP 1.0 part 2, 2.7.1-2.7.9: the same type announced by its symbolic descriptor decodes to the same variant as by its code
        v@ == "amqp:begin:list"@ ==> r == Ok::<Field, ErrS>(Field::Begin),       // [C03.descriptor.by-name] [C05.descriptor.by-name] [C04.descriptor.by-name] AMQP 1.0 part 2, 2.7.1-2.7.9: the same type announced by its symbolic descriptor decodes to the same variant as by its code
        v@ == "amqp:attach:list"@ ==> r == Ok::<Field, ErrS>(Field::Attach),       // [C03.descriptor.by-name] [C05.descriptor.by-name] [C04.descriptor.by-name] AMQP 1.0 part 2, 2.7.1-2.7.9: the same type announced by its symbolic descriptor decodes to the same variant as by its code
        v@ == "amqp:flow:list"@ ==> r == Ok::<Field, ErrS>(Field::Flow),       // [C03.descriptor.by-name] [C05.descriptor.by-name] [C04.descriptor.by-name] AMQP 1.0 part 2, 2.7.1-2.7.9: the same type announced by its symbolic descriptor decodes to the same variant as by its code
        v@ == "amqp:transfer:list"@ ==> r == Ok::<Field, ErrS>(Field::Transfer),       // [C03.descriptor.by-name] [C05.descriptor.by-name] [C04.descriptor.by-name] AMQP 1.0 part 2, 2.7.1-2.7.9: the same type announced by its symbolic descriptor decodes to the same variant as by its code
        v@ == "amqp:disposition:list"@ ==> r == Ok::<Field, ErrS>(Field::Disposition),       // [C03.descriptor.by-name] [C05.descriptor.by-name] [C04.descriptor.by-name] AMQP 1.0 part 2, 2.7.1-2.7.9: the same type announced by its symbolic descriptor decodes to the same variant as by its code
        v@ == "amqp:detach:list"@ ==> r == Ok::<Field, ErrS>(Field::Detach),       // [C03.descriptor.by-name] [C05.descriptor.by-name] [C04.descriptor.by-name] AMQP 1.0 part 2, 2.7.1-2.7.9: the same type announced by its symbolic descriptor decodes to the same variant as by its code
        v@ == "amqp:end:list"@ ==> r == Ok::<Field, ErrS>(Field::End),       // [C03.descriptor.by-name] [C05.descriptor.by-name] [C04.descriptor.by-name] AMQP 1.0 part 2, 2.7.1-2.7.9: the same type announced by its symbolic descriptor decodes to the same variant as by its code
        v@ == "amqp:close:list"@ ==> r == Ok::<Field, ErrS>(Field::Close),       // [C03.descriptor.by-name] [C05.descriptor.by-name] [C04.descriptor.by-name] AMQP 1.0 part 2, 2.7.1-2.7.9: the same type announced by its symbolic descriptor decodes to the same variant as by its code
//@@ end
}
} // mod performative

// ================================================================ sasl_frame (fe2o3-amqp/src/frames/sasl.rs)
pub mod sasl_frame {
use super::*;
//@@ type file=fe2o3-amqp/src/frames/sasl.rs kind=enum name=Field
//@@ end
//@@ strlits lemma=lemma_names_distinct `[C03.descriptor.names-distinct] [C05.descriptor.names-distinct] [C04.descriptor.names-distinct] the descriptor names of this group are pairwise different strings` `amqp:sasl-mechanisms:list|amqp:sasl-init:list|amqp:sasl-challenge:list|amqp:sasl-response:list|amqp:sasl-outcome:list`
pub struct FieldVisitor {}
impl FieldVisitor {
//@@ fn file=fe2o3-amqp/src/frames/sasl.rs impl=`impl de::Visitor<'_> for FieldVisitor` name=visit_u64 id=sasl_frame::visit_u64
//@@ generics
//@@ nowhere
//@@ orsplit
//@@ blockarms
//@@ ret Result<Field, ErrS>
//@@ spec
    ensures
        v == 0x40 ==> r == Ok::<Field, ErrS>(Field::Mechanisms),       // [C03.descriptor.by-code] [C05.descriptor.by-code] [C04.descriptor.by-code] AMQP 1.0 part 5, 5.3.3.1-5.3.3.5: descriptor code 0x00000000:0x00000040 is amqp:sasl-mechanisms:list -- decoded as that and as nothing else
        v == 0x41 ==> r == Ok::<Field, ErrS>(Field::Init),       // [C03.descriptor.by-code] [C05.descriptor.by-code] [C04.descriptor.by-code] AMQP 1.0 part 5, 5.3.3.1-5.3.3.5: descriptor code 0x00000000:0x00000041 is amqp:sasl-init:list -- decoded as that and as nothing else
        v == 0x42 ==> r == Ok::<Field, ErrS>(Field::Challenge),       // [C03.descriptor.by-code] [C05.descriptor.by-code] [C04.descriptor.by-code] AMQP 1.0 part 5, 5.3.3.1-5.3.3.5: descriptor code 0x00000000:0x00000042 is amqp:sasl-challenge:list -- decoded as that and as nothing else
        v == 0x43 ==> r == Ok::<Field, ErrS>(Field::Response),       // [C03.descriptor.by-code] [C05.descriptor.by-code] [C04.descriptor.by-code] AMQP 1.0 part 5, 5.3.3.1-5.3.3.5: descriptor code 0x00000000:0x00000043 is amqp:sasl-response:list -- decoded as that and as nothing else
        v == 0x44 ==> r == Ok::<Field, ErrS>(Field::Outcome),       // [C03.descriptor.by-code] [C05.descriptor.by-code] [C04.descriptor.by-code] AMQP 1.0 part 5, 5.3.3.1-5.3.3.5: descriptor code 0x00000000:0x00000044 is amqp:sasl-outcome:list -- decoded as that and as nothing else
//@@ end

//@@ fn file=fe2o3-amqp/src/frames/sasl.rs impl=`impl de::Visitor<'_> for FieldVisitor` name=visit_str id=sasl_frame::visit_str
//@@ generics
//@@ nowhere
//@@ orsplit
//@@ blockarms
//@@ ret Result<Field, ErrS>
//@@ entry
    proof { lemma_names_distinct(); }
//@@ spec
    ensures
        v@ == "amqp:sasl-mechanisms:list"@ ==> r == Ok::<Field, ErrS>(Field::Mechanisms),       // [C03.descriptor.by-name] [C05.descriptor.by-name] [C04.descriptor.by-name] AMQP 1.0 part 5, 5.3.3.1-5.3.3.5: the same type announced by its symbolic descriptor decodes to the same variant as by its code
        v@ == "amqp:sasl-init:list"@ ==> r == Ok::<Field, ErrS>(Field::Init),       // [C03.descriptor.by-name] [C05.descriptor.by-name] [C04.descriptor.by-name] AMQP 1.0 part 5, 5.3.3.1-5.3.3.5: the same type announced by its symbolic descriptor decodes to the same variant as by its code
        v@ == "amqp:sasl-challenge:list"@ ==> r == Ok::<Field, ErrS>(Field::Challenge),       // [C03.descriptor.by-name] [C05.descriptor.by-name] [C04.descriptor.by-name] AMQP 1.0 part 5, 5.3.3.1-5.3.3.5: the same type announced by its symbolic descriptor decodes to the same variant as by its code
        v@ == "amqp:sasl-response:list"@ ==> r == Ok::<Field, ErrS>(Field::Response),       // [C03.descriptor.by-name] [C05.descriptor.by-name] [C04.descriptor.by-name] AMQP 1.0 part 5, 5.3.3.1-5.3.3.5: the same type announced by its symbolic descriptor decodes to the same variant as by its code
        v@ == "amqp:sasl-outcome:list"@ ==> r == Ok::<Field, ErrS>(Field::Outcome),       // [C03.descriptor.by-name] [C05.descriptor.by-name] [C04.descriptor.by-name] AMQP 1.0 part 5, 5.3.3.1-5.3.3.5: the same type announced by its symbolic descriptor decodes to the same variant as by its code
//@@ end
}
} // mod sasl_frame

// ================================================================ delivery_state (fe2o3-amqp-types/src/messaging/delivery_state/delivery_state_impl.rs)
pub mod delivery_state {
use super::*;
//@@ type file=fe2o3-amqp-types/src/messaging/delivery_state/delivery_state_impl.rs kind=enum name=Field
//@@ end
//@@ strlits lemma=lemma_names_distinct `[C03.descriptor.names-distinct] [C05.descriptor.names-distinct] [C04.descriptor.names-distinct] the descriptor names of this group are pairwise different strings` `amqp:received:list|amqp:accepted:list|amqp:rejected:list|amqp:released:list|amqp:modified:list|amqp:declared:list|amqp:transactional-state:list`
pub struct FieldVisitor {}
impl FieldVisitor {
//@@ fn file=fe2o3-amqp-types/src/messaging/delivery_state/delivery_state_impl.rs impl=`impl de::Visitor<'_> for FieldVisitor` name=visit_u64 id=delivery_state::visit_u64
//@@ generics
//@@ nowhere
//@@ orsplit
//@@ blockarms
//@@ ret Result<Field, ErrS>
//@@ spec
    ensures
        v == 0x23 ==> r == Ok::<Field, ErrS>(Field::Received),       // [C03.descriptor.by-code] [C05.descriptor.by-code] [C04.descriptor.by-code] AMQP 1.0 part 3, 3.4.1-3.4.5; part 4, 4.5.5, 4.5.8: descriptor code 0x00000000:0x00000023 is amqp:received:list -- decoded as that and as nothing else
        v == 0x24 ==> r == Ok::<Field, ErrS>(Field::Accepted),       // [C03.descriptor.by-code] [C05.descriptor.by-code] [C04.descriptor.by-code] AMQP 1.0 part 3, 3.4.1-3.4.5; part 4, 4.5.5, 4.5.8: descriptor code 0x00000000:0x00000024 is amqp:accepted:list -- decoded as that and as nothing else
        v == 0x25 ==> r == Ok::<Field, ErrS>(Field::Rejected),       // [C03.descriptor.by-code] [C05.descriptor.by-code] [C04.descriptor.by-code] AMQP 1.0 part 3, 3.4.1-3.4.5; part 4, 4.5.5, 4.5.8: descriptor code 0x00000000:0x00000025 is amqp:rejected:list -- decoded as that and as nothing else
        v == 0x26 ==> r == Ok::<Field, ErrS>(Field::Released),       // [C03.descriptor.by-code] [C05.descriptor.by-code] [C04.descriptor.by-code] AMQP 1.0 part 3, 3.4.1-3.4.5; part 4, 4.5.5, 4.5.8: descriptor code 0x00000000:0x00000026 is amqp:released:list -- decoded as that and as nothing else
        v == 0x27 ==> r == Ok::<Field, ErrS>(Field::Modified),       // [C03.descriptor.by-code] [C05.descriptor.by-code] [C04.descriptor.by-code] AMQP 1.0 part 3, 3.4.1-3.4.5; part 4, 4.5.5, 4.5.8: descriptor code 0x00000000:0x00000027 is amqp:modified:list -- decoded as that and as nothing else
        v == 0x33 ==> r == Ok::<Field, ErrS>(Field::Declared),       // [C03.descriptor.by-code] [C05.descriptor.by-code] [C04.descriptor.by-code] AMQP 1.0 part 3, 3.4.1-3.4.5; part 4, 4.5.5, 4.5.8: descriptor code 0x00000000:0x00000033 is amqp:declared:list -- decoded as that and as nothing else
        v == 0x34 ==> r == Ok::<Field, ErrS>(Field::TransactionalState),       // [C03.descriptor.by-code] [C05.descriptor.by-code] [C04.descriptor.by-code] AMQP 1.0 part 3, 3.4.1-3.4.5; part 4, 4.5.5, 4.5.8: descriptor code 0x00000000:0x00000034 is amqp:transactional-state:list -- decoded as that and as nothing else
//@@ end

//@@ fn file=fe2o3-amqp-types/src/messaging/delivery_state/delivery_state_impl.rs impl=`impl de::Visitor<'_> for FieldVisitor` name=visit_str id=delivery_state::visit_str
//@@ generics
//@@ nowhere
//@@ orsplit
//@@ blockarms
//@@ ret Result<Field, ErrS>
//@@ entry
    proof { lemma_names_distinct(); }
//@@ spec
    ensures
        v@ == "amqp:received:list"@ ==> r == Ok::<Field, ErrS>(Field::Received),       // [C03.descriptor.by-name] [C05.descriptor.by-name] [C04.descriptor.by-name] AMQP 1.0 part 3, 3.4.1-3.4.5; part 4, 4.5.5, 4.5.8: the same type announced by its symbolic descriptor decodes to the same variant as by its code
        v@ == "amqp:accepted:list"@ ==> r == Ok::<Field, ErrS>(Field::Accepted),       // [C03.descriptor.by-name] [C05.descriptor.by-name] [C04.descriptor.by-name] AMQP 1.0 part 3, 3.4.1-3.4.5; part 4, 4.5.5, 4.5.8: the same type announced by its symbolic descriptor decodes to the same variant as by its code
        v@ == "amqp:rejected:list"@ ==> r == Ok::<Field, ErrS>(Field::Rejected),       // [C03.descriptor.by-name] [C05.descriptor.by-name] [C04.descriptor.by-name] AMQP 1.0 part 3, 3.4.1-3.4.5; part 4, 4.5.5, 4.5.8: the same type announced by its symbolic descriptor decodes to the same variant as by its code
        v@ == "amqp:released:list"@ ==> r == Ok::<Field, ErrS>(Field::Released),       // [C03.descriptor.by-name] [C05.descriptor.by-name] [C04.descriptor.by-name] AMQP 1.0 part 3, 3.4.1-3.4.5; part 4, 4.5.5, 4.5.8: the same type announced by its symbolic descriptor decodes to the same variant as by its code
        v@ == "amqp:modified:list"@ ==> r == Ok::<Field, ErrS>(Field::Modified),       // [C03.descriptor.by-name] [C05.descriptor.by-name] [C04.descriptor.by-name] AMQP 1.0 part 3, 3.4.1-3.4.5; part 4, 4.5.5, 4.5.8: the same type announced by its symbolic descriptor decodes to the same variant as by its code
        v@ == "amqp:declared:list"@ ==> r == Ok::<Field, ErrS>(Field::Declared),       // [C03.descriptor.by-name] [C05.descriptor.by-name] [C04.descriptor.by-name] AMQP 1.0 part 3, 3.4.1-3.4.5; part 4, 4.5.5, 4.5.8: the same type announced by its symbolic descriptor decodes to the same variant as by its code
        v@ == "amqp:transactional-state:list"@ ==> r == Ok::<Field, ErrS>(Field::TransactionalState),       // [C03.descriptor.by-name] [C05.descriptor.by-name] [C04.descriptor.by-name] AMQP 1.0 part 3, 3.4.1-3.4.5; part 4, 4.5.5, 4.5.8: the same type announced by its symbolic descriptor decodes to the same variant as by its code
//@@ end
}
} // mod delivery_state

// ================================================================ outcome (fe2o3-amqp-types/src/messaging/delivery_state/outcome_impl.rs)
pub mod outcome {
use super::*;
//@@ type file=fe2o3-amqp-types/src/messaging/delivery_state/outcome_impl.rs kind=enum name=Field
//@@ end
//@@ strlits lemma=lemma_names_distinct `[C03.descriptor.names-distinct] [C05.descriptor.names-distinct] [C04.descriptor.names-distinct] the descriptor names of this group are pairwise different strings` `amqp:accepted:list|amqp:rejected:list|amqp:released:list|amqp:modified:list|amqp:declared:list`
pub struct FieldVisitor {}
impl FieldVisitor {
//@@ fn file=fe2o3-amqp-types/src/messaging/delivery_state/outcome_impl.rs impl=`impl de::Visitor<'_> for FieldVisitor` name=visit_u64 id=outcome::visit_u64
//@@ generics
//@@ nowhere
//@@ orsplit
//@@ blockarms
//@@ ret Result<Field, ErrS>
//@@ spec
    ensures
        v == 0x24 ==> r == Ok::<Field, ErrS>(Field::Accepted),       // [C03.descriptor.by-code] [C05.descriptor.by-code] [C04.descriptor.by-code] AMQP 1.0 part 3, 3.4.2-3.4.5; part 4, 4.5.5: descriptor code 0x00000000:0x00000024 is amqp:accepted:list -- decoded as that and as nothing else
        v == 0x25 ==> r == Ok::<Field, ErrS>(Field::Rejected),       // [C03.descriptor.by-code] [C05.descriptor.by-code] [C04.descriptor.by-code] AMQP 1.0 part 3, 3.4.2-3.4.5; part 4, 4.5.5: descriptor code 0x00000000:0x00000025 is amqp:rejected:list -- decoded as that and as nothing else
        v == 0x26 ==> r == Ok::<Field, ErrS>(Field::Released),       // [C03.descriptor.by-code] [C05.descriptor.by-code] [C04.descriptor.by-code] AMQP 1.0 part 3, 3.4.2-3.4.5; part 4, 4.5.5: descriptor code 0x00000000:0x00000026 is amqp:released:list -- decoded as that and as nothing else
        v == 0x27 ==> r == Ok::<Field, ErrS>(Field::Modified),       // [C03.descriptor.by-code] [C05.descriptor.by-code] [C04.descriptor.by-code] AMQP 1.0 part 3, 3.4.2-3.4.5; part 4, 4.5.5: descriptor code 0x00000000:0x00000027 is amqp:modified:list -- decoded as that and as nothing else
        v == 0x33 ==> r == Ok::<Field, ErrS>(Field::Declared),       // [C03.descriptor.by-code] [C05.descriptor.by-code] [C04.descriptor.by-code] AMQP 1.0 part 3, 3.4.2-3.4.5; part 4, 4.5.5: descriptor code 0x00000000:0x00000033 is amqp:declared:list -- decoded as that and as nothing else
//@@ end

//@@ fn file=fe2o3-amqp-types/src/messaging/delivery_state/outcome_impl.rs impl=`impl de::Visitor<'_> for FieldVisitor` name=visit_str id=outcome::visit_str
//@@ generics
//@@ nowhere
//@@ orsplit
//@@ blockarms
//@@ ret Result<Field, ErrS>
//@@ entry
    proof { lemma_names_distinct(); }
//@@ spec
    ensures
        v@ == "amqp:accepted:list"@ ==> r == Ok::<Field, ErrS>(Field::Accepted),       // [C03.descriptor.by-name] [C05.descriptor.by-name] [C04.descriptor.by-name] AMQP 1.0 part 3, 3.4.2-3.4.5; part 4, 4.5.5: the same type announced by its symbolic descriptor decodes to the same variant as by its code
        v@ == "amqp:rejected:list"@ ==> r == Ok::<Field, ErrS>(Field::Rejected),       // [C03.descriptor.by-name] [C05.descriptor.by-name] [C04.descriptor.by-name] AMQP 1.0 part 3, 3.4.2-3.4.5; part 4, 4.5.5: the same type announced by its symbolic descriptor decodes to the same variant as by its code
        v@ == "amqp:released:list"@ ==> r == Ok::<Field, ErrS>(Field::Released),       // [C03.descriptor.by-name] [C05.descriptor.by-name] [C04.descriptor.by-name] AMQP 1.0 part 3, 3.4.2-3.4.5; part 4, 4.5.5: the same type announced by its symbolic descriptor decodes to the same variant as by its code
        v@ == "amqp:modified:list"@ ==> r == Ok::<Field, ErrS>(Field::Modified),       // [C03.descriptor.by-name] [C05.descriptor.by-name] [C04.descriptor.by-name] AMQP 1.0 part 3, 3.4.2-3.4.5; part 4, 4.5.5: the same type announced by its symbolic descriptor decodes to the same variant as by its code
        v@ == "amqp:declared:list"@ ==> r == Ok::<Field, ErrS>(Field::Declared),       // [C03.descriptor.by-name] [C05.descriptor.by-name] [C04.descriptor.by-name] AMQP 1.0 part 3, 3.4.2-3.4.5; part 4, 4.5.5: the same type announced by its symbolic descriptor decodes to the same variant as by its code
//@@ end
}
} // mod outcome

// ================================================================ body_section (fe2o3-amqp-types/src/messaging/message/body.rs)
pub mod body_section {
use super::*;
//@@ type file=fe2o3-amqp-types/src/messaging/message/body.rs kind=enum name=Field
//@@ end
//@@ strlits lemma=lemma_names_distinct `[C03.descriptor.names-distinct] [C05.descriptor.names-distinct] [C04.descriptor.names-distinct] the descriptor names of this group are pairwise different strings` `amqp:data:binary|amqp:amqp-sequence:list|amqp:amqp-value:*`
pub struct FieldVisitor {}
impl FieldVisitor {
//@@ fn file=fe2o3-amqp-types/src/messaging/message/body.rs impl=`impl de::Visitor<'_> for FieldVisitor` name=visit_u64 id=body_section::visit_u64
//@@ generics
//@@ nowhere
//@@ orsplit
//@@ blockarms
//@@ ret Result<Field, ErrS>
//@@ spec
    ensures
        v == 0x75 ==> r == Ok::<Field, ErrS>(Field::Data),       // [C03.descriptor.by-code] [C05.descriptor.by-code] [C04.descriptor.by-code] AMQP 1.0 part 3, 3.2.6-3.2.8: descriptor code 0x00000000:0x00000075 is amqp:data:binary -- decoded as that and as nothing else
        v == 0x76 ==> r == Ok::<Field, ErrS>(Field::Sequence),       // [C03.descriptor.by-code] [C05.descriptor.by-code] [C04.descriptor.by-code] AMQP 1.0 part 3, 3.2.6-3.2.8: descriptor code 0x00000000:0x00000076 is amqp:amqp-sequence:list -- decoded as that and as nothing else
        v == 0x77 ==> r == Ok::<Field, ErrS>(Field::Value),       // [C03.descriptor.by-code] [C05.descriptor.by-code] [C04.descriptor.by-code] AMQP 1.0 part 3, 3.2.6-3.2.8: descriptor code 0x00000000:0x00000077 is amqp:amqp-value:* -- decoded as that and as nothing else
//@@ end

//@@ fn file=fe2o3-amqp-types/src/messaging/message/body.rs impl=`impl de::Visitor<'_> for FieldVisitor` name=visit_str id=body_section::visit_str
//@@ generics
//@@ nowhere
//@@ orsplit
//@@ blockarms
//@@ ret Result<Field, ErrS>
//@@ entry
    proof { lemma_names_distinct(); }
//@@ spec
    ensures
        v@ == "amqp:data:binary"@ ==> r == Ok::<Field, ErrS>(Field::Data),       // [C03.descriptor.by-name] [C05.descriptor.by-name] [C04.descriptor.by-name] AMQP 1.0 part 3, 3.2.6-3.2.8: the same type announced by its symbolic descriptor decodes to the same variant as by its code
        v@ == "amqp:amqp-sequence:list"@ ==> r == Ok::<Field, ErrS>(Field::Sequence),       // [C03.descriptor.by-name] [C05.descriptor.by-name] [C04.descriptor.by-name] AMQP 1.0 part 3, 3.2.6-3.2.8: the same type announced by its symbolic descriptor decodes to the same variant as by its code
        v@ == "amqp:amqp-value:*"@ ==> r == Ok::<Field, ErrS>(Field::Value),       // [C03.descriptor.by-name] [C05.descriptor.by-name] [C04.descriptor.by-name] AMQP 1.0 part 3, 3.2.6-3.2.8: the same type announced by its symbolic descriptor decodes to the same variant as by its code
//@@ end
}
} // mod body_section

// ================================================================ message_section (fe2o3-amqp-types/src/messaging/message/mod.rs)
pub mod message_section {
use super::*;
//@@ type file=fe2o3-amqp-types/src/messaging/message/mod.rs kind=enum name=Field
//@@ end
//@@ strlits lemma=lemma_names_distinct `[C03.descriptor.names-distinct] [C05.descriptor.names-distinct] [C04.descriptor.names-distinct] [C01.descriptor.names-distinct] the descriptor names of this group are pairwise different strings` `amqp:header:list|amqp:delivery-annotations:map|amqp:message-annotations:map|amqp:properties:list|amqp:application-properties:map|amqp:data:binary|amqp:amqp-sequence:list|amqp:amqp-value:*|amqp:footer:map`
pub struct FieldVisitor {}
impl FieldVisitor {
//@@ fn file=fe2o3-amqp-types/src/messaging/message/mod.rs impl=`impl de::Visitor<'_> for FieldVisitor` name=visit_u64 id=message_section::visit_u64
//@@ generics
//@@ nowhere
//@@ orsplit
//@@ blockarms
//@@ ret Result<Field, ErrS>
//@@ spec
    ensures
        v == 0x70 ==> r == Ok::<Field, ErrS>(Field::Header),       // [C03.descriptor.by-code] [C05.descriptor.by-code] [C04.descriptor.by-code] [C01.descriptor.by-code] AMQP 1.0 part 3, 3.2.1-3.2.9: descriptor code 0x00000000:0x00000070 is amqp:header:list -- decoded as that and as nothing else
        v == 0x71 ==> r == Ok::<Field, ErrS>(Field::DeliveryAnnotations),       // [C03.descriptor.by-code] [C05.descriptor.by-code] [C04.descriptor.by-code] [C01.descriptor.by-code] AMQP 1.0 part 3, 3.2.1-3.2.9: descriptor code 0x00000000:0x00000071 is amqp:delivery-annotations:map -- decoded as that and as nothing else
        v == 0x72 ==> r == Ok::<Field, ErrS>(Field::MessageAnnotations),       // [C03.descriptor.by-code] [C05.descriptor.by-code] [C04.descriptor.by-code] [C01.descriptor.by-code] AMQP 1.0 part 3, 3.2.1-3.2.9: descriptor code 0x00000000:0x00000072 is amqp:message-annotations:map -- decoded as that and as nothing else
        v == 0x73 ==> r == Ok::<Field, ErrS>(Field::Properties),       // [C03.descriptor.by-code] [C05.descriptor.by-code] [C04.descriptor.by-code] [C01.descriptor.by-code] AMQP 1.0 part 3, 3.2.1-3.2.9: descriptor code 0x00000000:0x00000073 is amqp:properties:list -- decoded as that and as nothing else
        v == 0x74 ==> r == Ok::<Field, ErrS>(Field::ApplicationProperties),       // [C03.descriptor.by-code] [C05.descriptor.by-code] [C04.descriptor.by-code] [C01.descriptor.by-code] AMQP 1.0 part 3, 3.2.1-3.2.9: descriptor code 0x00000000:0x00000074 is amqp:application-properties:map -- decoded as that and as nothing else
        v == 0x75 ==> r == Ok::<Field, ErrS>(Field::Body),       // [C03.descriptor.by-code] [C05.descriptor.by-code] [C04.descriptor.by-code] [C01.descriptor.by-code] AMQP 1.0 part 3, 3.2.1-3.2.9: descriptor code 0x00000000:0x00000075 is amqp:data:binary -- decoded as that and as nothing else
        v == 0x76 ==> r == Ok::<Field, ErrS>(Field::Body),       // [C03.descriptor.by-code] [C05.descriptor.by-code] [C04.descriptor.by-code] [C01.descriptor.by-code] AMQP 1.0 part 3, 3.2.1-3.2.9: descriptor code 0x00000000:0x00000076 is amqp:amqp-sequence:list -- decoded as that and as nothing else
        v == 0x77 ==> r == Ok::<Field, ErrS>(Field::Body),       // [C03.descriptor.by-code] [C05.descriptor.by-code] [C04.descriptor.by-code] [C01.descriptor.by-code] AMQP 1.0 part 3, 3.2.1-3.2.9: descriptor code 0x00000000:0x00000077 is amqp:amqp-value:* -- decoded as that and as nothing else
        v == 0x78 ==> r == Ok::<Field, ErrS>(Field::Footer),       // [C03.descriptor.by-code] [C05.descriptor.by-code] [C04.descriptor.by-code] [C01.descriptor.by-code] AMQP 1.0 part 3, 3.2.1-3.2.9: descriptor code 0x00000000:0x00000078 is amqp:footer:map -- decoded as that and as nothing else
//@@ end

//@@ fn file=fe2o3-amqp-types/src/messaging/message/mod.rs impl=`impl de::Visitor<'_> for FieldVisitor` name=visit_str id=message_section::visit_str
//@@ generics
//@@ nowhere
//@@ orsplit
//@@ blockarms
//@@ ret Result<Field, ErrS>
//@@ entry
    proof { lemma_names_distinct(); }
//@@ spec
    ensures
        v@ == "amqp:header:list"@ ==> r == Ok::<Field, ErrS>(Field::Header),       // [C03.descriptor.by-name] [C05.descriptor.by-name] [C04.descriptor.by-name] [C01.descriptor.by-name] AMQP 1.0 part 3, 3.2.1-3.2.9: the same type announced by its symbolic descriptor decodes to the same variant as by its code
        v@ == "amqp:delivery-annotations:map"@ ==> r == Ok::<Field, ErrS>(Field::DeliveryAnnotations),       // [C03.descriptor.by-name] [C05.descriptor.by-name] [C04.descriptor.by-name] [C01.descriptor.by-name] AMQP 1.0 part 3, 3.2.1-3.2.9: the same type announced by its symbolic descriptor decodes to the same variant as by its code
        v@ == "amqp:message-annotations:map"@ ==> r == Ok::<Field, ErrS>(Field::MessageAnnotations),       // [C03.descriptor.by-name] [C05.descriptor.by-name] [C04.descriptor.by-name] [C01.descriptor.by-name] AMQP 1.0 part 3, 3.2.1-3.2.9: the same type announced by its symbolic descriptor decodes to the same variant as by its code
        v@ == "amqp:properties:list"@ ==> r == Ok::<Field, ErrS>(Field::Properties),       // [C03.descriptor.by-name] [C05.descriptor.by-name] [C04.descriptor.by-name] [C01.descriptor.by-name] AMQP 1.0 part 3, 3.2.1-3.2.9: the same type announced by its symbolic descriptor decodes to the same variant as by its code
        v@ == "amqp:application-properties:map"@ ==> r == Ok::<Field, ErrS>(Field::ApplicationProperties),       // [C03.descriptor.by-name] [C05.descriptor.by-name] [C04.descriptor.by-name] [C01.descriptor.by-name] AMQP 1.0 part 3, 3.2.1-3.2.9: the same type announced by its symbolic descriptor decodes to the same variant as by its code
        v@ == "amqp:data:binary"@ ==> r == Ok::<Field, ErrS>(Field::Body),       // [C03.descriptor.by-name] [C05.descriptor.by-name] [C04.descriptor.by-name] [C01.descriptor.by-name] AMQP 1.0 part 3, 3.2.1-3.2.9: the same type announced by its symbolic descriptor decodes to the same variant as by its code
        v@ == "amqp:amqp-sequence:list"@ ==> r == Ok::<Field, ErrS>(Field::Body),       // [C03.descriptor.by-name] [C05.descriptor.by-name] [C04.descriptor.by-name] [C01.descriptor.by-name] AMQP 1.0 part 3, 3.2.1-3.2.9: the same type announced by its symbolic descriptor decodes to the same variant as by its code
        v@ == "amqp:amqp-value:*"@ ==> r == Ok::<Field, ErrS>(Field::Body),       // [C03.descriptor.by-name] [C05.descriptor.by-name] [C04.descriptor.by-name] [C01.descriptor.by-name] AMQP 1.0 part 3, 3.2.1-3.2.9: the same type announced by its symbolic descriptor decodes to the same variant as by its code
        v@ == "amqp:footer:map"@ ==> r == Ok::<Field, ErrS>(Field::Footer),       // [C03.descriptor.by-name] [C05.descriptor.by-name] [C04.descriptor.by-name] [C01.descriptor.by-name] AMQP 1.0 part 3, 3.2.1-3.2.9: the same type announced by its symbolic descriptor decodes to the same variant as by its code
//@@ end
}
} // mod message_section

// ================================================================ target_archetype (fe2o3-amqp-types/src/messaging/target.rs)
pub mod target_archetype {
use super::*;
//@@ type file=fe2o3-amqp-types/src/messaging/target.rs kind=enum name=Field
//@@ end
//@@ strlits lemma=lemma_names_distinct `[C03.descriptor.names-distinct] [C05.descriptor.names-distinct] [C04.descriptor.names-distinct] the descriptor names of this group are pairwise different strings` `amqp:target:list|amqp:coordinator:list`
pub struct FieldVisitor {}
impl FieldVisitor {
//@@ fn file=fe2o3-amqp-types/src/messaging/target.rs impl=`impl de::Visitor<'_> for FieldVisitor` name=visit_u64 id=target_archetype::visit_u64
//@@ generics
//@@ nowhere
//@@ orsplit
//@@ blockarms
//@@ ret Result<Field, ErrS>
//@@ spec
    ensures
        v == 0x29 ==> r == Ok::<Field, ErrS>(Field::Target),       // [C03.descriptor.by-code] [C05.descriptor.by-code] [C04.descriptor.by-code] AMQP 1.0 part 3, 3.5.4; part 4, 4.5.1: descriptor code 0x00000000:0x00000029 is amqp:target:list -- decoded as that and as nothing else
        v == 0x30 ==> r == Ok::<Field, ErrS>(Field::Coordinator),       // [C03.descriptor.by-code] [C05.descriptor.by-code] [C04.descriptor.by-code] AMQP 1.0 part 3, 3.5.4; part 4, 4.5.1: descriptor code 0x00000000:0x00000030 is amqp:coordinator:list -- decoded as that and as nothing else
//@@ end

//@@ fn file=fe2o3-amqp-types/src/messaging/target.rs impl=`impl de::Visitor<'_> for FieldVisitor` name=visit_str id=target_archetype::visit_str
//@@ generics
//@@ nowhere
//@@ orsplit
//@@ blockarms
//@@ ret Result<Field, ErrS>
//@@ entry
    proof { lemma_names_distinct(); }
//@@ spec
    ensures
        v@ == "amqp:target:list"@ ==> r == Ok::<Field, ErrS>(Field::Target),       // [C03.descriptor.by-name] [C05.descriptor.by-name] [C04.descriptor.by-name] AMQP 1.0 part 3, 3.5.4; part 4, 4.5.1: the same type announced by its symbolic descriptor decodes to the same variant as by its code
        v@ == "amqp:coordinator:list"@ ==> r == Ok::<Field, ErrS>(Field::Coordinator),       // [C03.descriptor.by-name] [C05.descriptor.by-name] [C04.descriptor.by-name] AMQP 1.0 part 3, 3.5.4; part 4, 4.5.1: the same type announced by its symbolic descriptor decodes to the same variant as by its code
//@@ end
}
} // mod target_archetype

// ================================================================ lifetime_policy (fe2o3-amqp-types/src/messaging/lifetime_policy.rs)
pub mod lifetime_policy {
use super::*;
//@@ type file=fe2o3-amqp-types/src/messaging/lifetime_policy.rs kind=enum name=Field
//@@ end
//@@ strlits lemma=lemma_names_distinct `[C03.descriptor.names-distinct] [C05.descriptor.names-distinct] the descriptor names of this group are pairwise different strings` `amqp:delete-on-close:list|amqp:delete-on-no-links:list|amqp:delete-on-no-messages:list|amqp:delete-on-no-links-or-messages:list`
pub struct FieldVisitor {}
impl FieldVisitor {
//@@ fn file=fe2o3-amqp-types/src/messaging/lifetime_policy.rs impl=`impl de::Visitor<'_> for FieldVisitor` name=visit_u64 id=lifetime_policy::visit_u64
//@@ generics
//@@ nowhere
//@@ orsplit
//@@ blockarms
//@@ ret Result<Field, ErrS>
//@@ spec
    ensures
        v == 0x2b ==> r == Ok::<Field, ErrS>(Field::Close),       // [C03.descriptor.by-code] [C05.descriptor.by-code] AMQP 1.0 part 3, 3.5.10-3.5.13: descriptor code 0x00000000:0x0000002b is amqp:delete-on-close:list -- decoded as that and as nothing else
        v == 0x2c ==> r == Ok::<Field, ErrS>(Field::NoLinks),       // [C03.descriptor.by-code] [C05.descriptor.by-code] AMQP 1.0 part 3, 3.5.10-3.5.13: descriptor code 0x00000000:0x0000002c is amqp:delete-on-no-links:list -- decoded as that and as nothing else
        v == 0x2d ==> r == Ok::<Field, ErrS>(Field::NoMessages),       // [C03.descriptor.by-code] [C05.descriptor.by-code] AMQP 1.0 part 3, 3.5.10-3.5.13: descriptor code 0x00000000:0x0000002d is amqp:delete-on-no-messages:list -- decoded as that and as nothing else
        v == 0x2e ==> r == Ok::<Field, ErrS>(Field::NoLinksOrMessages),       // [C03.descriptor.by-code] [C05.descriptor.by-code] AMQP 1.0 part 3, 3.5.10-3.5.13: descriptor code 0x00000000:0x0000002e is amqp:delete-on-no-links-or-messages:list -- decoded as that and as nothing else
//@@ end

//@@ fn file=fe2o3-amqp-types/src/messaging/lifetime_policy.rs impl=`impl de::Visitor<'_> for FieldVisitor` name=visit_str id=lifetime_policy::visit_str
//@@ generics
//@@ nowhere
//@@ orsplit
//@@ blockarms
//@@ ret Result<Field, ErrS>
//@@ entry
    proof { lemma_names_distinct(); }
//@@ spec
    ensures
        v@ == "amqp:delete-on-close:list"@ ==> r == Ok::<Field, ErrS>(Field::Close),       // [C03.descriptor.by-name] [C05.descriptor.by-name] AMQP 1.0 part 3, 3.5.10-3.5.13: the same type announced by its symbolic descriptor decodes to the same variant as by its code
        v@ == "amqp:delete-on-no-links:list"@ ==> r == Ok::<Field, ErrS>(Field::NoLinks),       // [C03.descriptor.by-name] [C05.descriptor.by-name] AMQP 1.0 part 3, 3.5.10-3.5.13: the same type announced by its symbolic descriptor decodes to the same variant as by its code
        v@ == "amqp:delete-on-no-messages:list"@ ==> r == Ok::<Field, ErrS>(Field::NoMessages),       // [C03.descriptor.by-name] [C05.descriptor.by-name] AMQP 1.0 part 3, 3.5.10-3.5.13: the same type announced by its symbolic descriptor decodes to the same variant as by its code
        v@ == "amqp:delete-on-no-links-or-messages:list"@ ==> r == Ok::<Field, ErrS>(Field::NoLinksOrMessages),       // [C03.descriptor.by-name] [C05.descriptor.by-name] AMQP 1.0 part 3, 3.5.10-3.5.13: the same type announced by its symbolic descriptor decodes to the same variant as by its code
//@@ end
}
} // mod lifetime_policy

// ================================================================ control_link_frame (fe2o3-amqp/src/transaction/control_link_frame.rs)
pub mod control_link_frame {
use super::*;
//@@ type file=fe2o3-amqp/src/transaction/control_link_frame.rs kind=enum name=Field
//@@ end
//@@ strlits lemma=lemma_names_distinct `[C03.descriptor.names-distinct] [C05.descriptor.names-distinct] [C18.descriptor.names-distinct] the descriptor names of this group are pairwise different strings` `amqp:declare:list|amqp:discharge:list`
pub struct FieldVisitor {}
impl FieldVisitor {
//@@ fn file=fe2o3-amqp/src/transaction/control_link_frame.rs impl=`impl de::Visitor<'_> for FieldVisitor` name=visit_u64 id=control_link_frame::visit_u64
//@@ generics
//@@ nowhere
//@@ orsplit
//@@ blockarms
//@@ ret Result<Field, ErrS>
//@@ spec
    ensures
        v == 0x31 ==> r == Ok::<Field, ErrS>(Field::Declare),       // [C03.descriptor.by-code] [C05.descriptor.by-code] [C18.descriptor.by-code] AMQP 1.0 part 4, 4.5.2, 4.5.4: descriptor code 0x00000000:0x00000031 is amqp:declare:list -- decoded as that and as nothing else
        v == 0x32 ==> r == Ok::<Field, ErrS>(Field::Discharge),       // [C03.descriptor.by-code] [C05.descriptor.by-code] [C18.descriptor.by-code] AMQP 1.0 part 4, 4.5.2, 4.5.4: descriptor code 0x00000000:0x00000032 is amqp:discharge:list -- decoded as that and as nothing else
//@@ end

//@@ fn file=fe2o3-amqp/src/transaction/control_link_frame.rs impl=`impl de::Visitor<'_> for FieldVisitor` name=visit_str id=control_link_frame::visit_str
//@@ generics
//@@ nowhere
//@@ orsplit
//@@ blockarms
//@@ ret Result<Field, ErrS>
//@@ entry
    proof { lemma_names_distinct(); }
//@@ spec
    ensures
        v@ == "amqp:declare:list"@ ==> r == Ok::<Field, ErrS>(Field::Declare),       // [C03.descriptor.by-name] [C05.descriptor.by-name] [C18.descriptor.by-name] AMQP 1.0 part 4, 4.5.2, 4.5.4: the same type announced by its symbolic descriptor decodes to the same variant as by its code
        v@ == "amqp:discharge:list"@ ==> r == Ok::<Field, ErrS>(Field::Discharge),       // [C03.descriptor.by-name] [C05.descriptor.by-name] [C18.descriptor.by-name] AMQP 1.0 part 4, 4.5.2, 4.5.4: the same type announced by its symbolic descriptor decodes to the same variant as by its code
//@@ end
}
} // mod control_link_frame

// ================================================================ descriptor (serde_amqp/src/descriptor.rs)
pub mod descriptor {
use super::*;
//@@ type file=serde_amqp/src/descriptor.rs kind=enum name=Field
//@@ end
pub struct FieldVisitor {}
impl FieldVisitor {
//@@ fn file=serde_amqp/src/descriptor.rs impl=`impl de::Visitor<'_> for FieldVisitor` name=visit_u8 id=descriptor::visit_u8
//@@ generics
//@@ nowhere
//@@ orsplit
//@@ blockarms
//@@ qmark
//@@ ret Result<Field, ErrS>
//@@ subst `v.try_into().map_err(|_v0| de::Error::custom(__E1))` => `try_code(v)` rule=R16
//@@ spec
    ensures
        v == 0xa3 || v == 0xb3 ==> r == Ok::<Field, ErrS>(Field::Name),       // [C03.constructor.every-width-variant] [C05.constructor.every-width-variant] [C12.constructor.every-width-variant] a descriptor is a symbol (sym8 / sym32) or a ulong (ulong / smallulong / ulong0), AMQP 1.0 part 1, 1.5: every one of these constructors selects this variant
        v == 0x80 || v == 0x53 || v == 0x44 ==> r == Ok::<Field, ErrS>(Field::Code),       // [C03.constructor.every-width-variant] [C05.constructor.every-width-variant] [C12.constructor.every-width-variant] a descriptor is a symbol (sym8 / sym32) or a ulong (ulong / smallulong / ulong0), AMQP 1.0 part 1, 1.5: every one of these constructors selects this variant
//@@ end
}
} // mod descriptor

// ================================================================ annotation_key (fe2o3-amqp-types/src/messaging/format/annotations.rs)
pub mod annotation_key {
use super::*;
//@@ type file=fe2o3-amqp-types/src/messaging/format/annotations.rs kind=enum name=Field
//@@ end
pub struct FieldVisitor {}
impl FieldVisitor {
//@@ fn file=fe2o3-amqp-types/src/messaging/format/annotations.rs impl=`impl de::Visitor<'_> for FieldVisitor` name=visit_u8 id=annotation_key::visit_u8
//@@ generics
//@@ nowhere
//@@ orsplit
//@@ blockarms
//@@ qmark
//@@ ret Result<Field, ErrS>
//@@ subst `v.try_into().map_err(|_v0| de::Error::custom(__E1))` => `try_code(v)` rule=R16
//@@ spec
    ensures
        v == 0xa3 || v == 0xb3 ==> r == Ok::<Field, ErrS>(Field::Symbol),       // [C03.constructor.every-width-variant] [C05.constructor.every-width-variant] an annotation key is a symbol or a ulong (AMQP 1.0 part 3, 3.2.10), in every width: every one of these constructors selects this variant
        v == 0x80 || v == 0x53 || v == 0x44 ==> r == Ok::<Field, ErrS>(Field::Ulong),       // [C03.constructor.every-width-variant] [C05.constructor.every-width-variant] an annotation key is a symbol or a ulong (AMQP 1.0 part 3, 3.2.10), in every width: every one of these constructors selects this variant
//@@ end
}
} // mod annotation_key

// ================================================================ message_id (fe2o3-amqp-types/src/messaging/format/message_id.rs)
pub mod message_id {
use super::*;
//@@ type file=fe2o3-amqp-types/src/messaging/format/message_id.rs kind=enum name=Field
//@@ end
pub struct FieldVisitor {}
impl FieldVisitor {
//@@ fn file=fe2o3-amqp-types/src/messaging/format/message_id.rs impl=`impl de::Visitor<'_> for FieldVisitor` name=visit_u8 id=message_id::visit_u8
//@@ generics
//@@ nowhere
//@@ orsplit
//@@ blockarms
//@@ qmark
//@@ ret Result<Field, ErrS>
//@@ subst `v.try_into().map_err(|_v0| de::Error::custom(__E1))` => `try_code(v)` rule=R16
//@@ spec
    ensures
        v == 0x80 || v == 0x53 || v == 0x44 ==> r == Ok::<Field, ErrS>(Field::Ulong),       // [C03.constructor.every-width-variant] [C05.constructor.every-width-variant] a message-id is a ulong, a uuid, a binary or a string (AMQP 1.0 part 3, 3.2.11-3.2.14), in every width: every one of these constructors selects this variant
        v == 0x98 ==> r == Ok::<Field, ErrS>(Field::Uuid),       // [C03.constructor.every-width-variant] [C05.constructor.every-width-variant] a message-id is a ulong, a uuid, a binary or a string (AMQP 1.0 part 3, 3.2.11-3.2.14), in every width: every one of these constructors selects this variant
        v == 0xa0 || v == 0xb0 ==> r == Ok::<Field, ErrS>(Field::Binary),       // [C03.constructor.every-width-variant] [C05.constructor.every-width-variant] a message-id is a ulong, a uuid, a binary or a string (AMQP 1.0 part 3, 3.2.11-3.2.14), in every width: every one of these constructors selects this variant
        v == 0xa1 || v == 0xb1 ==> r == Ok::<Field, ErrS>(Field::String),       // [C03.constructor.every-width-variant] [C05.constructor.every-width-variant] a message-id is a ulong, a uuid, a binary or a string (AMQP 1.0 part 3, 3.2.11-3.2.14), in every width: every one of these constructors selects this variant
//@@ end
}
} // mod message_id

// ================================================================ array_or_single (serde_amqp/src/primitives/array.rs)
pub mod array_or_single {
use super::*;
//@@ type file=serde_amqp/src/primitives/array.rs kind=enum name=Field
//@@ end
pub struct FieldVisitor {}
impl FieldVisitor {
//@@ fn file=serde_amqp/src/primitives/array.rs impl=`impl de::Visitor<'_> for FieldVisitor` name=visit_u8 id=array_or_single::visit_u8
//@@ generics
//@@ nowhere
//@@ orsplit
//@@ blockarms
//@@ qmark
//@@ ret Result<Field, ErrS>
//@@ subst `v.try_into().map_err(|_v0| de::Error::custom(__E1))` => `try_code(v)` rule=R16
//@@ spec
    ensures
        v == 0xe0 || v == 0xf0 ==> r == Ok::<Field, ErrS>(Field::Multiple),       // [C03.constructor.every-width-variant] [C05.constructor.every-width-variant] a multiple field is an array (array8 / array32) of values or one bare value (AMQP 1.0 part 1, 1.4): every one of these constructors selects this variant
        !(v == 0xe0 || v == 0xf0) && r is Ok ==> r == Ok::<Field, ErrS>(Field::Single),       // [C03.constructor.every-width-variant] [C05.constructor.every-width-variant] anything else is the other form
//@@ end
}
} // mod array_or_single

} // verus!
fn main() {}
