//@@ unit LINKEXCH
//@@ gsubst `definitions::Error` => `AmqpError` rule=R11
#![feature(allocator_api)]
#![allow(unused_imports, unused_variables, dead_code, unused_mut, unused_parens)]
use vstd::prelude::*;

verus! {

//@@ trusted the link (`SenderLink<T>` / `ReceiverLink<T>`) is a stand-in that RECORDS the link-level operations performed on it: send_attach, on_incoming_attach (units LINK / LINKATTACH), send_detach and on_incoming_detach (unit LINK; the parts of their contracts used here -- which states allow a detach to be written, what a peer's closing detach returns -- are restated); the incoming channel yields arbitrary frames of the peer or None once the session has dropped the relay; `(&attach_error).try_into()` (which error condition a refused attach is closed with: link/error.rs, format! inside) is a stand-in that says only WHICH attach errors have a condition
//@@ trusted leaf stand-ins: AmqpError (definitions::Error), Attach, the session control queue

macro_rules! opaque {
    ($($n:ident),*) => { verus!{ $(
        #[verifier::external_body]
        pub struct $n { _p: u8 }
        impl Clone for $n { #[verifier::external_body] fn clone(&self) -> (r: Self) ensures r == *self { unimplemented!() } }
    )* } }
}
opaque!(AmqpError, ConnectionStopReason, Attach, LinkFlow, Disposition, Transfer, Payload, AcqMarker, InputHandle, AttachExchangeS, DesiredFilterNotSupported);
pub struct Handle(pub u32);
pub type Boolean = bool;

//@@ type file=fe2o3-amqp/src/link/error.rs kind=enum name=SessionStopReason clone
//@@ end
//@@ type file=fe2o3-amqp-types/src/performatives/detach.rs kind=struct name=Detach
//@@ subst `Option<Error>` => `Option<AmqpError>` rule=optional
//@@ end
//@@ type file=fe2o3-amqp/src/link/state.rs kind=enum name=LinkState
//@@ end
//@@ type file=fe2o3-amqp/src/link/error.rs kind=enum name=DetachError
//@@ end
//@@ type file=fe2o3-amqp/src/link/error.rs kind=enum name=SenderAttachError
//@@ end
//@@ type file=fe2o3-amqp/src/link/error.rs kind=enum name=ReceiverAttachError
//@@ subst `DesiredFilterNotSupported(#[from] DesiredFilterNotSupported)` => `DesiredFilterNotSupported(DesiredFilterNotSupported)` rule=optional-R6
//@@ end

pub trait ErrInto<T>: Sized { spec fn conv(self) -> T; fn err_into(self) -> (r: T) ensures r == self.conv(); }
impl ErrInto<SenderAttachError> for SenderAttachError { open spec fn conv(self) -> SenderAttachError { self } fn err_into(self) -> (r: SenderAttachError) { let e = self; assert(e == <SenderAttachError as ErrInto<SenderAttachError>>::conv(self)); e } }
impl ErrInto<ReceiverAttachError> for ReceiverAttachError { open spec fn conv(self) -> ReceiverAttachError { self } fn err_into(self) -> (r: ReceiverAttachError) { let e = self; assert(e == <ReceiverAttachError as ErrInto<ReceiverAttachError>>::conv(self)); e } }
pub enum LinkFrame { Attach(Attach), Flow(LinkFlow), Transfer { input_handle: InputHandle, performative: Transfer, payload: Payload }, Disposition(Disposition), Detach(Detach), Acquisition(AcqMarker) }
/// the endpoint's incoming channel: what was taken from it, and whether the last recv() found it closed and empty
pub struct Rx { pub got: Ghost<Seq<LinkFrame>>, pub closed_seen: Ghost<bool> }
impl Rx {
    #[verifier::external_body]
    pub fn recv(&mut self) -> (r: Option<LinkFrame>)
        ensures (match r { Some(f) => final(self).got@ == old(self).got@.push(f) && !final(self).closed_seen@, None => final(self).got@ == old(self).got@ && final(self).closed_seen@ }),
    { unimplemented!() }
}
pub struct Tx { pub p: u8 }
pub enum SessionControl { End(Option<AmqpError>), Other }
pub struct ChanErr {}
/// the session's control queue: what this link asked of the session
pub struct SessTx { pub asked: Ghost<Seq<SessionControl>> }
impl SessTx {
    #[verifier::external_body]
    pub fn send(&self, c: SessionControl) -> (r: Result<(), ChanErr>) { unimplemented!() }
}
/// Arc<OnceLock<SessionStopReason>>
pub struct StopCell { pub v: Option<SessionStopReason> }
impl StopCell {
    pub fn get(&self) -> (r: Option<&SessionStopReason>) ensures (match (r, self.v) { (Some(a), Some(b)) => *a == b, (None, None) => true, _ => false }) { match &self.v { Some(x) => Some(x), None => None } }
}
/// `definitions::Error::new(SessionError::HandleInUse, "Link name is in use".to_string(), None)`
#[verifier::external_body]
pub fn handle_in_use_error() -> (r: AmqpError) { unimplemented!() }

pub enum Op { SendAttach(bool), OnAttach(Attach), SendDetach(bool, Option<AmqpError>), OnDetach(Detach) }
pub struct SndM {}
pub struct RcvM {}
/// M: which end of the link this is (the two ends have different attach-error types)
pub struct LinkS<M> { pub local_state: LinkState, pub session_stop_reason: StopCell, pub ops: Ghost<Seq<Op>>, pub m: Ghost<M> }
/// Link::send_detach (unit LINK, [C13.link.detach-only-when-attached]): the states from which a detach may be written
pub open spec fn send_legal(st: LinkState, closed: bool) -> bool {
    match (st, closed) {
        (LinkState::Attached, _) => true,
        (LinkState::DetachReceived, false) => true,
        (LinkState::CloseReceived, true) => true,
        _ => false,
    }
}
impl<M> LinkS<M> {
    pub fn session_stop_reason(&self) -> (r: &StopCell) ensures *r == self.session_stop_reason { &self.session_stop_reason }
    /// Link::send_detach (unit LINK): written only from a legal state; then the state is CloseSent / DetachSent (or Closed / Detached when it answers the peer's)
    #[verifier::external_body]
    pub fn send_detach(&mut self, writer: &Tx, closed: bool, error: Option<AmqpError>) -> (r: Result<(), DetachError>)
        ensures final(self).session_stop_reason == old(self).session_stop_reason,
            r is Ok ==> send_legal(old(self).local_state, closed) && final(self).ops@ == old(self).ops@.push(Op::SendDetach(closed, error))
                && (old(self).local_state is Attached && closed ==> final(self).local_state is CloseSent)
                && (old(self).local_state is Attached && !closed ==> final(self).local_state is DetachSent),
            r is Err ==> final(self).ops@ == old(self).ops@ && final(self).local_state == old(self).local_state,
    { unimplemented!() }
    /// Link::on_incoming_detach (unit LINK: [C13.link.peer-close], [C13.link.peer-detach-error-reported])
    #[verifier::external_body]
    pub fn on_incoming_detach(&mut self, detach: Detach) -> (r: Result<(), DetachError>)
        ensures final(self).session_stop_reason == old(self).session_stop_reason, final(self).ops@ == old(self).ops@.push(Op::OnDetach(detach)),
            detach.closed && (old(self).local_state is CloseSent || old(self).local_state is Attached || old(self).local_state is AttachSent || old(self).local_state is AttachReceived)
                ==> (match detach.error { Some(e) => r == Err::<(), DetachError>(DetachError::RemoteClosedWithError(e)), None => r is Ok }),
            detach.error is Some ==> r is Err && !(r->Err_0 is ClosedByRemote) && !(r->Err_0 is DetachedByRemote),
            !detach.closed && (old(self).local_state is Attached || old(self).local_state is DetachSent)
                ==> (match detach.error { Some(e) => r == Err::<(), DetachError>(DetachError::RemoteDetachedWithError(e)), None => r is Ok }),       // (unit LINK: [C13.link.peer-detach-error])
    { unimplemented!() }
}

// ================================================================ sender side (link/sender_link.rs)
pub mod sender {
use super::*;
pub type L = LinkS<SndM>;
/// `(&attach_error).try_into()` (TryFrom<&SenderAttachError> for definitions::Error, link/error.rs): the attach errors a refusing detach names a condition for
#[verifier::external_body]
pub fn condition_of(e: &SenderAttachError) -> (r: Result<AmqpError, ()>)
    ensures (*e is CoordinatorIsNotImplemented || *e is SourceAddressIsSomeWhenDynamicIsTrue || *e is TargetAddressIsNoneWhenDynamicIsTrue || *e is DynamicNodePropertiesIsSomeWhenDynamicIsFalse) ==> r is Ok,
{ unimplemented!() }
impl L {
    /// SenderLink::send_attach (units LINK / LINKATTACH): the local attach is queued, or the failure reported
    #[verifier::external_body]
    pub fn send_attach(&mut self, writer: &Tx, session: &SessTx, is_reattaching: bool) -> (r: Result<(), SenderAttachError>)
        ensures final(self).session_stop_reason == old(self).session_stop_reason,
            r is Ok ==> final(self).ops@ == old(self).ops@.push(Op::SendAttach(is_reattaching)), r is Err ==> final(self).ops@ == old(self).ops@,
    { unimplemented!() }
    /// SenderLink::on_incoming_attach (unit LINKATTACH)
    #[verifier::external_body]
    pub fn on_incoming_attach(&mut self, remote_attach: Attach) -> (r: Result<AttachExchangeS, SenderAttachError>)
        ensures final(self).session_stop_reason == old(self).session_stop_reason, final(self).ops@ == old(self).ops@.push(Op::OnAttach(remote_attach)),
    { unimplemented!() }
}
impl SenderAttachError {
//@@ fn file=fe2o3-amqp/src/link/error.rs impl=`impl TryFrom<DetachError> for SenderAttachError` name=try_from as=try_from_detach
//@@ orsplit
//@@ ret Result<SenderAttachError, DetachError>
//@@ spec
    ensures
        value is RemoteClosedWithError ==> r == Ok::<SenderAttachError, DetachError>(SenderAttachError::RemoteClosedWithError(value->RemoteClosedWithError_0)),       // [C14.attach.peer-error-kept] [C13.attach.peer-error-kept] the error the peer's detach carried is what the failed attach reports, unchanged
        value is RemoteDetachedWithError ==> r == Ok::<SenderAttachError, DetachError>(SenderAttachError::RemoteClosedWithError(value->RemoteDetachedWithError_0)),       // [C14.attach.peer-error-kept] [C13.attach.peer-error-kept]
        r is Ok ==> r->Ok_0 is IllegalState || r->Ok_0 is SessionStopped || r->Ok_0 is RemoteClosedWithError,
        value is SessionStopped ==> r == Ok::<SenderAttachError, DetachError>(SenderAttachError::SessionStopped(value->SessionStopped_0)),       // [C14.attach.stop-reason-kept] who stopped, and why, survives the conversion
//@@ end
}

//@@ fn file=fe2o3-amqp/src/link/sender_link.rs name=recv_detach id=sender::recv_detach
//@@ generics
//@@ nowhere
//@@ blockarms
//@@ param link : &mut L
//@@ param reader : &mut Rx
//@@ subst `detach_error.try_into().unwrap_or(err)` => `(match SenderAttachError::try_from_detach(detach_error) { Ok(v) => v, Err(_v1) => err })` rule=R19 unless `unwrap_or`
//@@ spec
    ensures
        final(link).session_stop_reason == old(link).session_stop_reason,
        r == err || r is SessionStopped || r is IllegalState || r is RemoteClosedWithError || r is NonAttachFrameReceived,       // what is reported is the error handed in, the peer's, or that the session / the frame was not what was expected
        old(reader).got@.len() <= final(reader).got@.len() <= old(reader).got@.len() + 1,       // [C13.attach.one-frame-awaited] exactly one frame is awaited: the peer's answering detach
        final(reader).got@.len() == old(reader).got@.len() + 1 && final(reader).got@.last() is Detach ==> ({
            let d = final(reader).got@.last()->Detach_0;
            &&& final(link).ops@ == old(link).ops@.push(Op::OnDetach(d))                                         // [C13.attach.peer-detach-taken-up] the peer's detach is applied to the link (which completes the close handshake)
            &&& d.closed && d.error is Some && old(link).local_state is CloseSent ==> r == SenderAttachError::RemoteClosedWithError(d.error->Some_0)       // [C14.attach.peer-detach-error-reported] [C13.attach.peer-detach-error-reported] when the peer refuses the link with a closing detach that carries an error, THAT error is what the attach call returns
            &&& d.error is None && old(link).local_state is CloseSent && d.closed ==> r == err
        }),
        final(reader).got@.len() == old(reader).got@.len() + 1 && !(final(reader).got@.last() is Detach) ==> final(link).ops == old(link).ops && r is NonAttachFrameReceived,
        final(reader).got@.len() == old(reader).got@.len() ==> final(link).ops == old(link).ops && (match old(link).session_stop_reason.v {
            Some(reason) => r == SenderAttachError::SessionStopped(reason),                                        // [C14.attach.closed-channel-reports-stop-reason] the session went away while the link waited: the published reason is reported
            None => r is IllegalState,
        }),
//@@ end

impl L {
//@@ fn file=fe2o3-amqp/src/link/sender_link.rs impl=`~impl<T>endpoint::LinkExtforSenderLink<T>` name=exchange_attach id=sender::exchange_attach
//@@ qmark
//@@ blockarms
//@@ param writer : &Tx
//@@ param reader : &mut Rx
//@@ param session : &SessTx
//@@ ret Result<AttachExchangeS, SenderAttachError>
//@@ subst `.ok_or_else(|| match self.session_stop_reason.get() { __E1 })` => `.ok_or_else(|| -> (o: SenderAttachError) ensures (match self.session_stop_reason.v { Some(reason) => o == SenderAttachError::SessionStopped(reason), None => o is IllegalState }) { match self.session_stop_reason.get() { __E1 } })` rule=R18
//@@ spec
    ensures
        final(self).session_stop_reason == old(self).session_stop_reason,
        final(self).ops@.len() == old(self).ops@.len() ==> r is Err && final(reader).got == old(reader).got,        // [C13.attach.own-attach-first] nothing is awaited from the peer unless the local attach has been queued
        final(self).ops@.len() > old(self).ops@.len() ==> final(self).ops@[old(self).ops@.len() as int] == Op::SendAttach(is_reattaching),
        final(reader).got@.len() <= old(reader).got@.len() + 1,
        r is Ok ==> final(reader).got@.len() == old(reader).got@.len() + 1 && final(reader).got@.last() is Attach
            && final(self).ops@ == old(self).ops@.push(Op::SendAttach(is_reattaching)).push(Op::OnAttach(final(reader).got@.last()->Attach_0)),      // [C13.attach.exchange] the exchange succeeds only on the peer's attach, which is applied to the link exactly once
        final(reader).got@.len() == old(reader).got@.len() + 1 && !(final(reader).got@.last() is Attach) ==> r is Err && r->Err_0 is NonAttachFrameReceived,
        final(self).ops@.len() > old(self).ops@.len() && final(reader).got@.len() == old(reader).got@.len() ==> (match old(self).session_stop_reason.v {
            Some(reason) => r == Err::<AttachExchangeS, SenderAttachError>(SenderAttachError::SessionStopped(reason)),       // [C14.attach.closed-channel-reports-stop-reason]
            None => r is Err && r->Err_0 is IllegalState,
        }),
//@@ end
}

/// how many detaches the operations from index `from` on wrote
pub open spec fn detaches_from(ops: Seq<Op>, from: int) -> nat decreases ops.len() - from {
    if from >= ops.len() || from < 0 { 0 } else { (if ops[from] is SendDetach { 1nat } else { 0nat }) + detaches_from(ops, from + 1) }
}

//@@ fn file=fe2o3-amqp/src/link/sender_link.rs name=try_detach_with_error
//@@ generics
//@@ nowhere
//@@ blockarms
//@@ param link : &mut L
//@@ param writer : &Tx
//@@ param reader : &mut Rx
//@@ subst `(&attach_error).try_into()` => `condition_of(&attach_error)` rule=R16
//@@ spec
    ensures
        final(link).session_stop_reason == old(link).session_stop_reason,
        final(reader).got@.len() <= old(reader).got@.len() + 1,
        final(link).ops@.len() <= old(link).ops@.len() + 2,
        final(link).ops@.len() > old(link).ops@.len() ==> final(link).ops@[old(link).ops@.len() as int] is SendDetach
            && final(link).ops@[old(link).ops@.len() as int]->SendDetach_0 && final(link).ops@[old(link).ops@.len() as int]->SendDetach_1 is Some,       // [C13.attach.refused-attach-closed-with-error] an attach this end has to refuse is answered with a CLOSING detach that names an error, before anything else
        final(link).ops@.len() == old(link).ops@.len() + 2 ==> final(link).ops@.last() is OnDetach,                                                    // [C13.attach.at-most-one-detach] one detach at most is written for the refused attach; what follows it is the peer's answer, taken from the channel and applied
        final(link).ops@.len() == old(link).ops@.len() ==> final(reader).got == old(reader).got,                                                       // nothing is awaited unless the detach went out
        r == attach_error && (attach_error is CoordinatorIsNotImplemented || attach_error is SourceAddressIsSomeWhenDynamicIsTrue || attach_error is TargetAddressIsNoneWhenDynamicIsTrue || attach_error is DynamicNodePropertiesIsSomeWhenDynamicIsFalse)
            ==> final(link).ops@.len() > old(link).ops@.len(),       // [C13.attach.refused-attach-is-closed]
        final(reader).got == old(reader).got && r != attach_error ==> (match old(link).session_stop_reason.v {
            Some(reason) => r == SenderAttachError::SessionStopped(reason),       // [C14.attach.closed-channel-reports-stop-reason]
            None => r is IllegalState,
        }),
//@@ end

impl L {
//@@ fn file=fe2o3-amqp/src/link/sender_link.rs impl=`~impl<T>endpoint::LinkExtforSenderLink<T>` name=handle_attach_error id=sender::handle_attach_error
//@@ orsplit
//@@ blockarms
//@@ param writer : &Tx
//@@ param reader : &mut Rx
//@@ param session : &SessTx
//@@ subst `definitions::Error::new(__E1)` => `handle_in_use_error()` rule=R9
//@@ subst `session .send(SessionControl::End(Some(error))) .map(|_v0| attach_error) .unwrap_or(match self.session_stop_reason.get() { __E1 })` => `(match session.send(SessionControl::End(Some(error))) { Ok(_v0) => attach_error, Err(_v1) => match self.session_stop_reason.get() { __E1 } })` rule=R19
//@@ subst `self .send_detach(writer, true, None) .map(|_v1| attach_error) .unwrap_or(match self.session_stop_reason.get() { __E1 })` => `(match self.send_detach(writer, true, None) { Ok(_v0) => attach_error, Err(_v1) => match self.session_stop_reason.get() { __E1 } })` rule=R19
//@@ spec
    ensures
        final(self).session_stop_reason == old(self).session_stop_reason,
        final(reader).got@.len() <= old(reader).got@.len() + 1,
        final(self).ops@.len() <= old(self).ops@.len() + 2,
        (attach_error is SessionStopped || attach_error is SessionNotMapped || attach_error is IllegalState || attach_error is NonAttachFrameReceived || attach_error is ExpectImmediateDetach || attach_error is RemoteClosedWithError)
            ==> r == attach_error && final(self).ops == old(self).ops && final(reader).got == old(reader).got,       // [C13.attach.failed-attach-writes-nothing] [C14.attach.error-kept] an attach that failed because the session or the peer went away (or the peer already closed the link with its error) is reported as it is: no detach is written for a link that was never attached
        forall|i: int| old(self).ops@.len() <= i < final(self).ops@.len() && #[trigger] final(self).ops@[i] is SendDetach ==> final(self).ops@[i]->SendDetach_0 && i == old(self).ops@.len(),       // [C13.attach.refused-attach-closed] [C13.attach.at-most-one-detach] a detach written for a refused attach is a CLOSING one, it is the first thing written, and there is no second one
        (attach_error is IncomingTargetIsNone || attach_error is SndSettleModeNotSupported || attach_error is CoordinatorIsNotImplemented || attach_error is SourceAddressIsSomeWhenDynamicIsTrue
            || attach_error is TargetAddressIsNoneWhenDynamicIsTrue || attach_error is DynamicNodePropertiesIsSomeWhenDynamicIsFalse) && r == attach_error
            ==> final(self).ops@.len() > old(self).ops@.len() && final(self).ops@[old(self).ops@.len() as int] is SendDetach,       // [C13.attach.refused-attach-is-closed] when THIS end refuses the peer's attach and says so to its caller, the closing detach has been written: the peer is not left with a link nobody owns (if the detach cannot be written the caller is told that the session is gone instead)
        final(self).ops@.len() == old(self).ops@.len() + 2 ==> final(self).ops@.last() is OnDetach,       // [C13.attach.at-most-one-detach]
        final(reader).got == old(reader).got && r != attach_error ==> (match old(self).session_stop_reason.v {
            Some(reason) => r == SenderAttachError::SessionStopped(reason),       // [C14.attach.closed-channel-reports-stop-reason] when the refusal cannot be written or its answer never comes because the session has gone, the caller is told the session's published stop reason -- not some other error of the link's own choosing
            None => r is IllegalState,
        }),
//@@ end
}
} // mod sender

// ================================================================ receiver side (link/receiver_link.rs)
pub mod receiver {
use super::*;
pub type L = LinkS<RcvM>;
/// `(&attach_error).try_into()` (TryFrom<&ReceiverAttachError> for definitions::Error, link/error.rs): the attach errors a refusing detach names a condition for
#[verifier::external_body]
pub fn condition_of(e: &ReceiverAttachError) -> (r: Result<AmqpError, ()>)
    ensures (*e is CoordinatorIsNotImplemented || *e is InitialDeliveryCountIsNone || *e is SourceAddressIsNoneWhenDynamicIsTrue || *e is TargetAddressIsSomeWhenDynamicIsTrue || *e is DynamicNodePropertiesIsSomeWhenDynamicIsFalse) ==> r is Ok,
{ unimplemented!() }
impl L {
    /// ReceiverLink::send_attach (units LINK / LINKATTACH): the local attach is queued, or the failure reported
    #[verifier::external_body]
    pub fn send_attach(&mut self, writer: &Tx, session: &SessTx, is_reattaching: bool) -> (r: Result<(), ReceiverAttachError>)
        ensures final(self).session_stop_reason == old(self).session_stop_reason,
            r is Ok ==> final(self).ops@ == old(self).ops@.push(Op::SendAttach(is_reattaching)), r is Err ==> final(self).ops@ == old(self).ops@,
    { unimplemented!() }
    /// ReceiverLink::on_incoming_attach (unit LINKATTACH)
    #[verifier::external_body]
    pub fn on_incoming_attach(&mut self, remote_attach: Attach) -> (r: Result<AttachExchangeS, ReceiverAttachError>)
        ensures final(self).session_stop_reason == old(self).session_stop_reason, final(self).ops@ == old(self).ops@.push(Op::OnAttach(remote_attach)),
    { unimplemented!() }
}
impl ReceiverAttachError {
//@@ fn file=fe2o3-amqp/src/link/error.rs impl=`impl TryFrom<DetachError> for ReceiverAttachError` name=try_from as=try_from_detach
//@@ orsplit
//@@ ret Result<ReceiverAttachError, DetachError>
//@@ spec
    ensures
        value is RemoteClosedWithError ==> r == Ok::<ReceiverAttachError, DetachError>(ReceiverAttachError::RemoteClosedWithError(value->RemoteClosedWithError_0)),       // [C14.attach.peer-error-kept] [C13.attach.peer-error-kept] the error the peer's detach carried is what the failed attach reports, unchanged
        value is RemoteDetachedWithError ==> r == Ok::<ReceiverAttachError, DetachError>(ReceiverAttachError::RemoteClosedWithError(value->RemoteDetachedWithError_0)),       // [C14.attach.peer-error-kept] [C13.attach.peer-error-kept]
        r is Ok ==> r->Ok_0 is IllegalState || r->Ok_0 is SessionStopped || r->Ok_0 is RemoteClosedWithError,
        value is SessionStopped ==> r == Ok::<ReceiverAttachError, DetachError>(ReceiverAttachError::SessionStopped(value->SessionStopped_0)),       // [C14.attach.stop-reason-kept] who stopped, and why, survives the conversion
//@@ end
}

//@@ fn file=fe2o3-amqp/src/link/receiver_link.rs name=recv_detach id=receiver::recv_detach
//@@ generics
//@@ nowhere
//@@ blockarms
//@@ param link : &mut L
//@@ param reader : &mut Rx
//@@ subst `detach_error.try_into().unwrap_or(err)` => `(match ReceiverAttachError::try_from_detach(detach_error) { Ok(v) => v, Err(_v1) => err })` rule=R19 unless `unwrap_or`
//@@ spec
    ensures
        final(link).session_stop_reason == old(link).session_stop_reason,
        r == err || r is SessionStopped || r is IllegalState || r is RemoteClosedWithError || r is NonAttachFrameReceived,       // what is reported is the error handed in, the peer's, or that the session / the frame was not what was expected
        old(reader).got@.len() <= final(reader).got@.len() <= old(reader).got@.len() + 1,       // [C13.attach.one-frame-awaited] exactly one frame is awaited: the peer's answering detach
        final(reader).got@.len() == old(reader).got@.len() + 1 && final(reader).got@.last() is Detach ==> ({
            let d = final(reader).got@.last()->Detach_0;
            &&& final(link).ops@ == old(link).ops@.push(Op::OnDetach(d))                                         // [C13.attach.peer-detach-taken-up] the peer's detach is applied to the link (which completes the close handshake)
            &&& d.closed && d.error is Some && old(link).local_state is CloseSent ==> r == ReceiverAttachError::RemoteClosedWithError(d.error->Some_0)       // [C14.attach.peer-detach-error-reported] [C13.attach.peer-detach-error-reported] when the peer refuses the link with a closing detach that carries an error, THAT error is what the attach call returns
            &&& d.error is None && old(link).local_state is CloseSent && d.closed ==> r == err
        }),
        final(reader).got@.len() == old(reader).got@.len() + 1 && !(final(reader).got@.last() is Detach) ==> final(link).ops == old(link).ops && r is NonAttachFrameReceived,
        final(reader).got@.len() == old(reader).got@.len() ==> final(link).ops == old(link).ops && (match old(link).session_stop_reason.v {
            Some(reason) => r == ReceiverAttachError::SessionStopped(reason),                                        // [C14.attach.closed-channel-reports-stop-reason] the session went away while the link waited: the published reason is reported
            None => r is IllegalState,
        }),
//@@ end

impl L {
//@@ fn file=fe2o3-amqp/src/link/receiver_link.rs impl=`~impl<T>endpoint::LinkExtforReceiverLink<T>` name=exchange_attach id=receiver::exchange_attach
//@@ qmark
//@@ blockarms
//@@ param writer : &Tx
//@@ param reader : &mut Rx
//@@ param session : &SessTx
//@@ ret Result<AttachExchangeS, ReceiverAttachError>
//@@ subst `.ok_or_else(|| match self.session_stop_reason.get() { __E1 })` => `.ok_or_else(|| -> (o: ReceiverAttachError) ensures (match self.session_stop_reason.v { Some(reason) => o == ReceiverAttachError::SessionStopped(reason), None => o is IllegalState }) { match self.session_stop_reason.get() { __E1 } })` rule=R18
//@@ spec
    ensures
        final(self).session_stop_reason == old(self).session_stop_reason,
        final(self).ops@.len() == old(self).ops@.len() ==> r is Err && final(reader).got == old(reader).got,        // [C13.attach.own-attach-first] nothing is awaited from the peer unless the local attach has been queued
        final(self).ops@.len() > old(self).ops@.len() ==> final(self).ops@[old(self).ops@.len() as int] == Op::SendAttach(is_reattaching),
        final(reader).got@.len() <= old(reader).got@.len() + 1,
        r is Ok ==> final(reader).got@.len() == old(reader).got@.len() + 1 && final(reader).got@.last() is Attach
            && final(self).ops@ == old(self).ops@.push(Op::SendAttach(is_reattaching)).push(Op::OnAttach(final(reader).got@.last()->Attach_0)),      // [C13.attach.exchange] the exchange succeeds only on the peer's attach, which is applied to the link exactly once
        final(reader).got@.len() == old(reader).got@.len() + 1 && !(final(reader).got@.last() is Attach) ==> r is Err && r->Err_0 is NonAttachFrameReceived,
        final(self).ops@.len() > old(self).ops@.len() && final(reader).got@.len() == old(reader).got@.len() ==> (match old(self).session_stop_reason.v {
            Some(reason) => r == Err::<AttachExchangeS, ReceiverAttachError>(ReceiverAttachError::SessionStopped(reason)),       // [C14.attach.closed-channel-reports-stop-reason]
            None => r is Err && r->Err_0 is IllegalState,
        }),
//@@ end
}

impl L {
//@@ fn file=fe2o3-amqp/src/link/receiver_link.rs impl=`~impl<T>endpoint::LinkExtforReceiverLink<T>` name=handle_attach_error id=receiver::handle_attach_error
//@@ orsplit
//@@ blockarms
//@@ param writer : &Tx
//@@ param reader : &mut Rx
//@@ param session : &SessTx
//@@ subst `definitions::Error::new(__E1)` => `handle_in_use_error()` rule=R9
//@@ subst `(&attach_error).try_into()` => `condition_of(&attach_error)` rule=R16
//@@ subst `session .send(SessionControl::End(Some(error))) .map(|_v0| attach_error) .unwrap_or(match self.session_stop_reason.get() { __E1 })` => `(match session.send(SessionControl::End(Some(error))) { Ok(_v0) => attach_error, Err(_v1) => match self.session_stop_reason.get() { __E1 } })` rule=R19
//@@ subst `self .send_detach(writer, true, None) .map(|_v1| attach_error) .unwrap_or(match self.session_stop_reason.get() { __E1 })` => `(match self.send_detach(writer, true, None) { Ok(_v0) => attach_error, Err(_v1) => match self.session_stop_reason.get() { __E1 } })` rule=R19 unless `send_detach\(writer,true,None\)`
//@@ spec
    ensures
        final(self).session_stop_reason == old(self).session_stop_reason,
        final(reader).got@.len() <= old(reader).got@.len() + 1,
        final(self).ops@.len() <= old(self).ops@.len() + 2,
        (attach_error is SessionStopped || attach_error is IllegalState || attach_error is NonAttachFrameReceived || attach_error is ExpectImmediateDetach || attach_error is RemoteClosedWithError)
            ==> r == attach_error && final(self).ops == old(self).ops && final(reader).got == old(reader).got,       // [C13.attach.failed-attach-writes-nothing] [C14.attach.error-kept]
        forall|i: int| old(self).ops@.len() <= i < final(self).ops@.len() && #[trigger] final(self).ops@[i] is SendDetach ==> final(self).ops@[i]->SendDetach_0 && i == old(self).ops@.len(),       // [C13.attach.refused-attach-closed]
        (attach_error is IncomingSourceIsNone || attach_error is CoordinatorIsNotImplemented || attach_error is InitialDeliveryCountIsNone || attach_error is SourceAddressIsNoneWhenDynamicIsTrue
            || attach_error is TargetAddressIsSomeWhenDynamicIsTrue || attach_error is DynamicNodePropertiesIsSomeWhenDynamicIsFalse) && r == attach_error
            ==> final(self).ops@.len() > old(self).ops@.len() && final(self).ops@[old(self).ops@.len() as int] is SendDetach,       // [C13.attach.refused-attach-is-closed]
        final(self).ops@.len() == old(self).ops@.len() + 2 ==> final(self).ops@.last() is OnDetach,       // [C13.attach.at-most-one-detach]
        final(reader).got == old(reader).got && r != attach_error ==> (match old(self).session_stop_reason.v {
            Some(reason) => r == ReceiverAttachError::SessionStopped(reason),       // [C14.attach.closed-channel-reports-stop-reason] when the refusal cannot be written or its answer never comes because the session has gone, the caller is told the session's published stop reason -- not some other error of the link's own choosing
            None => r is IllegalState,
        }),
//@@ end
}
} // mod receiver

// ================================================================ the credit wait of a sending link: the arm that sees the peer's detach (link/sender_link.rs get_delivery_tag_or_detached, R33)
pub mod creditwait {
use super::*;
/// the future that resolves with the next frame on the link's channel (already resolved: `frame`)
pub struct DetachedFutS {}
pub type L = LinkS<SndM>;
//@@ type file=fe2o3-amqp/src/link/error.rs kind=enum name=LinkStateError
//@@ end
impl LinkStateError {
//@@ fn file=fe2o3-amqp/src/link/error.rs impl=`impl From<DetachError> for LinkStateError` name=from as=from_detach id=LinkStateError::from<DetachError>
//@@ spec
    ensures (match value {
        DetachError::IllegalState => r is IllegalState,
        DetachError::SessionStopped(x) => r == LinkStateError::SessionStopped(x),
        DetachError::RemoteDetachedWithError(e) => r == LinkStateError::RemoteDetachedWithError(e),
        DetachError::ClosedByRemote => r is RemoteClosed,
        DetachError::DetachedByRemote => r is RemoteDetached,
        DetachError::RemoteClosedWithError(e) => r == LinkStateError::RemoteClosedWithError(e),
    }),       // [C14.link.detach-error-keeps-who-and-why] [C13.link.detach-error-keeps-who-and-why] a detach error on its way into a send / receive error keeps who stopped and carries the peer's error condition and the session's stop reason unchanged
//@@ end
}
pub trait ErrIntoL: Sized { fn err_into(self) -> LinkStateError; }
impl ErrInto<LinkStateError> for DetachError { open spec fn conv(self) -> LinkStateError { lse_of(self) } fn err_into(self) -> (r: LinkStateError) { LinkStateError::from_detach(self) } }
impl ErrInto<LinkStateError> for LinkStateError { open spec fn conv(self) -> LinkStateError { self } fn err_into(self) -> (r: LinkStateError) { let e = self; assert(e == <LinkStateError as ErrInto<LinkStateError>>::conv(self)); e } }
pub open spec fn lse_of(value: DetachError) -> LinkStateError {
    match value {
        DetachError::IllegalState => LinkStateError::IllegalState,
        DetachError::SessionStopped(x) => LinkStateError::SessionStopped(x),
        DetachError::RemoteDetachedWithError(e) => LinkStateError::RemoteDetachedWithError(e),
        DetachError::ClosedByRemote => LinkStateError::RemoteClosed,
        DetachError::DetachedByRemote => LinkStateError::RemoteDetached,
        DetachError::RemoteClosedWithError(e) => LinkStateError::RemoteClosedWithError(e),
    }
}
impl L {
//@@ fn file=fe2o3-amqp/src/link/sender_link.rs impl=`~impl<T>SenderLink<T>` name=get_delivery_tag_or_detached as=credit_wait_arm_detached id=SenderLink::get_delivery_tag_or_detached dropuses
//@@ selectarm `frame = detached`
//@@ addparam frame: Option<LinkFrame>
//@@ generics
//@@ nowhere
//@@ param writer : &Tx
//@@ param detached : DetachedFutS
//@@ subst `self.send_detach(writer, __E1, __E2)?;` => `match self.send_detach(writer, __E1, __E2) { Ok(__v) => __v, Err(__e) => return (Err(LinkStateError::from_detach(__e)), true) };` rule=R27,R33
//@@ ret (Result<[u8; 4], LinkStateError>, bool)
//@@ subst `LinkStateError::from(err)` => `LinkStateError::from_detach(err)` rule=R16
//@@ spec
    ensures
        r.0 is Err,       // (the arm that sees something on the link's channel never hands out a delivery tag: no credit is consumed here)
        final(self).session_stop_reason == old(self).session_stop_reason,
        (frame is Some && frame->Some_0 is Detach) ==> ({
            let d = frame->Some_0->Detach_0;
            // [C13.sender.peer-detach-answered-in-kind-while-waiting-for-credit] a sender that is waiting for link credit when the peer's detach arrives answers it at once and in kind (closing with closing), without an error of its own, and only then takes the detach up; the send that was waiting fails with "closed / detached by remote" -- or with the peer's error
            &&& final(self).ops@.len() >= old(self).ops@.len() ==> (final(self).ops@.len() > old(self).ops@.len() ==> final(self).ops@[old(self).ops@.len() as int] == Op::SendDetach(d.closed, None::<AmqpError>))
            &&& final(self).ops@.len() <= old(self).ops@.len() + 2
            &&& final(self).ops@.len() == old(self).ops@.len() + 2 ==> final(self).ops@[old(self).ops@.len() as int + 1] == Op::OnDetach(d)
            &&& final(self).ops@.len() == old(self).ops@.len() + 2 && old(self).local_state is Attached ==> r.0->Err_0 == (match (d.closed, d.error) {
                    (true, None) => LinkStateError::RemoteClosed,
                    (true, Some(e)) => LinkStateError::RemoteClosedWithError(e),
                    (false, None) => LinkStateError::RemoteDetached,
                    (false, Some(e)) => LinkStateError::RemoteDetachedWithError(e),
                })       // [C13.sender.peer-detach-error-is-what-the-send-gets] [C14.sender.peer-detach-error-is-what-the-send-gets] the waiting send fails with what the peer did -- closed or detached -- and with the error its detach carried, if it carried one
        }),
        (frame is Some && !(frame->Some_0 is Detach)) ==> r.0->Err_0 is ExpectImmediateDetach && final(self).ops == old(self).ops,       // [C15.sender.unexpected-frame-while-waiting-for-credit] any other frame on a sender's channel is an error of the link, nothing is written, no panic
        frame is None ==> final(self).ops == old(self).ops && (match old(self).session_stop_reason.v {
            Some(reason) => r.0->Err_0 == LinkStateError::SessionStopped(reason),
            None => r.0->Err_0 is ExpectImmediateDetach }),       // [C14.link.closed-channel-reports-stop-reason] a send waiting for credit when the session stops fails at once with the reason the session published
//@@ end
}
} // mod creditwait

} // verus!
fn main() {}
