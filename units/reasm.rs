//@@ unit REASM
//@@ gsubst `definitions::Error` => `AmqpError` rule=R11
#![feature(allocator_api)]
#![allow(unused_imports, unused_variables, dead_code, unused_mut, unused_parens)]
use vstd::prelude::*;

//@@ macro file=fe2o3-amqp/src/link/incomplete_transfer.rs name=or_assign

verus! {

//@@ include common.rs
//@@ trusted bytes::Bytes stand-in (byte sequence); DeliveryTag / MessageFormat compared with value equality (`!=` of the real types is PartialEq derived)
//@@ trusted receiver_link::count_number_of_sections_and_offset: the three zipped byte iterators are written as the index loop they perform (R34: position i sees octets i, i+1, i+2; the zip ends two octets before the end); Bytes::as_byte_iterator yields the payload's octets in order (byte_at)
//@@ trusted the link endpoint (endpoint::ReceiverLink) is a stand-in: on_complete_transfer yields a Delivery decoded from exactly the bytes of the payload source it is given, or an error; on_incomplete_transfer only updates the link's unsettled map
//@@ trusted Box<IncompleteTransfer> erased to IncompleteTransfer (R8); Arc<AtomicU32> erased (R4); generic body type T erased (decode is the link stand-in's business)
//@@ trusted leaf stand-ins: DeliveryTag, DeliveryState(is_terminal uninterpreted), AmqpError, SessionControl, LinkFrameRx opaque

pub type DeliveryNumber = u32;
pub type MessageFormat = u32;
pub type Boolean = bool;
pub type SequenceNo = u32;

macro_rules! opaque {
    ($($n:ident),*) => { verus!{ $(
        #[verifier::external_body]
        pub struct $n { _p: u8 }
        impl Clone for $n { #[verifier::external_body] fn clone(&self) -> (r: Self) ensures r == *self { unimplemented!() } }
    )* } }
}
opaque!(AmqpError, SessionControlTx, LinkFrameRx, LinkFrameTx, MessageDecodeError, LinkStateError, DispositionError);

#[verifier::external_body]
pub struct DeliveryTag { _p: u8 }
impl Clone for DeliveryTag { #[verifier::external_body] fn clone(&self) -> (r: Self) ensures r == *self { unimplemented!() } }
/// DeliveryTag's `==` is value equality (ByteBuf: derived PartialEq); stated through vstd's PartialEqSpecImpl so that `Option<DeliveryTag> == Option<DeliveryTag>` has a specification as well
impl vstd::std_specs::cmp::PartialEqSpecImpl for DeliveryTag {
    open spec fn obeys_eq_spec() -> bool { true }
    open spec fn eq_spec(&self, o: &DeliveryTag) -> bool { *self == *o }
}
impl PartialEq for DeliveryTag {
    #[verifier::external_body]
    fn eq(&self, o: &Self) -> (r: bool) { unimplemented!() }
}

opaque!(OtherState);
pub struct Received { pub section_number: u32, pub section_offset: u64 }
/// messaging::DeliveryState reduced to the one variant the receiver looks into (Received: the resumption point); the outcomes and the transactional state are `Other`
pub enum DeliveryState { Received(Received), Other(OtherState) }
impl Clone for DeliveryState { #[verifier::external_body] fn clone(&self) -> (r: Self) ensures r == *self { unimplemented!() } }
impl DeliveryState {
    pub uninterp spec fn spec_is_terminal(&self) -> bool;
    #[verifier::external_body]
    pub fn is_terminal(&self) -> (r: bool) ensures r == self.spec_is_terminal() { unimplemented!() }
}
pub struct Handle(pub u32);
impl Clone for Handle { fn clone(&self) -> (r: Self) ensures r == *self { Handle(self.0) } }

//@@ type file=fe2o3-amqp-types/src/definitions/rcv_settle_mode.rs kind=enum name=ReceiverSettleMode clone
//@@ end
//@@ type file=fe2o3-amqp-types/src/performatives/transfer.rs kind=struct name=Transfer clone
//@@ end
//@@ type file=fe2o3-amqp/src/link/error.rs kind=enum name=ReceiverTransferError
//@@ end
//@@ type file=fe2o3-amqp/src/link/error.rs kind=enum name=RecvError
//@@ end
impl From<ReceiverTransferError> for RecvError {
    #[verifier::external_body]
    fn from(e: ReceiverTransferError) -> Self { unimplemented!() }
}
impl From<DispositionError> for RecvError {
    #[verifier::external_body]
    fn from(e: DispositionError) -> Self { unimplemented!() }
}

#[verifier::external_body]
pub struct Bytes { v: Vec<u8> }
impl View for Bytes { type V = Seq<u8>; uninterp spec fn view(&self) -> Seq<u8>; }
impl Bytes {
    #[verifier::external_body]
    pub fn is_empty(&self) -> (r: bool) ensures r == (self@.len() == 0) { unimplemented!() }
    #[verifier::external_body]
    pub fn len(&self) -> (r: usize) ensures r == self@.len(), self@.len() <= isize::MAX as usize { unimplemented!() }
    /// the i-th octet `as_byte_iterator()` yields (R34)
    #[verifier::external_body]
    pub fn byte_at(&self, i: usize) -> (r: u8) requires i < self@.len() ensures r == self@[i as int] { unimplemented!() }
}
pub type Payload = Bytes;

/// concatenation of the buffered frame payloads, in arrival order
pub open spec fn concat(b: Seq<Payload>) -> Seq<u8>
    decreases b.len()
{
    if b.len() == 0 { Seq::empty() } else { concat(b.drop_last()) + b.last()@ }
}
pub proof fn lemma_concat_push(b: Seq<Payload>, p: Payload)
    ensures concat(b.push(p)) =~= concat(b) + p@,
{
    assert(b.push(p).drop_last() =~= b);
}
pub proof fn lemma_concat_one(p: Payload)
    ensures concat(seq![p]) =~= p@,
{
    lemma_concat_push(Seq::<Payload>::empty(), p);
    assert(seq![p] =~= Seq::<Payload>::empty().push(p));
    assert(concat(Seq::<Payload>::empty()) =~= Seq::<u8>::empty());
}

/// AMQP 1.0 part 3, 3.2: a message section starts with 00, 53|80, 70..78 (written out from the specification; `is_section_header` is checked against it at the end of this unit)
pub open spec fn hdr_at(s: Seq<u8>, i: int) -> bool { 0 <= i && i + 2 < s.len() && s[i] == 0x00 && (s[i + 1] == 0x53 || s[i + 1] == 0x80) && 0x70 <= s[i + 2] <= 0x78 }
/// number of section headers that start before position n, and the position of the last of them (0 if none)
pub open spec fn hdr_count(s: Seq<u8>, n: int) -> int decreases n { if n <= 0 { 0 } else { hdr_count(s, n - 1) + (if hdr_at(s, n - 1) { 1int } else { 0int }) } }
pub open spec fn hdr_last(s: Seq<u8>, n: int) -> int decreases n { if n <= 0 { 0 } else if hdr_at(s, n - 1) { n - 1 } else { hdr_last(s, n - 1) } }
pub proof fn lemma_hdr_bounds(s: Seq<u8>, n: int)
    requires 0 <= n,
    ensures 0 <= hdr_count(s, n) <= n, 0 <= hdr_last(s, n) <= n, n > 0 ==> hdr_last(s, n) < n,
    decreases n,
{ if n > 0 { lemma_hdr_bounds(s, n - 1); } }
//@@ fn file=fe2o3-amqp/src/link/receiver_link.rs name=count_number_of_sections_and_offset
//@@ shape loops=for;stmt-1=( section_numbers
//@@ generics
//@@ nowhere
//@@ param bytes : &Payload
//@@ subst `let b0 = bytes.as_byte_iterator(); let len = b0.len(); let b1 = bytes.as_byte_iterator().skip(1); let b2 = bytes.as_byte_iterator().skip(2); let iter = b0.zip(b1.zip(b2));` => `let len = bytes.len(); let __n: usize = if len >= 2 { len - 2 } else { 0 };` rule=R34
//@@ subst `for (i, (&b0, (&b1, &b2))) in __it0: iter.enumerate() {` => `for i in __it0: 0..__n { let b0 = bytes.byte_at(i); let b1 = bytes.byte_at(i + 1); let b2 = bytes.byte_at(i + 2);` rule=R34
//@@ subst `let mut section_numbers = 0;` => `let mut section_numbers: u32 = 0;` rule=optional-R5
//@@ subst `let mut last_pos = 0;` => `let mut last_pos: usize = 0;` rule=optional-R5
//@@ spec
    requires bytes@.len() < 0x1_0000_0000,     // ASSUMED: a delivery buffers fewer than 2^32 bytes
    ensures
        ({ let n = if bytes@.len() >= 2 { bytes@.len() - 2 } else { 0 };
           &&& r.0 as int == hdr_count(bytes@, n)                               // [C10.sections.counted-exactly] the section count of a frame's payload is the number of section headers in it (a header cut by the frame boundary is not counted here: its three octets are not all in this frame)
           &&& r.1 as int == bytes@.len() - hdr_last(bytes@, n) }),             // [C10.sections.offset-from-the-last-header] and the offset is the distance from the last of them to the end of the payload (the whole length if there is none)
        r.0 as int <= bytes@.len(), r.1 as int <= bytes@.len(), bytes@.len() <= isize::MAX as usize,      // [C15.sections.counters-bounded-by-the-input] whatever the octets are, both counters stay within the payload's length: no overflow, no panic
//@@ loop 0
        invariant
            len == bytes@.len(), __n == (if len >= 2 { len - 2 } else { 0 }), len < 0x1_0000_0000,
            section_numbers as int == hdr_count(bytes@, i as int), last_pos as int == hdr_last(bytes@, i as int), last_pos <= i, i <= __n,
//@@ loopstart 0
            proof { lemma_hdr_bounds(bytes@, i as int); }
//@@ stmt -1
        proof { lemma_hdr_bounds(bytes@, __n as int); }
//@@ end

//@@ type file=fe2o3-amqp/src/link/incomplete_transfer.rs kind=struct name=IncompleteTransfer
//@@ end

impl IncompleteTransfer {
    pub open spec fn total(&self) -> int { concat(self.buffer@).len() as int }
    /// counters are bounded by the number of bytes buffered (so they cannot overflow while the delivery stays below 4 GiB)
    pub open spec fn wf(&self) -> bool {
        &&& (self.section_number is Some ==> self.section_number->Some_0 as int <= self.total())
        &&& self.section_offset as int <= self.total()
        &&& self.total() < 0x1_0000_0000
    }

//@@ fn file=fe2o3-amqp/src/link/incomplete_transfer.rs impl=`impl IncompleteTransfer` name=new
//@@ spec
    requires partial_payload@.len() < 0x1_0000_0000,      // ASSUMED: a delivery buffers fewer than 2^32 bytes
    ensures
        r.performative == transfer,                        // [C10.first.fields] the first frame's fields are the delivery's fields
        r.buffer@ == seq![partial_payload],                // [C10.first.buffer] buffering starts with exactly the first frame's payload
        r.buffer@ == seq![partial_payload] ==> r.wf(),
//@@ entry
        proof { lemma_concat_one(partial_payload); }
//@@ end

//@@ fn file=fe2o3-amqp/src/link/incomplete_transfer.rs impl=`impl IncompleteTransfer` name=or_assign
//@@ spec
    ensures
        final(self).buffer == old(self).buffer && final(self).section_number == old(self).section_number && final(self).section_offset == old(self).section_offset,   // [C10.merge.buffer-untouched]
        // a continuation field that contradicts the first frame's value is an error ...
        (old(self).performative.delivery_id is Some && other.delivery_id is Some && old(self).performative.delivery_id != other.delivery_id) ==> r is Err,   // [C10.merge.inconsistent-id] contradictory continuation fields are an error, not a spliced message
        (old(self).performative.delivery_tag is Some && other.delivery_tag is Some && old(self).performative.delivery_tag != other.delivery_tag) ==> r is Err,   // [C10.merge.inconsistent-tag]
        (old(self).performative.message_format is Some && other.message_format is Some && old(self).performative.message_format != other.message_format) ==> r is Err,   // [C10.merge.inconsistent-format]
        // ... omitted or repeated fields are accepted and the first frame's value is kept
        r is Ok ==> {
            &&& final(self).performative.delivery_id == (if old(self).performative.delivery_id is Some { old(self).performative.delivery_id } else { other.delivery_id })   // [C10.merge.keep-first] omitted / repeated fields: the first value seen is the delivery's
            &&& final(self).performative.delivery_tag == (if old(self).performative.delivery_tag is Some { old(self).performative.delivery_tag } else { other.delivery_tag })
            &&& final(self).performative.message_format == (if old(self).performative.message_format is Some { old(self).performative.message_format } else { other.message_format })
            &&& final(self).performative.handle == old(self).performative.handle
            &&& final(self).performative.settled == (match old(self).performative.settled {
                    Some(v) => if v || other.settled is None { Some(v) } else { other.settled },
                    None => other.settled,
                })       // [C02.merge.settled-flag] [C10.merge.settled-flag] the settled flag of a multi-frame delivery: a frame that leaves it unset changes nothing, and once any frame has said `true` it stays true (AMQP 2.7.5) -- this flag decides whether the receiver records the delivery as unsettled at all
            &&& final(self).performative.state == (match (old(self).performative.state, other.state) {
                    (s0, None) => s0,
                    (Some(s0), Some(s1)) => if s0.spec_is_terminal() { Some(s0) } else { Some(s1) },
                    (None, Some(s1)) => Some(s1),
                })       // [C02.merge.terminal-state-kept] [C10.merge.terminal-state-kept] a delivery state carried by a later frame replaces an earlier one unless that one was terminal: no later transfer alters a terminal state
        },
        r is Err ==> r->Err_0 is InconsistentFieldInMultiFrameDelivery,
//@@ end

//@@ fn file=fe2o3-amqp/src/link/incomplete_transfer.rs impl=`impl IncompleteTransfer` name=append
//@@ spec
    requires
        old(self).wf(),
        old(self).total() + other@.len() < 0x1_0000_0000,     // ASSUMED: a delivery buffers fewer than 2^32 bytes (else the u32 section counter could overflow)
    ensures
        final(self).buffer@ == old(self).buffer@.push(other),   // [C10.append.in-order] the frame's payload (empty or not) is appended after everything buffered so far
        final(self).performative == old(self).performative,
        final(self).wf(),                                       // [C10.append.no-overflow] section counters stay bounded by the bytes buffered: no overflow for any byte content
        ({
            let m = if other@.len() >= 2 { other@.len() - 2 } else { 0 };
            let n = hdr_count(other@, m);
            let off = other@.len() - hdr_last(other@, m);
            // [C10.append.section-position] the position the receiver keeps for a partial delivery (what it reports as `received` when the link resumes) advances by exactly what the new frame holds:
            // no section header in it -> same section, the offset grows by the frame's length; otherwise the section number grows by the headers seen (the first section is number 0) and the offset restarts at the last of them
            if n == 0 { final(self).section_number == old(self).section_number && final(self).section_offset as int == old(self).section_offset as int + off }
            else { final(self).section_offset as int == off && final(self).section_number == (match old(self).section_number { None => Some((n - 1) as u32), Some(v) => Some((v as int + n) as u32) }) }
        }),
//@@ entry
        proof { lemma_concat_push(self.buffer@, other); }
//@@ end
}

impl IncompleteTransfer {
    /// resumption (state Received{section-number, section-offset} on a transfer): trims the buffer to the point the sender resumes from. The function itself is under contract below
    /// (`keep_buffer_real`: it only trims, chunk by chunk, and leaves everything alone when the position is not inside the buffer); what this stand-in adds for the callers and what stays
    /// ASSUMED is that the section counters still fit the trimmed buffer (`wf`): the code does not re-base them
    #[verifier::external_body]
    pub fn keep_buffer_till_section_number_and_offset(&mut self, section_number: u32, section_offset: u64)
        ensures final(self).wf(), concat(final(self).buffer@).len() <= concat(old(self).buffer@).len(), final(self).performative == old(self).performative,
    { unimplemented!() }
}
/// where (as an index into the concatenated buffer) the octet with this section number / offset lies, if it does: `position_of_section_number_and_offset` walks three byte iterators zipped together
/// (iterator adapters: outside the subset); uninterpreted here -- only that an index it reports lies inside the buffer is used
pub uninterp spec fn pos_of(b: Seq<Payload>, n: u32, off: u64) -> Option<usize>;
pub open spec fn is_prefix(a: Seq<u8>, b: Seq<u8>) -> bool { a.len() <= b.len() && a =~= b.subrange(0, a.len() as int) }
impl Bytes {
    /// bytes::Bytes::split_off: self keeps [0, at), the rest is returned; panics if at > len
    #[verifier::external_body]
    pub fn split_off(&mut self, at: usize) -> (r: Bytes)
        requires at <= old(self)@.len(),       // [C15.state.split-inside-the-chunk] [C10.state.split-inside-the-chunk] whatever position the peer names, a chunk is only ever cut inside its own length: no panic
        ensures final(self)@ =~= old(self)@.subrange(0, at as int), r@ =~= old(self)@.skip(at as int),
    { unimplemented!() }
}
impl IncompleteTransfer {
    #[verifier::external_body]
    fn position_of_section_number_and_offset(&self, section_number: u32, section_offset: u64) -> (r: Option<usize>)
        ensures r == pos_of(self.buffer@, section_number, section_offset),
    { unimplemented!() }

//@@ fn file=fe2o3-amqp/src/link/incomplete_transfer.rs impl=`impl IncompleteTransfer` name=keep_buffer_till_section_number_and_offset as=keep_buffer_real id=IncompleteTransfer::keep_buffer_till_section_number_and_offset
//@@ shape loops=while
//@@ entry
    let ghost b0 = self.buffer@;
//@@ loop 0
            invariant __im0 <= self.buffer@.len(), self.buffer@.len() == b0.len(),
                forall|j: int| 0 <= j < b0.len() ==> is_prefix(#[trigger] self.buffer@[j]@, b0[j]@),
                self.performative == old(self).performative, self.section_number == old(self).section_number, self.section_offset == old(self).section_offset,
            decreases self.buffer@.len() - __im0,
//@@ spec
    ensures
        pos_of(old(self).buffer@, section_number, section_offset) is None ==> final(self).buffer@ == old(self).buffer@,       // [C10.state.position-outside-the-buffer-keeps-the-buffer] a continuation frame whose `received` state names a position that is not inside what has been buffered (e.g. one that merely restates how far the delivery has got) discards NOTHING: the frames buffered so far are still the delivery's
        final(self).buffer@.len() == old(self).buffer@.len(),
        forall|j: int| 0 <= j < old(self).buffer@.len() ==> is_prefix(#[trigger] final(self).buffer@[j]@, old(self).buffer@[j]@),       // [C10.state.only-trims] whatever the position, every buffered frame is kept in place and at most cut short: nothing is reordered, replaced or invented
        final(self).performative == old(self).performative, final(self).section_number == old(self).section_number, final(self).section_offset == old(self).section_offset,
//@@ end
}
// ---- IncompleteTransfer::position_of_section_number_and_offset itself (R34: three byte iterators over the buffered frames, zipped, as an index loop) ----
/// the offset counter after the first k octets: the distance from the last section header that starts before k (k itself if there is none)
pub open spec fn off_at(s: Seq<u8>, k: int) -> int decreases k { if k <= 0 { 0 } else if hdr_at(s, k - 1) { 0 } else { off_at(s, k - 1) + 1 } }
/// after octet i the walk stands at section `n`, offset `o`
pub open spec fn stands_at(s: Seq<u8>, i: int, n: u32, o: u64) -> bool { hdr_count(s, i + 1) == n && off_at(s, i + 1) == o }
pub proof fn lemma_off_bounds(s: Seq<u8>, k: int)
    requires 0 <= k,
    ensures 0 <= off_at(s, k) <= k,
    decreases k,
{ if k > 0 { lemma_off_bounds(s, k - 1); } }
/// the flattened view of the buffered frames, octet by octet (`as_byte_iterator()` of a Vec<Payload>)
#[verifier::external_body]
pub fn buf_len(b: &Vec<Payload>) -> (r: usize) ensures r == concat(b@).len() { unimplemented!() }
#[verifier::external_body]
pub fn buf_byte_at(b: &Vec<Payload>, i: usize) -> (r: u8) requires i < concat(b@).len() ensures r == concat(b@)[i as int] { unimplemented!() }
impl IncompleteTransfer {
//@@ fn file=fe2o3-amqp/src/link/incomplete_transfer.rs impl=`impl IncompleteTransfer` name=position_of_section_number_and_offset as=position_real id=IncompleteTransfer::position_of_section_number_and_offset
//@@ shape loops=for
//@@ subst `let b0 = self.buffer.as_byte_iterator(); let b1 = self.buffer.as_byte_iterator().skip(1); let b2 = self.buffer.as_byte_iterator().skip(2); let iter = b0.zip(b1.zip(b2));` => `let __len = buf_len(&self.buffer); let __n: usize = if __len >= 2 { __len - 2 } else { 0 };` rule=R34
//@@ subst `for (i, (&b0, (&b1, &b2))) in __it0: iter.enumerate() {` => `for i in __it0: 0..__n { let b0 = buf_byte_at(&self.buffer, i); let b1 = buf_byte_at(&self.buffer, i + 1); let b2 = buf_byte_at(&self.buffer, i + 2);` rule=R34
//@@ subst `let mut cur_number = 0;` => `let mut cur_number: u32 = 0;` rule=optional-R5
//@@ subst `let mut cur_offset = 0;` => `let mut cur_offset: u64 = 0;` rule=optional-R5
//@@ loop 0
        invariant
            __len == concat(self.buffer@).len(), __n == (if __len >= 2 { __len - 2 } else { 0 }), __len < 0x1_0000_0000,
            cur_number as int == hdr_count(concat(self.buffer@), i as int), cur_offset as int == off_at(concat(self.buffer@), i as int), i <= __n,
            forall|j: int| 0 <= j < i ==> !stands_at(concat(self.buffer@), j, section_number, section_offset),
//@@ loopstart 0
            proof { lemma_hdr_bounds(concat(self.buffer@), i as int); lemma_off_bounds(concat(self.buffer@), i as int); }
//@@ spec
    requires concat(self.buffer@).len() < 0x1_0000_0000,     // ASSUMED: a delivery buffers fewer than 2^32 bytes
    ensures
        r is Some ==> r->Some_0 + 2 < concat(self.buffer@).len() && stands_at(concat(self.buffer@), r->Some_0 as int, section_number, section_offset),       // [C10.state.position-is-inside-the-buffer] [C15.state.position-is-inside-the-buffer] the position reported for the section number / offset the peer names lies inside what has been buffered, and the walk -- a section header resets the offset and counts a section -- stands exactly there
        r is Some ==> forall|j: int| 0 <= j < r->Some_0 ==> !stands_at(concat(self.buffer@), j, section_number, section_offset),       // (the first such position)
        r is None ==> forall|j: int| 0 <= j && j + 2 < concat(self.buffer@).len() ==> !stands_at(concat(self.buffer@), j, section_number, section_offset),       // [C10.state.no-position-means-none-exists] "not found" is reported only when no octet of the buffer stands at that section number / offset
//@@ end
}
// ---- the link endpoint as seen by ReceiverInner ----
pub struct Delivery { pub performative: Transfer, pub bytes: Ghost<Seq<u8>>, pub section_number: u32, pub section_offset: u64 }
pub trait PayloadSrc: Sized { spec fn src_bytes(&self) -> Seq<u8>; }
impl PayloadSrc for Vec<Payload> { open spec fn src_bytes(&self) -> Seq<u8> { concat(self@) } }
impl<'a> PayloadSrc for &'a Payload { open spec fn src_bytes(&self) -> Seq<u8> { (*self)@ } }
#[verifier::external_body]
pub fn tags_equal(a: &DeliveryTag, b: &DeliveryTag) -> (r: bool) ensures r == (*a == *b) { unimplemented!() }
pub struct LinkS { pub notes: Ghost<Seq<(DeliveryTag, u32, u64)>>, pub told: Ghost<Seq<Option<DeliveryTag>>> }
impl LinkS {
    /// ReceiverLink::on_transfer_state: records the state of the delivery with that tag in the link's unsettled map; its first statement refuses an absent tag (DeliveryTagIsNone).
    /// `told`: under which tag the link was told a delivery state
    #[verifier::external_body]
    pub fn on_transfer_state(&mut self, delivery_tag: &Option<DeliveryTag>, settled: Option<bool>, state: DeliveryState) -> (r: Result<(), ReceiverTransferError>)
        ensures final(self).notes == old(self).notes, final(self).told@ == old(self).told@.push(*delivery_tag),
            *delivery_tag is None ==> r is Err,
    { unimplemented!() }
    #[verifier::external_body]
    pub fn on_incomplete_transfer(&mut self, delivery_tag: DeliveryTag, section_number: u32, section_offset: u64)
        ensures final(self).notes@ == old(self).notes@.push((delivery_tag, section_number, section_offset)), final(self).told == old(self).told,
    { unimplemented!() }
    #[verifier::external_body]
    pub fn on_complete_transfer<P: PayloadSrc>(&mut self, transfer: Transfer, payload: P, section_number: u32, section_offset: u64) -> (r: Result<Delivery, ReceiverTransferError>)
        ensures
            r is Ok ==> r->Ok_0.performative == transfer && r->Ok_0.bytes@ == payload.src_bytes()
                && r->Ok_0.section_number == section_number && r->Ok_0.section_offset == section_offset,
            final(self).notes == old(self).notes, final(self).told == old(self).told,
    { unimplemented!() }
}
pub struct AtomicU32S { pub v: u32 }
pub enum Ordering { Relaxed, Release, Acquire, AcqRel, SeqCst }
impl AtomicU32S {
    #[verifier::external_body]
    pub fn fetch_add(&self, n: u32, o: Ordering) -> (r: u32) { unimplemented!() }
    #[verifier::external_body]
    pub fn store(&self, n: u32, o: Ordering) { unimplemented!() }
}
pub enum CreditMode { Manual, Auto(SequenceNo) }

//@@ type file=fe2o3-amqp/src/link/receiver.rs kind=struct name=ReceiverInner
//@@ subst `ReceiverInner<L: endpoint::ReceiverLink>` => `ReceiverInner` rule=R7
//@@ subst `link: L` => `link: LinkS` rule=R7
//@@ subst `Arc<AtomicU32>` => `AtomicU32S` rule=R4
//@@ subst `mpsc::Sender<SessionControl>` => `SessionControlTx` rule=R9
//@@ subst `mpsc::Sender<LinkFrame>` => `LinkFrameTx` rule=R9
//@@ subst `mpsc::Receiver<LinkFrame>` => `LinkFrameRx` rule=R9
//@@ subst `Option<Box<IncompleteTransfer>>` => `Option<IncompleteTransfer>, pub received: Ghost<Seq<u8>>, pub credit_checks: Ghost<nat>` rule=R8
//@@ end

impl ReceiverInner {
    pub open spec fn buffered(&self) -> Seq<u8> {
        match self.incomplete_transfer { Some(i) => concat(i.buffer@), None => Seq::empty() }
    }
    pub open spec fn wf(&self) -> bool {
        match self.incomplete_transfer { Some(i) => i.wf(), None => true }
    }

    /// `self.dispose(&delivery, None, Accepted{}.into()).await` (the auto-accept disposition): it queues a frame on the bounded link->session channel and so is a
    /// cancellation point -- the recv future may be dropped while it pends. `self.received` (ghost, set on entry of the function that is handed a frame): the payload octets taken from the link's
    /// incoming channel for the delivery that has not been returned to the application yet.
    #[verifier::external_body]
    fn dispose_accept(&mut self, d: &Delivery) -> (r: Result<(), DispositionError>)
        requires old(self).buffered() =~= old(self).received@,      // [C16.recv.no-await-while-holding-a-delivery] at a cancellation point every payload octet already taken from the channel for a delivery not yet returned is still held by the receiver ITSELF (its reassembly buffer), not only by locals of the future being polled: otherwise dropping the recv future there loses the delivery
        ensures final(self).incomplete_transfer == old(self).incomplete_transfer, final(self).link == old(self).link, final(self).received == old(self).received,
            final(self).credit_checks@ == old(self).credit_checks@ + 1, final(self).credit_mode == old(self).credit_mode,     // ReceiverInner::dispose ends with update_credit_if_auto (unit LINKFLOW): the automatic top-up is considered
    { unimplemented!() }
    /// `self.update_credit_if_auto(n).await` (a flow queued on the same bounded channel): a cancellation point like the one above
    #[verifier::external_body]
    fn update_credit_if_auto(&mut self, processed: u32) -> (r: Result<(), DispositionError>)
        requires old(self).buffered() =~= old(self).received@,      // [C16.recv.no-await-while-holding-a-delivery]
        ensures final(self).incomplete_transfer == old(self).incomplete_transfer, final(self).link == old(self).link, final(self).received == old(self).received,
            final(self).credit_checks@ == old(self).credit_checks@ + 1, final(self).credit_mode == old(self).credit_mode,
    { unimplemented!() }

//@@ fn file=fe2o3-amqp/src/link/receiver.rs impl=`~impl<L>ReceiverInner<L>where` name=on_resuming_transfer
//@@ generics
//@@ nowhere
//@@ subst `Delivery<T>` => `Delivery` rule=R7
//@@ subst `self.dispose(&delivery, None, Accepted {}.into())` => `self.dispose_accept(&delivery)` rule=R16
//@@ subst `remote != local` => `!tags_equal(remote, local)` rule=optional-R14
//@@ subst `remote == local` => `tags_equal(remote, local)` rule=optional-R14
//@@ spec
    requires
        old(self).wf(), old(self).buffered().len() + payload@.len() < 0x1_0000_0000,     // ASSUMED: a delivery buffers fewer than 2^32 bytes
    ensures
        ({
            let other = transfer.delivery_tag is Some && old(self).incomplete_transfer is Some && old(self).incomplete_transfer->Some_0.performative.delivery_tag is Some
                && transfer.delivery_tag->Some_0 != old(self).incomplete_transfer->Some_0.performative.delivery_tag->Some_0;
            &&& other ==> final(self).incomplete_transfer == old(self).incomplete_transfer
                    && (r is Ok ==> r->Ok_0 is Some && r->Ok_0->Some_0.bytes@ =~= payload@ && r->Ok_0->Some_0.performative == transfer)     // [C10.resume.other-delivery-not-spliced] a resuming transfer that names ANOTHER delivery than the partly received one is delivered on its own, from its own payload: nothing of the buffered delivery is spliced into it, and the buffered delivery is not disturbed
            &&& !other ==> final(self).incomplete_transfer is None
                    && (r is Ok ==> r->Ok_0 is Some && r->Ok_0->Some_0.bytes@ =~= old(self).buffered() + payload@)                           // [C10.resume.same-delivery-completed] ... one that names the buffered delivery (or names none) completes it: the message is decoded from everything buffered plus this frame
        }),
//@@ end

    /// recv_inner (unit RECVLOOP): takes one frame from the link channel and handles it
    #[verifier::external_body]
    fn recv_inner(&mut self) -> (r: Result<Option<Delivery>, RecvError>)
    { unimplemented!() }
    /// the point where `recv` starts taking frames: what an earlier, cancelled recv left in the reassembly buffer must still be there
    fn resume_point(&self, Ghost(untouched): Ghost<bool>)
        requires untouched,          // [C16.recv.resumes-the-parked-delivery] a new recv call continues the partial delivery parked by a recv future that was dropped between two frames: it must not discard or alter the reassembly buffer before it reads on
    {}

//@@ fn file=fe2o3-amqp/src/link/receiver.rs impl=`~impl<L>ReceiverInner<L>where` name=recv
//@@ attr #[verifier::loop_isolation(false)]
//@@ shape stmt-1=loop {
//@@ generics
//@@ nowhere
//@@ attr #[verifier::exec_allows_no_decreases_clause]
//@@ subst `Delivery<T>` => `Delivery` rule=R7
//@@ entry
        let ghost __buf0 = self.buffered();
//@@ stmt -1
        self.resume_point(Ghost(self.buffered() =~= __buf0));
//@@ spec
    ensures true,
//@@ end

//@@ fn file=fe2o3-amqp/src/link/receiver.rs impl=`~impl<L>ReceiverInner<L>where` name=on_transfer_state
//@@ subst `.map_err(Into::into)` => `.map_err(|e: ReceiverTransferError| -> (o: RecvError) { RecvError::from(e) })` rule=optional-R17
//@@ spec
    ensures
        final(self).wf() || !old(self).wf(), final(self).buffered().len() <= old(self).buffered().len(),
        (final(self).incomplete_transfer is Some) == (old(self).incomplete_transfer is Some),
        ({
            let tag = if delivery_tag is Some { *delivery_tag } else { match old(self).incomplete_transfer { Some(i) => i.performative.delivery_tag, None => None } };
            old(self).incomplete_transfer is Some && (tag != old(self).incomplete_transfer->Some_0.performative.delivery_tag || !(state is Received))
                ==> final(self).incomplete_transfer == old(self).incomplete_transfer
        }),       // [C10.state.only-the-named-delivery-is-trimmed] a delivery state that names ANOTHER delivery (or is not `received`) leaves the delivery being reassembled exactly as it is: what the application later receives is not cut by a state meant for a different delivery
        final(self).link.told@ == old(self).link.told@.push(if delivery_tag is Some { *delivery_tag } else { match old(self).incomplete_transfer { Some(i) => i.performative.delivery_tag, None => None } }),   // [C10.continuation.state-under-the-deliverys-tag] a continuation frame may omit the delivery-tag: a delivery state carried by such a frame is recorded under the tag of the delivery being reassembled (its first frame's), it is not refused for lack of a tag
//@@ end

//@@ fn file=fe2o3-amqp/src/link/receiver.rs impl=`~impl<L>ReceiverInner<L>where` name=on_incomplete_transfer
//@@ subst `Some(Box::new(incomplete))` => `Some(incomplete)` rule=R8
//@@ spec
    requires
        old(self).wf(), old(self).buffered().len() + payload@.len() < 0x1_0000_0000,     // ASSUMED: a delivery buffers fewer than 2^32 bytes
    ensures
        r is Ok ==> final(self).incomplete_transfer is Some && final(self).buffered() =~= old(self).buffered() + payload@,   // [C10.more.buffered-in-order] while `more` is set the payload is only appended (arrival order) ... [C16.recv.partial-delivery-parked-in-receiver] and it is parked in the receiver itself, so a recv future dropped between two frames loses nothing
        r is Ok && old(self).incomplete_transfer is None ==> final(self).incomplete_transfer->Some_0.performative == transfer,
        r is Err ==> final(self).incomplete_transfer is None,      // [C10.more.contradiction-discards-partial] a continuation frame that contradicts the delivery being reassembled is reported AND the partial delivery is discarded: a later frame (which may legally carry no id / tag / format to contradict) cannot be spliced onto it
        final(self).wf(),
//@@ entry
        proof {
            lemma_concat_one(payload);
            if self.incomplete_transfer is Some { lemma_concat_push(self.incomplete_transfer->Some_0.buffer@, payload); }
        }
//@@ end

//@@ fn file=fe2o3-amqp/src/link/receiver.rs impl=`~impl<L>ReceiverInner<L>where` name=on_complete_transfer
//@@ generics
//@@ nowhere
//@@ subst `Delivery<T>` => `Delivery` rule=R7
//@@ subst `self.dispose(&delivery, None, Accepted {}.into())` => `self.dispose_accept(&delivery)` rule=R16
//@@ spec
    requires
        old(self).wf(), old(self).buffered().len() + payload@.len() < 0x1_0000_0000,     // ASSUMED: a delivery buffers fewer than 2^32 bytes
    ensures
        final(self).incomplete_transfer is None,                                                           // [C10.complete.buffer-reset] the final frame always empties the buffer: the next delivery starts clean
        r is Ok ==> r->Ok_0 is Some && r->Ok_0->Some_0.bytes@ =~= old(self).buffered() + payload@,         // [C10.complete.bytes] exactly one delivery, decoded from the concatenation of all frame payloads in arrival order [C01.reassembly.bytes]
        r is Ok && old(self).incomplete_transfer is None ==> r->Ok_0->Some_0.performative == transfer,
        r is Ok && old(self).credit_mode is Auto ==> final(self).credit_checks@ > old(self).credit_checks@,      // [C09.auto.replenish-on-receive] in automatic credit mode the top-up is considered whenever a delivery is handed to the application, not only when the application disposes of one: a pre-settled stream (nothing to dispose of) or an application that settles late or never must not starve a sender that respects credit
//@@ entry
        self.received = Ghost(self.buffered() + payload@);
        proof {
            lemma_concat_one(payload);
            if self.incomplete_transfer is Some { lemma_concat_push(self.incomplete_transfer->Some_0.buffer@, payload); }
        }
//@@ end

//@@ fn file=fe2o3-amqp/src/link/receiver.rs impl=`~impl<L>ReceiverInner<L>where` name=on_incoming_transfer
//@@ generics
//@@ nowhere
//@@ subst `Delivery<T>` => `Delivery` rule=R7
//@@ spec
    requires
        old(self).wf(), old(self).buffered().len() + payload@.len() < 0x1_0000_0000,     // ASSUMED: a delivery buffers fewer than 2^32 bytes
    ensures
        transfer.aborted ==> r is Ok && r->Ok_0 is None && final(self).incomplete_transfer is None,         // [C10.abort] an aborted delivery yields no message and leaves nothing behind for the next one
        !transfer.aborted && transfer.state is None && transfer.more ==> (r is Ok ==> r->Ok_0 is None
            && final(self).buffered() =~= old(self).buffered() + payload@),
        !transfer.aborted && transfer.state is None && transfer.more && r is Err ==> final(self).incomplete_transfer is None,   // [C10.more.contradiction-discards-partial]                                 // [C10.more.nothing-delivered] nothing is handed to the application before the final frame
        !transfer.aborted && transfer.state is None && !transfer.more && !transfer.resume ==> final(self).incomplete_transfer is None
            && (r is Ok ==> r->Ok_0 is Some && r->Ok_0->Some_0.bytes@ =~= old(self).buffered() + payload@),   // [C10.final.exactly-once] the final frame yields exactly one delivery made of all payloads in order
//@@ end
}

// ---- link/receiver_link.rs: is_section_header (which three octets start a message section) ----
//@@ type file=fe2o3-amqp/src/link/receiver_link.rs kind=const name=DESCRIBED_TYPE enumcast=serde_amqp/src/format_code.rs:EncodingCodes
//@@ end
//@@ type file=fe2o3-amqp/src/link/receiver_link.rs kind=const name=SMALL_ULONG_TYPE enumcast=serde_amqp/src/format_code.rs:EncodingCodes
//@@ end
//@@ type file=fe2o3-amqp/src/link/receiver_link.rs kind=const name=ULONG_TYPE enumcast=serde_amqp/src/format_code.rs:EncodingCodes
//@@ end
//@@ type file=fe2o3-amqp/src/link/receiver_link.rs kind=const name=HEADER_CODE
//@@ end
//@@ type file=fe2o3-amqp/src/link/receiver_link.rs kind=const name=DELIV_ANNOT_CODE
//@@ end
//@@ type file=fe2o3-amqp/src/link/receiver_link.rs kind=const name=MSG_ANNOT_CODE
//@@ end
//@@ type file=fe2o3-amqp/src/link/receiver_link.rs kind=const name=PROP_CODE
//@@ end
//@@ type file=fe2o3-amqp/src/link/receiver_link.rs kind=const name=APP_PROP_CODE
//@@ end
//@@ type file=fe2o3-amqp/src/link/receiver_link.rs kind=const name=DATA_CODE
//@@ end
//@@ type file=fe2o3-amqp/src/link/receiver_link.rs kind=const name=AMQP_SEQ_CODE
//@@ end
//@@ type file=fe2o3-amqp/src/link/receiver_link.rs kind=const name=AMQP_VAL_CODE
//@@ end
//@@ type file=fe2o3-amqp/src/link/receiver_link.rs kind=const name=FOOTER_CODE
//@@ end
/// AMQP 1.0 part 3, 3.2: the nine message sections have the descriptors 0x70 (header) .. 0x78 (footer), written as smallulong (0x53) or ulong (0x80) behind the described-type constructor 0x00
pub open spec fn spec_is_section_header(b0: u8, b1: u8, b2: u8) -> bool { b0 == 0x00 && (b1 == 0x53 || b1 == 0x80) && 0x70 <= b2 <= 0x78 }
//@@ fn file=fe2o3-amqp/src/link/receiver_link.rs name=is_section_header
//@@ spec
    ensures r == spec_is_section_header(b0, b1, b2),      // [C10.sections.header-recognised] a section starts exactly where the three octets 00, 53|80, 70..78 stand: all nine sections, both descriptor widths, nothing else (the section count a resuming receiver reports is built on it)
//@@ end

} // verus!
fn main() {}
